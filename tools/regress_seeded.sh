#!/bin/bash
# for every seeded change: apply, run the check of the property it breaks, revert; print verdict
cd /verif
for d in seeded/*/; do
  id=$(basename $d)
  [ -f $d/meta.json ] || continue
  prop=$(python3 -c "import json;print(json.load(open('$d/meta.json'))['breaks'][:3])")
  git -C /repo apply /verif/$d/patch.diff 2>/dev/null || { echo "$id $prop PATCH-FAILS"; continue; }
  out=$(bin/ebv check $prop 2>&1)
  git -C /repo checkout -- . 
  v=$(echo "$out" | grep -c "^VIOLATION")
  nf=$(echo "$out" | grep "^VIOLATION" | grep -c "no-failing-input-found")
  if [ "$v" = "0" ]; then echo "$id $prop MISSED"; elif [ "$v" = "$nf" ]; then echo "$id $prop no-failing-input"; else echo "$id $prop caught"; fi
  mkdir -p replays.bak; mv replays/* replays.bak/ 2>/dev/null
done
git -C /repo status --short
