#!/bin/bash
# Audit tool (not a registered check): which lines of /repo's crates do the correspondence streams of the
# quick tier actually execute?  Builds the harness with -C instrument-coverage (nightly + llvm-tools),
# runs every property's quick check through it and prints llvm-cov's per-file report and the lines
# never executed.  Evidence files touched by the run are restored afterwards.
# usage: tools/coverage.sh [Cnn ...]
set -e
B=$(dirname "$(rustc +nightly --print target-libdir)")/bin
cd /verif/harness
RUSTFLAGS="-C instrument-coverage --cfg eyeball_verif" cargo +nightly build --release --offline --target-dir /verif/.cache/target-cov 2>&1 | tail -1
rm -rf /verif/.cache/cov && mkdir -p /verif/.cache/cov
cd /verif
python3 tools/covrun.py "$@" 2>&1 | grep -E "^== .* (ok|FAILED)" | tr '\n' ' '; echo
cd /verif/.cache/cov
"$B/llvm-profdata" merge -sparse *.profraw -o all.profdata && rm -f *.profraw
"$B/llvm-cov" report /verif/.cache/target-cov/release/h -instr-profile=all.profdata --ignore-filename-regex='(\.cargo|rustc|/verif/harness|rustlib)' | cut -c1-40,130-260
for f in $(cd /repo && ls eyeball/src/*.rs eyeball/src/subscriber/*.rs eyeball-im/src/*.rs eyeball-im/src/vector/*.rs eyeball-im-util/src/vector/*.rs); do
  miss=$("$B/llvm-cov" show /verif/.cache/target-cov/release/h -instr-profile=all.profdata /repo/$f --show-instantiations=false 2>/dev/null | grep -E "^ +[0-9]+\| +0\|" || true)
  if [ -n "$miss" ]; then echo "######## $f"; echo "$miss"; fi
done
git -C /verif checkout evidence/ 2>/dev/null || true
