#!/usr/bin/env python3
"""regenerate seeded/README.md from the meta.json files"""
import json, os
root = os.path.join(os.path.dirname(os.path.dirname(os.path.abspath(__file__))), "seeded")
head = """# Seeded changes

Each directory holds a change to jplatte/eyeball produced by a fresh sub-agent that saw only the text
of one property: `patch.diff` (library change), `demo.rs` (demonstration test that fails with the
change and passes without it), `agent_notes.md`, and `meta.json` (what it breaks, what it needs to
manifest, which checks caught it and how, which neighbouring checks stayed quiet).

None of these changes is committed to /repo. To replay: `git -C /repo apply seeded/<id>/patch.diff`,
`bin/ebv check <id>`, `git -C /repo checkout -- .`.  `tools/regress_seeded.sh` does that for all of them.

| dir | breaks | change | caught by |
|---|---|---|---|
"""
rows = []
for d in sorted(os.listdir(root)):
    mp = os.path.join(root, d, "meta.json")
    if not os.path.isfile(mp):
        continue
    m = json.load(open(mp))
    cb = m.get("caught_by", {})
    caught = "; ".join("%s: %s" % (k, v) for k, v in cb.items()) if isinstance(cb, dict) else str(cb)
    if m.get("missed"):
        caught += " — " + m["missed"]
    rows.append("| %s | %s | %s | %s |" % (d, m.get("breaks", ""), str(m.get("change", "")).replace("|", "\\|"), caught.replace("|", "\\|")))
open(os.path.join(root, "README.md"), "w").write(head + "\n".join(rows) + "\n")
print(len(rows), "rows")
