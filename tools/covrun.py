import os, sys
sys.path.insert(0, '/verif/lib')
os.environ["LLVM_PROFILE_FILE"] = "/verif/.cache/cov/h-%p-%8m.profraw"
from ebv import core, cli
cov = "/verif/.cache/target-cov/release/h"
core.H_BIN = cov
core.H_BIN_HOOK = cov
core.build_harness = lambda hook: (0, "skipped (coverage run)")
props = sys.argv[1:] or sorted(cli.PROPS)
for p in props:
    cli.cmd_check(p, "quick")
