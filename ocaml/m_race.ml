(* m_race.ml — mode race: the specification side of the free-running races.  By
   C02_conc_no_lost_wakeup / C03_conc_closed_iff_no_owner / C03_conc_upgrade_sound no round can lose a
   wakeup, miss the end, or end under a live owner, and by C04_lin_step / C04_seq_* no subscriber sees values out of order and no two equal conditional writers both store; the line mirrors harness/src/m_race.rs. *)
open Util
let run_line (line : string) =
  let rounds = (match List.find_opt (fun w -> starts_with "rounds=" w) (words line) with
      | Some w -> after "rounds=" w | None -> "1000") in
  Printf.printf "rounds=%s ok:racewake=1 ok:raceended=1 ok:racenotearly=1 ok:racefinal=1 ok:raceorder=1\n" rounds
