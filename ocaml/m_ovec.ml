(* m_ovec.ml — mode ovec: ObservableVector, transactions, entries, subscriber streams
   (C05 C06 C07 C08 C17).  Mirrors /verif/harness/src/m_ovec.rs. *)
open Model
open Util

let i2n = nat_of_int
let n2i = int_of_nat

(* "name(a,b)" / "name[..]" / "name" *)
let split_op (s : string) : string * string =
  let n = String.length s in
  let rec find i = if i >= n then n else match s.[i] with '(' | '[' -> i | _ -> find (i + 1) in
  let i = find 0 in
  (String.sub s 0 i, String.sub s i (n - i))

let parse_mut (name : string) (arg : string) : nat mutator option =
  let a () = List.map i2n (parse_args arg) in
  match name with
  | "append" -> Some (MAppend (parse_vec arg))
  | "clear" -> Some MClear
  | "push_front" -> (match a () with [x] -> Some (MPushFront x) | _ -> None)
  | "push_back" -> (match a () with [x] -> Some (MPushBack x) | _ -> None)
  | "pop_front" -> Some MPopFront
  | "pop_back" -> Some MPopBack
  | "insert" -> (match a () with [i; x] -> Some (MInsert (i, x)) | _ -> None)
  | "set" -> (match a () with [i; x] -> Some (MSet (i, x)) | _ -> None)
  | "remove" -> (match a () with [i] -> Some (MRemove i) | _ -> None)
  | "truncate" -> (match a () with [i] -> Some (MTruncate i) | _ -> None)
  | _ -> None

let show_ret = function
  | RUnit -> "()"
  | ROpt None -> "None"
  | ROpt (Some x) -> Printf.sprintf "Some(%d)" (n2i x)
  | RVal x -> Printf.sprintf "=%d" (n2i x)

let parse_decisions (arg : string) : nat decision list =
  (* "[k,s5,r,t7,x]" *)
  let n = String.length arg in
  let inner = String.sub arg 1 (n - 2) in
  List.map (fun t ->
      match t.[0] with
      | 'k' -> DKeep
      | 'r' -> DRemove
      | 'x' -> DStop
      | 's' -> DSet (i2n (int_of_string (String.sub t 1 (String.length t - 1))))
      | 't' -> DSetRemove (i2n (int_of_string (String.sub t 1 (String.length t - 1))))
      | _ -> failwith ("bad decision " ^ t))
    (split_on ',' inner)

let show_visited (v : (nat * nat) list) =
  "(" ^ String.concat "," (List.map (fun (i, x) -> Printf.sprintf "%d:%d" (n2i i) (n2i x)) v) ^ ")"

let show_woken (w : nat list) =
  let w = List.sort_uniq compare (List.map n2i w) in
  if w = [] then "" else " w" ^ String.concat "," (List.map string_of_int w)

(* harness-side bookkeeping per subscriber, identical on both sides *)
type sinfo = {
  mutable replica : nat list;
  mutable app_ok : bool;
  mutable got_reset : bool;
  mutable states : nat list list;     (* vector states after each mutating call since subscription *)
  mutable ptr : int;                  (* how many of [states] the replica has passed through *)
  mutable sent_since_pending : int;
  mutable lagreset_ok : bool;
  mutable last_pending : bool;
  mutable woken : bool;
  mutable wake_ok : bool;
  mutable expected : int;
  mutable delivered : int;
  mutable count_fuzzy : bool;
  mutable live : bool;
}

(* ---- the plain-vector specification of the mutators (shadow), written independently ---- *)
let rec take n l = if n <= 0 then [] else match l with [] -> [] | x :: t -> x :: take (n - 1) t
let rec drop n l = if n <= 0 then l else match l with [] -> [] | _ :: t -> drop (n - 1) t

(* returns (new contents, return text, effective?) ; None = panics *)
let spec_mut (m : nat mutator) (v : int list) (txn_clear : bool) : (int list * string * bool) option =
  let len = List.length v in
  match m with
  | MAppend vs -> Some (v @ List.map n2i vs, "()", true)
  | MClear -> if v = [] && not txn_clear then Some (v, "()", false) else Some ([], "()", true)
  | MPushFront x -> Some (n2i x :: v, "()", true)
  | MPushBack x -> Some (v @ [n2i x], "()", true)
  | MPopFront -> (match v with [] -> Some (v, "None", false) | x :: t -> Some (t, Printf.sprintf "Some(%d)" x, true))
  | MPopBack -> if v = [] then Some (v, "None", false)
    else Some (take (len - 1) v, Printf.sprintf "Some(%d)" (List.nth v (len - 1)), true)
  | MInsert (i, x) -> let i = n2i i in if i > len then None else Some (take i v @ (n2i x :: drop i v), "()", true)
  | MSet (i, x) -> let i = n2i i in if i >= len then None
    else Some (take i v @ (n2i x :: drop (i + 1) v), Printf.sprintf "=%d" (List.nth v i), true)
  | MRemove i -> let i = n2i i in if i >= len then None
    else Some (take i v @ drop (i + 1) v, Printf.sprintf "=%d" (List.nth v i), true)
  | MTruncate n -> let n = n2i n in if n < len then Some (take n v, "()", true) else Some (v, "()", false)

let run_case (case : string) : string =
  let head, evs =
    match Str.bounded_split_delim (Str.regexp_string " :: ") case 2 with
    | [h; e] -> (h, e) | [h] -> (h, "") | _ -> failwith "bad case" in
  let cap = int_of_string (after "cap=" (String.trim head)) in
  let ops = List.filter (fun s -> s <> "") (List.map String.trim (Str.split (Str.regexp_string " ; ") evs)) in
  let o = ref (ovec_new (i2n cap)) in
  let infos : (int, sinfo) Hashtbl.t = Hashtbl.create 8 in
  let shadow = ref [] and tshadow = ref [] and batch_count = ref 0 in
  let final = ref None in
  let buf = Buffer.create 256 in
  let first = ref true in
  let emit s = (if not !first then Buffer.add_string buf " ; "); first := false; Buffer.add_string buf s in
  let note_woken (w : nat list) =
    List.iter (fun k -> match Hashtbl.find_opt infos (n2i k) with Some i -> i.woken <- true | None -> ()) w in
  let live_count () = Hashtbl.fold (fun _ i n -> if i.live then n + 1 else n) infos 0 in
  (* spec: a message carrying state [st] was published *)
  let published (st : int list) (ndiffs : int) =
    if live_count () > 0 then
      Hashtbl.iter (fun _ i -> if i.live then begin
          i.states <- i.states @ [List.map i2n st];
          i.sent_since_pending <- i.sent_since_pending + 1;
          i.expected <- i.expected + ndiffs end) infos in
  let plain_check (real_ret : string) (spec : (int list * string * bool) option) (real_contents : nat list) (expect : int list) =
    (* C17: same return value / panic as a plain vector, same contents *)
    let ret_ok = (match spec with None -> real_ret = "PANIC" | Some (_, r, _) -> real_ret = r) in
    if ret_ok && List.map n2i real_contents = expect then "" else " ok:plain=0" in
  let do_poll k : string * char =
    match poll_sub !o (i2n k) with
    | Panic -> ("PANIC", 'X')
    | Ok (o', r) ->
      o := o';
      let i = Hashtbl.find infos k in
      let deliver (ds : nat diff list) =
        if i.last_pending && not i.woken then i.wake_ok <- false;
        i.last_pending <- false;
        List.iter (fun d ->
            i.delivered <- i.delivered + 1;
            (match d with
             | Reset _ ->
               i.got_reset <- true;
               if i.sent_since_pending <= cap then i.lagreset_ok <- false
             | _ -> ());
            if not (ok_in d i.replica) then i.app_ok <- false;
            (match apply d i.replica with Some v -> i.replica <- v | None -> i.app_ok <- false);
            let n = List.length i.states in
            if i.ptr < n && List.nth i.states i.ptr = i.replica then i.ptr <- i.ptr + 1) ds in
      (match r with
       | Ready (Some (IDiff d)) -> deliver [d]; ("R:" ^ show_diff d, 'R')
       | Ready (Some (IBatch ds)) -> deliver ds; ("R:" ^ String.concat "|" (List.map show_diff ds), 'R')
       | Ready None ->
         if i.last_pending && not i.woken then i.wake_ok <- false;
         i.last_pending <- false;
         let alive_ok = (!final <> None) in
         let final_ok = (match !final with Some f -> List.map n2i i.replica = f | None -> true) in
         (Printf.sprintf "N ok:endalive=%s ok:final=%s ok:app=%s ok:wake=%s" (b2s alive_ok) (b2s final_ok)
            (b2s i.app_ok) (b2s i.wake_ok), 'N')
       | Pending ->
         let replica_ok = (List.map n2i i.replica = !shadow) in
         let step_ok = i.got_reset || (i.ptr = List.length i.states) in
         let count_ok = i.got_reset || i.count_fuzzy || (i.expected = i.delivered) in
         i.last_pending <- true; i.woken <- false; i.sent_since_pending <- 0;
         (Printf.sprintf "P ok:replica=%s ok:app=%s ok:stepwise=%s ok:count=%s ok:lagreset=%s ok:wake=%s"
            (b2s replica_ok) (b2s i.app_ok) (b2s step_ok) (b2s count_ok) (b2s i.lagreset_ok) (b2s i.wake_ok), 'P')) in
  let direct_mut (m : nat mutator) =
    let spec = spec_mut m !shadow false in
    (match ovec_mutate !o m with
     | Panic -> emit ("PANIC" ^ plain_check "PANIC" spec !o.values !shadow)
     | Ok ((o', r), w) ->
       o := o'; note_woken w;
       (match spec with
        | Some (v', _, eff) -> shadow := v'; if eff then published v' 1
        | None -> ());
       emit (show_ret r ^ plain_check (show_ret r) spec !o.values !shadow ^ show_woken w)) in
  let txn_mut (m : nat mutator) =
    let spec = spec_mut m !tshadow true in
    (match txn_mutate !o m with
     | Panic -> emit ("PANIC" ^ plain_check "PANIC" spec (cur_values !o true) !tshadow)
     | Ok (o', r) ->
       o := o';
       (match spec with
        | Some (v', _, eff) ->
          tshadow := v';
          (match m with MClear -> batch_count := (if live_count () > 0 then 1 else 0)
                      | _ -> if eff && live_count () > 0 then incr batch_count)
        | None -> ());
       emit (show_ret r ^ plain_check (show_ret r) spec (cur_values !o true) !tshadow)) in
  List.iter (fun op ->
      let in_txn_op = starts_with "t." op in
      let opn = if in_txn_op then after "t." op else op in
      let name, arg = split_op opn in
      match parse_mut name arg with
      | Some m -> if in_txn_op then txn_mut m else direct_mut m
      | None ->
        (match name with
         | "eset" | "eremove" ->
           let a = parse_args arg in
           let i = List.hd a in
           let m = if name = "eset" then MSet (i2n i, i2n (List.nth a 1)) else MRemove (i2n i) in
           if in_txn_op then txn_mut m else direct_mut m
         | "each" ->
           let decs = parse_decisions arg in
           (* spec: visit every element once, in order, with its current index *)
           let sh = ref (if in_txn_op then !tshadow else !shadow) in
           let visited_spec = ref [] in
           let idx = ref 0 and ds = ref decs and stop = ref false in
           let set_at i x = sh := take i !sh @ (x :: drop (i + 1) !sh) in
           let rem_at i = sh := take i !sh @ drop (i + 1) !sh in
           let pub () = if in_txn_op then (if live_count () > 0 then incr batch_count) else published !sh 1 in
           while not !stop && !idx < List.length !sh do
             visited_spec := (!idx, List.nth !sh !idx) :: !visited_spec;
             let d = (match !ds with d :: t -> ds := t; d | [] -> DKeep) in
             (match d with
              | DKeep -> incr idx
              | DStop -> stop := true
              | DSet x -> set_at !idx (n2i x); pub (); incr idx
              | DRemove -> rem_at !idx; pub ()
              | DSetRemove x -> set_at !idx (n2i x); pub (); rem_at !idx; pub ())
           done;
           (match for_each !o in_txn_op decs with
            | Panic -> emit "PANIC ok:plain=0"
            | Ok ((o', visited), w) ->
              o := o'; note_woken w;
              if in_txn_op then tshadow := !sh else shadow := !sh;
              let vis_ok = (List.map (fun (i, x) -> (n2i i, n2i x)) visited = List.rev !visited_spec)
                           && (List.map n2i (cur_values !o in_txn_op) = !sh) in
              emit (show_visited visited ^ (if vis_ok then "" else " ok:plain=0") ^ show_woken w))
         | "sub" ->
           let batched = (arg = "(b)") in
           let ((o', k), snap) = subscribe !o batched in
           o := o';
           let k = n2i k in
           Hashtbl.replace infos k
             { replica = snap; app_ok = true; got_reset = false; states = []; ptr = 0;
               sent_since_pending = 0; lagreset_ok = true; last_pending = false; woken = false;
               wake_ok = true; expected = 0; delivered = 0; count_fuzzy = false; live = true };
           emit (Printf.sprintf "#%d=%s%s" k (show_vec snap) (if List.map n2i snap = !shadow then "" else " ok:plain=0"))
         | "poll" ->
           let k = List.hd (parse_args arg) in
           emit (fst (do_poll k))
         | "drain" ->
           let k = List.hd (parse_args arg) in
           let parts = ref [] in
           let continue = ref true and count = ref 0 in
           while !continue do
             incr count;
             let (s, c) = do_poll k in
             parts := s :: !parts;
             if c <> 'R' || !count > 10000 then continue := false
           done;
           emit (String.concat "+" (List.rev !parts))
         | "dropsub" ->
           let k = List.hd (parse_args arg) in
           o := drop_sub !o (i2n k);
           (match Hashtbl.find_opt infos k with Some i -> i.live <- false | None -> ());
           emit "."
         | "get" ->
           let v = cur_values !o in_txn_op in
           let expect = if in_txn_op then !tshadow else !shadow in
           emit ("=" ^ show_vec v ^ (if List.map n2i v = expect then "" else " ok:plain=0"))
         | "tb" -> o := txn_begin !o; tshadow := !shadow; batch_count := 0; emit "."
         | "rollback" -> o := txn_rollback !o; tshadow := !shadow; batch_count := 0; emit "."
         | "tc" ->
           let (o', w) = txn_commit !o in
           o := o'; note_woken w;
           let contents_unchanged = (!shadow = !tshadow) in
           shadow := !tshadow;
           if !batch_count > 0 then begin
             if contents_unchanged then
               (* may or may not publish: the property does not say; stop checking exact counts *)
               Hashtbl.iter (fun _ i -> if i.live then (i.got_reset <- true; i.sent_since_pending <- i.sent_since_pending + 1)) infos
             else begin
               Hashtbl.iter (fun _ i -> if i.live then i.count_fuzzy <- true) infos;
               published !shadow !batch_count
             end
           end;
           emit ("." ^ (if List.map n2i !o.values = !shadow then "" else " ok:plain=0") ^ show_woken w)
         | "td" ->
           o := txn_drop !o;
           emit ("." ^ (if List.map n2i !o.values = !shadow then "" else " ok:plain=0"))
         | "dropvec" ->
           final := Some !shadow;
           let (o', w) = drop_vec !o in
           o := o'; note_woken w;
           emit ("." ^ show_woken w)
         | _ -> failwith ("bad op " ^ op))) ops;
  Buffer.contents buf

let run_line (line : string) = print_string (run_case line); print_newline ()
