(* m_chain.ml — mode chain (C12): stacks of adapters over a scripted source.
   Mirrors /verif/harness/src/m_chain.rs.  All stages are quiescent between the events of a case
   (only full drains), so running each stage to quiescence in turn is the same as the lazy
   pull-based evaluation of the real streams. *)
open Model
open Util
open M_adapt

type stage = { kind : string; flav : string; arg : string; by_self : bool }

let classes : string list ref = ref []
let add_class c = if not (List.mem c !classes) then classes := c :: !classes

let stage_view (st : stage) (param : int option) (below : nat list) : nat list =
  match st.kind with
  | "head" -> firstn (i2n (match param with Some l -> l | None -> 0)) below
  | "tail" -> let l = (match param with Some l -> l | None -> 0) in
    skipn (i2n (max 0 (List.length below - l))) below
  | "skip" -> (match param with None -> [] | Some c -> skipn (i2n c) below)
  | "filter" -> List.filter_map (fm_filter (int_of_string st.arg)) below
  | "filter_map" -> List.filter_map (fm_filter_map (int_of_string st.arg)) below
  | "sort" -> List.map i2n (List.sort compare (List.map n2i below))
  | _ -> failwith "stage_view"

(* build one stage from the initial values handed to it; returns (values it hands on, values it
   would hand on "by itself", sim) *)
let build_stage (st : stage) (batched : bool) (vs : nat list) : nat list option * (unit -> nat list) * sim =
  let static_param = (st.flav = "static") in
  match st.kind with
  | "head" ->
    let iv, st0 = (match st.flav with
        | "dynamic" -> (None, { h_buf = vs; h_limit = O })
        | _ -> let (v, s) = head_init (i2n (int_of_string st.arg)) vs in (Some v, s)) in
    (iv, (fun () -> head_into_parts st0),
     mk_sim ~batched ~has_param:true ~static_param ~st0 ~on_diff:head_on_diff ~on_param:head_update_limit)
  | "tail" ->
    let iv, st0 = (match st.flav with
        | "dynamic" -> (None, { t_buf = vs; t_limit = O })
        | _ -> let (v, s) = tail_init (i2n (int_of_string st.arg)) vs in (Some v, s)) in
    (iv, (fun () -> tail_into_parts st0),
     mk_sim ~batched ~has_param:true ~static_param ~st0 ~on_diff:tail_on_diff
       ~on_param:(fun st n ->
           if tail_shrink_over_len st.t_limit n (length st.t_buf) then add_class "tail_shrink_over_len";
           tail_update_limit st n))
  | "skip" ->
    let iv, st0 = (match st.flav with
        | "dynamic" -> (None, skip_init_dynamic vs)
        | _ -> let (v, s) = skip_init (i2n (int_of_string st.arg)) vs in (Some v, s)) in
    (iv, (fun () -> skip_into_parts st0),
     mk_sim ~batched ~has_param:true ~static_param ~st0 ~on_diff:skip_on_diff ~on_param:skip_update_count)
  | "filter" | "filter_map" ->
    let mask = int_of_string st.arg in
    let f = if st.kind = "filter" then fm_filter mask else fm_filter_map mask in
    let (v, st0) = filter_init f vs in
    (Some v, (fun () -> v),
     mk_sim ~batched ~has_param:false ~static_param:true ~st0 ~on_diff:(filter_on_diff f)
       ~on_param:(fun s _ -> (s, None)))
  | "sort" ->
    (* values are distinct in chains with a sort stage, so the comparison has no ties and the answer
       of imbl's (unstable) sort is the unique sorted order: the oracle argument is computed here *)
    let cmp = cmp_of "sort" in
    let (v, st0) = sort_init (insertion_sort cmp (enumerate_from O vs)) in
    let on_diff st d =
      let ans = (match sort_oracle_input st d with None -> [] | Some input -> insertion_sort cmp input) in
      if sort_truncate_misaligned st d then add_class "sort_truncate_misaligned";
      sort_on_diff cmp st d ans in
    (Some v, (fun () -> v),
     mk_sim ~batched ~has_param:false ~static_param:true ~st0 ~on_diff ~on_param:(fun s _ -> (s, None)))
  | _ -> failwith ("bad stage " ^ st.kind)

type tapinfo = { upto : int; mutable view : nat list; mutable app_ok : bool }

let run_case (case : string) : string =
  let head, evs =
    match Str.bounded_split_delim (Str.regexp_string " :: ") case 2 with
    | [h; e] -> (h, e) | [h] -> (h, "") | _ -> failwith "bad case" in
  let parts = Str.split (Str.regexp_string " | ") head in
  let first = words (List.hd parts) in
  let batched = (List.nth first 0 = "b") in
  let vs = parse_vec (List.nth first 1) in
  let stages = Array.of_list (List.map (fun s ->
      match String.split_on_char ':' (String.trim s) with
      | k :: f :: a :: rest -> { kind = k; flav = f; arg = a; by_self = (rest = ["self"]) }
      | _ -> failwith ("bad stage " ^ s)) (List.tl parts)) in
  let n = Array.length stages in
  classes := [];
  let events = List.filter (fun s -> s <> "") (List.map String.trim (Str.split (Str.regexp_string " ; ") evs)) in
  let params = Array.map (fun st -> if st.flav = "static" || st.flav = "dyninit" then Some (int_of_string st.arg) else None) stages in
  (* build: sims.(k), taps *)
  let sims = Array.make n None in
  let taps = ref [] in
  let tap_after = Array.make n false in
  let cur_vals = ref vs in
  let k = ref 0 in
  while !k < n do
    let st = stages.(!k) in
    if st.by_self && !k + 1 < n then begin
      (* st is purely dynamic and handed to the next stage as the adapter itself *)
      let (_, into_parts, sim1) = build_stage st batched !cur_vals in
      sims.(!k) <- Some sim1;
      let handed = into_parts () in
      let (iv2, _, sim2) = build_stage stages.(!k + 1) batched handed in
      sims.(!k + 1) <- Some sim2;
      let vals = (match iv2 with Some v -> v | None -> []) in
      taps := !taps @ [{ upto = !k + 1; view = vals; app_ok = true }];
      tap_after.(!k + 1) <- true;
      cur_vals := vals;
      k := !k + 2
    end else begin
      let (iv, _, sim1) = build_stage st batched !cur_vals in
      sims.(!k) <- Some sim1;
      let vals = (match iv with Some v -> v | None -> []) in
      taps := !taps @ [{ upto = !k; view = vals; app_ok = true }];
      tap_after.(!k) <- true;
      cur_vals := vals;
      k := !k + 1
    end
  done;
  let sim k = (match sims.(k) with Some s -> s | None -> failwith "sim") in
  let buf = Buffer.create 256 in
  Buffer.add_string buf ("init=" ^ String.concat "/" (List.map (fun t -> show_vec t.view) !taps));
  let src = ref vs and src_ok = ref true in
  let check () =
    let below = ref !src and kk = ref 0 in
    String.concat "" (List.mapi (fun j t ->
        while !kk <= t.upto do below := stage_view stages.(!kk) params.(!kk) !below; incr kk done;
        let ok = (not !src_ok) || (t.view = !below && t.app_ok) in
        Printf.sprintf " v%d=%s ok:stage%d=%s" j (show_vec t.view) j (b2s ok)) !taps) in
  Buffer.add_string buf (check ());
  let panicked = ref false in
  let ended = ref false in
  List.iter (fun ev ->
      if not !panicked then begin
        Buffer.add_string buf " ; ";
        if ev = "D" then begin
          (* run every stage to quiescence, bottom up; record what passes every tap *)
          let tap_items : (int, string list) Hashtbl.t = Hashtbl.create 4 in
          let last_end = ref false in
          (try
             for k = 0 to n - 1 do
               let s = sim k in
               let items = ref [] in
               let continue = ref true in
               let cnt = ref 0 in
               while !continue do
                 incr cnt;
                 let p = s.poll () in
                 (match p.kind with
                  | 'R' -> items := p.diffs :: !items
                  | 'N' -> last_end := true; continue := false
                  | _ -> last_end := false; continue := false);
                 if !cnt > 10000 then continue := false
               done;
               let items = List.rev !items in
               (* hand everything on to the next stage *)
               if k + 1 < n then begin
                 List.iter (fun ds -> (sim (k + 1)).push_inner ds) items;
                 if !last_end then (sim (k + 1)).end_inner ()
               end;
               if tap_after.(k) then begin
                 let j = (let rec find i = function [] -> failwith "tap" | t :: r -> if t.upto = k then i else find (i + 1) r in find 0 !taps) in
                 let t = List.nth !taps j in
                 List.iter (fun ds -> List.iter (fun d ->
                     if not (ok_in d t.view) then t.app_ok <- false;
                     (match apply d t.view with Some v -> t.view <- v | None -> t.app_ok <- false)) ds) items;
                 Hashtbl.replace tap_items j
                   (List.map (fun ds -> String.concat "|" (List.map show_diff ds)) items)
               end
             done
           with Model_panic -> panicked := true);
          if !panicked then Buffer.add_string buf ("PANIC" ^ (if !src_ok then " ok:nopanic=0" else ""))
          else begin
            ended := !last_end;
            Buffer.add_string buf ((if !last_end then "N" else "P") ^ check () ^ " " ^
                                   String.concat " " (List.mapi (fun j _ ->
                                       let it = (try Hashtbl.find tap_items j with Not_found -> []) in
                                       Printf.sprintf "t%d=%s" j (if it = [] then "-" else String.concat "+" it)) !taps)
                                   (* ChainPollFacts.chain_pending_registers_everywhere *)
                                   ^ (if !last_end then "" else " ok:reg=1"))
          end
        end else if starts_with "d:" ev then begin
          let d = parse_diff (after "d:" ev) in
          if not (ok_in d !src) then src_ok := false;
          (match apply d !src with Some s -> src := s | None -> src_ok := false);
          (sim 0).push_inner [d]; Buffer.add_string buf "."
        end else if starts_with "b:" ev then begin
          let ds = List.map parse_diff (String.split_on_char '|' (after "b:" ev)) in
          List.iter (fun d ->
              if not (ok_in d !src) then src_ok := false;
              match apply d !src with Some s -> src := s | None -> src_ok := false) ds;
          (sim 0).push_inner ds; Buffer.add_string buf "."
        end else if ev.[0] = 'l' then begin
          (match String.split_on_char ':' (String.sub ev 1 (String.length ev - 1)) with
           | [k; v] ->
             let k = int_of_string k and v = int_of_string v in
             params.(k) <- Some v; (sim k).push_param v
           | _ -> failwith ev);
          Buffer.add_string buf "."
        end else if ev = "es" then ((sim 0).end_inner (); Buffer.add_string buf ".")
        else failwith ("bad event " ^ ev)
      end) events;
  ignore !ended;
  List.iter (fun c -> Buffer.add_string buf (" class=" ^ c)) (List.rev !classes);
  Buffer.contents buf

let run_line (line : string) = print_string (run_case line); print_newline ()
