(* util.ml — parsing / printing shared by all driver modes.  Trusted for the
   correspondence only (not for the theorems). *)
open Model

let rec nat_of_int (n : int) : nat = if n <= 0 then O else S (nat_of_int (n - 1))
let rec int_of_nat (n : nat) : int = match n with O -> 0 | S m -> 1 + int_of_nat m

let split_on c s = if s = "" then [] else String.split_on_char c s

(* "[1,2,3]" -> [1;2;3] *)
let parse_ivec (s : string) : int list =
  let n = String.length s in
  if n < 2 || s.[0] <> '[' || s.[n-1] <> ']' then failwith ("bad vec: " ^ s);
  let inner = String.sub s 1 (n - 2) in
  List.map int_of_string (split_on ',' inner)

let parse_vec s = List.map nat_of_int (parse_ivec s)

let show_ivec (l : int list) = "[" ^ String.concat "," (List.map string_of_int l) ^ "]"
let show_vec (l : nat list) = show_ivec (List.map int_of_nat l)

let starts_with p s =
  String.length s >= String.length p && String.sub s 0 (String.length p) = p

let after p s = String.sub s (String.length p) (String.length s - String.length p)

(* "(1,7)" -> [1;7] *)
let parse_args s =
  let n = String.length s in
  if n < 2 || s.[0] <> '(' || s.[n-1] <> ')' then failwith ("bad args: " ^ s);
  List.map int_of_string (split_on ',' (String.sub s 1 (n - 2)))

let parse_diff (s : string) : nat diff =
  if s = "Clear" then Clear
  else if s = "PopFront" then PopFront
  else if s = "PopBack" then PopBack
  else if starts_with "Append" s then Append (parse_vec (after "Append" s))
  else if starts_with "Reset" s then Reset (parse_vec (after "Reset" s))
  else if starts_with "PushFront" s then
    (match parse_args (after "PushFront" s) with [x] -> PushFront (nat_of_int x) | _ -> failwith s)
  else if starts_with "PushBack" s then
    (match parse_args (after "PushBack" s) with [x] -> PushBack (nat_of_int x) | _ -> failwith s)
  else if starts_with "Insert" s then
    (match parse_args (after "Insert" s) with [i; x] -> Insert (nat_of_int i, nat_of_int x) | _ -> failwith s)
  else if starts_with "Set" s then
    (match parse_args (after "Set" s) with [i; x] -> SetAt (nat_of_int i, nat_of_int x) | _ -> failwith s)
  else if starts_with "Remove" s then
    (match parse_args (after "Remove" s) with [i] -> Remove (nat_of_int i) | _ -> failwith s)
  else if starts_with "Truncate" s then
    (match parse_args (after "Truncate" s) with [i] -> Truncate (nat_of_int i) | _ -> failwith s)
  else failwith ("bad diff: " ^ s)

let show_diff (d : nat diff) : string =
  let i = int_of_nat in
  match d with
  | Append vs -> "Append" ^ show_vec vs
  | Clear -> "Clear"
  | PushFront x -> Printf.sprintf "PushFront(%d)" (i x)
  | PushBack x -> Printf.sprintf "PushBack(%d)" (i x)
  | PopFront -> "PopFront"
  | PopBack -> "PopBack"
  | Insert (k, x) -> Printf.sprintf "Insert(%d,%d)" (i k) (i x)
  | SetAt (k, x) -> Printf.sprintf "Set(%d,%d)" (i k) (i x)
  | Remove k -> Printf.sprintf "Remove(%d)" (i k)
  | Truncate k -> Printf.sprintf "Truncate(%d)" (i k)
  | Reset vs -> "Reset" ^ show_vec vs

let show_diffs ds = "<" ^ String.concat ";" (List.map show_diff ds) ^ ">"

let show_ovec = function Some l -> show_vec l | None -> "panic"
let b2s b = if b then "1" else "0"

let words s = List.filter (fun w -> w <> "") (String.split_on_char ' ' s)

let iter_lines (ic : in_channel) (f : string -> unit) =
  try while true do f (input_line ic) done with End_of_file -> ()

(* "name(1,2)" -> ("name", [1;2]) ; "name" -> ("name", []) *)
let split_op_ints (s : string) : string * int list =
  match String.index_opt s '(' with
  | Some i ->
    let inner = String.sub s (i + 1) (String.length s - i - 2) in
    (String.sub s 0 i, List.map int_of_string (split_on ',' inner))
  | None -> (s, [])
