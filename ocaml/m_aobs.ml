(* m_aobs.ml — mode aobs: the async-lock flavour with guards held across calls (C16).
   Mirrors /verif/harness/src/m_aobs.rs.  case: "<nsubs> :: op ; op ; ..." ; the future created by the
   op at position i has id i.  After every op the executor polls, smallest id first, every unfinished
   future whose waker has fired, until none is left. *)
open Model
open Util

let i2n = nat_of_int
let n2i = int_of_nat
let veq = M_obs.veq
let heq = M_obs.heq

module IS = Set.Make (Int)

let show_res (c : nat acall) (r : nat out) : string =
  match c, r with
  | AWrite, _ -> "W"
  | ARead, OVal v -> Printf.sprintf "R=%d" (n2i v)
  | _, OVal v -> Printf.sprintf "=%d" (n2i v)
  | _, OOpt None -> "None"
  | _, OOpt (Some v) -> Printf.sprintf "Some(%d)" (n2i v)
  | _, OUnit -> "()"
  | _, OSubId k -> Printf.sprintf "#%d" (n2i k)
  | _ -> "?"

let parse_call (name : string) (a : int list) : nat acall option =
  let a0 () = i2n (List.nth a 0) in
  match name with
  | "set" -> Some (ASet (a0 ())) | "get" -> Some AGet | "subscribe" -> Some ASubscribe
  | "set_if_not_eq" -> Some (AUpd (WSetIfNotEq (a0 ()))) | "set_if_hash_not_eq" -> Some (AUpd (WSetIfHashNotEq (a0 ())))
  | "take" -> Some (AUpd WTake) | "update" -> Some (AUpd (WUpdate (a0 ())))
  | "update_if" -> Some (AUpd (WUpdateIf (a0 (), List.nth a 1 = 1))) | "write" -> Some AWrite | "read" -> Some ARead
  | "next_now" -> Some (ANextNow (a0 ())) | "next" -> Some (ANext (a0 ())) | "next_ref" -> Some (ANextRef (a0 ()))
  | "stream" -> Some (AStreamNext (a0 ()))
  | _ -> None

let run_case ?(fixed = true) (case : string) : string =
  let head, evs =
    match Str.bounded_split_delim (Str.regexp_string " :: ") case 2 with
    | [h; e] -> (String.trim h, e) | [h] -> (String.trim h, "") | _ -> failwith "bad case" in
  let ops = List.filter (fun s -> s <> "") (List.map String.trim (Str.split (Str.regexp_string " ; ") evs)) in
  let nsubs = int_of_string head in
  let s = ref (a_init O (i2n nsubs)) in
  let calls : (int, nat acall) Hashtbl.t = Hashtbl.create 16 in
  let fin : (int, bool) Hashtbl.t = Hashtbl.create 16 in
  let woken = ref IS.empty in
  let add_woken w = List.iter (fun k -> woken := IS.add (n2i k) !woken) w in
  let executor () : string =
    let b = Buffer.create 32 in
    let continue = ref true in
    while !continue do
      match IS.min_elt_opt !woken with
      | None -> continue := false
      | Some id ->
        woken := IS.remove id !woken;
        if not (Hashtbl.mem fin id) && Hashtbl.mem calls id then begin
          let ((s', r), w) = a_poll veq heq O fixed !s (i2n id) in
          s := s';
          add_woken w;
          (match r with
           | Some r -> Hashtbl.replace fin id true;
             Buffer.add_string b (Printf.sprintf " p#%d=%s" id (show_res (Hashtbl.find calls id) r))
           | None -> Buffer.add_string b (Printf.sprintf " p#%d=PEND" id))
        end
    done;
    Buffer.contents b in
  let res = List.mapi (fun i opt ->
      let name, a = M_obs.split_op opt in
      let pad () = s := a_pad !s in
      let text =
        match name with
        | "gdrop" ->
          let (s', w) = a_drop_guard !s (i2n (List.nth a 0)) in
          let had = (match List.nth_opt !s.a_guards (List.nth a 0) with Some GNone | None -> false | _ -> true) in
          s := s'; add_woken w; pad ();
          if had then Printf.sprintf "#%d=()" i else Printf.sprintf "#%d=SKIP" i
        | "gset" ->
          let ((s', r), w) = a_guard_set veq heq O !s (i2n (List.nth a 0)) (i2n (List.nth a 1)) in
          s := s'; add_woken w; pad ();
          (match r with Some r -> Printf.sprintf "#%d=%s" i (show_res AGet r) | None -> Printf.sprintf "#%d=SKIP" i)
        | _ ->
          (match parse_call name a with
           | Some c when call_possible !s c ->
             let (((s', id), r), w) = a_start veq heq O fixed !s c in
             assert (n2i id = i);
             s := s'; add_woken w;
             Hashtbl.replace calls i c;
             (match r with
              | Some r -> Hashtbl.replace fin i true; Printf.sprintf "#%d=%s" i (show_res c r)
              | None -> Printf.sprintf "#%d=PEND" i)
           | Some _ -> pad (); Printf.sprintf "#%d=SKIP" i
           | None -> failwith ("bad op " ^ name)) in
      text ^ executor ()) ops in
  (* what is still unfinished at the end *)
  let pending = Hashtbl.fold (fun id _ acc -> if Hashtbl.mem fin id then acc else id :: acc) calls [] in
  let pending = List.sort compare pending in
  String.concat " ; " res ^ " || pending=" ^ show_ivec pending

let run_line (line : string) = print_string (run_case line); print_newline ()
