(* m_lin.ml — mode lin (C04): Wing-Gong linearizability check of a recorded concurrent history
   against the extracted sequential model (Obs.step), plus the direct consequences named in the
   property.  Input line: `case \t implementation-observation`. *)
open Model
open Util

let i2n = nat_of_int
let n2i = int_of_nat
let veq = M_obs.veq and heq = M_obs.heq and vdefault = M_obs.vdefault

type rec_op = {
  id : string; text : string; res : string; inv : int; resp : int;
  hold : (int * int) option;        (* guard acquired / releasing stamps *)
}

let parse_record (r : string) : rec_op =
  (* "<t>.<i>:<op>><res>[^a-b]@<inv>-<resp>" *)
  let at = String.rindex r '@' in
  let stamps = String.sub r (at + 1) (String.length r - at - 1) in
  let inv, resp = (match String.split_on_char '-' stamps with [a; b] -> (int_of_string a, int_of_string b) | _ -> failwith r) in
  let body = String.sub r 0 at in
  let colon = String.index body ':' in
  let id = String.sub body 0 colon in
  let rest = String.sub body (colon + 1) (String.length body - colon - 1) in
  let gt = String.index rest '>' in
  let text = String.sub rest 0 gt in
  let res = String.sub rest (gt + 1) (String.length rest - gt - 1) in
  let res, hold = (match String.index_opt res '^' with
      | Some i ->
        let h = String.sub res (i + 1) (String.length res - i - 1) in
        (String.sub res 0 i,
         (match String.split_on_char '-' h with [a; b] -> Some (int_of_string a, int_of_string b) | _ -> None))
      | None -> (res, None)) in
  { id; text; res; inv; resp; hold }

let arg_of (s : string) : int =
  let i = String.index s '(' in int_of_string (String.sub s (i + 1) (String.length s - i - 2))

(* apply one recorded operation to the sequential state; None = result does not match *)
(* handles of subscribers created during the run -> index in the sequential model (assigned in the
   order in which the subscribe calls are linearized) *)
let apply_op_h (o : nat obs) (hm : (int * int) list) (r : rec_op) : (nat obs * (int * int) list) option =
  let t = r.text in
  if starts_with "subscribe(" t then begin
    match step veq heq vdefault o WSubscribe with
    | Ok ((o', OSubId k), _) when r.res = "()" -> Some (o', (arg_of t, n2i k) :: hm)
    | _ -> None
  end else if starts_with "lpoll(" t || starts_with "lnext_now(" t then begin
    match List.assoc_opt (arg_of t) hm with
    | None -> None
    | Some idx ->
      let x = if starts_with "lpoll(" t then SPoll (i2n idx) else SNextNow (i2n idx) in
      (match step veq heq vdefault o x with
       | Ok ((o', out), _) -> if M_obs.show_out "" out = r.res then Some (o', hm) else None
       | Panic -> None)
  end else None

let apply_op (o : nat obs) (r : rec_op) : nat obs option =
  let one (o : nat obs) x (expect : string) : nat obs option =
    match step veq heq vdefault o x with
    | Panic -> None
    | Ok ((o', out), _) -> if M_obs.show_out "" out = expect then Some o' else None in
  let t = r.text in
  if starts_with "set(" t then one o (WSet (i2n (arg_of t))) r.res
  else if starts_with "update(" t then one o (WUpdate (i2n (arg_of t))) r.res
  else if starts_with "set_if_not_eq(" t then one o (WSetIfNotEq (i2n (arg_of t))) r.res
  else if starts_with "set_if_hash_not_eq(" t then one o (WSetIfHashNotEq (i2n (arg_of t))) r.res
  else if t = "take" then one o WTake r.res
  else if starts_with "update_if(" t then begin
    let inner = String.sub t 10 (String.length t - 11) in
    match String.split_on_char ',' inner with
    | [v; b] -> one o (WUpdateIf (i2n (int_of_string v), b = "1")) r.res
    | _ -> failwith t
  end
  else if t = "get" || t = "rg" then one o WGet r.res
  else if starts_with "next_now(" t then one o (SNextNow (i2n (arg_of t))) r.res
  else if starts_with "poll(" t then one o (SPoll (i2n (arg_of t))) r.res
  else if starts_with "wg[" t then begin
    let body = String.sub t 3 (String.length t - 4) in
    let ops = String.split_on_char ';' body and ress = String.split_on_char ';' r.res in
    if List.length ops <> List.length ress then None else
      List.fold_left2 (fun acc op res ->
          match acc with
          | None -> None
          | Some o ->
            if starts_with "set(" op then one o (WSet (i2n (arg_of op))) res
            else one o (WUpdate (i2n (arg_of op))) res) (Some o) ops ress
  end else failwith ("bad recorded op " ^ t)

let linearizable (o0 : nat obs) (ops : rec_op array) : bool =
  let n = Array.length ops in
  let memo = Hashtbl.create 1024 in
  let rec go (donemask : int) (o : nat obs) (hm : (int * int) list) : bool =
    if donemask = (1 lsl n) - 1 then true
    else begin
      let key = (donemask, n2i o.val0, n2i o.ver, List.map (function Some v -> n2i v | None -> -1) o.subs0,
                 List.sort compare hm) in
      if Hashtbl.mem memo key then false
      else begin
        Hashtbl.add memo key ();
        (* an op may go next iff no other pending op responded before it was invoked *)
        let minresp = ref max_int in
        for i = 0 to n - 1 do
          if donemask land (1 lsl i) = 0 && ops.(i).resp < !minresp then minresp := ops.(i).resp
        done;
        let ok = ref false in
        for i = 0 to n - 1 do
          if not !ok && donemask land (1 lsl i) = 0 && ops.(i).inv < !minresp then
            (let t = ops.(i).text in
             let r = if starts_with "subscribe(" t || starts_with "lpoll(" t || starts_with "lnext_now(" t
               then apply_op_h o hm ops.(i)
               else (match apply_op o ops.(i) with Some o' -> Some (o', hm) | None -> None) in
             match r with
             | Some (o', hm') -> if go (donemask lor (1 lsl i)) o' hm' then ok := true
             | None -> ())
        done;
        !ok
      end
    end in
  go 0 o0 []

let run_line (line : string) =
  let case, obs =
    match String.index_opt line '\t' with
    | Some i -> (String.sub line 0 i, String.sub line (i + 1) (String.length line - i - 1))
    | None -> (line, "") in
  let nsubs = (match Str.bounded_split_delim (Str.regexp_string " || ") case 2 with
      | h :: _ -> int_of_string (after "subs=" (String.trim h)) | [] -> 0) in
  let ws = words obs in
  let get k = (match List.find_opt (fun w -> starts_with k w) ws with Some w -> after k w | None -> "") in
  let final = int_of_string (get "final=") in
  let subfinal = get "subfinal=" in
  let guardbad = int_of_string (get "guardbad=") in
  let hpos = (try Str.search_forward (Str.regexp_string " h=") obs 0 with Not_found -> -1) in
  let recs = if hpos < 0 then [] else
      List.map parse_record (words (String.sub obs (hpos + 3) (String.length obs - hpos - 3))) in
  let ops = Array.of_list recs in
  (* initial sequential state: value 0, nsubs subscribers *)
  let o0 = ref (obs_new Shared O) in
  for _ = 1 to nsubs do
    (match step veq heq vdefault !o0 WSubscribe with Ok ((o', _), _) -> o0 := o' | Panic -> ())
  done;
  let lin = if Array.length ops > 20 then true else linearizable !o0 ops in
  (* every set returns the value stored by its immediate predecessor: multiset check *)
  let written = ref [0] and returned = ref [final] and only_sets = ref true in
  Array.iter (fun r ->
      let t = r.text in
      if starts_with "set(" t then begin
        written := arg_of t :: !written;
        returned := int_of_string (after "=" r.res) :: !returned
      end else if starts_with "update" t || starts_with "set_if_" t || t = "take" || starts_with "wg[" t then
        only_sets := false) ops;
  let setchain = (not !only_sets) || (List.sort compare !written = List.sort compare !returned) in
  (* while a read guard is alive no write completes entirely inside its hold interval; while a write
     guard is alive nothing else completes entirely inside it *)
  let is_write r = starts_with "set" r.text || starts_with "update" r.text || r.text = "take" || starts_with "wg[" r.text in
  let rguard = ref true and wguard = ref true in
  Array.iter (fun g ->
      match g.hold with
      | Some (a, b) ->
        Array.iter (fun r ->
            if r.id <> g.id && r.inv > a && r.resp < b then begin
              if g.text = "rg" then (if is_write r then rguard := false)
              else wguard := false
            end) ops
      | None -> ()) ops;
  let final_ok = (subfinal = "-") ||
                 List.for_all (fun s -> int_of_string s = final) (String.split_on_char ',' subfinal) in
  Printf.printf "n=%d ok:lin=%s ok:setchain=%s ok:rguard=%s ok:wguard=%s ok:guardprobe=%s ok:final=%s\n"
    (Array.length ops) (b2s lin) (b2s setchain) (b2s !rguard) (b2s !wguard) (b2s (guardbad = 0)) (b2s final_ok)
