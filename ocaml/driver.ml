(* driver.ml — runs the extracted Coq model on history files.
   usage: driver <mode> < cases > observations *)
open Model
open Util

(* ---------- mode diff (C18) ---------- *)
let mapping name : int -> int =
  match name with
  | "inj" -> (fun x -> 2 * x + 1)
  | "const" -> (fun _ -> 5)
  | "par" -> (fun x -> x mod 2)
  | _ -> failwith ("bad mapping " ^ name)

let mode_diff line =
  match words line with
  | [m; v; d] ->
    let fi = mapping m in
    let f (x : nat) = nat_of_int (fi (int_of_nat x)) in
    let l = parse_vec v and d = parse_diff d in
    let r = apply d l in
    let rm = apply (dmap f d) (map f l) in
    let expect = (match r with Some l' -> Some (map f l') | None -> None) in
    let idm = (dmap (fun x -> x) d = d) in
    let spec_ok = (match r with
      | None -> oob d l
      | Some l' ->
        (not (oob d l)) &&
        (let n = int_of_nat (length l') in
         let ok = ref true in
         for k = 0 to n + 1 do
           if nth_error l' (nat_of_int k) <> spec_nth d l (nat_of_int k) then ok := false
         done; !ok)) in
    Printf.printf "apply=%s mapped=%s ok:commute=%s ok:idmap=%s ok:spec=%s\n"
      (show_ovec r) (show_ovec rm) (b2s (rm = expect)) (b2s idm) (b2s spec_ok)
  | _ -> failwith ("bad diff case: " ^ line)

let () =
  let mode = Sys.argv.(1) in
  let f = match mode with
    | "diff" -> mode_diff
    | "adapt" -> M_adapt.run_line
    | "ovec" -> M_ovec.run_line
    | "obs" -> M_obs.run_line
    | "chain" -> M_chain.run_line
    | "conc" -> M_conc.run_line
    | "lin" -> M_lin.run_line
    | "own" -> M_own.run_line
    | "race" -> M_race.run_line
    | "aobs" -> M_aobs.run_line
    | "drain" -> M_drain.run_line
    | "bcast" -> M_bcast.run_line
    | "hand" -> M_hand.run_line
    | "full" -> M_full.run_line
    | "e2e" -> (fun _ -> print_string "-\n")   (* oracle-only stream: see DESIGN.md, mode e2e *)
    | _ -> failwith ("unknown mode " ^ mode) in
  iter_lines stdin (fun line -> if line <> "" then f line)
