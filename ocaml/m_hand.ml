(* m_hand.ml — mode hand (C12): the by-itself hand-over of Head / Tail / Skip at an arbitrary moment
   (after polls, limit changes, with a diff of the current burst still parked in the ready buffer).
   Mirrors /verif/harness/src/m_hand.rs.  Stage 0 is the poll-loop model (PollLoop.poll_u / poll_b)
   with its state visible, so that Chain.hand_over_u can be applied to it at `H`; after the
   hand-over only full drains are made, so running stage 0 and then stage 1 to quiescence is the
   lazy pull-based evaluation of the real streams. *)
open Model
open Util
open M_adapt

(* whether the parked diffs survive the hand-over (the code before the repair F9) *)
let keep_ready = false

type sim0 = { s : sim; hand : unit -> nat list }

let mk_sim0 (type st) ~(batched : bool) ~(static_param : bool) ~(st0 : st)
    ~(on_diff : st -> nat diff -> (st * nat diff list) outcome)
    ~(on_param : st -> nat -> st * nat diff list option)
    ~(into_parts : st -> nat list) : sim0 =
  let iend = ref false and pend = ref static_param in
  let qp = ref [] in
  if batched then begin
    let st = ref st0 and qi = ref [] in
    { s = { poll = (fun () ->
          match poll_b on_diff on_param true !st !qi !iend !qp !pend with
          | Panic -> raise Model_panic
          | Ok ((((st', qi'), qp'), r), tr) ->
            st := st'; qi := qi'; qp := qp';
            (match r with
             | Pending -> { text = "P"; diffs = []; kind = 'P'; tr }
             | Ready None -> { text = "N"; diffs = []; kind = 'N'; tr }
             | Ready (Some ds) -> { text = String.concat "|" (List.map show_diff ds); diffs = ds; kind = 'R'; tr }));
          push_inner = (fun ds -> qi := !qi @ [ds]);
          push_param = (fun n -> qp := !qp @ [i2n n]);
          end_inner = (fun () -> iend := true);
          end_param = (fun () -> pend := true);
          inner_ended = (fun () -> !iend);
          has_param = true };
      hand = (fun () -> into_parts !st) }
  end else begin
    let us = ref { u_st = st0; u_ready = [] } and qi = ref [] in
    { s = { poll = (fun () ->
          match poll_u on_diff on_param true !us !qi !iend !qp !pend with
          | Panic -> raise Model_panic
          | Ok ((((us', qi'), qp'), r), tr) ->
            us := us'; qi := qi'; qp := qp';
            (match r with
             | Pending -> { text = "P"; diffs = []; kind = 'P'; tr }
             | Ready None -> { text = "N"; diffs = []; kind = 'N'; tr }
             | Ready (Some d) -> { text = show_diff d; diffs = [d]; kind = 'R'; tr }));
          push_inner = (fun ds -> qi := !qi @ ds);
          push_param = (fun n -> qp := !qp @ [i2n n]);
          end_inner = (fun () -> iend := true);
          end_param = (fun () -> pend := true);
          inner_ended = (fun () -> !iend);
          has_param = true };
      hand = (fun () ->
          let (us', vals) = hand_over_u keep_ready into_parts !us in
          us := us'; vals) }
  end

let build0 (st : M_chain.stage) (batched : bool) (vs : nat list) : nat list option * sim0 =
  let static_param = (st.M_chain.flav = "static") in
  let arg () = i2n (int_of_string st.M_chain.arg) in
  match st.M_chain.kind with
  | "head" ->
    let iv, st0 = (match st.M_chain.flav with
        | "dynamic" -> (None, { h_buf = vs; h_limit = O })
        | _ -> let (v, s) = head_init (arg ()) vs in (Some v, s)) in
    (iv, mk_sim0 ~batched ~static_param ~st0 ~on_diff:head_on_diff ~on_param:head_update_limit
       ~into_parts:head_into_parts)
  | "tail" ->
    let iv, st0 = (match st.M_chain.flav with
        | "dynamic" -> (None, { t_buf = vs; t_limit = O })
        | _ -> let (v, s) = tail_init (arg ()) vs in (Some v, s)) in
    (iv, mk_sim0 ~batched ~static_param ~st0 ~on_diff:tail_on_diff
       ~on_param:(fun st n ->
           if tail_shrink_over_len st.t_limit n (length st.t_buf) then M_chain.add_class "tail_shrink_over_len";
           tail_update_limit st n)
       ~into_parts:tail_into_parts)
  | "skip" ->
    let iv, st0 = (match st.M_chain.flav with
        | "dynamic" -> (None, skip_init_dynamic vs)
        | _ -> let (v, s) = skip_init (arg ()) vs in (Some v, s)) in
    (iv, mk_sim0 ~batched ~static_param ~st0 ~on_diff:skip_on_diff ~on_param:skip_update_count
       ~into_parts:skip_into_parts)
  | k -> failwith ("stage 0 must be head/tail/skip: " ^ k)

let run_case (case : string) : string =
  let head, evs =
    match Str.bounded_split_delim (Str.regexp_string " :: ") case 2 with
    | [h; e] -> (h, e) | [h] -> (h, "") | _ -> failwith "bad case" in
  let parts = Str.split (Str.regexp_string " | ") head in
  let first = words (List.hd parts) in
  let batched = (List.nth first 0 = "b") in
  let vs = parse_vec (List.nth first 1) in
  let stages = Array.of_list (List.map (fun s ->
      match String.split_on_char ':' (String.trim s) with
      | k :: f :: a :: _ -> { M_chain.kind = k; flav = f; arg = a; by_self = false }
      | _ -> failwith ("bad stage " ^ s)) (List.tl parts)) in
  M_chain.classes := [];
  let events = List.filter (fun s -> s <> "") (List.map String.trim (Str.split (Str.regexp_string " ; ") evs)) in
  let params = Array.map (fun (st : M_chain.stage) ->
      if st.flav = "static" || st.flav = "dyninit" then Some (int_of_string st.arg) else None) stages in
  let buf = Buffer.create 256 in
  let finish () =
    List.iter (fun c -> Buffer.add_string buf (" class=" ^ c)) (List.rev !M_chain.classes);
    Buffer.contents buf in
  match (try Some (build0 stages.(0) batched vs) with Model_panic -> None) with
  | None -> Buffer.add_string buf "init=PANIC"; finish ()
  | Some (iv, sim0) ->
    let sim1 : sim option ref = ref None in
    let view = ref (match iv with Some v -> v | None -> []) in
    let app_ok = ref true in
    Buffer.add_string buf ("init=" ^ (match iv with Some v -> show_vec v | None -> "-"));
    let src = ref vs and src_ok = ref true in
    let expected handed =
      let v0 = M_chain.stage_view stages.(0) params.(0) !src in
      if handed then M_chain.stage_view stages.(1) params.(1) v0 else v0 in
    let apply_items (items : nat diff list list) =
      List.iter (fun ds -> List.iter (fun d ->
          if not (ok_in d !view) then app_ok := false;
          (match apply d !view with Some v -> view := v | None -> app_ok := false)) ds) items in
    let show_item ds = String.concat "|" (List.map show_diff ds) in
    let stop = ref false in
    List.iter (fun ev ->
        if not !stop then begin
          Buffer.add_string buf " ; ";
          if ev = "p" || ev = "D" then begin
            (try
               let items = ref [] and fin = ref 'P' in
               (match !sim1 with
                | None ->
                  (* stage 0 alone *)
                  let continue = ref true and cnt = ref 0 in
                  while !continue do
                    incr cnt;
                    let p = sim0.s.poll () in
                    (match p.kind with
                     | 'R' -> items := p.diffs :: !items; fin := 'R'
                     | c -> fin := c; continue := false);
                    if ev = "p" || !cnt > 10000 then continue := false
                  done
                | Some s1 ->
                  if ev = "p" then failwith "single polls after the hand-over are not modelled";
                  (* stage 0 to quiescence, everything handed on, then stage 1 to quiescence *)
                  let continue = ref true and cnt = ref 0 in
                  while !continue do
                    incr cnt;
                    let p = sim0.s.poll () in
                    (match p.kind with
                     | 'R' -> s1.push_inner p.diffs
                     | 'N' -> s1.end_inner (); continue := false
                     | _ -> continue := false);
                    if !cnt > 10000 then continue := false
                  done;
                  let continue = ref true and cnt = ref 0 in
                  while !continue do
                    incr cnt;
                    let p = s1.poll () in
                    (match p.kind with
                     | 'R' -> items := p.diffs :: !items; fin := 'R'
                     | c -> fin := c; continue := false);
                    if !cnt > 10000 then continue := false
                  done);
               let items = List.rev !items in
               apply_items items;
               Buffer.add_string buf
                 ((if items = [] then "" else String.concat "+" (List.map show_item items) ^ "+") ^ String.make 1 !fin);
               if ev = "D" then begin
                 let handed = (!sim1 <> None) in
                 let ok = (not !src_ok) || (!view = expected handed) in
                 Buffer.add_string buf (Printf.sprintf " v=%s ok:stage%d=%s ok:app=%s" (show_vec !view)
                                          (if handed then 1 else 0) (b2s ok) (b2s ((not !src_ok) || !app_ok)))
               end
             with Model_panic ->
               Buffer.add_string buf ("PANIC" ^ (if !src_ok then " ok:nopanic=0" else ""));
               stop := true)
          end else if ev = "H" then begin
            if !sim1 <> None then Buffer.add_string buf "."
            else
              (try
                 let vals = sim0.hand () in
                 let (iv1, _, s1) = M_chain.build_stage stages.(1) batched vals in
                 sim1 := Some s1;
                 Buffer.add_string buf (Printf.sprintf "H=%s/%s" (show_vec vals)
                                          (match iv1 with Some v -> show_vec v | None -> "-"));
                 view := (match iv1 with Some v -> v | None -> []);
                 app_ok := true
               with Model_panic ->
                 Buffer.add_string buf ("H=PANIC" ^ (if !src_ok then " ok:nopanic=0" else ""));
                 stop := true)
          end else if starts_with "d:" ev then begin
            let d = parse_diff (after "d:" ev) in
            if not (ok_in d !src) then src_ok := false;
            (match apply d !src with Some s -> src := s | None -> src_ok := false);
            sim0.s.push_inner [d]; Buffer.add_string buf "."
          end else if starts_with "b:" ev then begin
            let ds = List.map parse_diff (String.split_on_char '|' (after "b:" ev)) in
            List.iter (fun d ->
                if not (ok_in d !src) then src_ok := false;
                match apply d !src with Some s -> src := s | None -> src_ok := false) ds;
            sim0.s.push_inner ds; Buffer.add_string buf "."
          end else if ev.[0] = 'l' then begin
            (match String.split_on_char ':' (String.sub ev 1 (String.length ev - 1)) with
             | [k; v] ->
               let k = int_of_string k and v = int_of_string v in
               params.(k) <- Some v;
               if k = 0 then sim0.s.push_param v
               else (match !sim1 with Some s1 -> s1.push_param v | None -> failwith "l1 before H")
             | _ -> failwith ev);
            Buffer.add_string buf "."
          end else if ev = "es" then (sim0.s.end_inner (); Buffer.add_string buf ".")
          else failwith ("bad event " ^ ev)
        end) events;
    finish ()

let run_line (line : string) = print_string (run_case line); print_newline ()
