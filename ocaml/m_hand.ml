(* m_hand.ml — mode hand (C12): the by-itself hand-over of Head / Tail / Skip at an arbitrary moment
   (after polls, limit changes, with a diff of the current burst still parked in the ready buffer),
   possibly several times in a row (adapter over adapter over adapter).
   Mirrors /verif/harness/src/m_hand.rs.
   Stacks are evaluated LAZILY, exactly like the real streams: every level is the extracted generic
   loop (ChainPoll.gpoll for the unbatched flavour, ChainPollB.gpoll_b for the batched one) over the
   poll function of the level below (the source queue at the bottom), so single polls at any level
   and hand-overs in the middle of a burst of any level are modelled.
   The hand-over itself is Chain.hand_over_u. *)
open Model
open Util
open M_adapt

(* whether the parked diffs survive the hand-over (true = the code before the repair F9, cc06c71) *)
let keep_ready = false

let fuel = i2n 10000

(* ------------------------------------------------------------------ stages, packed *)
type 'r stage_k = {
  k : 'st. st0:'st -> on_diff:('st -> nat diff -> ('st * nat diff list) outcome)
    -> on_param:('st -> nat -> 'st * nat diff list option) -> has_param:bool
    -> into_parts:('st -> nat list) option -> iv:nat list option -> 'r
}

let with_stage (st : M_chain.stage) (vs : nat list) (f : 'r stage_k) : 'r =
  let arg () = i2n (int_of_string st.M_chain.arg) in
  match st.M_chain.kind with
  | "head" ->
    let iv, st0 = (match st.M_chain.flav with
        | "dynamic" -> (None, { h_buf = vs; h_limit = O })
        | _ -> let (v, s) = head_init (arg ()) vs in (Some v, s)) in
    f.k ~st0 ~on_diff:head_on_diff ~on_param:head_update_limit ~has_param:true
      ~into_parts:(Some head_into_parts) ~iv
  | "tail" ->
    let iv, st0 = (match st.M_chain.flav with
        | "dynamic" -> (None, { t_buf = vs; t_limit = O })
        | _ -> let (v, s) = tail_init (arg ()) vs in (Some v, s)) in
    f.k ~st0 ~on_diff:tail_on_diff
      ~on_param:(fun st n ->
          if tail_shrink_over_len st.t_limit n (length st.t_buf) then M_chain.add_class "tail_shrink_over_len";
          tail_update_limit st n)
      ~has_param:true ~into_parts:(Some tail_into_parts) ~iv
  | "skip" ->
    let iv, st0 = (match st.M_chain.flav with
        | "dynamic" -> (None, skip_init_dynamic vs)
        | _ -> let (v, s) = skip_init (arg ()) vs in (Some v, s)) in
    f.k ~st0 ~on_diff:skip_on_diff ~on_param:skip_update_count ~has_param:true
      ~into_parts:(Some skip_into_parts) ~iv
  | "filter" | "filter_map" ->
    let mask = int_of_string st.M_chain.arg in
    let fm = if st.M_chain.kind = "filter" then fm_filter mask else fm_filter_map mask in
    let (v, st0) = filter_init fm vs in
    f.k ~st0 ~on_diff:(filter_on_diff fm) ~on_param:(fun s _ -> (s, None)) ~has_param:false
      ~into_parts:None ~iv:(Some v)
  | "sort" ->
    (* distinct values in cases with a sort stage: the unstable sort's answer is the unique order *)
    let cmp = cmp_of "sort" in
    let (v, st0) = sort_init (insertion_sort cmp (enumerate_from O vs)) in
    let on_diff st d =
      let ans = (match sort_oracle_input st d with None -> [] | Some input -> insertion_sort cmp input) in
      if sort_truncate_misaligned st d then M_chain.add_class "sort_truncate_misaligned";
      sort_on_diff cmp st d ans in
    f.k ~st0 ~on_diff ~on_param:(fun s _ -> (s, None)) ~has_param:false ~into_parts:None ~iv:(Some v)
  | k -> failwith ("bad stage " ^ k)

(* ------------------------------------------------------------------ lazy levels (unbatched) *)
type level = {
  lpoll : unit -> nat diff list option poll; (* one item = [d] (unbatched) or a batch; raises Model_panic *)
  lhand : (unit -> nat list) option;
  lpush_param : int -> unit;
}

let one = function Pending -> Pending | Ready None -> Ready None | Ready (Some d) -> Ready (Some [d])

let lazy_level_b (st : M_chain.stage) (vs : nat list) (lower : unit -> nat diff list option poll) : nat list option * level =
  with_stage st vs { k = fun ~st0 ~on_diff ~on_param ~has_param ~into_parts ~iv ->
      let stt = ref st0 in
      let qp = ref [] in
      let pend = (st.M_chain.flav = "static") in
      let inner () = Ok (((), lower ()), []) in
      (iv,
       { lpoll = (fun () ->
             match gpoll_b on_diff on_param has_param O inner fuel !stt () !qp pend with
             | Panic -> raise Model_panic
             | Ok ((((st', ()), qp'), r), _) -> stt := st'; qp := qp'; r);
         lhand = (match into_parts with
             | None -> None
             | Some ip -> Some (fun () -> ip !stt));   (* no ready buffer in the batched flavour *)
         lpush_param = (fun n -> qp := !qp @ [i2n n]) }) }

let lazy_level (st : M_chain.stage) (vs : nat list) (lower : unit -> nat diff list option poll) : nat list option * level =
  with_stage st vs { k = fun ~st0 ~on_diff ~on_param ~has_param ~into_parts ~iv ->
      let us = ref { u_st = st0; u_ready = [] } in
      let qp = ref [] in
      let pend = (st.M_chain.flav = "static") in
      let inner () =
        (match lower () with
         | Pending -> Ok (((), Pending), [])
         | Ready None -> Ok (((), Ready None), [])
         | Ready (Some [d]) -> Ok (((), Ready (Some d)), [])
         | Ready (Some _) -> failwith "unbatched level over a batch") in
      (iv,
       { lpoll = (fun () ->
             match gpoll on_diff on_param has_param O inner fuel !us () !qp pend with
             | Panic -> raise Model_panic
             | Ok ((((us', ()), qp'), r), _) -> us := us'; qp := qp'; one r);
         lhand = (match into_parts with
             | None -> None
             | Some ip -> Some (fun () ->
                 let (us', vals) = hand_over_u keep_ready ip !us in
                 us := us'; vals));
         lpush_param = (fun n -> qp := !qp @ [i2n n]) }) }

(* ------------------------------------------------------------------ *)
let run_case (case : string) : string =
  let head, evs =
    match Str.bounded_split_delim (Str.regexp_string " :: ") case 2 with
    | [h; e] -> (h, e) | [h] -> (h, "") | _ -> failwith "bad case" in
  let parts = Str.split (Str.regexp_string " | ") head in
  let first = words (List.hd parts) in
  let batched = (List.nth first 0 = "b") in
  let vs = parse_vec (List.nth first 1) in
  let stages = Array.of_list (List.map (fun s ->
      match String.split_on_char ':' (String.trim s) with
      | k :: f :: a :: _ -> { M_chain.kind = k; flav = f; arg = a; by_self = false }
      | _ -> failwith ("bad stage " ^ s)) (List.tl parts)) in
  let nst = Array.length stages in
  M_chain.classes := [];
  let events = List.filter (fun s -> s <> "") (List.map String.trim (Str.split (Str.regexp_string " ; ") evs)) in
  let params = Array.map (fun (st : M_chain.stage) ->
      if st.flav = "static" || st.flav = "dyninit" then Some (int_of_string st.arg) else None) stages in
  let buf = Buffer.create 256 in
  let finish () =
    List.iter (fun c -> Buffer.add_string buf (" class=" ^ c)) (List.rev !M_chain.classes);
    Buffer.contents buf in
  let src = ref vs and src_ok = ref true in
  let level = ref 0 in
  let view = ref [] and app_ok = ref true in
  let expected () =
    let below = ref !src in
    for k = 0 to !level do below := M_chain.stage_view stages.(k) params.(k) !below done;
    !below in
  let apply_items (items : nat diff list list) =
    List.iter (fun ds -> List.iter (fun d ->
        if not (ok_in d !view) then app_ok := false;
        (match apply d !view with Some v -> view := v | None -> app_ok := false)) ds) items in
  let show_item ds = String.concat "|" (List.map show_diff ds) in
  let src_event ev =
    let ds = if starts_with "d:" ev then [parse_diff (after "d:" ev)]
      else List.map parse_diff (String.split_on_char '|' (after "b:" ev)) in
    List.iter (fun d ->
        if not (ok_in d !src) then src_ok := false;
        match apply d !src with Some s -> src := s | None -> src_ok := false) ds;
    ds in
  let drain_report items fin ev =
    apply_items items;
    Buffer.add_string buf
      ((if items = [] then "" else String.concat "+" (List.map show_item items) ^ "+") ^ String.make 1 fin);
    if ev = "D" then begin
      let ok = (not !src_ok) || (!view = expected ()) in
      Buffer.add_string buf (Printf.sprintf " v=%s ok:stage%d=%s ok:app=%s" (show_vec !view)
                               !level (b2s ok) (b2s ((not !src_ok) || !app_ok)))
    end in
  let stop = ref false in
  let panic_out what =
    Buffer.add_string buf (what ^ (if !src_ok then " ok:nopanic=0" else "")); stop := true in
    (* ---------------- lazy stack; the source queue holds items: [d] (unbatched) or whole batches ---------------- *)
    let q : (nat diff list list * bool) ref = ref ([], false) in
    let source () =
      (match queue_inner_b !q with
       | Ok ((q', r), _) -> q := q'; r
       | Panic -> raise Model_panic) in
    let mk_level = if batched then lazy_level_b else lazy_level in
    match (try Some (mk_level stages.(0) vs source) with Model_panic -> None) with
    | None -> Buffer.add_string buf "init=PANIC"; finish ()
    | Some (iv, l0) ->
      let levels = ref [| l0 |] in
      let top () = !levels.(!level) in
      view := (match iv with Some v -> v | None -> []);
      Buffer.add_string buf ("init=" ^ (match iv with Some v -> show_vec v | None -> "-"));
      List.iter (fun ev ->
          if not !stop then begin
            Buffer.add_string buf " ; ";
            if ev = "p" || ev = "D" then begin
              (try
                 let items = ref [] and fin = ref 'P' and continue = ref true and cnt = ref 0 in
                 while !continue do
                   incr cnt;
                   (match (top ()).lpoll () with
                    | Ready (Some ds) -> items := ds :: !items; fin := 'R'
                    | Ready None -> fin := 'N'; continue := false
                    | Pending -> fin := 'P'; continue := false);
                   if ev = "p" || !cnt > 10000 then continue := false
                 done;
                 drain_report (List.rev !items) !fin ev
               with Model_panic -> panic_out "PANIC")
            end else if ev = "H" then begin
              match (top ()).lhand with
              | Some hand when !level + 1 < nst ->
                (try
                   let vals = hand () in
                   let lower = (top ()).lpoll in
                   let (iv1, l1) = mk_level stages.(!level + 1) vals lower in
                   levels := Array.append !levels [| l1 |];
                   incr level;
                   Buffer.add_string buf (Printf.sprintf "H=%s/%s" (show_vec vals)
                                            (match iv1 with Some v -> show_vec v | None -> "-"));
                   view := (match iv1 with Some v -> v | None -> []);
                   app_ok := true
                 with Model_panic -> panic_out "H=PANIC")
              | _ -> Buffer.add_string buf "."
            end else if starts_with "d:" ev || starts_with "b:" ev then begin
              let ds = src_event ev in
              q := (fst !q @ (if batched then [ds] else List.map (fun d -> [d]) ds), snd !q); Buffer.add_string buf "."
            end else if ev.[0] = 'l' then begin
              (match String.split_on_char ':' (String.sub ev 1 (String.length ev - 1)) with
               | [k; v] ->
                 let k = int_of_string k and v = int_of_string v in
                 params.(k) <- Some v;
                 if k < Array.length !levels then !levels.(k).lpush_param v
                 else failwith "limit of a stage that is not attached yet"
               | _ -> failwith ev);
              Buffer.add_string buf "."
            end else if ev = "es" then (q := (fst !q, true); Buffer.add_string buf ".")
            else failwith ("bad event " ^ ev)
          end) events;
      finish ()

let run_line (line : string) = print_string (run_case line); print_newline ()
