(* m_conc.ml — mode conc: forced thread schedules over the pause points (C02 C03 C04).
   case: `clones=<n> subs=<n> pend=<n> weaks=<n> fixed=<0|1> || <op> | <op> ... || <t> <t> ...`
   ops: poll(k) set(v) get drop upgrade clone.   Mirrors /verif/harness/src/m_conc.rs. *)
open Model
open Util

let i2n = nat_of_int
let n2i = int_of_nat

let parse_cop (s : string) : nat cop =
  let name, a = split_op_ints s in
  match name with
  | "poll" -> CPoll (i2n (List.hd a))
  | "set" -> CSet (i2n (List.hd a))
  | "get" -> CGet
  | "drop" -> CDrop
  | "upgrade" -> CUpgrade
  | "clone" -> CClone
  | _ -> failwith ("bad cop " ^ s)

let pause_name (p : nat pc) : string =
  match p with
  | PStart -> "start"
  | PPollValueLocked -> "poll_value_locked"
  | PPollMetaLocked -> "poll_meta_locked"
  | PPollDecided _ -> "poll_decided"
  | PSetLocked -> "set_locked"
  | PDropDecided _ -> "drop_decided"
  | PCloseMetaLocked -> "close_meta_locked"
  | PUpgradeBetween -> "upgrade_between"
  | PDone _ -> "done"

let show_poll = function
  | Pending -> "P" | Ready None -> "N" | Ready (Some v) -> Printf.sprintf "R:%d" (n2i v)

let kv (s : string) : (string * int) list =
  List.map (fun w -> match String.split_on_char '=' w with [k; v] -> (k, int_of_string v) | _ -> failwith w) (words s)

let run_case (case : string) : string =
  let parts = Str.split (Str.regexp_string " || ") case in
  let setup = kv (List.nth parts 0) in
  let g k = List.assoc k setup in
  let clones = g "clones" and nsubs = g "subs" and pend = g "pend" and weaks = g "weaks" in
  let fixed = (g "fixed" = 1) in
  let ops = List.map (fun s -> parse_cop (String.trim s)) (Str.split (Str.regexp_string " | ") (List.nth parts 1)) in
  let sched = if List.length parts > 2 then List.map int_of_string (words (List.nth parts 2)) else [] in
  let nthreads = List.length ops in
  (* initial state: value 0, version 1; subscribers observed 1; the first [pend] are registered *)
  let s0 = { c_val = O; c_ver = i2n 1; c_wakers = List.init pend (fun k -> i2n k);
             c_readers = O; c_writer = false; c_meta = false;
             c_strong = i2n (clones + nsubs); c_clones = i2n clones;
             c_subs = List.init nsubs (fun _ -> i2n 1);
             c_threads = List.map (fun op -> { t_op = op; t_pc = PStart; t_waiting = false }) ops;
             c_woken = []; c_panicked = [] } in
  ignore weaks;
  let s = ref s0 in
  (* wake EVENTS per subscriber: a step that wakes appends the drained waker list to c_woken; a
     subscriber occurring several times in one such chunk (registered twice) is one event *)
  let events = Array.make (max nsubs 1) 0 in
  let note_events (before : nat list) (after : nat list) =
    let nb = List.length before in
    let chunk = List.sort_uniq compare (List.map n2i (List.filteri (fun i _ -> i >= nb) after)) in
    List.iter (fun k -> if k < nsubs then events.(k) <- events.(k) + 1) chunk in
  let buf = Buffer.create 256 in
  let ambiguous = ref false in
  let thread t = List.nth !s.c_threads t in
  let status_of t = pause_name (thread t).t_pc in
  let step_text t =
    (* ambiguity: two blocked threads competing for an exclusive acquisition *)
    let (s', code), unb = release fixed !s (i2n t) in
    note_events !s.c_woken s'.c_woken;
    (* detect ambiguity: more than one waiting thread enabled in the pre-wake state where not all are readers *)
    (match cstep fixed !s (i2n t) with
     | Advanced sa ->
       let enabled = List.filter (fun u ->
           let th = List.nth sa.c_threads u in
           th.t_waiting && (match cstep fixed sa (i2n u) with Advanced _ -> true | _ -> false))
           (List.init nthreads (fun u -> u)) in
       let is_reader u = (match (List.nth sa.c_threads u).t_op, (List.nth sa.c_threads u).t_pc with
           | CPoll _, PStart | CGet, PStart -> true | _ -> false) in
       if List.length enabled >= 2 && not (List.for_all is_reader enabled) then ambiguous := true
     | _ -> ());
    s := s';
    let base = (match n2i code with
        | 0 -> Printf.sprintf "%d@%s" t (status_of t)
        | 1 -> Printf.sprintf "%d:blocked" t
        | _ -> Printf.sprintf "%d:fin" t) in
    base ^ String.concat "" (List.map (fun u -> Printf.sprintf "+%d@%s" (n2i u) (status_of (n2i u))) unb) in
  Buffer.add_string buf "sched=";
  Buffer.add_string buf (String.concat "," (List.map step_text sched));
  (* finish phase: release every unfinished thread in id order until all are done *)
  let rounds = ref 0 in
  let fin = Buffer.create 64 in
  while List.exists (fun th -> not (is_done th)) !s.c_threads && !rounds < 50 do
    incr rounds;
    List.iteri (fun t _ ->
        let th = List.nth !s.c_threads t in
        if not (is_done th) && not th.t_waiting then
          Buffer.add_string fin ((if Buffer.length fin > 0 then "," else "") ^ step_text t)) !s.c_threads
  done;
  Buffer.add_string buf (" fin=" ^ Buffer.contents fin);
  if !ambiguous then "AMBIGUOUS"
  else begin
    (* thread results *)
    List.iteri (fun t th ->
        let r = (match th.t_pc with
            | PDone (Some r, _, _) -> show_poll r
            | PDone (None, Some v, _) -> Printf.sprintf "=%d" (n2i v)
            | PDone (None, None, Some b) -> if b then "true" else "false"
            | PDone (None, None, None) -> "()"
            | _ -> "STUCK") in
        Buffer.add_string buf (Printf.sprintf " r%d=%s" t r)) !s.c_threads;
    if !s.c_panicked <> [] then
      Buffer.add_string buf (" panicked=" ^ String.concat "," (List.map (fun t -> string_of_int (n2i t)) !s.c_panicked));
    (* ---- final sequential phase on the quiescent state ---- *)
    let ver = ref (n2i !s.c_ver) and value = ref (n2i !s.c_val) in
    let subs = Array.of_list (List.map n2i !s.c_subs) in
    let wakers = ref (List.map n2i !s.c_wakers) in
    let woken = ref (List.map n2i !s.c_woken) in
    let owners = ref (n2i !s.c_clones) in
    let poll k = if !ver = 0 then "N" else if subs.(k) < !ver then (subs.(k) <- !ver; Printf.sprintf "R:%d" !value) else (wakers := !wakers @ [k]; "P") in
    let f1 = List.init nsubs (fun k -> poll k) in
    Buffer.add_string buf (" f1=" ^ String.concat "," f1);
    let notearly = (!owners = 0) || not (List.mem "N" f1) in
    (* drop every remaining owner, one after the other *)
    while !owners > 0 do
      if !owners = 1 then begin
        ver := 0;
        List.iter (fun k -> if k < nsubs then events.(k) <- events.(k) + 1) (List.sort_uniq compare !wakers);
        woken := !woken @ !wakers; wakers := [] end;
      decr owners
    done;
    let f2 = List.init nsubs (fun k -> poll k) in
    Buffer.add_string buf (" f2=" ^ String.concat "," f2);
    let ended = List.for_all (fun x -> x = "N") f2 in
    (* wake counts of the initially pending subscribers *)
    let cnt k = List.length (List.filter (fun x -> x = k) !woken) in
    Buffer.add_string buf (" wakes=" ^ String.concat "," (List.init nsubs (fun k -> string_of_int events.(k))));
    let wake_ok = List.for_all (fun k -> cnt k >= 1) (List.init pend (fun k -> k)) in
    (* C04: the previous values returned by the sets plus the final value = initial value plus all written *)
    let written = List.filter_map (fun th -> match th.t_op with CSet v -> Some (n2i v) | _ -> None) !s.c_threads in
    let returned = List.filter_map (fun th -> match th.t_op, th.t_pc with
        | CSet _, PDone (None, Some v, _) -> Some (n2i v) | _ -> None) !s.c_threads in
    let chain_ok = (List.sort compare (0 :: written) = List.sort compare (!value :: returned)) in
    Buffer.add_string buf (Printf.sprintf " ok:notearly=%s ok:ended=%s ok:wake=%s ok:setchain=%s ok:nopanic=%s"
                             (b2s notearly) (b2s ended) (b2s wake_ok) (b2s chain_ok) (b2s (!s.c_panicked = [])));
    Buffer.contents buf
  end

let run_line (line : string) = print_string (run_case line); print_newline ()
