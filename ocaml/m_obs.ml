(* m_obs.ml — mode obs: the observable value at operation granularity (C01 C02 C03 C19).
   Mirrors /verif/harness/src/m_obs.rs.  Values are naturals v = e*10 + h: equality on e, hash on h. *)
open Model
open Util

let i2n = nat_of_int
let n2i = int_of_nat
let veq (a : nat) (b : nat) = (n2i a / 10 = n2i b / 10)
let heq (a : nat) (b : nat) = (n2i a mod 10 = n2i b mod 10)
let vdefault = O

let split_op (s : string) : string * int list =
  match String.index_opt s '(' with
  | Some i ->
    let inner = String.sub s (i + 1) (String.length s - i - 2) in
    (String.sub s 0 i, List.map int_of_string (split_on ',' inner))
  | None -> (s, [])

let parse_op (name : string) (a : int list) =
  let a0 () = i2n (List.nth a 0) in
  match name with
  | "set" -> WSet (a0 ()) | "take" -> WTake | "update" -> WUpdate (a0 ())
  | "set_if_not_eq" -> WSetIfNotEq (a0 ()) | "set_if_hash_not_eq" -> WSetIfHashNotEq (a0 ())
  | "update_if" -> WUpdateIf (a0 (), List.nth a 1 = 1)
  | "get" -> WGet | "subscribe" -> WSubscribe | "subscribe_reset" -> WSubscribeReset
  | "poll" -> SPoll (a0 ()) | "next_now" -> SNextNow (a0 ()) | "sget" | "sread" -> SGet (a0 ())
  | "reset" -> SReset (a0 ()) | "sclone" -> SClone (a0 ()) | "sclone_reset" -> SCloneReset (a0 ())
  | "sdrop" -> SDrop (a0 ())
  | "clone" -> HClone | "drop_owner" -> HDropOwner | "downgrade" -> HDowngrade | "upgrade" -> HUpgrade
  | "drop_weak" -> HDropWeak | "clone_weak" -> HCloneWeak | "into_shared" -> HIntoShared | "counts" -> HCounts
  | _ -> failwith ("bad op " ^ name)

let show_out (name : string) (r : nat out) : string =
  match r with
  | OUnit -> "()"
  | OVal v -> Printf.sprintf "=%d" (n2i v)
  | OOpt None -> "None"
  | OOpt (Some v) -> Printf.sprintf "Some(%d)" (n2i v)
  | OPollR Pending -> "P"
  | OPollR (Ready None) -> "N"
  | OPollR (Ready (Some v)) -> Printf.sprintf "R:%d" (n2i v)
  | OSubId k -> Printf.sprintf "#%d" (n2i k)
  | OBool b -> if b then "true" else "false"
  | OCounts (a, b, c, d) -> ignore name; Printf.sprintf "c%d/%d/%d/%d" (n2i a) (n2i b) (n2i c) (n2i d)

let show_wakes (w : nat list) : string =
  (* counts per waker id, ascending *)
  let tbl = Hashtbl.create 8 in
  List.iter (fun k -> let k = n2i k in Hashtbl.replace tbl k (1 + (try Hashtbl.find tbl k with Not_found -> 0))) w;
  let ks = List.sort compare (Hashtbl.fold (fun k _ acc -> k :: acc) tbl []) in
  (* as a set: how often a waker is woken is not part of the property *)
  if ks = [] then "" else " w" ^ String.concat "," (List.map (fun k -> Printf.sprintf "%d" k) ks)

let run_case (case : string) : string =
  let head, evs =
    match Str.bounded_split_delim (Str.regexp_string " :: ") case 2 with
    | [h; e] -> (String.trim h, e) | [h] -> (String.trim h, "") | _ -> failwith "bad case" in
  let ops = List.filter (fun s -> s <> "") (List.map String.trim (Str.split (Str.regexp_string " ; ") evs)) in
  let k0 = if head = "unique" || head = "unique_async" then Unique else Shared in
  let o = ref (obs_new k0 O) in
  let s = ref (s_new k0 O) in
  let is_async = (String.length head > 6 && String.sub head (String.length head - 6) 6 = "_async") in
  let classes = ref [] in
  let registered : (int, bool) Hashtbl.t = Hashtbl.create 8 in
  (* waker identities (ObsWaker.wstep, sync flavour): every subscriber is polled with its current
     waker object; identities are numbered in order of creation - one per new subscriber, and a fresh
     one whenever a poll sits on every fourth call position (as the harness does) *)
  let w_ids = ref [] in
  let next_wid = ref 0 in
  let cur_wid : (int, int) Hashtbl.t = Hashtbl.create 8 in
  let turn = ref 0 in
  let res = List.map (fun opt ->
      incr turn;
      let name, a = split_op opt in
      let x = parse_op name a in
      let expect = sstep veq heq vdefault !s x in
      (match expect with Some (s', _) -> s := s' | None -> ());
      if is_async && async_subscriber_double_count !o x && not (List.mem "async_subscriber_double_count" !classes) then
        classes := "async_subscriber_double_count" :: !classes;
      (* the waker this call is made with *)
      let wid = (match x with
          | SPoll k when not is_async ->
            let k = n2i k in
            (* only a poll that is possible is made at all (the harness skips the others) *)
            let possible = (match step veq heq vdefault !o x with Panic -> false | Ok _ -> true) in
            if !turn mod 4 = 3 && Hashtbl.mem cur_wid k && possible then begin
              Hashtbl.replace cur_wid k !next_wid; incr next_wid end;
            (try Hashtbl.find cur_wid k with Not_found -> 0)
          | _ -> 0) in
      let woken_objs = ref None in
      let stepped =
        if is_async then astep veq heq vdefault !o x
        else (match wstep veq heq vdefault { w_obs = !o; w_ids = !w_ids } x (i2n wid) with
            | Panic -> Panic
            | Ok ((s', r), wo) ->
              w_ids := s'.w_ids;
              woken_objs := Some wo;
              (* the plain woken list of Obs.step, for the bookkeeping below *)
              (match step veq heq vdefault !o x with
               | Ok ((_, _), w) -> Ok ((s'.w_obs, r), w)
               | Panic -> Panic)) in
      match stepped with
      | Panic -> "SKIP" ^ (if expect <> None then " ok:spec=0" else "")
      | Ok ((o', r), w) ->
        let ver_changed = (o'.ver <> !o.ver) in
        o := o';
        (* a new subscriber gets its own waker object *)
        (match r with
         | OSubId k when not is_async -> Hashtbl.replace cur_wid (n2i k) !next_wid; incr next_wid
         | _ -> ());
        let text = show_out name r in
        let before = Hashtbl.copy registered in
        List.iter (fun k -> Hashtbl.replace registered (n2i k) false) w;
        (match r, x with OPollR Pending, SPoll k -> Hashtbl.replace registered (n2i k) true | _ -> ());
        let spec_bad = (match expect with Some (_, r') -> show_out name r' <> text | None -> true) in
        let wake_bad = ver_changed &&
                       Hashtbl.fold (fun k was acc -> acc || (was && (try Hashtbl.find registered k with Not_found -> false))) before false in
        let expect_text = (match expect with Some (_, r') -> show_out name r' | None -> "") in
        let counts_bad = spec_bad && name = "counts" in
        let end_bad = spec_bad && (name = "upgrade" || (name = "poll" && (expect_text = "N" || text = "N"))) in
        let wakes_text = (match !woken_objs with
            | Some wo when wo <> [] ->
              (* per woken subscriber, the LAST of its entries (entries are in registration order): the
                 waker object supplied to its latest Pending poll *)
              let tbl = Hashtbl.create 8 in
              List.iter (fun (k, i) -> Hashtbl.replace tbl (n2i k) (n2i i)) wo;
              let ks = List.sort compare (Hashtbl.fold (fun k _ acc -> k :: acc) tbl []) in
              " w" ^ String.concat "," (List.map (fun k -> Printf.sprintf "%d:%d" k (Hashtbl.find tbl k)) ks)
            | Some _ -> ""
            | None -> show_wakes w) in
        text ^ wakes_text ^ (if spec_bad then " ok:spec=0" else "") ^ (if counts_bad then " ok:counts=0" else "")
        ^ (if end_bad then " ok:endspec=0" else "") ^ (if wake_bad then " ok:wake=0" else "")) ops in
  String.concat " ; " res ^ String.concat "" (List.map (fun c -> " class=" ^ c) !classes)

let run_line (line : string) = print_string (run_case line); print_newline ()
