(* m_adapt.ml — mode adapt: Head/Tail/Skip/Filter/FilterMap/Sort* over scripted inputs
   (C09 C10 C11 C13 C14 C15).  Mirrors /verif/harness/src/m_adapt.rs. *)
open Model
open Util

let i2n = nat_of_int
let n2i = int_of_nat

let letter_resp = function RItem -> "i" | RPending -> "p" | REnd -> "e"
let show_trace (tr : trace) =
  String.concat "" (List.map (fun (s, r) -> (match s with SrcParam -> "l" | SrcInner -> "s") ^ letter_resp r) tr)

let rec last_of src = function
  | [] -> None
  | (s, r) :: rest -> (match last_of src rest with Some x -> Some x | None -> if s = src then Some r else None)

(* result of one poll, already rendered; plus the emitted diffs *)
type pres = { text : string; diffs : nat diff list; kind : char (* 'R' 'P' 'N' *); tr : trace }

exception Model_panic

(* a simulated adapter instance: closures over mutable model state *)
type sim = {
  poll : unit -> pres;                 (* raises Model_panic *)
  push_inner : nat diff list -> unit;  (* one batch (batched) / several items (unbatched) *)
  push_param : int -> unit;
  end_inner : unit -> unit;
  end_param : unit -> unit;
  inner_ended : unit -> bool;
  has_param : bool;
}

let mk_sim (type st) ~(batched : bool) ~(has_param : bool) ~(static_param : bool)
    ~(st0 : st)
    ~(on_diff : st -> nat diff -> (st * nat diff list) outcome)
    ~(on_param : st -> nat -> st * nat diff list option) : sim =
  let iend = ref false and pend = ref static_param in
  let qp = ref [] in
  if batched then begin
    let st = ref st0 and qi = ref [] in
    { poll = (fun () ->
        match poll_b on_diff on_param has_param !st !qi !iend !qp !pend with
        | Panic -> raise Model_panic
        | Ok ((((st', qi'), qp'), r), tr) ->
          st := st'; qi := qi'; qp := qp';
          (match r with
           | Pending -> { text = "P"; diffs = []; kind = 'P'; tr }
           | Ready None -> { text = "N"; diffs = []; kind = 'N'; tr }
           | Ready (Some ds) -> { text = "R:" ^ String.concat "|" (List.map show_diff ds); diffs = ds; kind = 'R'; tr }));
      push_inner = (fun ds -> qi := !qi @ [ds]);
      push_param = (fun n -> qp := !qp @ [i2n n]);
      end_inner = (fun () -> iend := true);
      end_param = (fun () -> pend := true);
      inner_ended = (fun () -> !iend);
      has_param }
  end else begin
    let us = ref { u_st = st0; u_ready = [] } and qi = ref [] in
    { poll = (fun () ->
        match poll_u on_diff on_param has_param !us !qi !iend !qp !pend with
        | Panic -> raise Model_panic
        | Ok ((((us', qi'), qp'), r), tr) ->
          us := us'; qi := qi'; qp := qp';
          (match r with
           | Pending -> { text = "P"; diffs = []; kind = 'P'; tr }
           | Ready None -> { text = "N"; diffs = []; kind = 'N'; tr }
           | Ready (Some d) -> { text = "R:" ^ show_diff d; diffs = [d]; kind = 'R'; tr }));
      push_inner = (fun ds -> qi := !qi @ ds);
      push_param = (fun n -> qp := !qp @ [i2n n]);
      end_inner = (fun () -> iend := true);
      end_param = (fun () -> pend := true);
      inner_ended = (fun () -> !iend);
      has_param }
  end

(* ---- element functions shared with the Rust side ---- *)
let passes mask (x : nat) = (mask lsr (n2i x mod 8)) land 1 = 1
let fm_filter mask (x : nat) = if passes mask x then Some x else None
let fm_filter_map mask (x : nat) = if passes mask x then Some (i2n (n2i x + 100)) else None

let cmp_int a b : comparison = if a < b then Lt else if a > b then Gt else Eq
let cmp_of kind : nat -> nat -> comparison =
  match kind with
  | "sort" -> (fun a b -> cmp_int (n2i a) (n2i b))
  | "sort_by" -> (fun a b -> cmp_int (n2i b / 10) (n2i a / 10))
  | "sort_by_key" -> (fun a b -> cmp_int (n2i a / 10) (n2i b / 10))
  | _ -> failwith "cmp_of"

let rec is_sorted cmp = function
  | a :: (b :: _ as rest) -> (cmp a b <> Gt) && is_sorted cmp rest
  | _ -> true

let same_multiset (a : nat list) (b : nat list) =
  List.sort compare (List.map n2i a) = List.sort compare (List.map n2i b)

(* ---- sort oracle reconstruction from the implementation's outputs ---- *)
(* take entries (from [input]) in the order of [values]; None if not a permutation *)
let reorder (input : (nat * nat) list) (values : nat list) : (nat * nat) list option =
  let pool = ref input in
  try
    let ans = List.map (fun v ->
        let rec pick acc = function
          | [] -> raise Not_found
          | (u, x) :: rest -> if x = v then (pool := List.rev_append acc rest; (u, x)) else pick ((u, x) :: acc) rest in
        pick [] !pool) values in
    if !pool = [] then Some ans else None
  with Not_found -> None

let rec insertion_sort cmp = function
  | [] -> []
  | e :: rest ->
    let s = insertion_sort cmp rest in
    let rec ins = function
      | [] -> [e]
      | y :: ys -> if cmp (snd e) (snd y) = Gt then y :: ins ys else e :: y :: ys in
    ins s

let values_of_diff = function
  | Append vs | Reset vs -> vs
  | PushFront x | PushBack x | Insert (_, x) | SetAt (_, x) -> [x]
  | _ -> []

(* ---- parsing impl observation (for the sort oracle) ---- *)
let impl_outputs (obs : string) : nat diff list * nat list option =
  (* all diffs the implementation emitted, in order; and its initial values *)
  let init = ref None and outs = ref [] in
  List.iter (fun tok ->
      if starts_with "init=" tok then begin
        let v = after "init=" tok in
        if v <> "-" then init := Some (parse_vec v)
      end else
        List.iter (fun r ->
            if starts_with "R:" r then begin
              let body = after "R:" r in
              let body = (match String.index_opt body '@' with Some i -> String.sub body 0 i | None -> body) in
              List.iter (fun d -> outs := parse_diff d :: !outs) (String.split_on_char '|' body)
            end) (String.split_on_char '+' tok))
    (words obs);
  (List.rev !outs, !init)

(* ---- the run ---- *)
let run_case (case : string) (implobs : string option) : string =
  let head, evs =
    match Str.bounded_split_delim (Str.regexp_string " :: ") case 2 with
    | [h; e] -> (h, e) | [h] -> (h, "") | _ -> failwith "bad case" in
  let kind, flav, bat, arg, vec =
    match words head with [a; b; c; d; e] -> (a, b, c, d, e) | _ -> failwith ("bad head " ^ head) in
  let batched = (bat = "b") in
  let vs = parse_vec vec in
  let events = List.filter (fun s -> s <> "") (List.map String.trim (Str.split (Str.regexp_string " ; ") evs)) in
  let buf = Buffer.create 256 in
  let sortcontract = ref true in
  let classes = ref [] in
  let add_class c = if not (List.mem c !classes) then classes := c :: !classes in
  (* build sim + initial values + view oracle *)
  let param = ref (match flav with "dynamic" -> None | "-" -> None | _ -> Some (int_of_string arg)) in
  let (init_view : nat list option), (sim : sim), (oracle : nat list -> nat list -> bool) =
    match kind with
    | "head" ->
      let iv, st0 = (match flav with
          | "dynamic" -> (None, { h_buf = vs; h_limit = O })
          | _ -> let (v, s) = head_init (i2n (int_of_string arg)) vs in (Some v, s)) in
      (iv, mk_sim ~batched ~has_param:true ~static_param:(flav = "static") ~st0
         ~on_diff:head_on_diff ~on_param:head_update_limit,
       (fun src view -> view = firstn (i2n (match !param with Some l -> l | None -> 0)) src))
    | "tail" ->
      let iv, st0 = (match flav with
          | "dynamic" -> (None, { t_buf = vs; t_limit = O })
          | _ -> let (v, s) = tail_init (i2n (int_of_string arg)) vs in (Some v, s)) in
      (iv, mk_sim ~batched ~has_param:true ~static_param:(flav = "static") ~st0
         ~on_diff:tail_on_diff
         ~on_param:(fun st n ->
             if tail_shrink_over_len st.t_limit n (length st.t_buf) then add_class "tail_shrink_over_len";
             tail_update_limit st n),
       (fun src view ->
          let l = (match !param with Some l -> l | None -> 0) in
          let n = List.length src in
          view = skipn (i2n (max 0 (n - l))) src))
    | "skip" ->
      let iv, st0 = (match flav with
          | "dynamic" -> (None, skip_init_dynamic vs)
          | _ -> let (v, s) = skip_init (i2n (int_of_string arg)) vs in (Some v, s)) in
      (iv, mk_sim ~batched ~has_param:true ~static_param:(flav = "static") ~st0
         ~on_diff:skip_on_diff ~on_param:skip_update_count,
       (fun src view -> match !param with None -> view = [] | Some c -> view = skipn (i2n c) src))
    | "filter" | "filter_map" ->
      let mask = int_of_string arg in
      let f = if kind = "filter" then fm_filter mask else fm_filter_map mask in
      let (v, st0) = filter_init f vs in
      (Some v, mk_sim ~batched ~has_param:false ~static_param:true ~st0
         ~on_diff:(filter_on_diff f) ~on_param:(fun s _ -> (s, None)),
       (fun src view -> view = List.filter_map f src))
    | "sort" | "sort_by" | "sort_by_key" ->
      let cmp = cmp_of kind in
      let impl_outs, impl_init = (match implobs with Some o -> impl_outputs o | None -> ([], None)) in
      let cursor = ref impl_outs in
      let answer (input : (nat * nat) list) (vals : nat list option) : (nat * nat) list =
        let fallback () = insertion_sort cmp input in
        match vals with
        | None -> fallback ()
        | Some vals ->
          (match reorder input vals with
           | Some ans -> if is_sorted cmp (List.map snd ans) then ans else (sortcontract := false; fallback ())
           | None -> fallback ()) in
      let ans0 = answer (enumerate_from O vs) impl_init in
      let (v, st0) = sort_init ans0 in
      let on_diff st d =
        let ans = (match sort_oracle_input st d with
            | None -> []
            | Some input ->
              (* which values did the implementation emit for this diff? *)
              let want = List.length input in
              let vals =
                (match d with
                 | Reset _ -> (match !cursor with Reset vs' :: _ -> Some vs' | _ -> None)
                 | _ ->
                   let rec take acc n outs =
                     if n = 0 then Some (List.rev acc)
                     else match outs with
                       | [] -> None
                       | o :: rest ->
                         let v = values_of_diff o in
                         if v = [] then None else
                           let acc = List.rev_append v acc in
                           let n' = n - List.length v in
                           if n' < 0 then None else take acc n' rest in
                   take [] want !cursor) in
              answer input vals) in
        if sort_truncate_misaligned st d then add_class "sort_truncate_misaligned";
        let r = sort_on_diff cmp st d ans in
        (match r with
         | Ok (_, outs) ->
           let rec drop n l = if n = 0 then l else match l with [] -> [] | _ :: t -> drop (n - 1) t in
           cursor := drop (List.length outs) !cursor
         | Panic -> ());
        r in
      (Some v, mk_sim ~batched ~has_param:false ~static_param:true ~st0
         ~on_diff ~on_param:(fun s _ -> (s, None)),
       (fun src view -> is_sorted cmp view && same_multiset view src))
    | _ -> failwith ("bad kind " ^ kind) in
  Buffer.add_string buf ("init=" ^ (match init_view with Some v -> show_vec v | None -> "-"));
  let view = ref (match init_view with Some v -> v | None -> []) in
  let src = ref vs in
  let src_ok = ref true in
  let app_ok = ref true and bound_ok = ref true in
  let limit_bound = (match kind, flav with ("head" | "tail"), "static" -> Some (int_of_string arg) | _ -> None) in
  (match limit_bound with Some l -> if List.length !view > l then bound_ok := false | None -> ());
  let apply_out (d : nat diff) =
    if not (ok_in d !view) then app_ok := false;
    (match apply d !view with Some v -> view := v | None -> app_ok := false);
    (match limit_bound with Some l -> if List.length !view > l then bound_ok := false | None -> ()) in
  let checkpoint (p : pres) =
    (* called when a poll answered P or N *)
    let reg_ok =
      if p.kind = 'P' then
        (last_of SrcInner p.tr = Some RPending) &&
        ((not sim.has_param) || (match last_of SrcParam p.tr with Some RPending | Some REnd -> true | _ -> false))
      else true in
    let end_ok = ((p.kind = 'N') = sim.inner_ended ()) in
    Buffer.add_string buf
      (Printf.sprintf " view=%s ok:view=%s ok:app=%s ok:bound=%s ok:reg=%s ok:end=%s"
         (show_vec !view) (b2s ((not !src_ok) || oracle !src !view)) (b2s ((not !src_ok) || !app_ok))
         (b2s ((not !src_ok) || !bound_ok))
         (b2s reg_ok) (b2s end_ok)) in
  let panicked = ref false in
  let do_poll () : pres option =
    try Some (sim.poll ()) with Model_panic -> (panicked := true; None) in
  List.iter (fun ev ->
      if not !panicked then begin
        Buffer.add_string buf " ; ";
        if ev = "p" || ev = "D" then begin
          let continue = ref true in
          let first = ref true in
          let count = ref 0 in
          while !continue do
            incr count;
            (match do_poll () with
             | None ->
               Buffer.add_string buf (if !first then "PANIC" else "+PANIC");
               if !src_ok then Buffer.add_string buf " ok:nopanic=0";
               continue := false
             | Some p ->
               if not !first then Buffer.add_string buf "+";
               (* a static limit/count is an EmptyLimitStream: its polls are not observable *)
               let shown = if flav = "static" then List.filter (fun (s, _) -> s <> SrcParam) p.tr else p.tr in
               Buffer.add_string buf (p.text ^ "@" ^ show_trace shown);
               List.iter apply_out p.diffs;
               if p.kind <> 'R' then (checkpoint p; continue := false));
            first := false;
            if ev = "p" || !count > 10000 then continue := false
          done
        end else if starts_with "d:" ev then begin
          let d = parse_diff (after "d:" ev) in
          if not (ok_in d !src) then src_ok := false;
          (match apply d !src with Some s -> src := s | None -> src_ok := false);
          sim.push_inner [d]; Buffer.add_string buf "."
        end else if starts_with "b:" ev then begin
          let ds = List.map parse_diff (String.split_on_char '|' (after "b:" ev)) in
          List.iter (fun d ->
              if not (ok_in d !src) then src_ok := false;
              match apply d !src with Some s -> src := s | None -> src_ok := false) ds;
          sim.push_inner ds; Buffer.add_string buf "."
        end else if starts_with "l:" ev then begin
          let n = int_of_string (after "l:" ev) in
          param := Some n; sim.push_param n; Buffer.add_string buf "."
        end else if ev = "es" then (sim.end_inner (); Buffer.add_string buf ".")
        else if ev = "el" then (sim.end_param (); Buffer.add_string buf ".")
        else failwith ("bad event " ^ ev)
      end) events;
  if not !sortcontract then Buffer.add_string buf " ok:sortcontract=0";
  List.iter (fun c -> Buffer.add_string buf (" class=" ^ c)) (List.rev !classes);
  Buffer.contents buf

(* diffs emitted per event, as text (for the batched/unbatched comparison, C13) *)
let emitted_per_event (obs : string) : string list list =
  List.map (fun ev ->
      List.concat_map (fun tok ->
          List.concat_map (fun r ->
              if starts_with "R:" r then begin
                let body = after "R:" r in
                let body = (match String.index_opt body '@' with Some i -> String.sub body 0 i | None -> body) in
                String.split_on_char '|' body
              end else []) (String.split_on_char '+' tok)) (words ev))
    (Str.split (Str.regexp_string " ; ") obs)

let strip_classes (obs : string) : string * string list =
  let ws = words obs in
  (String.concat " " (List.filter (fun w -> not (starts_with "class=" w)) ws),
   List.filter (fun w -> starts_with "class=" w) ws)

let run_case_ub (case : string) (implobs : string option) : string =
  (* head = kind flav ub arg vec ; run unbatched then batched, compare the emitted diffs *)
  let set_bat b =
    match Str.bounded_split_delim (Str.regexp_string " ub ") case 2 with
    | [a; c] -> a ^ " " ^ b ^ " " ^ c
    | _ -> failwith "bad ub case" in
  let iu, ib = (match implobs with
      | None -> (None, None)
      | Some o ->
        (match Str.bounded_split_delim (Str.regexp_string " || ") o 2 with
         | [a; b] ->
           let b = (match Str.bounded_split_delim (Str.regexp_string " ok:samediffs=") b 2 with x :: _ -> x | [] -> b) in
           (Some a, Some b)
         | _ -> (None, None))) in
  let ou, cu = strip_classes (run_case (set_bat "u") iu) in
  let ob, cb = strip_classes (run_case (set_bat "b") ib) in
  let same = (emitted_per_event ou = emitted_per_event ob) in
  let cls = List.sort_uniq compare (cu @ cb) in
  ou ^ " || " ^ ob ^ " ok:samediffs=" ^ b2s same ^ String.concat "" (List.map (fun c -> " " ^ c) cls)

let run_line (line : string) =
  let case, implobs =
    match String.index_opt line '\t' with
    | Some i -> (String.sub line 0 i, Some (String.sub line (i + 1) (String.length line - i - 1)))
    | None -> (line, None) in
  let is_ub = (match words case with _ :: _ :: "ub" :: _ -> true | _ -> false) in
  print_string (if is_ub then run_case_ub case implobs else run_case case implobs); print_newline ()
