(* m_full.ml — mode full (C09 C12 C14): the extracted FullStack.fstep (ObservableVector + Observable
   holding the limit + dynamic Head / Skip over the two real leaves) on the events the harness
   performs on the three real crates.  Mirrors /verif/harness/src/m_full.rs; the bookkeeping of the
   specification side (shadow, latest announced limit) is the same on both sides. *)
open Model
open Util
open M_ovec

let fuel = i2n 10000

(* what the event loop needs from the model, for either flavour *)
type 'state machine = {
  m_init : 'state;
  m_step : 'state -> nat fev -> ('state * nat diff list option poll option) res;  (* answer of FPoll *)
  m_attached : 'state -> bool;
  m_view : 'state -> nat list;
  m_ok : 'state -> bool;
  m_waiting : 'state -> bool;      (* the vector's receiver of the adapter is waiting *)
  m_registered : 'state -> bool;   (* the observable's waker list holds the limit subscriber *)
}

let nat_eq (a : nat) (b : nat) = (a = b)

let machine_u (type st) cap okd limit0
    ~(on_diff : st -> nat diff -> (st * nat diff list) outcome)
    ~(on_param : st -> nat -> st * nat diff list option)
    ~(init : nat -> nat list -> st * nat list) : (nat, st) fs machine =
  { m_init = fs_init (i2n cap) okd (i2n limit0);
    m_step = (fun s e ->
        match fstep nat_eq nat_eq O on_diff on_param init s e with
        | ROk (s', FAnswer r) ->
          ROk (s', Some (match r with Pending -> Pending | Ready None -> Ready None | Ready (Some d) -> Ready (Some [d])))
        | ROk (s', FNone) -> ROk (s', None)
        | RFuel -> RFuel | RPanic -> RPanic);
    m_attached = (fun s -> s.f_ad <> None);
    m_view = (fun s -> match s.f_ad with Some a -> a.a_view | None -> []);
    m_ok = (fun s -> s.f_ok);
    m_waiting = (fun s -> match s.f_ad with
        | Some a -> (match nth_error s.f_g.g_o.subs a.a_k with Some (Some sb) -> sb.sb_waiting | _ -> false)
        | None -> false);
    m_registered = (fun s -> match s.f_ad with Some a -> List.mem a.a_j s.f_lim.wakers | None -> false) }

let machine_b (type st) cap okd limit0
    ~(on_diff : st -> nat diff -> (st * nat diff list) outcome)
    ~(on_param : st -> nat -> st * nat diff list option)
    ~(init : nat -> nat list -> st * nat list) : (nat, st) fsb machine =
  { m_init = fsb_init (i2n cap) okd (i2n limit0);
    m_step = (fun s e ->
        match fstep_b nat_eq nat_eq O on_diff on_param init s e with
        | ROk (s', FBAnswer r) -> ROk (s', Some r)
        | ROk (s', FBNone) -> ROk (s', None)
        | RFuel -> RFuel | RPanic -> RPanic);
    m_attached = (fun s -> s.fb_ad <> None);
    m_view = (fun s -> match s.fb_ad with Some a -> a.b_view | None -> []);
    m_ok = (fun s -> s.fb_ok);
    m_waiting = (fun s -> match s.fb_ad with
        | Some a -> (match nth_error s.fb_g.g_o.subs a.b_k with Some (Some sb) -> sb.sb_waiting | _ -> false)
        | None -> false);
    m_registered = (fun s -> match s.fb_ad with Some a -> List.mem a.b_j s.fb_lim.wakers | None -> false) }

let run_with (type state) (kind : string) (limit0 : int) (m : state machine) (ops : string list) : string =
  let step s e = m.m_step s e in
  let s : state ref = ref m.m_init in
  let do_ev e = (match step !s e with ROk (s', _) -> s := s' | _ -> ()) in
  let shadow = ref [] in
  let cur = ref limit0 and announced = ref limit0 and silent = ref false in
  let ann_since_pending = ref false and uncertain = ref false in
  let lim_alive = ref true and vec_alive = ref true in
  let adapter_limit = ref limit0 in
  let last_pending = ref false and reported = ref false in
  let expected limit src =
    if kind = "head" then take limit src else drop limit src in
  let view_of () = List.map n2i (m.m_view !s) in
  let fired (before : state) (after : state) : bool =
    m.m_attached before &&
    ((m.m_waiting before && not (m.m_waiting after)) || (m.m_registered before && not (m.m_registered after))) in
  let parts = ref [] in
  let emit t = parts := t :: !parts in
  let stop = ref false in
  let rec go = function
    | [] -> ()
    | _ when !stop -> ()
    | op :: rest ->
      let (name, arg) = split_op op in
      let before = !s in
      let rest' = ref rest in
      let text =
        if name = "A" then begin
          if not (m.m_attached !s) && !vec_alive && !lim_alive then begin
            let n = !cur in
            do_ev FAttach;
            adapter_limit := n;
            ann_since_pending := false;
            let v = view_of () in
            Printf.sprintf "A=%s ok:fullview=%s" (show_ivec v) (b2s (v = expected n !shadow))
          end else "A-"
        end
        else if name = "P" || name = "D" then begin
          if not (m.m_attached !s) then "-"
          else begin
            let items = ref [] and fin = ref 'P' and continue = ref true and cnt = ref 0 in
            let panicked = ref false in
            while !continue do
              incr cnt;
              (match step !s (FPoll fuel) with
               | ROk (s', Some (Ready (Some ds))) ->
                 s := s'; items := String.concat "|" (List.map show_diff ds) :: !items; fin := 'R'; last_pending := false
               | ROk (s', Some (Ready None)) -> s := s'; fin := 'N'; last_pending := false; continue := false
               | ROk (s', Some Pending) ->
                 s := s'; fin := 'P'; last_pending := true; reported := false; continue := false
               | _ -> panicked := true; continue := false);
              if name = "P" || !cnt > 10000 then continue := false
            done;
            if !panicked then (stop := true; "PANIC ok:fullnopanic=0")
            else begin
              let items = List.rev !items in
              let t = (if items = [] then "" else String.concat "+" items ^ "+") ^ String.make 1 !fin in
              if !fin = 'P' then begin
                if !lim_alive then (adapter_limit := !announced; ann_since_pending := false);
                let checkable = (not !silent) && (not !uncertain) in
                let v = view_of () in
                let ok = (not checkable) || (v = expected !adapter_limit !shadow) in
                t ^ Printf.sprintf " v=%s ok:fullview=%s ok:fullapp=%s" (show_ivec v) (b2s ok) (b2s (m.m_ok !s))
              end else t
            end
          end
        end
        else if name = "tb" then begin
          if not !vec_alive then "!"
          else begin
            let tshadow = ref !shadow in
            do_ev (FVec OTxnBegin);
            let committed = ref false and fin = ref false in
            while not !fin do
              (match !rest' with
               | [] -> do_ev (FVec OTDrop); fin := true
               | top :: more ->
                 rest' := more;
                 let (tn, ta) = split_op top in
                 (match tn with
                  | "tc" -> do_ev (FVec OTCommit); committed := true; fin := true
                  | "td" -> do_ev (FVec OTDrop); fin := true
                  | "t.rollback" -> do_ev (FVec OTRollback); tshadow := !shadow
                  | _ ->
                    let m = if starts_with "t." tn then after "t." tn else tn in
                    (match parse_mut m ta with
                     | Some mu ->
                       (match spec_mut mu !tshadow true with
                        | Some (n, _, _) -> do_ev (FVec (OTMut mu)); tshadow := n
                        | None -> ())
                     | None -> failwith ("bad txn op " ^ top))))
            done;
            if !committed then shadow := !tshadow;
            "T"
          end
        end
        else if name = "dropvec" then begin
          if !vec_alive then (do_ev (FVec ODropVec); vec_alive := false);
          "."
        end
        else if starts_with "L." name then begin
          if not !lim_alive then "!"
          else begin
            let a = if arg = "" then [] else parse_args arg in
            let notified = ref false in
            (match after "L." name, a with
             | "set", [n] -> do_ev (FLim (WSet (i2n n))); cur := n; notified := true
             | "setne", [n] -> do_ev (FLim (WSetIfNotEq (i2n n))); if n <> !cur then (cur := n; notified := true)
             | "sethash", [n] -> do_ev (FLim (WSetIfHashNotEq (i2n n))); if n <> !cur then (cur := n; notified := true)
             | "update", [n] -> do_ev (FLim (WUpdate (i2n n))); cur := n; notified := true
             | "updif", [n; b] ->
               do_ev (FLim (WUpdateIf (i2n n, b <> 0)));
               if b <> 0 then notified := true else if n <> !cur then silent := true;
               cur := n
             | "drop", [] -> do_ev (FLim HDropOwner); lim_alive := false; if !ann_since_pending then uncertain := true
             | _ -> failwith ("bad limit op " ^ op));
            if !notified then (announced := !cur; silent := false; ann_since_pending := true);
            "l"
          end
        end
        else if starts_with "t." name || name = "tc" || name = "td" then "_"
        else begin
          match parse_mut name arg with
          | None -> failwith ("bad op " ^ op)
          | Some mu ->
            (match !vec_alive, spec_mut mu !shadow false with
             | true, Some (n, _, _) -> do_ev (FVec (OMut mu)); shadow := n; "."
             | _ -> "!")
        end in
      let w = (!last_pending && not !reported && fired before !s) in
      if w then reported := true;
      emit (text ^ (if w then " w" else ""));
      go !rest' in
  go ops;
  String.concat " ; " (List.rev !parts)

let run_case (case : string) : string =
  let head, evs =
    match Str.bounded_split_delim (Str.regexp_string " :: ") case 2 with
    | [h; e] -> (h, e) | [h] -> (h, "") | _ -> failwith "bad case" in
  let hw = words head in
  let cap = int_of_string (after "cap=" (List.nth hw 0)) in
  let kind = List.nth hw 1 in
  let limit0 = int_of_string (List.nth hw 2) in
  let okd = if List.nth hw 3 = "u" then Unique else Shared in
  let ops = List.filter (fun s -> s <> "") (List.map String.trim (Str.split (Str.regexp_string " ; ") evs)) in
  let batched = (List.length hw > 4 && List.nth hw 4 = "b") in
  let hinit n l = let (v, st) = head_init n l in (st, v) in
  let sinit n l = let (v, st) = skip_init n l in (st, v) in
  match kind, batched with
  | "head", false ->
    run_with kind limit0 (machine_u cap okd limit0 ~on_diff:head_on_diff ~on_param:head_update_limit ~init:hinit) ops
  | "skip", false ->
    run_with kind limit0 (machine_u cap okd limit0 ~on_diff:skip_on_diff ~on_param:skip_update_count ~init:sinit) ops
  | "head", true ->
    run_with kind limit0 (machine_b cap okd limit0 ~on_diff:head_on_diff ~on_param:head_update_limit ~init:hinit) ops
  | "skip", true ->
    run_with kind limit0 (machine_b cap okd limit0 ~on_diff:skip_on_diff ~on_param:skip_update_count ~init:sinit) ops
  | k, _ -> failwith ("bad adapter " ^ k)

let run_line (line : string) = print_string (run_case line); print_newline ()
