(* m_drain.ml — mode drain: polls that race the sender (model: OVecDrain.v, extracted c_gpoll).
   Mirrors /verif/harness/src/m_drain.rs: same case grammar, same observation grammar, the same
   bookkeeping for the oracle tokens (computed here from what the model delivers). *)
open Model
open Util

let i2n = nat_of_int
let n2i = int_of_nat

type sub = {
  batched : bool;
  mutable replica : nat list;
  mutable app_ok : bool;
  mutable ptr : int;
  mutable hist_ok : bool;
  mutable since : int;
  mutable lagreset_ok : bool;
  mutable live : bool;
}

(* an op of the case grammar as a list of model operations; a transaction is begin / ops / commit *)
let parse_vec_op (op : string) : nat op list =
  if starts_with "txn{" op then begin
    let body = String.sub op 4 (String.length op - 5) in
    let ms = List.filter (fun s -> s <> "") (split_on '+' body) in
    [OTxnBegin] @ List.map (fun m ->
        let name, arg = M_ovec.split_op m in
        match M_ovec.parse_mut name arg with Some mu -> OTMut mu | None -> failwith ("bad txn op " ^ m)) ms
    @ [OTCommit]
  end else
    let name, arg = M_ovec.split_op op in
    match M_ovec.parse_mut name arg with
    | Some m -> [OMut m]
    | None ->
      (match name with
       | "sub" -> [OSub (arg = "(b)")]
       | "dropsub" -> [ODropSub (i2n (List.hd (parse_args arg)))]
       | "dropvec" -> [ODropVec]
       | _ -> failwith ("bad op " ^ op))

let run_case (case : string) : string =
  let head, evs =
    match Str.bounded_split_delim (Str.regexp_string " :: ") case 2 with
    | [h; e] -> (h, e) | [h] -> (h, "") | _ -> failwith "bad case" in
  let cap = int_of_string (after "cap=" (String.trim head)) in
  let ops = List.filter (fun s -> s <> "") (List.map String.trim (Str.split (Str.regexp_string " ; ") evs)) in
  let g = ref (ginit (i2n cap)) in
  let subs : (int, sub) Hashtbl.t = Hashtbl.create 8 in
  let nsubs = ref 0 in
  let states : nat list list ref = ref [] in          (* in order *)
  let outs = ref [] in
  let emit s = outs := s :: !outs in
  let live_count () = Hashtbl.fold (fun _ s n -> if s.live then n + 1 else n) subs 0 in
  let contents () = !g.g_o.values in
  (* bookkeeping after a vector-side operation, from what the model did: how many messages were
     published is read off the log *)
  let vec_op (op : string) : string =
    let xs = parse_vec_op op in
    let log_before = List.length !g.g_o.log in
    let contents_before = contents () in
    let is_txn = starts_with "txn{" op in
    let results = List.map (fun x ->
        match gstep !g x with
        | Ok (g', out) -> g := g'; Some out
        | Panic -> None) xs in
    let published = List.length !g.g_o.log - log_before in
    (* the harness cannot see the log: it counts a message whenever an operation is not one of the
       documented no-ops (and there is a live subscriber); do the same here, from the contents *)
    let changed = (contents () <> contents_before) in
    ignore published;
    (match xs with
     | [OSub b] ->
       let k = !nsubs in
       incr nsubs;
       (match List.hd results with
        | Some (VSub (_, snap)) ->
          let ptr = List.length !states in
          states := !states @ [snap];
          Hashtbl.replace subs k { batched = b; replica = snap; app_ok = true; ptr; hist_ok = true; since = 0;
                                   lagreset_ok = true; live = true };
          Printf.sprintf "#%d=%s" k (show_vec snap)
        | _ -> decr nsubs; "PANIC")
     | [ODropSub k] ->
       (match Hashtbl.find_opt subs (n2i k) with Some s -> s.live <- false | None -> ()); "."
     | [ODropVec] -> (match List.hd results with Some _ -> "." | None -> "PANIC")
     | _ when is_txn ->
       (match List.hd results with
        | None -> "PANIC"
        | Some _ ->
          let inner = List.filteri (fun i _ -> i > 0 && i < List.length results - 1) results in
          if changed then begin
            if live_count () > 0 then begin
              states := !states @ [contents ()];
              Hashtbl.iter (fun _ s -> if s.live then s.since <- s.since + 1) subs end
          end else
            Hashtbl.iter (fun _ s -> if s.live then s.since <- s.since + 1) subs;
          "t(" ^ String.concat "" (List.map (function Some _ -> "." | None -> "PANIC") inner) ^ ")")
     | [OMut m] ->
       (match List.hd results with
        | None -> "PANIC"
        | Some _ ->
          let no_op = (not changed) && (match m with MPopFront | MPopBack | MClear | MTruncate _ -> true | _ -> false) in
          if (not no_op) && live_count () > 0 then begin
            states := !states @ [contents ()];
            Hashtbl.iter (fun _ s -> if s.live then s.since <- s.since + 1) subs end;
          ".")
     | _ -> failwith "vec_op") in
  let deliver (s : sub) (ds : nat diff list) =
    List.iter (fun d ->
        (match d with Reset _ -> if s.since <= cap then s.lagreset_ok <- false | _ -> ());
        if not (ok_in d s.replica) then s.app_ok <- false;
        (match apply d s.replica with Some v -> s.replica <- v | None -> s.app_ok <- false)) ds;
    if s.batched then begin
      let n = List.length !states in
      let rec find i = if i >= n then None else if List.nth !states i = s.replica then Some i else find (i + 1) in
      match find s.ptr with Some i -> s.ptr <- i | None -> s.hist_ok <- false
    end in
  let do_poll (k : int) (inj : string list list option) : string =
    match Hashtbl.find_opt subs k with
    | None -> "PANIC"
    | Some s when not s.live -> "PANIC"
    | Some s ->
      let inj_ops = match inj with None -> [] | Some l -> l in
      (* the model performs the injections itself (grun inside c_gpoll); the bookkeeping for the
         consumed ones is replayed afterwards on a copy of the pre-poll state *)
      let minj = List.map (fun ops -> List.concat_map parse_vec_op ops) inj_ops in
      if not (List.for_all (fun xs -> env_ops (i2n k) xs) minj) then failwith "injection not allowed";
      let g_before = !g in
      (match c_gpoll !g (i2n k) minj with
       | Panic -> "PANIC"
       | Ok ((g_after, r), used) ->
         let used = n2i used in
         (* replay the consumed injections for the bookkeeping (states, since, new subscribers) *)
         g := g_before;
         List.iteri (fun j ops -> if j < used then List.iter (fun op -> ignore (vec_op op)) ops) inj_ops;
         if !g.g_o.values <> g_after.g_o.values || List.length !g.g_o.log <> List.length g_after.g_o.log then
           failwith "driver: replayed injections disagree with the model's own run";
         g := g_after;
         let utext = match inj with None -> "" | Some _ -> Printf.sprintf " u=%d" used in
         let cont = contents () in
         (match r with
          | Ready (Some it) ->
            let ds = (match it with IDiff d -> [d] | IBatch ds -> ds) in
            deliver s ds;
            let is_reset = List.exists (function Reset _ -> true | _ -> false) ds in
            let t = Buffer.create 64 in
            Buffer.add_string t ("R:" ^ String.concat "|" (List.map show_diff ds) ^ utext);
            if s.batched || is_reset then begin
              let up = (s.replica = cont) in
              Buffer.add_string t (" ok:uptodate=" ^ b2s up);
              if up then s.since <- 0
            end;
            Buffer.add_string t (Printf.sprintf " ok:app=%s ok:hist=%s ok:lagreset=%s ok:nonempty=%s"
                                   (b2s s.app_ok) (b2s s.hist_ok) (b2s s.lagreset_ok) (b2s (ds <> [])));
            Buffer.contents t
          | Ready None ->
            Printf.sprintf "N%s ok:endalive=%s ok:final=%s ok:app=%s" utext (b2s (not !g.g_o.alive))
              (b2s (s.replica = cont)) (b2s s.app_ok)
          | Pending ->
            let ok = (s.replica = cont) in
            s.since <- 0;
            Printf.sprintf "P%s ok:replica=%s ok:app=%s ok:hist=%s" utext (b2s ok) (b2s s.app_ok) (b2s s.hist_ok))) in
  List.iter (fun op ->
      if starts_with "cpoll" op then begin
        (* cpoll(k)<inj|inj|..> *)
        let close = String.index op ')' in
        let k = List.hd (parse_args (String.sub op 5 (close - 4))) in
        let rest = String.sub op (close + 1) (String.length op - close - 1) in
        let body = String.sub rest 1 (String.length rest - 2) in
        let inj = if body = "" then [] else
            List.map (fun i -> List.filter (fun s -> s <> "") (List.map String.trim (split_on '&' i)))
              (String.split_on_char '|' body) in
        emit (do_poll k (Some inj))
      end else if starts_with "poll" op then
        emit (do_poll (List.hd (parse_args (after "poll" op))) None)
      else emit (vec_op op)) ops;
  String.concat " ; " (List.rev !outs)

let run_line (line : string) = print_string (run_case line); print_newline ()
