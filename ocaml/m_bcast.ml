(* m_bcast.ml — mode bcast: OVec.try_recv / next_pow2 (the position-log model of
   tokio::sync::broadcast) against the real channel.  Mirrors /verif/harness/src/m_bcast.rs. *)
open Model
open Util

let i2n = nat_of_int
let n2i = int_of_nat

let run_case (case : string) : string =
  let head, evs =
    match Str.bounded_split_delim (Str.regexp_string " :: ") case 2 with
    | [h; e] -> (h, e) | [h] -> (h, "") | _ -> failwith "bad case" in
  let cap = int_of_string (after "cap=" (String.trim head)) in
  let cap2 = next_pow2 (i2n cap) in
  let ops = List.filter (fun s -> s <> "") (List.map String.trim (Str.split (Str.regexp_string " ; ") evs)) in
  let log : nat msg list ref = ref [] in
  let closed = ref false in
  let rxs : nat option array ref = ref [||] in      (* next position of each live receiver *)
  let live () = Array.fold_left (fun n r -> if r <> None then n + 1 else n) 0 !rxs in
  let push r = rxs := Array.append !rxs [| r |]; Printf.sprintf "#%d" (Array.length !rxs - 1) in
  let outs = List.map (fun op ->
      let name, arg = M_ovec.split_op op in
      match name with
      | "send" ->
        if !closed then "-" else
          let x = List.hd (parse_args arg) in
          if live () = 0 then "err"
          else begin
            log := !log @ [{ m_many = false; m_diffs = [PushBack (i2n x)]; m_state = [i2n x] }];
            Printf.sprintf "ok(%d)" (live ())
          end
      | "sub" -> if !closed then "-" else push (Some (i2n (List.length !log)))
      | "resub" ->
        let k = List.hd (parse_args arg) in
        if k < Array.length !rxs && !rxs.(k) <> None then push (Some (i2n (List.length !log))) else "-"
      | "recv" ->
        let k = List.hd (parse_args arg) in
        if k >= Array.length !rxs then "-" else
          (match !rxs.(k) with
           | None -> "-"
           | Some next ->
             let (r, next') = try_recv !log cap2 !closed next in
             !rxs.(k) <- Some next';
             (match r with
              | TOk m -> (match m.m_state with [x] -> Printf.sprintf "Ok(%d)" (n2i x) | _ -> "?")
              | TEmpty -> "Empty"
              | TClosed -> "Closed"
              | TLagged -> Printf.sprintf "Lagged(%d)" (n2i next' - n2i next)))
      | "droprx" ->
        let k = List.hd (parse_args arg) in
        if k < Array.length !rxs then !rxs.(k) <- None;
        "."
      | "droptx" -> closed := true; "."
      | "count" -> if !closed then "-" else Printf.sprintf "n=%d" (live ())
      | _ -> failwith ("bad op " ^ op)) ops in
  String.concat " ; " outs

let run_line (line : string) = print_string (run_case line); print_newline ()
