(* m_own.ml — mode own (C20): the specification side is trivial: whatever the history, no instance is
   dropped twice, none is read after its drop, none is alive at the end (C20_ledger_sound is the
   soundness of the ledger; the protocol theorems are in props/C20.v).  The line mirrors
   /verif/harness/src/m_own.rs. *)
open Util

let run_line (line : string) =
  let evs = (match Str.bounded_split_delim (Str.regexp_string " :: ") line 2 with [_; e] -> e | _ -> "") in
  let n = List.length (List.filter (fun s -> String.trim s <> "") (Str.split (Str.regexp_string " ; ") evs)) in
  Printf.printf "n=%d ok:nodoubledrop=1 ok:noleak=1 ok:usealive=1\n" n
