(* Extraction of the executable model.  ExtrOcamlBasic only: bool/option/unit/list/prod/
   sumbool/sumor map to OCaml's; nat/N/positive stay Coq's inductives.  No Extract
   Constant / Extract Inductive directives of our own. *)
From Coq Require Import ExtrOcamlBasic.
From EB Require Import Base ListVec Diff.
Extraction Language OCaml.
Extraction "model.ml" Diff.dmap Diff.apply Diff.ok_in Diff.apply_all Diff.apply_all_ok Diff.spec_nth Diff.oob.
