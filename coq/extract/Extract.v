(* Extraction of the executable model.  ExtrOcamlBasic only: bool/option/unit/list/prod/
   sumbool/sumor map to OCaml's; nat/N/positive stay Coq's inductives.  No Extract
   Constant / Extract Inductive directives of our own. *)
From Coq Require Import ExtrOcamlBasic.
From EB Require Import Base ListVec Diff Head Skip Tail Filter Sort PollLoop OVec OVecRun OVecDrain Obs ObsSpec ObsWaker Chain ObsConc AsyncLock AsyncGuard FullStack FullStackB ChainPoll ChainPollB.
Extraction Language OCaml.
Extraction "model.ml"
  Diff.dmap Diff.apply Diff.ok_in Diff.apply_all Diff.apply_all_ok Diff.spec_nth Diff.oob
  Head.head_init Head.head_on_diff Head.head_update_limit Head.head_view
  Skip.skip_init Skip.skip_init_dynamic Skip.skip_on_diff Skip.skip_update_count Skip.skip_view
  Tail.tail_init Tail.tail_on_diff Tail.tail_update_limit Tail.tail_view Tail.tail_shrink_over_len
  Filter.filter_init Filter.filter_on_diff
  Sort.sort_init Sort.sort_on_diff Sort.sort_oracle_input Sort.enumerate_from Sort.sort_truncate_misaligned
  PollLoop.poll_u PollLoop.poll_b
  OVec.ovec_new OVec.ovec_mutate OVec.txn_mutate OVec.txn_begin OVec.txn_rollback OVec.txn_drop OVec.txn_commit
  OVec.subscribe OVec.drop_sub OVec.poll_sub OVec.drop_vec OVec.for_each OVec.cur_values OVec.rx_cnt
  Obs.obs_new Obs.step ObsSpec.s_new ObsSpec.sstep ObsWaker.wstep
  Chain.head_into_parts Chain.tail_into_parts Chain.skip_into_parts Chain.hand_over_u
  ObsConc.cstep ObsConc.release ObsConc.is_done
  AsyncLock.astep AsyncLock.async_subscriber_double_count AsyncLock.sem_new AsyncLock.sem_acquire AsyncLock.sem_release
  AsyncGuard.a_init AsyncGuard.a_start AsyncGuard.a_poll AsyncGuard.a_drop_guard AsyncGuard.a_guard_set
  AsyncGuard.call_possible AsyncGuard.a_pad
  OVecRun.ginit OVecRun.gstep OVecDrain.c_gpoll OVecDrain.env_ops
  FullStack.fs_init FullStack.fstep FullStackB.fsb_init FullStackB.fstep_b
  ChainPoll.gpoll ChainPoll.queue_inner ChainPollB.gpoll_b ChainPollB.queue_inner_b.
