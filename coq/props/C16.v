(* C16 — the async-lock flavour obeys the same observable semantics as the sync flavour.
   strength: PARTIAL (see DESIGN.md): the equivalence below is at operation granularity for
   histories that hold no guard across another call (every future then completes at its first poll,
   which the correspondence check verifies on the real crate); tokio's RwLock is modelled as a FIFO
   permit semaphore, not verified. *)
From EB Require Import Obs ObsSpec ObsFacts AsyncLock.

(* every call except the count functions behaves exactly like the default flavour, so C01-C03
   transfer: the async model refines the same specification *)
Theorem C16_equiv_when_unguarded :
  forall (V : Type) (veq heq : V -> V -> bool) (vdefault : V) (o : obs V) (x : op V),
    x <> HCounts -> astep veq heq vdefault o x = step veq heq vdefault o x.
Proof. intros V veq heq vdefault o x H. destruct x; try reflexivity. congruence. Qed.
Print Assumptions C16_equiv_when_unguarded.

Theorem C16_refines_spec :
  forall (V : Type) (veq heq : V -> V -> bool) (vdefault : V) (o : obs V) (s : sspec V) (x : op V),
    x <> HCounts -> oinv o -> sim o s ->
    match astep veq heq vdefault o x with
    | Ok (o', r, _) => exists s', sstep veq heq vdefault s x = Some (s', r) /\ sim o' s'
    | Panic => sstep veq heq vdefault s x = None
    end.
Proof.
  intros V veq heq vdefault o s x Hx Hi Hs. rewrite C16_equiv_when_unguarded by assumption.
  apply step_refines_spec; assumption.
Qed.
Print Assumptions C16_refines_spec.

(* the semaphore: a writer waiting for the lock is woken when the lock is released - when the last
   holder releases, the queue head gets its permits and its id is in the woken list *)
Theorem C16_writer_woken_on_release :
  forall (maxp : nat) (id : nat) (q : list waiter) (held : nat),
    1 <= maxp -> held <= maxp ->
    (* a writer is at the head of the queue, still missing exactly what the current holders hold *)
    let s := {| s_free := 0; s_queue := {| w_id := id; w_need := held |} :: q |} in
    In id (snd (sem_release s held)).
Proof.
  intros maxp id q held H1 H2 s. unfold sem_release, s. cbn [s_free s_queue sem_assign w_need w_id].
  rewrite Nat.add_0_l, Nat.leb_refl. rewrite Nat.sub_diag.
  destruct (sem_assign 0 q ([] ++ [id])) as [[f q'] w] eqn:E. cbn [snd].
  assert (G : forall n q0 acc f0 q1 w0, sem_assign n q0 acc = (f0, q1, w0) -> forall x, In x acc -> In x w0).
  { intros n q0; revert n; induction q0 as [|w1 q0 IH]; intros n acc f0 q1 w0 Hs x Hin; cbn [sem_assign] in Hs.
    - injection Hs as _ _ <-. exact Hin.
    - destruct (w_need w1 <=? n).
      + eapply IH; [exact Hs|]. apply in_or_app. left. exact Hin.
      + injection Hs as _ _ <-. exact Hin. }
  eapply G; [exact E|]. cbn. left. reflexivity.
Qed.
Print Assumptions C16_writer_woken_on_release.

(* with nobody queued and nothing held, every acquire succeeds at once: no future blocks in a
   history that holds no guard across a call *)
Theorem C16_unguarded_acquire_immediate :
  forall (maxp id need : nat), need <= maxp -> snd (sem_acquire (sem_new maxp) id need) = true.
Proof.
  intros maxp id need H. unfold sem_acquire, sem_new. cbn [s_queue s_free].
  apply Nat.leb_le in H. rewrite H. reflexivity.
Qed.
Print Assumptions C16_unguarded_acquire_immediate.

(* F8: the async flavour's subscriber_count is twice the number of live subscribers (refuted full
   statement of C19 for this flavour; recorded as a known finding) *)
Theorem C16_async_counts_refuted :
  exists (o : obs nat) a b c d,
    astep Nat.eqb Nat.eqb 0 o HCounts = Ok (o, OCounts a b c d, []) /\ b <> live_subs o.
Proof.
  exists {| val := 0; ver := 1; wakers := []; okind := Shared; owners := 1; weaks := 0; subs := [Some 1] |}.
  eexists _, _, _, _. split; [reflexivity|]. cbn. discriminate.
Qed.
Print Assumptions C16_async_counts_refuted.

(* what does hold: observable_count and weak_count are exact, subscriber_count = 2 x subscribers *)
Theorem C16_async_counts_partial :
  forall (V : Type) (veq heq : V -> V -> bool) (vdefault : V) (o o' : obs V) a b c d w,
    astep veq heq vdefault o HCounts = Ok (o', OCounts a b c d, w) ->
    a = owners o /\ b = 2 * live_subs o /\ c = a + b /\ d = weaks o /\ o' = o.
Proof.
  intros V veq heq vdefault o o' a b c d w H. cbn [astep] in H.
  destruct (owners o =? 0); [discriminate|]. injection H as <- <- <- <- <- _. auto.
Qed.
Print Assumptions C16_async_counts_partial.

(* ---------------- guards held across calls (AsyncGuard.v) ----------------
   Every call of the async API is a future that acquires the tokio RwLock (permit semaphore),
   performs the operation-granularity step of Obs.v and releases; next()/next_ref() acquire twice
   (poll_update, then next_ref_now).  Reachable = any sequence of events from a_init: new calls,
   polls of any future in any order (spurious polls included), guards dropped, sets through a held
   write guard. *)
From EB Require Import AsyncGuard AsyncGuardFacts.

(* every completed call is a call of the default flavour's specification (ObsSpec.sstep, the one
   C01-C03 are proved against), linearised at the moment its future completes; events that complete
   nothing leave the abstract state alone *)
Theorem C16_guarded_refines_spec :
  forall (V : Type) (veq heq : V -> V -> bool) (vdefault : V) s e s' done w,
    areach veq heq vdefault s -> a_step veq heq vdefault true s e = (s', done, w) ->
    match done with
    | Some (c, r) =>
        match sync_op c with
        | Some x => sstep veq heq vdefault (abs s) x = Some (abs s', conv c r)
        | None => abs s' = abs s
        end
    | None => abs s' = abs s
    end.
Proof. exact @aguard_refines_spec. Qed.
Print Assumptions C16_guarded_refines_spec.

(* the executor misses nobody: a future that is runnable after an event was runnable before or is in
   the event's woken list *)
Theorem C16_guarded_executor_complete :
  forall (V : Type) (veq heq : V -> V -> bool) (vdefault : V) s e s' done w,
    areach veq heq vdefault s -> a_step veq heq vdefault true s e = (s', done, w) ->
    forall id f', nth_error (a_futs s') id = Some f' -> runnable_phase (f_phase f') = true ->
      In id w \/ (exists f, nth_error (a_futs s) id = Some f /\ runnable_phase (f_phase f) = true).
Proof. exact @aguard_woken_complete. Qed.
Print Assumptions C16_guarded_executor_complete.

(* no lost wake-up: when the executor has nothing left to poll and the caller holds no guard, the lock
   is free, nobody is queued for it (in particular: a writer that waited for the lock was woken when
   it was released, a subscriber polled while a write guard was held became ready after the guard
   was dropped), and every unfinished future is a subscriber call whose waker is registered and
   whose subscriber has seen the current version *)
Theorem C16_guarded_no_lost_wakeup :
  forall (V : Type) (veq heq : V -> V -> bool) (vdefault : V) s,
    areach veq heq vdefault s -> quiescent s = true ->
    s_queue (a_sem s) = [] /\ s_free (a_sem s) = maxp /\
    forall id f, nth_error (a_futs s) id = Some f ->
      f_phase f = PhDone \/
      (f_phase f = PhNotify /\ In id (wakers (a_obs s)) /\
       exists k, call_sub (f_call f) = Some k /\
                 nth_error (subs (a_obs s)) k = Some (Some (ver (a_obs s)))).
Proof. exact @aguard_quiescent_no_lost_wakeup. Qed.
Print Assumptions C16_guarded_no_lost_wakeup.

(* why next_ref_now has to re-read the version under its second lock: without it the refinement fails
   on a concrete history (this variant is one of the seeded changes, seeded/C16) *)
Theorem C16_guarded_next_ref_must_reread_version :
  exists (es : list (aev (V:=nat))) e s s' c r w x,
    s = a_run Nat.eqb Nat.eqb 0 false (a_init 0 1) es /\
    a_step Nat.eqb Nat.eqb 0 false s e = (s', Some (c, r), w) /\
    sync_op c = Some x /\
    sstep Nat.eqb Nat.eqb 0 (abs s) x <> Some (abs s', conv c r).
Proof. exact aguard_unfixed_refuted. Qed.
Print Assumptions C16_guarded_next_ref_must_reread_version.
