(* C09 — Head, Tail and Skip present exactly the first / last / remaining items.
   This file holds only the pinned statements; proofs are in theories/*Facts.v, LtsLift.v. *)
From EB Require Import Diff Head Tail Skip PollLoop AdapterCore HeadFacts TailFacts SkipFacts LtsLift PollLoopFacts.

(* ---------------- Head ---------------- *)

Theorem C09_head_init :
  forall (A : Type) (limit : nat) (vs : list A),
    fst (head_init limit vs) = firstn limit vs /\
    head_R (snd (head_init limit vs)) vs (firstn limit vs).
Proof. intros; apply head_init_ok. Qed.
Print Assumptions C09_head_init.

(* one source diff: no panic, the buffer follows the source, and the emitted diffs - each
   applicable when it is applied - take the first-[limit] view of the old source to that of the new *)
Theorem C09_head_step :
  forall (A : Type) (st : head_st A) (l v : list A) (d : diff A),
    h_buf st = l /\ v = firstn (h_limit st) l -> ok_in d l = true ->
    exists st' outs l',
      head_on_diff st d = Ok (st', outs) /\ apply d l = Some l' /\
      apply_all_ok outs v = Some (firstn (h_limit st) l') /\
      h_buf st' = l' /\ h_limit st' = h_limit st.
Proof.
  intros A st l v d HR Hok.
  destruct (head_step_bound st l v d HR Hok) as (st' & outs & l' & E1 & E2 & E3 & [Hb _] & Hl).
  exists st', outs, l'. repeat split; try assumption.
  eapply apply_all_ok_bound_ok; eassumption.
Qed.
Print Assumptions C09_head_step.

(* a limit change to any value *)
Theorem C09_head_param :
  forall (A : Type) (st : head_st A) (l v : list A) (n : nat),
    h_buf st = l /\ v = firstn (h_limit st) l ->
    apply_all_ok (match snd (head_update_limit st n) with Some ds => ds | None => [] end) v
      = Some (firstn n l) /\
    h_buf (fst (head_update_limit st n)) = l /\ h_limit (fst (head_update_limit st n)) = n.
Proof.
  intros A st l v n HR.
  destruct (head_param_ok st l v n HR) as (st' & v' & E1 & E2 & [Hb Hv] & Hl).
  subst st'. rewrite Hl in Hv. subst v'. auto.
Qed.
Print Assumptions C09_head_param.

(* every event sequence (source diffs of any kind and limit changes, in the order consumed) *)
Theorem C09_head_view_at_quiescence :
  forall (A : Type) (evs : list (@event A)) (st : head_st A) (l v : list A),
    h_buf st = l /\ v = firstn (h_limit st) l -> src_valid evs l = true ->
    exists st' v',
      run_events head_on_diff head_update_limit evs st l v = Some (st', src_after evs l, v') /\
      v' = firstn (h_limit st') (src_after evs l) /\
      Some (h_limit st') = last_param evs (Some (h_limit st)).
Proof. intros A evs st l v; apply head_view_at_quiescence. Qed.
Print Assumptions C09_head_view_at_quiescence.

(* ---------------- Skip ---------------- *)

Theorem C09_skip_init :
  forall (A : Type) (count : nat) (vs : list A),
    fst (skip_init count vs) = skipn count vs /\
    s_buf (snd (skip_init count vs)) = vs /\ s_count (snd (skip_init count vs)) = Some count /\
    s_buf (skip_init_dynamic vs) = vs /\ s_count (skip_init_dynamic vs) = None.
Proof. intros. destruct (skip_init_ok count vs) as [H1 [H2 _]]. repeat split; assumption. Qed.
Print Assumptions C09_skip_init.

Theorem C09_skip_step :
  forall (A : Type) (st : skip_st A) (l v : list A) (d : diff A),
    s_buf st = l /\ v = skip_view_of (s_count st) l -> ok_in d l = true ->
    exists st' outs l',
      skip_on_diff st d = Ok (st', outs) /\ apply d l = Some l' /\
      apply_all_ok outs v = Some (skip_view_of (s_count st) l') /\
      s_buf st' = l' /\ s_count st' = s_count st.
Proof.
  intros A st l v d HR Hok.
  destruct (skip_step st l v d HR Hok) as (st' & outs & l' & E1 & E2 & E3 & [Hb _] & Hl).
  exists st', outs, l'. repeat split; assumption.
Qed.
Print Assumptions C09_skip_step.

Theorem C09_skip_param :
  forall (A : Type) (st : skip_st A) (l v : list A) (n : nat),
    s_buf st = l /\ v = skip_view_of (s_count st) l ->
    apply_all_ok (match snd (skip_update_count st n) with Some ds => ds | None => [] end) v
      = Some (skipn n l) /\
    s_buf (fst (skip_update_count st n)) = l /\ s_count (fst (skip_update_count st n)) = Some n.
Proof.
  intros A st l v n HR.
  destruct (skip_param_ok st l v n HR) as (st' & v' & E1 & E2 & [Hb Hv] & Hl).
  subst st'. rewrite Hl in Hv. cbn [skip_view_of] in Hv. subst v'. auto.
Qed.
Print Assumptions C09_skip_param.

(* the view is empty until the first count arrives ([skip_view_of None] = []) *)
Theorem C09_skip_view_at_quiescence :
  forall (A : Type) (evs : list (@event A)) (st : skip_st A) (l v : list A),
    s_buf st = l /\ v = skip_view_of (s_count st) l -> src_valid evs l = true ->
    exists st' v',
      run_events skip_on_diff skip_update_count evs st l v = Some (st', src_after evs l, v') /\
      v' = skip_view_of (s_count st') (src_after evs l) /\
      s_count st' = last_param evs (s_count st).
Proof. intros A evs st l v; apply skip_view_at_quiescence. Qed.
Print Assumptions C09_skip_view_at_quiescence.

(* ---------------- Tail ---------------- *)

Theorem C09_tail_init :
  forall (A : Type) (limit : nat) (vs : list A),
    fst (tail_init limit vs) = skipn (length vs - limit) vs /\
    tail_R (snd (tail_init limit vs)) vs (skipn (length vs - limit) vs).
Proof. intros; apply tail_init_ok. Qed.
Print Assumptions C09_tail_init.

Theorem C09_tail_step :
  forall (A : Type) (st : tail_st A) (l v : list A) (d : diff A),
    t_buf st = l /\ v = skipn (length l - t_limit st) l -> ok_in d l = true ->
    exists st' outs l',
      tail_on_diff st d = Ok (st', outs) /\ apply d l = Some l' /\
      apply_all_ok outs v = Some (skipn (length l' - t_limit st) l') /\
      t_buf st' = l' /\ t_limit st' = t_limit st.
Proof.
  intros A st l v d HR Hok.
  destruct (tail_step_bound st l v d HR Hok) as (st' & outs & l' & E1 & E2 & E3 & [Hb _] & Hl).
  exists st', outs, l'. repeat split; try assumption.
  eapply apply_all_ok_bound_ok; eassumption.
Qed.
Print Assumptions C09_tail_step.

(* a limit change to any value outside the known-finding class (0 < new < len < old) *)
Theorem C09_tail_param :
  forall (A : Type) (st : tail_st A) (l v : list A) (n : nat),
    t_buf st = l /\ v = skipn (length l - t_limit st) l ->
    tail_shrink_over_len (t_limit st) n (length l) = false ->
    apply_all_ok (match snd (tail_update_limit st n) with Some ds => ds | None => [] end) v
      = Some (skipn (length l - n) l) /\
    t_buf (fst (tail_update_limit st n)) = l /\ t_limit (fst (tail_update_limit st n)) = n.
Proof.
  intros A st l v n HR Hc.
  destruct (tail_param_ok st l v n HR Hc) as (st' & v' & E1 & E2 & [Hb Hv] & Hl).
  subst st'. rewrite Hl in Hv. subst v'. auto.
Qed.
Print Assumptions C09_tail_param.

(* ... and inside that class the full statement is false (finding F4, pinned by an existing test) *)
Theorem C09_tail_param_refuted :
  exists (st : tail_st nat) l v n,
    tail_R st l v /\ tail_shrink_over_len (t_limit st) n (length l) = true /\
    apply_all_ok (match snd (tail_update_limit st n) with Some ds => ds | None => [] end) v
      <> Some (skipn (length l - n) l).
Proof. exact tail_param_refuted. Qed.
Print Assumptions C09_tail_param_refuted.

Theorem C09_tail_view_at_quiescence :
  forall (A : Type) (evs : list (@event A)) (st : tail_st A) (l v : list A),
    t_buf st = l /\ v = skipn (length l - t_limit st) l -> src_valid evs l = true ->
    tail_class_free evs (t_limit st) l = true ->
    exists st' v',
      run_events tail_on_diff tail_update_limit evs st l v = Some (st', src_after evs l, v') /\
      v' = skipn (length (src_after evs l) - t_limit st') (src_after evs l) /\
      Some (t_limit st') = last_param evs (Some (t_limit st)).
Proof. intros A evs st l v; apply tail_view_at_quiescence. Qed.
Print Assumptions C09_tail_view_at_quiescence.

(* ---------------- the stream ends exactly when the source ends ---------------- *)

Lemma head_param_nonempty A (st : head_st A) n : snd (head_update_limit st n) <> Some [].
Proof.
  pose proof (head_update_limit_shape st n) as H. destruct (snd (head_update_limit st n)) as [[|d ds]|];
    cbn in H; congruence.
Qed.

(* unbatched flavour; [qi]/[qp] = what the source / limit stream will still yield, [iend] = source ended *)
Theorem C09_stream_ends_only_when_source_ended :
  forall (A : Type),
  (forall (s : @ustate A (head_st A)) qi iend qp pend s' qi' qp' tr,
     poll_u head_on_diff head_update_limit true s qi iend qp pend = Ok (s', qi', qp', Ready None, tr) ->
     iend = true /\ qi' = [] /\ u_ready s' = []) /\
  (forall (s : @ustate A (tail_st A)) qi iend qp pend s' qi' qp' tr,
     poll_u tail_on_diff tail_update_limit true s qi iend qp pend = Ok (s', qi', qp', Ready None, tr) ->
     iend = true /\ qi' = [] /\ u_ready s' = []) /\
  (forall (s : @ustate A (skip_st A)) qi iend qp pend s' qi' qp' tr,
     poll_u skip_on_diff skip_update_count true s qi iend qp pend = Ok (s', qi', qp', Ready None, tr) ->
     iend = true /\ qi' = [] /\ u_ready s' = []).
Proof.
  intro A. split; [|split]; intros s qi iend qp pend s' qi' qp' tr H.
  - exact (poll_u_spec _ _ _ (@head_param_nonempty A) _ _ _ _ _ _ _ _ _ _ H).
  - exact (poll_u_spec _ _ _ (@tail_update_limit_nonempty A) _ _ _ _ _ _ _ _ _ _ H).
  - exact (poll_u_spec _ _ _ (@skip_update_count_nonempty A) _ _ _ _ _ _ _ _ _ _ H).
Qed.
Print Assumptions C09_stream_ends_only_when_source_ended.

(* ... and once the source has ended and everything is drained, the next poll reports the end *)
Theorem C09_stream_ends_when_source_ended :
  forall (A : Type) (St : Type) (on_diff : St -> diff A -> outcome (St * list (diff A)))
         (on_param : St -> nat -> St * option (list (diff A))) (hp : bool) (st : St),
  exists tr,
    poll_u on_diff on_param hp {| u_st := st; u_ready := [] |} [] true [] true
    = Ok ({| u_st := st; u_ready := [] |}, [], [], Ready None, tr).
Proof. intros; apply poll_u_ends. Qed.
Print Assumptions C09_stream_ends_when_source_ended.

(* Non-vacuity: concrete states meeting the hypotheses *)
Example C09_nonvacuous :
  (h_buf {| h_buf := [1;2;3]; h_limit := 2 |} = [1;2;3] /\ ok_in (Remove 0) [1;2;3] = true) /\
  tail_shrink_over_len 3 2 3 = false /\ tail_shrink_over_len 10 2 3 = true.
Proof. repeat split; reflexivity. Qed.

(* ---------------- the three crates wired together (FullStack.v) ----------------
   "using the latest limit/count announced", with the limit announced by a real Observable<usize>
   and the source a real ObservableVector: a history of ANY calls on the vector (mutators,
   traversals, transactions, other subscribers, drop; any capacity, so with lag and Reset) and ANY
   calls on the observable (every setter, other subscribers, clones, drops), the adapter created by
   dynamic_head_with_initial_value(limit.get(), limit.subscribe()) /
   dynamic_skip_with_initial_count(..) on a fresh subscriber of the vector, polled at any points.
   Whenever its stream answers Pending (and the observable still has an owner), the consumer's view
   is exactly the first / all-but-the-first [current value of the observable] items of the vector's
   current contents.  ([no_silent]: update_if with a closure answering false stores without
   announcing, C01; the adapter follows what was announced.) *)
From EB Require Import OVec OVecRun Obs FullStack FullStackFacts.

Theorem C09_full_stack_head_follows_the_observable :
  forall (A : Type) veq heq vdefault capacity okd limit0 (evs : list (fev A)) s fuel s',
    frun veq heq vdefault head_on_diff head_update_limit head_full_init (fs_init capacity okd limit0) evs = ROk s ->
    fstep veq heq vdefault head_on_diff head_update_limit head_full_init s (FPoll fuel) = ROk (s', FAnswer Pending) ->
    no_silent evs ->
    ver (f_lim s') <> 0 ->
    exists a, f_ad s' = Some a /\
      a_view a = firstn (val (f_lim s')) (values (g_o (f_g s'))).
Proof. exact full_head_view. Qed.
Print Assumptions C09_full_stack_head_follows_the_observable.

Theorem C09_full_stack_skip_follows_the_observable :
  forall (A : Type) veq heq vdefault capacity okd limit0 (evs : list (fev A)) s fuel s',
    frun veq heq vdefault skip_on_diff skip_update_count skip_full_init (fs_init capacity okd limit0) evs = ROk s ->
    fstep veq heq vdefault skip_on_diff skip_update_count skip_full_init s (FPoll fuel) = ROk (s', FAnswer Pending) ->
    no_silent evs ->
    ver (f_lim s') <> 0 ->
    exists a, f_ad s' = Some a /\
      a_view a = skipn (val (f_lim s')) (values (g_o (f_g s'))).
Proof. exact full_skip_view. Qed.
Print Assumptions C09_full_stack_skip_follows_the_observable.

(* the same on the batched subscriber stream (FullStackB.v) *)
From EB Require Import FullStackB FullStackBFacts.

Theorem C09_full_stack_batched_head_follows_the_observable :
  forall (A : Type) veq heq vdefault capacity okd limit0 (evs : list (fev A)) s fuel s',
    frun_b veq heq vdefault head_on_diff head_update_limit head_full_init (fsb_init capacity okd limit0) evs = ROk s ->
    fstep_b veq heq vdefault head_on_diff head_update_limit head_full_init s (FPoll fuel) = ROk (s', FBAnswer Pending) ->
    no_silent evs ->
    ver (fb_lim s') <> 0 ->
    exists a, fb_ad s' = Some a /\
      b_view a = firstn (val (fb_lim s')) (values (g_o (fb_g s'))).
Proof. exact fullb_head_view. Qed.
Print Assumptions C09_full_stack_batched_head_follows_the_observable.

Theorem C09_full_stack_batched_skip_follows_the_observable :
  forall (A : Type) veq heq vdefault capacity okd limit0 (evs : list (fev A)) s fuel s',
    frun_b veq heq vdefault skip_on_diff skip_update_count skip_full_init (fsb_init capacity okd limit0) evs = ROk s ->
    fstep_b veq heq vdefault skip_on_diff skip_update_count skip_full_init s (FPoll fuel) = ROk (s', FBAnswer Pending) ->
    no_silent evs ->
    ver (fb_lim s') <> 0 ->
    exists a, fb_ad s' = Some a /\
      b_view a = skipn (val (fb_lim s')) (values (g_o (fb_g s'))).
Proof. exact fullb_skip_view. Qed.
Print Assumptions C09_full_stack_batched_skip_follows_the_observable.
