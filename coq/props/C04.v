(* C04 — concurrent use of a SharedObservable is linearizable.
   strength: PARTIAL (DESIGN.md §10): the theorems are about the lock protocol of the micro-step
   model; that std::sync::RwLock implements reader/writer exclusion, that Arc counters are atomic,
   and weak-memory behaviour are trusted; real schedules are sampled (forced and free-running).

   The standard sufficient condition: every operation has one linearization point between its
   invocation and its response, and the sequence of (operation, response) at those points is a run
   of the sequential specification.  [abs_obs] abstracts a micro-state to the operation-granularity
   model of C01; [is_lin op pc] marks the linearizing micro-step (poll: the compare/register step
   holding both locks; set: the store holding the write lock; get / clone: their single step). *)
From EB Require Import Obs ObsConc ObsConcFacts ObsConcLin ObsConcProg.

(* every micro-step of a value operation is either its linearization point - then the abstract
   state moves by exactly the sequential step of that operation, with the same result and the same
   wakers woken (so: a set returns the value stored by its immediate predecessor, no update is
   lost, a read returns the latest preceding write, a subscriber's observed version only grows) -
   or it leaves the abstract state unchanged *)
Theorem C04_lin_step :
  forall (V : Type) (veq heq : V -> V -> bool) (vdefault : V) (s : cstate V) t s' th,
    value_ops (map (@t_op V) (c_threads s)) ->
    nth_error (c_threads s) t = Some th ->
    cstep true s t = Advanced s' ->
    (forall k, t_op th = CPoll k -> k < length (c_subs s)) ->
    1 <= c_clones s ->
    if is_lin (t_op th) (t_pc th) then
      exists r w,
        Obs.step veq heq vdefault (abs_obs s) (seq_op (t_op th)) = Ok (abs_obs s', r, w) /\
        c_woken s' = c_woken s ++ w /\
        match t_op th, nth_error (c_threads s') t with
        | CPoll _, Some th' => exists pr, t_pc th' = PPollDecided pr /\ r = OPollR pr
        | CSet _, Some th' => exists pv, t_pc th' = PDone None (Some pv) None /\ r = OVal pv
        | CGet, Some th' => exists pv, t_pc th' = PDone None (Some pv) None /\ r = OVal pv
        | _, _ => True
        end
    else abs_obs s' = abs_obs s /\ c_woken s' = c_woken s.
Proof. intros V veq heq vdefault s t s' th; apply lin_step. Qed.
Print Assumptions C04_lin_step.

(* each operation passes its linearization point exactly once, and a step of one thread leaves
   every other thread untouched *)
Theorem C04_lin_once :
  forall (V : Type) (s : cstate V) t s' th th',
    nth_error (c_threads s) t = Some th -> cstep true s t = Advanced s' ->
    nth_error (c_threads s') t = Some th' ->
    t_op th' = t_op th /\
    (is_lin (t_op th) (t_pc th) = true ->
       past_lin (t_op th) (t_pc th) = false /\ past_lin (t_op th') (t_pc th') = true) /\
    (is_lin (t_op th) (t_pc th) = false ->
       past_lin (t_op th') (t_pc th') = past_lin (t_op th) (t_pc th)) /\
    (forall u, u <> t -> nth_error (c_threads s') u = nth_error (c_threads s) u).
Proof. intros V s t s' th th'; apply lin_once. Qed.
Print Assumptions C04_lin_once.

(* while a read guard is alive no write completes, and while a write guard is alive nothing else
   reads or writes: reader/writer exclusion in every reachable micro-state of every schedule *)
Theorem C04_lock_exclusion :
  forall (V : Type) (fixed : bool) (v : V) ver clones subs pending ops sched,
    start_ok ver clones subs pending ops ->
    let s := run_sched fixed (cinit v ver clones subs pending ops) sched in
    (c_writer s = true -> c_readers s = 0 /\ count_pcs (@holds_write V) s = 1) /\
    (0 < c_readers s -> c_writer s = false).
Proof.
  intros V fixed v ver clones subs pending ops sched H s.
  destruct (lock_invariant fixed v ver clones subs pending ops sched H) as (H1 & H2 & H3 & H4 & H5 & H6).
  fold s in H1, H2, H3, H4, H5, H6. split.
  - intro W. split; [apply H6; exact W|apply H2; exact W].
  - intro R. destruct (c_writer s) eqn:E; [|reflexivity]. rewrite (H6 eq_refl) in R. inversion R.
Qed.
Print Assumptions C04_lock_exclusion.

Example C04_nonvacuous :
  let s := run_sched true (cinit 0 1 1 [1] [] [CPoll 0; CSet 5]) [0; 1; 0; 0; 0; 1] in
  map (@t_pc nat) (c_threads s) = [PDone (Some Pending) None None; PDone None (Some 0) None] /\
  c_val s = 5 /\ c_woken s = [0].
Proof. vm_compute. repeat split. Qed.

(* ---------------- what the sequential order implies (ObsSeqFacts.v) ----------------
   By C04_lin_step / C04_lin_once every concurrent execution has the results of a sequential
   history of the same calls; the consequences the property names are facts about such histories. *)
From EB Require Import ObsSpec ObsSeqFacts.

(* every set returns the value stored by its immediate predecessor: the previous values returned by
   all sets followed by the final value are the initial value followed by all values written (any
   non-storing calls - polls, gets, subscribing, cloning, drops - interleaved) *)
Theorem C04_seq_set_chain :
  forall (V : Type) (veq heq : V -> V -> bool) (vdefault : V) (o : obs V) xs o' l,
    (forall x, In x xs -> stores x = true -> exists v, x = WSet v) ->
    run_outs veq heq vdefault o xs = (o', l) ->
    set_prevs l ++ [val o'] = val o :: set_written l.
Proof. exact @set_chain. Qed.
Print Assumptions C04_seq_set_chain.

(* each subscriber observes versions in that order, never going backwards *)
Theorem C04_seq_observed_monotone :
  forall (V : Type) (veq heq : V -> V -> bool) (vdefault : V) (o : obs V) x o' r w k ov ov',
    oinv o -> owners o <> 0 -> x <> SReset k ->
    step veq heq vdefault o x = Ok (o', r, w) ->
    nth_error (subs o) k = Some (Some ov) -> nth_error (subs o') k = Some (Some ov') ->
    ov <= ov'.
Proof. exact @observed_monotone. Qed.
Print Assumptions C04_seq_observed_monotone.

(* after the writers have finished a subscriber ends on the final value: polling yields the current
   value at most once and is then Pending *)
Theorem C04_seq_subscriber_ends_on_final :
  forall (V : Type) (veq heq : V -> V -> bool) (vdefault : V) (o : obs V) k ov,
    oinv o -> owners o <> 0 -> nth_error (subs o) k = Some (Some ov) ->
    (ov = ver o /\ exists o1, step veq heq vdefault o (SPoll k) = Ok (o1, OPollR Pending, []) /\ val o1 = val o)
    \/
    (ov < ver o /\ exists o1 o2,
       step veq heq vdefault o (SPoll k) = Ok (o1, OPollR (Ready (Some (val o))), []) /\
       step veq heq vdefault o1 (SPoll k) = Ok (o2, OPollR Pending, []) /\ val o2 = val o).
Proof. exact @subscriber_ends_on_final. Qed.
Print Assumptions C04_seq_subscriber_ends_on_final.

(* ---- whole schedules ----
   For EVERY schedule of the director (any order of releases, including the cascades of threads
   that a released lock unblocks) over value operations: the concurrent run is the sequential run
   (Obs.step, the model of C01) of the same operations in the order of their linearization points -
   same final value / version / registered wakers / subscriber versions, same wakers woken in the
   same order; every operation takes effect at most once, exactly those past their linearization
   point have, and every thread reports exactly the result the sequential run gives its operation
   (a set returns the value stored by its immediate predecessor, a poll the value of the latest
   preceding write).  The linearization point lies between the operation's own first and last
   micro-step (C04_lin_once), which is what makes the order consistent with real time. *)
Theorem C04_schedule_linearizable :
  forall (V : Type) (veq heq : V -> V -> bool) (vdefault : V) (v : V) ver clones subs pending ops sched,
    start_ok ver clones subs pending ops ->
    value_ops ops ->
    (forall k, In (CPoll k) ops -> k < length subs) ->
    1 <= clones ->
    let s0 := cinit v ver clones subs pending ops in
    let s := run_sched true s0 sched in
    let evs := sched_events s0 sched in
    exists outs,
      seq_run veq heq vdefault (abs_obs s0) (map (fun e => seq_op (le_op e)) evs)
        = Some (abs_obs s, outs, c_woken s) /\
      NoDup (map (@le_thread V) evs) /\
      (forall t th, nth_error (c_threads s) t = Some th ->
         (past_lin (t_op th) (t_pc th) = true <-> In t (map (@le_thread V) evs))) /\
      (forall i e out th, nth_error evs i = Some e -> nth_error outs i = Some out ->
         nth_error (c_threads s) (le_thread e) = Some th ->
         t_op th = le_op e /\ reports th out).
Proof. intros V veq heq vdefault v ver clones subs pending ops sched; apply sched_linearizable. Qed.
Print Assumptions C04_schedule_linearizable.

(* ---- threads running programs (ObsConcProg.v) ----
   Every thread runs a program of value operations; a thread whose operation has returned is
   reloaded with its next operation when the director releases it again.  The log holds every
   invocation (EInv), linearization point (ELin) and response (EResp) in the order in which they
   happen.  Linearizability in the sense of Herlihy & Wing, for EVERY schedule:
   (1) the operations in the order of their linearization points are a run of the sequential model
       ending in the abstraction of the concurrent state, with the same wakers woken in the same order;
   (2) at most one event of each kind per operation; (3) invocation < linearization point < response
       for each operation; (4) program order; (5) every response reports the sequential result. *)
Theorem C04_programs_linearizable :
  forall (V : Type) (veq heq : V -> V -> bool) (vdefault : V) (v : V) ver clones subs pending progs sched,
    value_ops (all_ops progs) ->
    (forall k, In (CPoll k) (all_ops progs) -> k < length subs) ->
    1 <= clones ->
    let p0 := pinit v ver clones subs pending progs in
    let p := prun p0 sched in
    let log := p_log p in
    exists outs,
      seq_run veq heq vdefault (abs_obs (p_s p0)) (map (fun e => seq_op (pe_op e)) (lins log))
        = Some (abs_obs (p_s p), outs, c_woken (p_s p)) /\
      (forall i j e e', nth_error log i = Some e -> nth_error log j = Some e' ->
         same_op e e' -> pe_kind e = pe_kind e' -> i = j) /\
      (forall j e, nth_error log j = Some e -> pe_kind e = ELin ->
         exists i e', i < j /\ nth_error log i = Some e' /\ same_op e e' /\ pe_kind e' = EInv /\ pe_op e' = pe_op e) /\
      (forall j e, nth_error log j = Some e -> pe_kind e = EResp ->
         exists i e', i < j /\ nth_error log i = Some e' /\ same_op e e' /\ pe_kind e' = ELin /\ pe_op e' = pe_op e) /\
      (forall j e, nth_error log j = Some e -> pe_kind e = EInv -> 0 < pe_idx e ->
         exists i e', i < j /\ nth_error log i = Some e' /\ pe_thread e' = pe_thread e /\
                      S (pe_idx e') = pe_idx e /\ pe_kind e' = EResp) /\
      (forall k e out j e', nth_error (lins log) k = Some e -> nth_error outs k = Some out ->
         nth_error log j = Some e' -> pe_kind e' = EResp -> same_op e e' -> reports_ev e' out).
Proof.
  intros V veq heq vdefault v ver clones subs pending progs sched.
  apply prog_linearizable.
Qed.
Print Assumptions C04_programs_linearizable.

(* consistent with real time: an operation that returned before another was invoked is linearized
   before it *)
Theorem C04_programs_real_time :
  forall (V : Type) (veq heq : V -> V -> bool) (vdefault : V) (v : V) ver clones subs pending progs sched,
    value_ops (all_ops progs) ->
    (forall k, In (CPoll k) (all_ops progs) -> k < length subs) ->
    1 <= clones ->
    let log := p_log (prun (pinit v ver clones subs pending progs) sched) in
    forall ia ja ib jb ra la ib' lb,
      nth_error log ia = Some ra -> pe_kind ra = EResp ->
      nth_error log ja = Some la -> pe_kind la = ELin -> same_op la ra ->
      nth_error log ib = Some ib' -> pe_kind ib' = EInv ->
      nth_error log jb = Some lb -> pe_kind lb = ELin -> same_op lb ib' ->
      ia < ib -> ja < jb.
Proof.
  intros V veq heq vdefault v ver clones subs pending progs sched.
  exact (prog_real_time veq heq vdefault v ver clones subs pending progs sched).
Qed.
Print Assumptions C04_programs_real_time.
