(* C05 — replaying a subscriber's diffs reproduces each vector state, step by step. *)
From EB Require Import OVecDrain OVecDrainFacts OVec OVecRun OVecFacts OVecExtra OVecStepwise.

(* the diff a mutating call publishes is strictly applicable to the contents before the call and
   produces exactly the contents after it; nothing is published only for the documented no-ops
   (pop on empty, clear on empty, truncate to at least the length), which change nothing *)
Theorem C05_diff_takes_before_to_after :
  forall (A : Type) (m : mutator A) (v : list A) (c : bool) v' r od,
    mutate m v c = Some (v', r, od) ->
    match od with
    | Some d => ok_in d v = true /\ apply d v = Some v' /\ is_reset d = false
    | None => v' = v /\
              (match m with
               | MClear => v = [] /\ c = false
               | MPopFront | MPopBack => v = []
               | MTruncate n => length v <= n
               | _ => False
               end)
    end.
Proof. intros A m v c v' r od; apply mutate_coherent. Qed.
Print Assumptions C05_diff_takes_before_to_after.

(* a direct call sends at most one message; it holds exactly that one diff and the new contents;
   nothing is sent for a no-op or when nobody is subscribed; a panicking call sends nothing *)
Theorem C05_one_diff_per_direct_call :
  forall (A : Type) (o : ovec A) (m : mutator A),
    match mutate m (values o) false with
    | None => ovec_mutate o m = Panic
    | Some (v', r, od) =>
        exists o' w, ovec_mutate o m = Ok (o', r, w) /\ values o' = v' /\
          cap2 o' = cap2 o /\ alive o' = alive o /\ cur_txn o' = cur_txn o /\
          match od with
          | Some d =>
              if rx_cnt o =? 0 then log o' = log o /\ subs o' = subs o
              else log o' = log o ++ [{| m_many := false; m_diffs := [d]; m_state := v' |}] /\
                   subs o' = wake_all (subs o)
          | None => log o' = log o /\ subs o' = subs o
          end
    end.
Proof. intros A o m; apply ovec_mutate_spec. Qed.
Print Assumptions C05_one_diff_per_direct_call.

(* a subscriber that never lagged has, whenever its stream reports Pending, received exactly the
   concatenation of the diffs of every message published since it subscribed - whatever the
   polling pattern (when, how often) and whatever the stream flavour (the batched stream delivers
   the same diffs, concatenated) - and its replica is the vector's contents *)
Theorem C05_received_is_everything_published :
  forall (A : Type) (capacity : nat) (xs : list (op A)) (k : nat) g' gh',
    let g := grun (ginit capacity) xs in
    gstep g (OPoll k) = Ok (g', VPoll Pending) -> nth_error (g_gh g') k = Some gh' ->
    gh_lagged gh' = false ->
    gh_delivered gh' = concat (map (@m_diffs A) (skipn (gh_start gh') (log (g_o g')))) /\
    gh_replica gh' = values (g_o g').
Proof.
  intros A capacity xs k g' gh' g H E L.
  pose proof (poll_meaning g k g' Pending gh' (reachable_strong capacity xs) H E) as P.
  cbv beta iota in P. destruct P as (_ & P2 & P3). split; [apply P3; exact L|exact P2].
Qed.
Print Assumptions C05_received_is_everything_published.

(* step by step: in every reachable state, for every live subscriber, replaying what is still
   pending for it message by message - the rest of the batch it is handing out, then the diffs of the
   next j+1 messages, each diff checked for applicability - yields exactly the contents the vector had
   right after the (j+1)-th of those mutating calls: every call contributes diffs that take the
   replica from the state before the call to the state after it *)
Theorem C05_replay_stepwise :
  forall (A : Type) (capacity : nat) (xs : list (op A)) k s gh,
    let g := grun (ginit capacity) xs in
    nth_error (subs (g_o g)) k = Some (Some s) -> nth_error (g_gh g) k = Some gh ->
    length (log (g_o g)) - sb_next s <= cap2 (g_o g) ->
    forall j, j < length (log (g_o g)) - sb_next s ->
      apply_all_ok
        ((match sb_state s with SYield rest => rest | SRecv => [] end)
           ++ concat (map (@m_diffs A) (firstn (S j) (skipn (sb_next s) (log (g_o g))))))
        (gh_replica gh)
      = option_map (@m_state A) (nth_error (log (g_o g)) (sb_next s + j)).
Proof. intros A capacity xs k s gh; apply replay_stepwise. Qed.
Print Assumptions C05_replay_stepwise.

(* ... and between messages the replica is itself a state the vector had *)
Theorem C05_replica_is_a_published_state :
  forall (A : Type) (capacity : nat) (xs : list (op A)) k s gh,
    let g := grun (ginit capacity) xs in
    nth_error (subs (g_o g)) k = Some (Some s) -> nth_error (g_gh g) k = Some gh ->
    sb_state s = SRecv -> length (log (g_o g)) - sb_next s <= cap2 (g_o g) ->
    gh_start gh < sb_next s ->
    exists m, nth_error (log (g_o g)) (sb_next s - 1) = Some m /\ gh_replica gh = m_state m.
Proof. intros A capacity xs k s gh; apply replica_is_a_published_state. Qed.
Print Assumptions C05_replica_is_a_published_state.

(* the invariant behind it, in every reachable state and for every live subscriber - in particular
   within the window, what is still to come takes the replica to the current contents *)
Theorem C05_invariant_everywhere :
  forall (A : Type) (capacity : nat) (xs : list (op A)) k s gh,
    let g := grun (ginit capacity) xs in
    nth_error (subs (g_o g)) k = Some (Some s) -> nth_error (g_gh g) k = Some gh ->
    sub_inv (g_o g) s gh.
Proof.
  intros A capacity xs k s gh g Hs Hg.
  pose proof (ginv_strong_ginv _ (reachable_strong capacity xs)) as (_ & _ & _ & _ & _ & H).
  eapply H; eassumption.
Qed.
Print Assumptions C05_invariant_everywhere.

Example C05_nonvacuous :
  let g := grun (ginit 4) [OSub false; OMut (MPushBack 1); OMut MPopFront; OMut MPopFront; OMut (MInsert 0 7);
                           OPoll 0; OPoll 0; OPoll 0] in
  map (@gh_delivered nat) (g_gh g) = [[PushBack 1; PopFront; Insert 0 7]] /\ values (g_o g) = [7].
Proof. split; reflexivity. Qed.

(* ---- polls that race the sender (OVecDrain.v): the vector publishes between the receive attempts
   of one poll; the statements above survive ---- *)
Theorem C05_racing_polls_all_applicable {A} capacity (cs : list (cop A)) :
  g_app_ok (c_run (ginit capacity) cs) = true.
Proof. exact (c_all_applicable capacity cs). Qed.
Print Assumptions C05_racing_polls_all_applicable.

Theorem C05_racing_polls_never_lagged_gets_everything {A} capacity (cs : list (cop A)) k s gh :
  let g := c_run (ginit capacity) cs in
  nth_error (subs (g_o g)) k = Some (Some s) -> nth_error (g_gh g) k = Some gh ->
  gh_lagged gh = false ->
  gh_delivered gh ++ sub_pending (g_o g) s
  = concat (map (@m_diffs A) (skipn (gh_start gh) (log (g_o g)))).
Proof. exact (c_never_lagged_gets_everything capacity cs k s gh). Qed.
Print Assumptions C05_racing_polls_never_lagged_gets_everything.
