(* C07 — transactions are atomic: invisible until commit, all-or-nothing afterwards. *)
From EB Require Import OVec OVecRun OVecFacts OVecExtra.

(* whatever the body (mutators incl. clear, entry traversals, partial rollbacks, out-of-range calls
   that panic), abandoning the transaction leaves the complete state - contents, channel, every
   subscriber, every replica - exactly as it was, so everything observed afterwards is as if the
   abandoned operations had never been issued *)
Theorem C07_abandon_is_identity :
  forall (A : Type) (g : gst A) (body : list (op A)),
    cur_txn (g_o g) = None -> forallb is_txn_op body = true ->
    grun g (OTxnBegin :: body ++ [OTDrop]) = g.
Proof.
  intros A g body H1 H2. apply txn_abandon_is_identity_always; assumption.
Qed.
Print Assumptions C07_abandon_is_identity.

(* ... hence any continuation behaves identically *)
Theorem C07_abandon_unobservable :
  forall (A : Type) (g : gst A) (body rest : list (op A)),
    cur_txn (g_o g) = None -> forallb is_txn_op body = true ->
    grun g ((OTxnBegin :: body ++ [OTDrop]) ++ rest) = grun g rest.
Proof.
  intros A g body rest H1 H2.
  assert (Happ : forall xs ys (g0 : gst A), grun g0 (xs ++ ys) = grun (grun g0 xs) ys).
  { induction xs as [|x xs IH]; intros ys g0; cbn [app grun]; [reflexivity|].
    destruct (gstep g0 x) as [[g1 o]|]; apply IH. }
  rewrite Happ. rewrite (txn_abandon_is_identity_always g body H1 H2). reflexivity.
Qed.
Print Assumptions C07_abandon_unobservable.

(* nothing a transaction does before commit is visible outside it; through the handle the pending
   changes are visible (cur_values o true = the working contents) *)
Theorem C07_invisible_until_commit :
  forall (A : Type) (o : ovec A) (m : mutator A) o' r,
    txn_mutate o m = Ok (o', r) ->
    values o' = values o /\ log o' = log o /\ subs o' = subs o /\
    (forall t t', cur_txn o = Some t -> cur_txn o' = Some t' ->
       exists od, mutate m (tx_values t) true = Some (tx_values t', r, od)).
Proof.
  intros A o m o' r H. destruct (txn_mutate_invisible o m o' r H) as (H1 & H2 & H3 & _).
  repeat split; try assumption.
  intros t t' Et Et'. pose proof (txn_mutate_spec o m t Et) as S.
  destruct (mutate m (tx_values t) true) as [[[v' r0] od]|].
  - destruct S as (t1 & E1 & E2). rewrite E1 in H. injection H as <- <-.
    cbn [cur_txn with_txn] in Et'. injection Et' as <-. exists od. rewrite E2. reflexivity.
  - congruence.
Qed.
Print Assumptions C07_invisible_until_commit.

(* commit: the contents become the working contents; at most one message is published; it carries
   the whole batch, which takes the pre-transaction contents to the post-transaction contents;
   an empty batch (or no subscriber) publishes nothing *)
Theorem C07_commit_publishes_one_unit :
  forall (A : Type) (capacity : nat) (xs : list (op A)) t,
    let o := g_o (grun (ginit capacity) xs) in
    cur_txn o = Some t ->
    let o' := fst (txn_commit o) in
    values o' = tx_values t /\ cur_txn o' = None /\
    (tx_batch t = [] \/ rx_cnt o = 0 -> log o' = log o) /\
    (tx_batch t <> [] -> 0 < rx_cnt o ->
       log o' = log o ++ [{| m_many := true; m_diffs := tx_batch t; m_state := tx_values t |}] /\
       apply_all_ok (tx_batch t) (values o) = Some (values o')).
Proof.
  intros A capacity xs t o Et o'. apply txn_commit_spec; [exact Et|].
  pose proof (ginv_strong_ginv _ (reachable_strong capacity xs)) as (_ & _ & _ & _ & H & _). exact H.
Qed.
Print Assumptions C07_commit_publishes_one_unit.

(* a batched subscriber never observes a state in between: each of its items leaves its replica
   equal to [values], which a transaction changes only at commit *)
Theorem C07_batched_sees_only_boundaries :
  forall (A : Type) (capacity : nat) (xs : list (op A)) (k : nat) g' ds gh',
    let g := grun (ginit capacity) xs in
    gstep g (OPoll k) = Ok (g', VPoll (Ready (Some (IBatch ds)))) -> nth_error (g_gh g') k = Some gh' ->
    gh_replica gh' = values (g_o g') /\ values (g_o g') = values (g_o g).
Proof.
  intros A capacity xs k g' ds gh' g H E.
  pose proof (poll_meaning g k g' (Ready (Some (IBatch ds))) gh' (reachable_strong capacity xs) H E) as P.
  cbv beta iota in P. destruct P as (_ & P2 & _). split; [exact P2|].
  (* a poll does not change the contents *)
  unfold gstep in H. unfold poll_sub in H.
  destruct (nth_error (subs (g_o g)) k) as [[s|]|]; try discriminate.
  destruct ((if sb_batched s then poll_batched else poll_plain) _ _ _ s) as [[s' r]|]; [|discriminate].
  destruct r as [[it|]|]; try discriminate.
  destruct (nth_error (g_gh g) k); [|discriminate]. destruct (deliver _ _ _).
  injection H as <- _. reflexivity.
Qed.
Print Assumptions C07_batched_sees_only_boundaries.

Example C07_nonvacuous :
  let g := grun (ginit 4) [OMut (MPushBack 1); OSub true] in
  cur_txn (g_o g) = None /\
  values (g_o (grun g [OTxnBegin; OTMut (MPushBack 2); OTMut MClear; OTMut (MPushFront 3); OTCommit])) = [3] /\
  map (fun m => m_diffs m) (log (g_o (grun g [OTxnBegin; OTMut (MPushBack 2); OTMut MClear; OTMut (MPushFront 3); OTCommit])))
    = [[Clear; PushFront 3]].
Proof. repeat split. Qed.
