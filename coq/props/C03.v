(* C03 — a subscriber's stream ends exactly when the last owner is dropped (operation granularity;
   the thread-level statement for concurrent drops is in the second half of this file once the
   micro-step model is in place). *)
From EB Require Import Obs ObsSpec ObsFacts.

(* in every reachable state: a poll answers None iff no owning handle exists *)
Theorem C03_seq_none_iff_no_owner :
  forall (V : Type) (veq heq : V -> V -> bool) (vdefault : V) (k0 : kind) (v0 : V) (xs : list (op V)),
    let o := run veq heq vdefault (obs_new k0 v0) xs in
    forall k o' r w,
      step veq heq vdefault o (SPoll k) = Ok (o', OPollR r, w) -> (r = Ready None <-> owners o = 0).
Proof.
  intros V veq heq vdefault k0 v0 xs o k o' r w H.
  eapply none_iff_no_owner; [|exact H]. apply oinv_run. apply oinv_new.
Qed.
Print Assumptions C03_seq_none_iff_no_owner.

(* only the drop of the last owner ends it: not into_shared, downgrade, dropping some clones,
   subscribers or weak references, nor any setter *)
Theorem C03_seq_only_last_drop_ends :
  forall (V : Type) (veq heq : V -> V -> bool) (vdefault : V) (o : obs V) x o' r w,
    oinv o -> owners o <> 0 -> step veq heq vdefault o x = Ok (o', r, w) ->
    (owners o' = 0 <-> x = HDropOwner /\ owners o = 1).
Proof. intros V veq heq vdefault o x o' r w; apply only_last_drop_closes. Qed.
Print Assumptions C03_seq_only_last_drop_ends.

(* after the end: it stays ended, next() keeps answering None, get/read return the last value,
   upgrade fails *)
Theorem C03_seq_after_end :
  forall (V : Type) (veq heq : V -> V -> bool) (vdefault : V) (o : obs V) x o' r w,
    oinv o -> owners o = 0 -> step veq heq vdefault o x = Ok (o', r, w) ->
    owners o' = 0 /\ val o' = val o /\ w = [] /\
    match x with
    | SPoll _ => r = OPollR (Ready None)
    | SGet _ | SNextNow _ => r = OVal (val o)
    | HUpgrade => r = OBool false
    | _ => True
    end.
Proof. intros V veq heq vdefault o x o' r w; apply after_end. Qed.
Print Assumptions C03_seq_after_end.

Theorem C03_seq_upgrade_iff_owner :
  forall (V : Type) (veq heq : V -> V -> bool) (vdefault : V) (o o' : obs V) b w,
    step veq heq vdefault o HUpgrade = Ok (o', OBool b, w) -> (b = true <-> 0 < owners o).
Proof. intros V veq heq vdefault o o' b w; apply upgrade_iff_owner. Qed.
Print Assumptions C03_seq_upgrade_iff_owner.
