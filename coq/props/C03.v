(* C03 — a subscriber's stream ends exactly when the last owner is dropped (operation granularity;
   the thread-level statement for concurrent drops is in the second half of this file once the
   micro-step model is in place). *)
From EB Require Import Obs ObsSpec ObsFacts.

(* in every reachable state: a poll answers None iff no owning handle exists *)
Theorem C03_seq_none_iff_no_owner :
  forall (V : Type) (veq heq : V -> V -> bool) (vdefault : V) (k0 : kind) (v0 : V) (xs : list (op V)),
    let o := run veq heq vdefault (obs_new k0 v0) xs in
    forall k o' r w,
      step veq heq vdefault o (SPoll k) = Ok (o', OPollR r, w) -> (r = Ready None <-> owners o = 0).
Proof.
  intros V veq heq vdefault k0 v0 xs o k o' r w H.
  eapply none_iff_no_owner; [|exact H]. apply oinv_run. apply oinv_new.
Qed.
Print Assumptions C03_seq_none_iff_no_owner.

(* only the drop of the last owner ends it: not into_shared, downgrade, dropping some clones,
   subscribers or weak references, nor any setter *)
Theorem C03_seq_only_last_drop_ends :
  forall (V : Type) (veq heq : V -> V -> bool) (vdefault : V) (o : obs V) x o' r w,
    oinv o -> owners o <> 0 -> step veq heq vdefault o x = Ok (o', r, w) ->
    (owners o' = 0 <-> x = HDropOwner /\ owners o = 1).
Proof. intros V veq heq vdefault o x o' r w; apply only_last_drop_closes. Qed.
Print Assumptions C03_seq_only_last_drop_ends.

(* after the end: it stays ended, next() keeps answering None, get/read return the last value,
   upgrade fails *)
Theorem C03_seq_after_end :
  forall (V : Type) (veq heq : V -> V -> bool) (vdefault : V) (o : obs V) x o' r w,
    oinv o -> owners o = 0 -> step veq heq vdefault o x = Ok (o', r, w) ->
    owners o' = 0 /\ val o' = val o /\ w = [] /\
    match x with
    | SPoll _ => r = OPollR (Ready None)
    | SGet _ | SNextNow _ => r = OVal (val o)
    | HUpgrade => r = OBool false
    | _ => True
    end.
Proof. intros V veq heq vdefault o x o' r w; apply after_end. Qed.
Print Assumptions C03_seq_after_end.

Theorem C03_seq_upgrade_iff_owner :
  forall (V : Type) (veq heq : V -> V -> bool) (vdefault : V) (o o' : obs V) b w,
    step veq heq vdefault o HUpgrade = Ok (o', OBool b, w) -> (b = true <-> 0 < owners o).
Proof. intros V veq heq vdefault o o' b w; apply upgrade_iff_owner. Qed.
Print Assumptions C03_seq_upgrade_iff_owner.

(* ---------------- lock granularity: concurrent drops and upgrades ---------------- *)
From EB Require Import ObsConc ObsConcFacts.

(* with the repaired Drop (Arc::into_inner): at every point of every schedule where no thread is in
   the middle of a drop or an upgrade, the state is closed iff no owner is left, and no thread
   panicked (read_noblock never meets a writer) *)
Theorem C03_conc_closed_iff_no_owner :
  forall (V : Type) (v : V) ver clones subs pending ops sched,
    start_ok ver clones subs pending ops ->
    let s := run_sched true (cinit v ver clones subs pending ops) sched in
    handles_quiescent s = true -> c_panicked s = [] /\ (c_ver s = 0 <-> c_clones s = 0).
Proof. intros V v ver clones subs pending ops sched; apply conc_closed_iff_no_owner. Qed.
Print Assumptions C03_conc_closed_iff_no_owner.

(* a successfully upgraded weak reference is an owner: the state is not closed *)
Theorem C03_conc_upgrade_sound :
  forall (V : Type) (v : V) ver clones subs pending ops sched t th,
    start_ok ver clones subs pending ops ->
    let s := run_sched true (cinit v ver clones subs pending ops) sched in
    nth_error (c_threads s) t = Some th -> t_op th = CUpgrade -> t_pc th = PDone None None (Some true) ->
    handles_quiescent s = true -> c_ver s <> 0.
Proof. intros V v ver clones subs pending ops sched t th; apply conc_upgrade_sound. Qed.
Print Assumptions C03_conc_upgrade_sound.

(* the original Drop (plain load of the clone counter) is refuted: two concurrent droppers never
   close (finding F1, repaired in 8ebfecc) ... *)
Theorem C03_conc_refuted_before_fix :
  exists sched,
    let s := run_sched false (cinit 0 1 2 [1] [0] [CDrop; CDrop]) sched in
    handles_quiescent s = true /\ c_clones s = 0 /\ c_ver s <> 0 /\ c_woken s = [].
Proof. exact conc_closed_iff_no_owner_refuted_before_fix. Qed.
Print Assumptions C03_conc_refuted_before_fix.

(* ... and a drop racing with an upgrade closes under a live owner *)
Theorem C03_conc_upgrade_refuted_before_fix :
  exists sched,
    let s := run_sched false (cinit 0 1 1 [1] [0] [CDrop; CUpgrade]) sched in
    handles_quiescent s = true /\ c_clones s = 1 /\ c_ver s = 0.
Proof. exact conc_upgrade_refuted_before_fix. Qed.
Print Assumptions C03_conc_upgrade_refuted_before_fix.
