(* C15 — a fixed-limit Head/Tail view never exceeds its limit, even between two diffs.
   [apply_all_ok_bound b ds v] applies the diffs one by one (each checked for applicability) and
   fails as soon as an intermediate view has more than b items. *)
From EB Require Import Diff Head Tail AdapterCore HeadFacts TailFacts.

Theorem C15_initial_bound :
  forall (A : Type) (limit : nat) (vs : list A),
    length (fst (head_init limit vs)) <= limit /\ length (fst (tail_init limit vs)) <= limit.
Proof. intros; split; [apply head_init_bound|apply tail_init_bound]. Qed.
Print Assumptions C15_initial_bound.

Theorem C15_head_prefix_bound :
  forall (A : Type) (st : head_st A) (l v : list A) (d : diff A),
    h_buf st = l /\ v = firstn (h_limit st) l -> ok_in d l = true ->
    exists st' outs l',
      head_on_diff st d = Ok (st', outs) /\ apply d l = Some l' /\
      apply_all_ok_bound (h_limit st) outs v = Some (firstn (h_limit st) l').
Proof.
  intros A st l v d HR Hok.
  destruct (head_step_bound st l v d HR Hok) as (st' & outs & l' & E1 & E2 & E3 & _).
  exists st', outs, l'. auto.
Qed.
Print Assumptions C15_head_prefix_bound.

Theorem C15_tail_prefix_bound :
  forall (A : Type) (st : tail_st A) (l v : list A) (d : diff A),
    t_buf st = l /\ v = skipn (length l - t_limit st) l -> ok_in d l = true ->
    exists st' outs l',
      tail_on_diff st d = Ok (st', outs) /\ apply d l = Some l' /\
      apply_all_ok_bound (t_limit st) outs v = Some (skipn (length l' - t_limit st) l').
Proof.
  intros A st l v d HR Hok.
  destruct (tail_step_bound st l v d HR Hok) as (st' & outs & l' & E1 & E2 & E3 & _).
  exists st', outs, l'. auto.
Qed.
Print Assumptions C15_tail_prefix_bound.

(* what the bounded run means: every prefix of the emitted diffs leaves at most b items *)
Theorem C15_bound_means_every_prefix :
  forall (A : Type) (b : nat) (ds : list (diff A)) (v v' : list A),
    length v <= b -> apply_all_ok_bound b ds v = Some v' ->
    forall k, exists w, apply_all_ok (firstn k ds) v = Some w /\ length w <= b.
Proof.
  intros A b ds. induction ds as [|d ds IH]; intros v v' Hv H k.
  - rewrite firstn_nil. exists v. auto.
  - destruct k as [|k]; [exists v; auto|].
    rewrite firstn_cons. cbn [apply_all_ok_bound apply_all_ok] in *.
    destruct (ok_in d v); [|discriminate].
    destruct (apply d v) as [v1|]; [|discriminate]. cbn [obind].
    destruct (Nat.leb_spec (length v1) b); [|discriminate].
    eapply IH; eassumption.
Qed.
Print Assumptions C15_bound_means_every_prefix.

Example C15_nonvacuous :
  apply_all_ok_bound 2 [PopBack; PushFront 9] [1;2] = Some [9;1] /\
  apply_all_ok_bound 2 [PushFront 9; PopBack] [1;2] = None.
Proof. split; reflexivity. Qed.

(* ---------------- end to end (EndToEndBound.v) ----------------
   A fixed-limit Head / Tail fed with exactly what a subscriber of an ObservableVector delivers, in
   ANY history of the vector (any capacity, so with lag and Reset; transactions; any polling
   pattern): [e2e_run_bound n] applies every emitted diff one at a time and fails as soon as an
   intermediate view has more than n items - it never fails.  The consumer never holds more than
   `limit` items, not even between two diffs of one item. *)
From EB Require Import OVec OVecRun EndToEnd EndToEndBound.

Theorem C15_e2e_head_bound :
  forall (A : Type) (n capacity : nat) (xs : list (op A)) (k : nat),
    let init := fun l : list A => (snd (head_init n l), fst (head_init n l)) in
    let R := fun (st : head_st A) (l v : list A) => head_R st l v /\ h_limit st = n in
    exists g a, e2e_run_bound n head_on_diff init k (ginit capacity) None xs = Some (g, a) /\
      g = grun (ginit capacity) xs /\
      match a with
      | Some (st, v) =>
          (exists gh, nth_error (g_gh g) k = Some gh /\ R st (gh_replica gh) v) /\ length v <= n
      | None => length (g_gh g) <= k
      end.
Proof. exact e2e_head_bound. Qed.
Print Assumptions C15_e2e_head_bound.

Theorem C15_e2e_tail_bound :
  forall (A : Type) (n capacity : nat) (xs : list (op A)) (k : nat),
    let init := fun l : list A => (snd (tail_init n l), fst (tail_init n l)) in
    let R := fun (st : tail_st A) (l v : list A) => tail_R st l v /\ t_limit st = n in
    exists g a, e2e_run_bound n tail_on_diff init k (ginit capacity) None xs = Some (g, a) /\
      g = grun (ginit capacity) xs /\
      match a with
      | Some (st, v) =>
          (exists gh, nth_error (g_gh g) k = Some gh /\ R st (gh_replica gh) v) /\ length v <= n
      | None => length (g_gh g) <= k
      end.
Proof. exact e2e_tail_bound. Qed.
Print Assumptions C15_e2e_tail_bound.
