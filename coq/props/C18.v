(* C18 — VectorDiff::map commutes with apply.  This file holds only the pinned statements. *)
From EB Require Import Diff DiffFacts.

Theorem C18_map_apply_commute :
  forall (A B : Type) (f : A -> B) (d : diff A) (l : list A),
    apply (dmap f d) (map f l) = option_map (map f) (apply d l).
Proof. intros; apply map_apply_commute. Qed.
Print Assumptions C18_map_apply_commute.

Theorem C18_map_id :
  forall (A : Type) (d : diff A), dmap (fun x => x) d = d.
Proof. intros; apply dmap_id. Qed.
Print Assumptions C18_map_id.

Theorem C18_apply_panics_iff_oob :
  forall (A : Type) (d : diff A) (l : list A),
    apply d l = None <->
    match d with
    | Insert i _ => length l < i
    | SetAt i _ | Remove i => length l <= i
    | _ => False
    end.
Proof.
  intros A d l. rewrite apply_panics_iff_oob.
  destruct d; simpl; try (split; [discriminate|tauto]).
  - apply Nat.ltb_lt.
  - apply Nat.leb_le.
  - apply Nat.leb_le.
Qed.
Print Assumptions C18_apply_panics_iff_oob.

Theorem C18_apply_documented_effect :
  forall (A : Type) (d : diff A) (l l' : list A),
    apply d l = Some l' -> forall k, nth_error l' k = spec_nth d l k.
Proof. intros A d l l'; apply apply_documented_effect. Qed.
Print Assumptions C18_apply_documented_effect.

(* Non-vacuity: a concrete applicable diff, and a concrete panicking one. *)
Example C18_nonvacuous :
  apply (Insert 1 7) [1; 2; 3] = Some [1; 7; 2; 3] /\ apply (Remove 3) [1; 2; 3] = None.
Proof. split; reflexivity. Qed.
