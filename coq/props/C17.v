(* C17 — mutators behave like a plain vector; entry traversal visits each item once.
   [mutate m v c] is the plain-list semantics of the ten mutating calls (contents, return value,
   published diff); the theorems say that ObservableVector and its transaction leave exactly that
   as contents, return exactly that, and panic exactly for out-of-range indices with no effect. *)
From EB Require Import OVec OVecRun OVecFacts OVecExtra.

Theorem C17_mutators_refine_list :
  forall (A : Type) (o : ovec A) (m : mutator A),
    (match mutate m (values o) false with
     | None => ovec_mutate o m = Panic
     | Some (v', r, _) => exists o' w, ovec_mutate o m = Ok (o', r, w) /\ values o' = v'
     end) /\
    (forall t, cur_txn o = Some t ->
       match mutate m (tx_values t) true with
       | None => txn_mutate o m = Panic
       | Some (v', r, _) => exists t', txn_mutate o m = Ok (with_txn o (Some t'), r) /\ tx_values t' = v'
       end).
Proof.
  intros A o m. split.
  - pose proof (ovec_mutate_spec o m) as S.
    destruct (mutate m (values o) false) as [[[v' r] od]|]; [|exact S].
    destruct S as (o' & w & E & Hv & _). exists o', w. auto.
  - intros t Et. pose proof (txn_mutate_spec o m t Et) as S.
    destruct (mutate m (tx_values t) true) as [[[v' r] od]|]; exact S.
Qed.
Print Assumptions C17_mutators_refine_list.

(* return values: popped / removed / replaced element, None on empty *)
Theorem C17_return_values :
  forall (A : Type) (m : mutator A) (v : list A) (c : bool) v' r od,
    mutate m v c = Some (v', r, od) ->
    match m with
    | MPopFront => r = ROpt (hd_error v)
    | MPopBack => r = ROpt (back v)
    | MSet i _ | MRemove i => exists x, nth_error v i = Some x /\ r = RVal x
    | _ => r = RUnit
    end.
Proof. intros A m v c v' r od; apply mutate_ret. Qed.
Print Assumptions C17_return_values.

(* an out-of-range insert, set, remove panics - and only those do; a panicking call is skipped by
   grun, i.e. changes nothing and notifies nobody *)
Theorem C17_oob_panics_without_effect :
  forall (A : Type) (m : mutator A) (v : list A) (c : bool),
    mutate m v c = None <->
    match m with
    | MInsert i _ => length v < i
    | MSet i _ | MRemove i => length v <= i
    | _ => False
    end.
Proof. intros A m v c; apply mutate_panics_iff. Qed.
Print Assumptions C17_oob_panics_without_effect.

(* for_each / entries never panics, hands every original element to the closure exactly once in
   index order (up to the stop), reports the element's current position, and leaves the decisions'
   results followed by the untouched rest; trav_spec is that specification on plain lists *)
Theorem C17_traversal :
  forall (A : Type) (o : ovec A) (in_txn : bool) (decs : list (decision A)),
    (in_txn = true -> cur_txn o <> None) ->
    exists o' w,
      for_each o in_txn decs = Ok (o', fst (trav_spec decs [] (cur_values o in_txn)), w) /\
      cur_values o' in_txn = snd (trav_spec decs [] (cur_values o in_txn)).
Proof. intros A o in_txn decs; apply for_each_spec. Qed.
Print Assumptions C17_traversal.

(* the specification does what the property says: with only keep/set decisions every element is
   visited once, in order, at its own index *)
Example C17_trav_spec_example :
  trav_spec [DKeep; DSet 9; DRemove; DSetRemove 8; DKeep] [] [1; 2; 3; 4; 5; 6]
  = ([(0, 1); (1, 2); (2, 3); (2, 4); (2, 5); (3, 6)], [1; 9; 5; 6]) /\
  trav_spec [DRemove; DStop] [] [1; 2; 3] = ([(0, 1); (0, 2)], [2; 3]).
Proof. split; reflexivity. Qed.
