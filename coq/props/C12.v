(* C12 — adapters compose: a chain shows what applying each view in turn would show.
   [step_ok on R] / [param_ok par R] are the one-step correctness statements of AdapterCore (C09-C11
   prove them for every adapter); R relates adapter state, source contents and consumer view. *)
From EB Require Import Diff AdapterCore Head Tail Skip Chain ChainFacts HeadFacts TailFacts SkipFacts.

(* correct stages compose into a correct chain whose view is the upper view of the lower view:
   the lower stage's output guarantee (every emitted diff applicable to its view) is the upper
   stage's input guard *)
Theorem C12_compose :
  forall (A B C Sa Sb : Type)
         (on_a : Sa -> diff A -> outcome (Sa * list (diff B)))
         (on_b : Sb -> diff B -> outcome (Sb * list (diff C)))
         (Ra : Sa -> list A -> list B -> Prop) (Rb : Sb -> list B -> list C -> Prop),
    step_ok on_a Ra -> step_ok on_b Rb ->
    step_ok (on_ab on_a on_b) (Rab Ra Rb).
Proof. intros; apply compose_step_ok; assumption. Qed.
Print Assumptions C12_compose.

(* limit/count changes of either stage *)
Theorem C12_compose_params :
  forall (A B C Sa Sb : Type)
         (on_b : Sb -> diff B -> outcome (Sb * list (diff C)))
         (par_a : Sa -> nat -> Sa * option (list (diff B)))
         (par_b : Sb -> nat -> Sb * option (list (diff C)))
         (Ra : Sa -> list A -> list B -> Prop) (Rb : Sb -> list B -> list C -> Prop),
    (param_ok par_a Ra -> step_ok on_b Rb -> param_ok (par_lower on_b par_a) (Rab Ra Rb)) /\
    (param_ok par_b Rb -> param_ok (par_upper (Sa:=Sa) par_b) (Rab Ra Rb)).
Proof.
  intros. split; intros.
  - apply compose_param_lower_ok; assumption.
  - apply compose_param_upper_ok; assumption.
Qed.
Print Assumptions C12_compose_params.

(* chains of any length: a composed chain is again an adapter satisfying step_ok, so the theorem
   applies to ((a |> b) |> c) and so on; stated here for three stages *)
Theorem C12_chain_of_three :
  forall (A B C D Sa Sb Sc : Type)
         (on_a : Sa -> diff A -> outcome (Sa * list (diff B)))
         (on_b : Sb -> diff B -> outcome (Sb * list (diff C)))
         (on_c : Sc -> diff C -> outcome (Sc * list (diff D)))
         (Ra : Sa -> list A -> list B -> Prop) (Rb : Sb -> list B -> list C -> Prop)
         (Rc : Sc -> list C -> list D -> Prop),
    step_ok on_a Ra -> step_ok on_b Rb -> step_ok on_c Rc ->
    step_ok (on_ab (on_ab on_a on_b) on_c) (Rab (Rab Ra Rb) Rc).
Proof. intros. apply compose_step_ok; [apply compose_step_ok|]; assumption. Qed.
Print Assumptions C12_chain_of_three.

(* the whole history of a chain: by the generic lifting, every stage's view is right at every
   quiescent point *)
Theorem C12_chain_history :
  forall (A B C Sa Sb : Type)
         (on_a : Sa -> diff A -> outcome (Sa * list (diff B)))
         (on_b : Sb -> diff B -> outcome (Sb * list (diff C)))
         (Ra : Sa -> list A -> list B -> Prop) (Rb : Sb -> list B -> list C -> Prop),
    step_ok on_a Ra -> step_ok on_b Rb ->
    forall (ds : list (diff A)) sa sb l mid v,
      Ra sa l mid -> Rb sb mid v -> src_valid (map EDiff ds) l = true ->
      exists s' v',
        run_events (on_ab on_a on_b) (fun s _ => (s, None)) (map EDiff ds) (sa, sb) l v
          = Some (s', src_after (map EDiff ds) l, v') /\
        exists mid', Ra (fst s') (src_after (map EDiff ds) l) mid' /\ Rb (snd s') mid' v'.
Proof.
  intros A B C Sa Sb on_a on_b Ra Rb Ha Hb ds sa sb l mid v HRa HRb Hv.
  assert (Hp : param_ok (fun (s : Sa * Sb) (_ : nat) => (s, @None (list (diff C)))) (Rab Ra Rb)).
  { intros s0 l0 v0 n HR0. exists s0, v0. auto. }
  assert (HR : Rab Ra Rb (sa, sb) l v) by (exists mid; auto).
  destruct (run_events_ok _ _ _ (compose_step_ok _ _ _ _ Ha Hb) Hp (map EDiff ds) (sa, sb) l v HR Hv)
    as (s' & v' & E & HR').
  exists s', v'. split; [exact E|exact HR'].
Qed.
Print Assumptions C12_chain_history.

(* the hand-over by the adapter itself: the initial values a purely dynamic Head / Tail / Skip
   hands to the next stage are its current view, not its copy of the source *)
Theorem C12_into_parts_is_view :
  forall (A : Type),
    (forall (st : head_st A) l v, h_buf st = l /\ v = firstn (h_limit st) l -> head_into_parts st = v) /\
    (forall (st : tail_st A) l v, t_buf st = l /\ v = skipn (length l - t_limit st) l -> tail_into_parts st = v) /\
    (forall (st : skip_st A) l v, s_buf st = l /\ v = skip_view_of (s_count st) l -> skip_into_parts st = v).
Proof.
  intro A. split; [|split]; intros st l v H.
  - eapply head_into_parts_view; exact H.
  - eapply tail_into_parts_view; exact H.
  - eapply skip_into_parts_view; exact H.
Qed.
Print Assumptions C12_into_parts_is_view.

Example C12_nonvacuous :
  head_into_parts {| h_buf := [1;2;3;4]; h_limit := 0 |} = [] /\
  skip_into_parts {| s_buf := [1;2;3]; s_count := None |} = @nil nat /\
  tail_into_parts {| t_buf := [1;2;3;4]; t_limit := 2 |} = [3;4].
Proof. repeat split. Qed.

(* ---------------- end to end on the model (EndToEnd.v) ----------------
   An ObservableVector under ANY history (mutators, traversals, transactions, subscriptions, polls of
   any subscriber at any time, drops; any capacity, so with lag and Reset), one of its subscribers,
   and an adapter - any adapter whose step function is correct (step_ok), hence every stage and every
   chain of this file - fed with exactly what that subscriber's stream delivers: the adapter never
   panics, never emits an inapplicable diff, and whenever the subscriber's stream reports Pending the
   consumer's view stands for the vector's CURRENT contents. *)
From EB Require Import OVec OVecRun EndToEnd Head HeadFacts.

Theorem C12_e2e_invariant :
  forall (A B St : Type) (on_diff : St -> diff A -> outcome (St * list (diff B)))
         (R : St -> list A -> list B -> Prop) (init : list A -> St * list B),
    step_ok on_diff R -> (forall l, R (fst (init l)) l (snd (init l))) ->
    forall (capacity : nat) (xs : list (op A)) (k : nat),
      exists g a, e2e_run on_diff init k (ginit capacity) None xs = Some (g, a) /\
        g = grun (ginit capacity) xs /\
        match a with
        | Some (st, v) => exists gh, nth_error (g_gh g) k = Some gh /\ R st (gh_replica gh) v
        | None => length (g_gh g) <= k
        end.
Proof. intros A B St on_diff R init Hs Hi. exact (e2e_invariant on_diff R init Hs Hi). Qed.
Print Assumptions C12_e2e_invariant.

Theorem C12_e2e_view_at_pending :
  forall (A B St : Type) (on_diff : St -> diff A -> outcome (St * list (diff B)))
         (R : St -> list A -> list B -> Prop) (init : list A -> St * list B),
    step_ok on_diff R -> (forall l, R (fst (init l)) l (snd (init l))) ->
    forall (capacity : nat) (xs : list (op A)) (k : nat) g st v g',
      e2e_run on_diff init k (ginit capacity) None xs = Some (g, Some (st, v)) ->
      gstep g (OPoll k) = Ok (g', VPoll Pending) ->
      R st (values (g_o g')) v.
Proof. intros A B St on_diff R init Hs Hi. exact (e2e_view_at_pending on_diff R init Hs Hi). Qed.
Print Assumptions C12_e2e_view_at_pending.

(* an instance spelled out: Head with limit n on a subscriber of an ObservableVector shows exactly the
   first n items of the vector's current contents whenever the stream is Pending *)
Theorem C12_e2e_head :
  forall (A : Type) (n capacity : nat) (xs : list (op A)) (k : nat) g st v g',
    let init := fun l : list A => (snd (head_init n l), fst (head_init n l)) in
    e2e_run head_on_diff init k (ginit capacity) None xs = Some (g, Some (st, v)) ->
    gstep g (OPoll k) = Ok (g', VPoll Pending) ->
    v = firstn n (values (g_o g')).
Proof.
  intros A n capacity xs k g st v g' init H1 H2.
  pose (R := fun (st : head_st A) (l v : list A) => head_R st l v /\ h_limit st = n).
  assert (Hs : step_ok head_on_diff R).
  { intros st0 l v0 d [HR Hl] Hok.
    destruct (head_step_bound st0 l v0 d HR Hok) as (st' & outs & l' & E1 & E2 & E3 & HR' & Hl').
    exists st', outs, l', (firstn (h_limit st0) l').
    split; [exact E1|]. split; [exact E2|].
    split; [eapply apply_all_ok_bound_ok; eassumption|].
    split; [exact HR'|]. rewrite Hl'. exact Hl. }
  assert (Hi : forall l, R (fst (init l)) l (snd (init l))).
  { intro l. unfold init, R. cbn [fst snd].
    destruct (head_init_ok n l) as [E HR]. rewrite E. split; [exact HR|].
    unfold head_init. reflexivity. }
  destruct (e2e_view_at_pending head_on_diff R init Hs Hi capacity xs k g st v g' H1 H2) as [[Hb Hv] Hl].
  rewrite Hl in Hv. exact Hv.
Qed.
Print Assumptions C12_e2e_head.

(* the same for Skip (fixed count), Tail (fixed limit) and Filter / FilterMap (any f) *)
From EB Require Import Skip Tail Filter FilterFacts EndToEndInst.

Theorem C12_e2e_skip :
  forall (A : Type) (n capacity : nat) (xs : list (op A)) (k : nat) g st v g',
    let init := fun l : list A => (snd (skip_init n l), fst (skip_init n l)) in
    e2e_run skip_on_diff init k (ginit capacity) None xs = Some (g, Some (st, v)) ->
    gstep g (OPoll k) = Ok (g', VPoll Pending) ->
    v = skipn n (values (g_o g')).
Proof. exact e2e_skip. Qed.
Print Assumptions C12_e2e_skip.

Theorem C12_e2e_tail :
  forall (A : Type) (n capacity : nat) (xs : list (op A)) (k : nat) g st v g',
    let init := fun l : list A => (snd (tail_init n l), fst (tail_init n l)) in
    e2e_run tail_on_diff init k (ginit capacity) None xs = Some (g, Some (st, v)) ->
    gstep g (OPoll k) = Ok (g', VPoll Pending) ->
    v = skipn (length (values (g_o g')) - n) (values (g_o g')).
Proof. exact e2e_tail. Qed.
Print Assumptions C12_e2e_tail.

Theorem C12_e2e_filter_map :
  forall (A B : Type) (f : A -> option B) (capacity : nat) (xs : list (op A)) (k : nat) g st v g',
    let init := fun l : list A => (snd (filter_init f l), fst (filter_init f l)) in
    e2e_run (filter_on_diff f) init k (ginit capacity) None xs = Some (g, Some (st, v)) ->
    gstep g (OPoll k) = Ok (g', VPoll Pending) ->
    v = fmap_opt f (values (g_o g')).
Proof. exact e2e_filter_map. Qed.
Print Assumptions C12_e2e_filter_map.

(* ---- the same pipeline when the polls of the adapter's subscriber race the vector (the vector
   publishes or is dropped between the receive attempts of one poll: OVecDrain.v) ---- *)
From EB Require Import OVecStepwise OVecDrain EndToEndDrain.

Theorem C12_e2e_racing_invariant :
  forall (A B St : Type) (on_diff : St -> diff A -> outcome (St * list (diff B)))
         (R : St -> list A -> list B -> Prop) (init : list A -> St * list B),
    step_ok on_diff R -> (forall l, R (fst (init l)) l (snd (init l))) ->
    forall (capacity : nat) (cs : list (cop A)) (k : nat),
      exists g a, e2e_crun on_diff init k (ginit capacity) None cs = Some (g, a) /\
        step_inv g /\
        match a with
        | Some (st, v) => exists gh, nth_error (g_gh g) k = Some gh /\ R st (gh_replica gh) v
        | None => length (g_gh g) <= k
        end.
Proof. intros A B St on_diff R init Hs Hi. exact (e2e_c_invariant on_diff R init Hs Hi). Qed.
Print Assumptions C12_e2e_racing_invariant.

Theorem C12_e2e_racing_view_at_pending :
  forall (A B St : Type) (on_diff : St -> diff A -> outcome (St * list (diff B)))
         (R : St -> list A -> list B -> Prop) (init : list A -> St * list B),
    step_ok on_diff R -> (forall l, R (fst (init l)) l (snd (init l))) ->
    forall (capacity : nat) (cs : list (cop A)) (k : nat) g st v inj g' u,
      e2e_crun on_diff init k (ginit capacity) None cs = Some (g, Some (st, v)) ->
      forallb (env_ops k) inj = true ->
      c_gpoll g k inj = Ok (g', Pending, u) ->
      R st (values (g_o g')) v.
Proof. intros A B St on_diff R init Hs Hi. exact (e2e_c_view_at_pending on_diff R init Hs Hi). Qed.
Print Assumptions C12_e2e_racing_view_at_pending.

(* ---- the by-itself hand-over AT ANY MOMENT of an adapter's life (HandOver.v; finding F9) ----
   An unbatched Head / Tail / Skip may hold diffs of the current burst that it has not handed out
   yet; the consumer's view is then behind the adapter's by exactly those diffs ([mid_burst]).
   (1) that relation is an invariant of the poll loop, whatever is queued on the source and on the
   limit stream, for any adapter with correct step and parameter functions; (2) handing the adapter
   over (into_parts as repaired: the parked diffs are dropped) starts the next stage from the
   adapter's own view with nothing parked - at whatever moment; (3) with the parked diffs kept (the
   code before the repair cc06c71) the statement is false, on a state the poll loop reaches. *)
From EB Require Import PollLoop HandOver.

Theorem C12_consumer_is_behind_by_the_parked_diffs :
  forall (A B St : Type) (on_diff : St -> diff A -> outcome (St * list (diff B)))
         (on_param : St -> nat -> St * option (list (diff B))) (has_param : bool)
         (R : St -> list A -> list B -> Prop),
    step_ok on_diff R -> param_ok on_param R ->
    forall s l v qi iend qp pend lq s' qi' qp' r tr,
      mid_burst R s l v -> apply_all_ok qi l = Some lq ->
      poll_u on_diff on_param has_param s qi iend qp pend = Ok (s', qi', qp', r, tr) ->
      exists l', apply_all_ok qi' l' = Some lq /\
        match r with
        | Ready (Some d) => exists v1, apply_all_ok [d] v = Some v1 /\ mid_burst R s' l' v1
        | _ => mid_burst R s' l' v
        end.
Proof. intros A B St on_diff on_param hp R Hs Hp. exact (poll_u_mid_burst on_diff on_param hp R Hs Hp). Qed.
Print Assumptions C12_consumer_is_behind_by_the_parked_diffs.

Theorem C12_handover_any_moment :
  forall (A : Type),
    (forall (s : ustate (B:=A) (St:=head_st A)) l v, mid_burst head_R s l v ->
       let '(s', vals) := hand_over_u false head_into_parts s in
       u_ready s' = [] /\ head_R (u_st s') l vals /\ mid_burst head_R s' l vals) /\
    (forall (s : ustate (B:=A) (St:=tail_st A)) l v, mid_burst tail_R s l v ->
       let '(s', vals) := hand_over_u false tail_into_parts s in
       u_ready s' = [] /\ tail_R (u_st s') l vals /\ mid_burst tail_R s' l vals) /\
    (forall (s : ustate (B:=A) (St:=skip_st A)) l v, mid_burst skip_R s l v ->
       let '(s', vals) := hand_over_u false skip_into_parts s in
       u_ready s' = [] /\ skip_R (u_st s') l vals /\ mid_burst skip_R s' l vals).
Proof.
  intro A. split; [|split]; intros s l v H.
  - exact (hand_over_any_moment head_R head_into_parts head_into_parts_view s l v H).
  - exact (hand_over_any_moment tail_R tail_into_parts tail_into_parts_view s l v H).
  - exact (hand_over_any_moment skip_R skip_into_parts skip_into_parts_view s l v H).
Qed.
Print Assumptions C12_handover_any_moment.

Theorem C12_handover_keeping_parked_diffs_refuted :
  exists (s : ustate (B:=nat) (St:=head_st nat)) l v,
    mid_burst head_R s l v /\
    let '(s', vals) := hand_over_u true head_into_parts s in
    ~ mid_burst head_R s' l vals.
Proof. exact hand_over_keeping_ready_refuted. Qed.
Print Assumptions C12_handover_keeping_parked_diffs_refuted.

(* ---- the stack across all three crates (FullStack.v): vector + observable limit + adapter ----
   for any adapter with correct step / parameter functions, created from the observable's current
   value on a fresh subscriber of the vector: in every history of calls on both sides and polls,
   nothing panics, every item handed out is applicable to the consumer's view, and the adapter
   always stands for the replica of its vector subscriber, the consumer being behind by exactly
   the parked diffs *)
From EB Require Import Obs FullStack FullStackFacts.

Theorem C12_full_stack_never_panics :
  forall (A St : Type) (veq heq : nat -> nat -> bool) (vdefault : nat)
         (on_diff : St -> diff A -> outcome (St * list (diff A)))
         (on_param : St -> nat -> St * option (list (diff A)))
         (init : nat -> list A -> St * list A)
         (R : St -> list A -> list A -> Prop) (param : St -> nat),
    (forall n l, R (fst (init n l)) l (snd (init n l)) /\ param (fst (init n l)) = n) ->
    step_ok on_diff R ->
    (forall st d st' outs, on_diff st d = Ok (st', outs) -> param st' = param st) ->
    param_ok on_param R ->
    (forall st n, param (fst (on_param st n)) = n) ->
    (forall st n, snd (on_param st n) <> Some []) ->
    forall capacity okd limit0 evs,
      frun veq heq vdefault on_diff on_param init (fs_init capacity okd limit0) evs <> RPanic.
Proof. exact (@full_never_panics). Qed.
Print Assumptions C12_full_stack_never_panics.

Theorem C12_full_stack_invariant :
  forall (A St : Type) (veq heq : nat -> nat -> bool) (vdefault : nat)
         (on_diff : St -> diff A -> outcome (St * list (diff A)))
         (on_param : St -> nat -> St * option (list (diff A)))
         (init : nat -> list A -> St * list A)
         (R : St -> list A -> list A -> Prop) (param : St -> nat),
    (forall n l, R (fst (init n l)) l (snd (init n l)) /\ param (fst (init n l)) = n) ->
    step_ok on_diff R ->
    (forall st d st' outs, on_diff st d = Ok (st', outs) -> param st' = param st) ->
    param_ok on_param R ->
    (forall st n, param (fst (on_param st n)) = n) ->
    (forall st n, snd (on_param st n) <> Some []) ->
    forall capacity okd limit0 evs s,
      frun veq heq vdefault on_diff on_param init (fs_init capacity okd limit0) evs = ROk s ->
      f_ok s = true /\
      match f_ad s with
      | None => True
      | Some a =>
          exists gh v', nth_error (g_gh (f_g s)) (a_k a) = Some gh /\
                        apply_all_ok (u_ready (a_u a)) (a_view a) = Some v' /\
                        R (u_st (a_u a)) (gh_replica gh) v'
      end.
Proof. exact (@full_invariant). Qed.
Print Assumptions C12_full_stack_invariant.

Theorem C12_full_stack_view_at_pending :
  forall (A St : Type) (veq heq : nat -> nat -> bool) (vdefault : nat)
         (on_diff : St -> diff A -> outcome (St * list (diff A)))
         (on_param : St -> nat -> St * option (list (diff A)))
         (init : nat -> list A -> St * list A)
         (R : St -> list A -> list A -> Prop) (param : St -> nat),
    (forall n l, R (fst (init n l)) l (snd (init n l)) /\ param (fst (init n l)) = n) ->
    step_ok on_diff R ->
    (forall st d st' outs, on_diff st d = Ok (st', outs) -> param st' = param st) ->
    param_ok on_param R ->
    (forall st n, param (fst (on_param st n)) = n) ->
    (forall st n, snd (on_param st n) <> Some []) ->
    forall capacity okd limit0 evs s fuel s',
      frun veq heq vdefault on_diff on_param init (fs_init capacity okd limit0) evs = ROk s ->
      fstep veq heq vdefault on_diff on_param init s (FPoll fuel) = ROk (s', FAnswer Pending) ->
      no_silent evs ->
      exists a, f_ad s' = Some a /\ u_ready (a_u a) = [] /\
        R (u_st (a_u a)) (values (g_o (f_g s'))) (a_view a) /\
        (ver (f_lim s') <> 0 -> param (u_st (a_u a)) = val (f_lim s')).
Proof. exact (@full_view_at_pending). Qed.
Print Assumptions C12_full_stack_view_at_pending.

(* ---------------- the NESTED LOOPS keep every level's view correct (ChainView.v) ----------------
   C12_compose above composes step FUNCTIONS (the eager composition).  Real stacked adapters are
   nested poll loops: every level has its own ready buffer and pulls lazily from the level below
   (ChainPoll.chain_poll).  For a stack of ANY height whose stages satisfy the one-step statements
   (cstage packages a stage with its relation R and the proofs), with [chain_view]: every level is
   behind the level below it by exactly its parked diffs:
   (1) one poll of the top preserves [chain_view], consumes a prefix of the queued source diffs and,
       if it hands out a diff, that diff is applicable to the consumer's view;
   (2) when the top answers Pending every ready buffer and queue is empty, every leaf holds the
       waker, and the consumer's view is the top stage's view of ... of the bottom stage's view of
       the source contents (for two stages: exists mid, Ra sa l mid /\ Rb sb mid v);
   (3) polled repeatedly the stack always answers (given enough fuel, which no function of the
       queue lengths alone bounds: refuted by computation) and reaches a non-item answer. *)
From EB Require Import ChainPoll ChainPollFacts ChainView.

Theorem C12_lazy_chain_keeps_every_view :
  forall (A : Type) (depth fuel : nat) (cc : cchain (A:=A)) (l v lq : list A) c' r tr,
    chain_view cc l v ->
    apply_all_ok (fst (snd cc)) l = Some lq ->
    chain_poll depth fuel (erase cc) = Ok (c', r, tr) ->
    exists (cc' : cchain) (l' : list A),
      erase cc' = c' /\ Forall2 evolves (fst cc) (fst cc') /\
      apply_all_ok (fst (snd cc')) l' = Some lq /\
      match r with
      | Ready (Some d) => exists v1, apply_all_ok [d] v = Some v1 /\ chain_view cc' l' v1
      | _ => chain_view cc' l' v
      end.
Proof. intro A. exact (@chain_poll_view A). Qed.
Print Assumptions C12_lazy_chain_keeps_every_view.

Theorem C12_lazy_chain_view_at_pending :
  forall (A : Type) (depth fuel : nat) (cc : cchain (A:=A)) (l v lq : list A) c' tr,
    chain_view cc l v -> apply_all_ok (fst (snd cc)) l = Some lq ->
    chain_poll depth fuel (erase cc) = Ok (c', Pending, tr) ->
    exists cc' : cchain,
      erase cc' = c' /\ Forall2 evolves (fst cc) (fst cc') /\
      snd cc' = ([], false) /\ all_registered c' tr /\ quiet_view (fst cc') lq v.
Proof. intro A. exact (@chain_view_at_pending A). Qed.
Print Assumptions C12_lazy_chain_view_at_pending.

Theorem C12_lazy_chain_always_answers :
  forall (A : Type) (cc : cchain (A:=A)) l v lq,
    chain_view cc l v -> apply_all_ok (fst (snd cc)) l = Some lq ->
    drains (erase cc) /\
    exists F res, forall depth fuel, length (fst cc) <= depth -> F <= fuel ->
      chain_poll depth fuel (erase cc) = Ok res.
Proof.
  intros A cc l v lq H1 H2. split.
  - exact (chain_view_drains cc l v lq H1 H2).
  - exact (chain_poll_no_panic cc l v lq H1 H2).
Qed.
Print Assumptions C12_lazy_chain_always_answers.

(* ---------------- stacks of any height, as nested loops, on a REAL vector subscriber (ChainE2E.v) ----
   The capstone of the three developments above: the nested poll loops of ChainView.v with the plain
   stream of subscriber k of an ObservableVector at the bottom (FullStack.vinner), in ANY history of
   vector operations (any capacity, so with lag and Reset; transactions; other subscribers), scripted
   parameter values for the stages (EParam), and polls of the top.  [stackdesc] packages how the
   stack is created from the subscription snapshot together with the proof that it starts quiet. *)
From EB Require Import OVec OVecRun FullStack ChainE2E.

Theorem C12_lazy_stack_on_a_real_subscriber :
  forall (A : Type) capacity (evs : list (cev A)),
    crun (cinit capacity) evs <> RPanic /\
    forall s, crun (cinit capacity) evs = ROk s ->
      c_ok s = true /\
      match c_ad s with
      | None => True
      | Some a =>
          exists gh, nth_error (g_gh (c_g s)) (ca_k a) = Some gh /\
                     stages_view (ca_gs a) (gh_replica gh) (ca_view a)
      end.
Proof.
  intros A capacity evs. split.
  - exact (ce_never_panics capacity evs).
  - exact (ce_invariant capacity evs).
Qed.
Print Assumptions C12_lazy_stack_on_a_real_subscriber.

Theorem C12_lazy_stack_view_at_pending :
  forall (A : Type) capacity (evs : list (cev A)) s fuel s',
    crun (cinit capacity) evs = ROk s ->
    cstep s (EPoll fuel) = ROk (s', CAnswer Pending) ->
    exists a a', c_ad s = Some a /\ c_ad s' = Some a' /\ ca_k a' = ca_k a /\
      Forall2 evolves (ca_gs a) (ca_gs a') /\ ca_view a' = ca_view a /\
      Forall (fun cg => u_ready (sg_s (cs_stage cg)) = []) (ca_gs a') /\
      (exists sb, nth_error (OVec.subs (g_o (c_g s'))) (ca_k a') = Some (Some sb) /\
                  sb_waiting sb = true) /\
      quiet_view (ca_gs a') (values (g_o (c_g s'))) (ca_view a').
Proof. intro A. exact (@ce_view_at_pending A). Qed.
Print Assumptions C12_lazy_stack_view_at_pending.

Theorem C12_lazy_stack_poll_terminates :
  forall (A : Type) capacity (evs : list (cev A)) s,
    crun (cinit capacity) evs = ROk s ->
    exists fuel, forall fuel', fuel <= fuel' -> cstep s (EPoll fuel') <> RFuel.
Proof. intro A. exact (@ce_poll_terminates A). Qed.
Print Assumptions C12_lazy_stack_poll_terminates.

Theorem C12_lazy_loop_is_the_chain_loop :
  forall (A : Type) (depth fuel : nat) (cc : cchain (A:=A)),
    chain_poll depth fuel (erase cc) =
    match chain_poll_over queue_inner depth fuel cc with
    | ROk (cc', r, tr) => Ok (erase cc', r, tr)
    | _ => Panic
    end.
Proof. intro A. exact (@chain_poll_over_queue_is_chain_poll A). Qed.
Print Assumptions C12_lazy_loop_is_the_chain_loop.
