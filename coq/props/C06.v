(* C06 — lagging subscribers are resynchronised by Reset and never diverge.
   [grun (ginit capacity) xs] is the state after any history xs of operations on an
   ObservableVector::with_capacity(capacity) and its subscribers: direct mutators, entry
   traversals, transactions, subscribe (either stream flavour, at any time), polls of any
   subscriber at any time, drops of subscribers and of the vector.  gh_replica is what a consumer
   builds from the subscription snapshot and everything delivered. *)
From EB Require Import OVecStepwise OVecDrain OVecDrainFacts OVec OVecRun OVecFacts OVecExtra.

(* whenever a subscriber's stream reports Pending, its replica equals the vector's contents *)
Theorem C06_pending_implies_replica_eq_values :
  forall (A : Type) (capacity : nat) (xs : list (op A)) (k : nat) g' gh',
    let g := grun (ginit capacity) xs in
    gstep g (OPoll k) = Ok (g', VPoll Pending) -> nth_error (g_gh g') k = Some gh' ->
    gh_replica gh' = values (g_o g').
Proof.
  intros A capacity xs k g' gh' g H E.
  pose proof (poll_meaning g k g' Pending gh' (reachable_strong capacity xs) H E) as P.
  cbv beta iota in P. tauto.
Qed.
Print Assumptions C06_pending_implies_replica_eq_values.

(* a Reset is delivered only to a subscriber that was more than cap2 >= capacity messages behind;
   it is the only diff of its item and carries the contents as of the moment of delivery *)
Theorem C06_reset_only_if_lagged_and_current :
  forall (A : Type) (capacity : nat) (xs : list (op A)) (k : nat) g' it gh',
    let g := grun (ginit capacity) xs in
    gstep g (OPoll k) = Ok (g', VPoll (Ready (Some it))) -> nth_error (g_gh g') k = Some gh' ->
    existsb is_reset (item_diffs it) = true ->
    was_lagged (g_o g) k = true /\ item_diffs it = [Reset (values (g_o g'))] /\
    capacity <= cap2 (g_o g).
Proof.
  intros A capacity xs k g' it gh' g H E R.
  pose proof (poll_meaning g k g' (Ready (Some it)) gh' (reachable_strong capacity xs) H E) as P.
  cbv beta iota in P. destruct P as (P1 & _). destruct (P1 R) as [Q1 Q2].
  split; [exact Q1|]. split; [exact Q2|].
  subst g. rewrite cap2_grun. cbn. apply next_pow2_ge.
Qed.
Print Assumptions C06_reset_only_if_lagged_and_current.

(* what "lagged" means: more than cap2 messages were pending for it *)
Theorem C06_was_lagged_means :
  forall (A : Type) (o : ovec A) (k : nat),
    was_lagged o k = true ->
    exists s, nth_error (subs o) k = Some (Some s) /\ cap2 o < length (log o) - sb_next s.
Proof.
  intros A o k H. unfold was_lagged in H.
  destruct (nth_error (subs o) k) as [[s|]|]; try discriminate.
  exists s. split; [reflexivity|]. destruct (sb_state s); [|discriminate].
  apply Nat.ltb_lt. exact H.
Qed.
Print Assumptions C06_was_lagged_means.

(* no delivered diff is ever inapplicable to the replica it is delivered to *)
Theorem C06_delivered_diffs_applicable :
  forall (A : Type) (capacity : nat) (xs : list (op A)),
    g_app_ok (grun (ginit capacity) xs) = true.
Proof. intros A capacity xs. apply (reachable_strong capacity xs). Qed.
Print Assumptions C06_delivered_diffs_applicable.

(* every item of the batched stream brings its subscriber fully up to date; no item is empty *)
Theorem C06_batched_item_catches_up :
  forall (A : Type) (capacity : nat) (xs : list (op A)) (k : nat) g' ds gh',
    let g := grun (ginit capacity) xs in
    gstep g (OPoll k) = Ok (g', VPoll (Ready (Some (IBatch ds)))) -> nth_error (g_gh g') k = Some gh' ->
    gh_replica gh' = values (g_o g') /\ ds <> [].
Proof.
  intros A capacity xs k g' ds gh' g H E.
  pose proof (poll_meaning g k g' (Ready (Some (IBatch ds))) gh' (reachable_strong capacity xs) H E) as P.
  cbv beta iota in P. destruct P as (_ & P2 & P3). split; assumption.
Qed.
Print Assumptions C06_batched_item_catches_up.

(* polling a live subscriber never panics: both unreachable!()s, the expect() of the YieldBatch state
   and the loops of handle_lag / the batched stream (modelled with fuel) are safe *)
Theorem C06_poll_never_panics :
  forall (A : Type) (capacity : nat) (xs : list (op A)) (k : nat) s,
    let g := grun (ginit capacity) xs in
    nth_error (subs (g_o g)) k = Some (Some s) -> gstep g (OPoll k) <> Panic.
Proof.
  intros A capacity xs k s g H. eapply poll_never_panics; [|exact H].
  apply ginv_strong_ginv. apply reachable_strong.
Qed.
Print Assumptions C06_poll_never_panics.

Example C06_nonvacuous :
  let g := grun (ginit 1) [OSub false; OMut (MPushBack 1); OMut (MPushBack 2); OMut (MPushBack 3)] in
  was_lagged (g_o g) 0 = true /\
  exists g', gstep g (OPoll 0) = Ok (g', VPoll (Ready (Some (IDiff (Reset [1; 2; 3]))))).
Proof. split; [reflexivity|]. eexists. vm_compute. reflexivity. Qed.

(* ---- polls that race the sender (OVecDrain.v): lag detected in the middle of a drain ---- *)
Theorem C06_racing_poll_is_the_poll_when_the_sender_is_quiet {A} (g : gst A) k :
  ginv_strong g ->
  c_gpoll g k [] = match gstep g (OPoll k) with
                   | Ok (g', VPoll r) => Ok (g', r, 0)
                   | _ => Panic
                   end.
Proof. exact (c_gpoll_quiet g k). Qed.
Print Assumptions C06_racing_poll_is_the_poll_when_the_sender_is_quiet.

Theorem C06_racing_poll_meaning {A} (g : gst A) k inj g' r u s gh' :
  step_inv g -> forallb (env_ops k) inj = true ->
  nth_error (subs (g_o g)) k = Some (Some s) ->
  c_gpoll g k inj = Ok (g', r, u) -> nth_error (g_gh g') k = Some gh' ->
  u <= length inj /\
  match r with
  | Pending => u = 0 /\ alive (g_o g') = true /\ gh_replica gh' = values (g_o g')
  | Ready None => alive (g_o g') = false /\ gh_replica gh' = values (g_o g')
  | Ready (Some it) =>
      item_diffs it <> [] /\
      (existsb is_reset (item_diffs it) = true ->
         item_diffs it = [Reset (values (g_o g'))] /\
         cap2 (g_o g) < length (log (g_o g')) - sb_next s) /\
      (match it with IBatch _ => gh_replica gh' = values (g_o g') | IDiff _ => True end)
  end.
Proof. exact (c_poll_meaning g k inj g' r u s gh'). Qed.
Print Assumptions C06_racing_poll_meaning.

Theorem C06_racing_poll_never_panics {A} (g : gst A) k s inj :
  step_inv g -> forallb (env_ops k) inj = true ->
  nth_error (subs (g_o g)) k = Some (Some s) -> c_gpoll g k inj <> Panic.
Proof. exact (c_gpoll_never_panics g k s inj). Qed.
Print Assumptions C06_racing_poll_never_panics.

Theorem C06_racing_histories_keep_the_invariant {A} capacity (cs : list (cop A)) :
  step_inv (c_run (ginit capacity) cs).
Proof. exact (c_reachable capacity cs). Qed.
Print Assumptions C06_racing_histories_keep_the_invariant.
