(* C20 — every value given to the library is dropped exactly once, and nothing leaks.
   strength: PARTIAL.  Double drops and leaks in `unsafe` code are facts about the machine; what a
   theorem can carry is the ownership protocol of the three unsafe sites in a token model (below).
   The end-to-end statement (every element instance dropped exactly once, none alive at the end) is
   checked on the real crates by the instance ledger of the correspondence run, not proved. *)
From EB Require Import Own.

(* reuse_pin_box / ReusableBoxFuture::set: on every path - same layout or not, the old future's
   destructor unwinding or not - the old future is dropped exactly once, the new one ends up installed
   exactly once or (only when the old destructor unwound on the layout-mismatch path) dropped exactly
   once, never both, never neither; the placeholder is dropped iff something was installed *)
Theorem C20_reuse_box_exactly_once :
  forall (old new : nat) (layout_eq drop_panics : bool),
    old <> new -> old <> placeholder -> new <> placeholder ->
    let tr := fst (reusable_set old new layout_eq drop_panics) in
    count_drop old tr = 1 /\
    installed new tr + count_drop new tr = 1 /\
    installed old tr = 0 /\
    count_drop placeholder tr = installed new tr /\
    (snd (reusable_set old new layout_eq drop_panics) = true -> drop_panics = true).
Proof.
  intros old new le dp H1 H2 H3 tr. subst tr. unfold reusable_set, count_drop, installed, placeholder in *.
  assert (E1 : (old =? new) = false) by (apply Nat.eqb_neq; assumption).
  assert (E2 : (new =? old) = false) by (apply Nat.eqb_neq; auto).
  assert (E3 : (old =? 0) = false) by (apply Nat.eqb_neq; assumption).
  assert (E4 : (new =? 0) = false) by (apply Nat.eqb_neq; assumption).
  assert (E5 : (0 =? old) = false) by (apply Nat.eqb_neq; auto).
  assert (E6 : (0 =? new) = false) by (apply Nat.eqb_neq; auto).
  destruct le, dp; cbn [fst snd filter length];
    rewrite ?Nat.eqb_refl, ?E1, ?E2, ?E3, ?E4, ?E5, ?E6; cbn [length]; repeat split; auto; discriminate.
Qed.
Print Assumptions C20_reuse_box_exactly_once.

(* into_shared moves the state exactly once: it is neither dropped (so close() is not run and the
   subscribers' streams do not end) nor duplicated *)
Theorem C20_into_shared_moves_once :
  forall (state : nat),
    count_drop state (into_shared_trace state) = 0 /\ installed state (into_shared_trace state) = 1.
Proof. intro state. unfold into_shared_trace, count_drop, installed. cbn. rewrite Nat.eqb_refl. auto. Qed.
Print Assumptions C20_into_shared_moves_once.

(* the unreachable_unchecked() arm of the YieldBatch -> Recv swap is never reached *)
Theorem C20_swap_branch_unreachable :
  forall (st : sstate), swap_reaches_unreachable st = false.
Proof. intros [|rx]; reflexivity. Qed.
Print Assumptions C20_swap_branch_unreachable.

(* the ledger used by the correspondence check: create-then-drop of distinct instances leaves no
   live instance and no violation; a second drop of an instance is a violation *)
Theorem C20_ledger_sound :
  forall (ids : list nat), NoDup ids ->
    let l := fold_left l_drop ids (fold_left l_create ids ledger_new) in
    live l = [] /\ violations l = 0.
Proof.
  intros ids Hnd.
  (* after the creations: live = rev ids, no violation *)
  assert (Hc : forall ids0 l0, live (fold_left l_create ids0 l0) = rev ids0 ++ live l0 /\
                               violations (fold_left l_create ids0 l0) = violations l0).
  { induction ids0 as [|i r IH]; intro l0; cbn [fold_left]; [split; reflexivity|].
    destruct (IH (l_create l0 i)) as [A B]. rewrite A, B. cbn. rewrite <- app_assoc. split; reflexivity. }
  (* dropping a list of distinct live instances: no violation, and they leave the live list *)
  assert (Hd : forall ids0 l0, NoDup ids0 -> (forall i, In i ids0 -> In i (live l0)) ->
               violations (fold_left l_drop ids0 l0) = violations l0 /\
               (forall j, In j (live (fold_left l_drop ids0 l0)) <-> In j (live l0) /\ ~ In j ids0)).
  { induction ids0 as [|i r IH]; intros l0 Hn Hin; cbn [fold_left].
    - split; [reflexivity|]. intro j. cbn. tauto.
    - inversion Hn as [|? ? Hni Hnr]; subst.
      assert (Hl : existsb (Nat.eqb i) (live l0) = true).
      { apply existsb_exists. exists i. split; [apply Hin; left; reflexivity|apply Nat.eqb_refl]. }
      set (l1 := l_drop l0 i).
      assert (Hl1 : live l1 = filter (fun j => negb (j =? i)) (live l0) /\ violations l1 = violations l0).
      { unfold l1, l_drop. rewrite Hl. split; reflexivity. }
      destruct Hl1 as [L1 V1].
      destruct (IH l1 Hnr) as [A B].
      { intros j Hj. rewrite L1. apply filter_In. split; [apply Hin; right; exact Hj|].
        apply negb_true_iff. apply Nat.eqb_neq. intro; subst. contradiction. }
      split; [rewrite A; exact V1|].
      intro j. rewrite B, L1, filter_In, negb_true_iff, Nat.eqb_neq. cbn [In]. 
      split; intros H; [destruct H as [[H1 H2] H3]|destruct H as [H1 H2]].
      + split; [exact H1|]. intros [->|H4]; [apply H2; reflexivity|contradiction].
      + split; [split; [exact H1|]|]; intro; subst; apply H2; auto. }
  cbn zeta. destruct (Hc ids ledger_new) as [A B].
  destruct (Hd ids (fold_left l_create ids ledger_new) Hnd) as [C D].
  { intros i Hi. rewrite A. apply in_or_app. left. apply in_rev in Hi. exact Hi. }
  split.
  - assert (Hall : forall j, ~ In j (live (fold_left l_drop ids (fold_left l_create ids ledger_new)))).
    { intros j Hj. apply D in Hj. destruct Hj as [H1 H2]. rewrite A in H1.
      cbn [live ledger_new] in H1. rewrite app_nil_r in H1. apply H2. apply in_rev. exact H1. }
    destruct (live (fold_left l_drop ids (fold_left l_create ids ledger_new))) as [|x t]; [reflexivity|].
    exfalso. apply (Hall x). left. reflexivity.
  - rewrite C, B. reflexivity.
Qed.
Print Assumptions C20_ledger_sound.

Example C20_double_drop_detected :
  violations (l_drop (l_drop (l_create ledger_new 7) 7) 7) = 1.
Proof. reflexivity. Qed.
