(* C11 — Sort, SortBy and SortByKey present a sorted permutation of the source.
   [cmp] is any total preorder (Ord::cmp, the sort_by closure, or key comparison); imbl's unstable
   sort_by is an oracle constrained only by its contract [valid_sort]. *)
From Coq Require Import Permutation Sorted.
From EB Require Import Diff Sort PollLoop AdapterCore SortFacts SortLift PollLoopFacts.

(* what the invariant gives the user: sorted, and the same multiset as the source *)
Theorem C11_sorted_permutation :
  forall (A : Type) (cmp : A -> A -> comparison) (l : list A) (buf : list (nat * A)),
    sort_inv cmp l buf ->
    StronglySorted (le cmp) (map snd buf) /\ Permutation (map snd buf) l.
Proof. intros A cmp l buf; apply sort_inv_sorted_perm. Qed.
Print Assumptions C11_sorted_permutation.

Theorem C11_init :
  forall (A : Type) (cmp : A -> A -> comparison) (vs : list A) (ans : list (nat * A)),
    valid_sort cmp (enumerate_from 0 vs) ans ->
    fst (sort_init ans) = map snd ans /\ sort_inv cmp vs (snd (sort_init ans)).
Proof. intros A cmp vs ans; apply sort_init_ok. Qed.
Print Assumptions C11_init.

(* one source diff, outside the known-finding class (Truncate forwarded to a view whose first n
   items are not the items with source index < n): no panic - every expect() and `len - 1` is safe -,
   the emitted diffs are applicable one by one and take the old sorted view to the new one, and the
   invariant (hence sortedness and the multiset) is preserved *)
Theorem C11_step :
  forall (A : Type) (cmp : A -> A -> comparison),
    (forall a b, cmp a b = CompOpp (cmp b a)) ->
    (forall a b c, cmp a b <> Gt -> cmp b c <> Gt -> cmp a c <> Gt) ->
    forall (l : list A) (buf : list (nat * A)) (d : diff A) (ans : list (nat * A)),
      sort_inv cmp l buf -> ok_in d l = true ->
      sort_truncate_misaligned buf d = false ->
      (forall input, sort_oracle_input buf d = Some input -> valid_sort cmp input ans) ->
      exists buf' outs l',
        sort_on_diff cmp buf d ans = Ok (buf', outs) /\ apply d l = Some l' /\
        apply_all_ok outs (map snd buf) = Some (map snd buf') /\ sort_inv cmp l' buf'.
Proof. intros A cmp H1 H2 l buf d ans; apply sort_step; assumption. Qed.
Print Assumptions C11_step.

(* any admissible history (source diffs applicable, valid oracle answers, no step in the class):
   the consumer's view is a sorted permutation of the source at every quiescent point *)
Theorem C11_sorted_permutation_at_quiescence :
  forall (A : Type) (cmp : A -> A -> comparison),
    (forall a b, cmp a b = CompOpp (cmp b a)) ->
    (forall a b c, cmp a b <> Gt -> cmp b c <> Gt -> cmp a c <> Gt) ->
    forall (steps : list (diff A * list (nat * A))) (buf : list (nat * A)) (l : list A),
      sort_inv cmp l buf -> steps_ok cmp steps buf l ->
      exists buf' l',
        run_sort cmp steps buf l (map snd buf) = Some (buf', l', map snd buf') /\
        sort_inv cmp l' buf' /\
        StronglySorted (le cmp) (map snd buf') /\ Permutation (map snd buf') l'.
Proof. intros A cmp H1 H2 steps buf l; apply sort_view_at_quiescence; assumption. Qed.
Print Assumptions C11_sorted_permutation_at_quiescence.

(* inside the class the statement is false (finding F6, pinned by the existing sort*::truncate tests) *)
Theorem C11_truncate_refuted :
  exists (l : list nat) buf buf' outs,
    sort_inv Nat.compare l buf /\ sort_truncate_misaligned buf (Truncate 2) = true /\
    sort_on_diff Nat.compare buf (Truncate 2) [] = Ok (buf', outs) /\
    apply_all_ok outs (map snd buf) <> Some (map snd buf').
Proof. exact sort_truncate_refuted. Qed.
Print Assumptions C11_truncate_refuted.

(* SortByKey is the instance cmp a b = cmpK (key a) (key b): the hypotheses transfer *)
Theorem C11_by_key_instance :
  forall (A K : Type) (cmpK : K -> K -> comparison) (key : A -> K),
    (forall a b, cmpK a b = CompOpp (cmpK b a)) ->
    (forall a b c, cmpK a b <> Gt -> cmpK b c <> Gt -> cmpK a c <> Gt) ->
    let cmp := fun a b => cmpK (key a) (key b) in
    (forall a b, cmp a b = CompOpp (cmp b a)) /\
    (forall a b c, cmp a b <> Gt -> cmp b c <> Gt -> cmp a c <> Gt).
Proof. intros A K cmpK key H1 H2 cmp. unfold cmp. split; intros; eauto. Qed.
Print Assumptions C11_by_key_instance.

(* the stream ends exactly when the source ends *)
Theorem C11_stream_end :
  forall (A St I : Type) (on_diff : St -> I -> outcome (St * list (diff A))),
  (forall (s : @ustate A St) qi iend s' qi' qp' tr,
     poll_u on_diff (fun s _ => (s, None)) false s qi iend [] true
       = Ok (s', qi', qp', Ready None, tr) -> iend = true /\ qi' = [] /\ u_ready s' = []) /\
  (forall (st : St), exists tr,
     poll_u on_diff (fun s _ => (s, None)) false {| u_st := st; u_ready := [] |} [] true [] true
       = Ok ({| u_st := st; u_ready := [] |}, [], [], Ready (@None (diff A)), tr)).
Proof.
  intros A St I on_diff. split.
  - intros s qi iend s' qi' qp' tr H.
    refine (poll_u_spec _ _ _ _ _ _ _ _ _ _ _ _ _ _ H). intros; discriminate.
  - intros st. apply poll_u_ends.
Qed.
Print Assumptions C11_stream_end.

Example C11_nonvacuous :
  sort_truncate_misaligned [(0, 1); (1, 3); (2, 4)] (Truncate 2) = false /\
  sort_truncate_misaligned [(2, 1); (0, 3); (1, 4)] (Truncate 2) = true /\
  ok_in (Truncate 2) [1; 3; 4] = true.
Proof. repeat split. Qed.
