(* C19 — handle and subscriber counts are exact (default lock flavour).
   observable_count / subscriber_count / strong_count / weak_count report the populations the model
   tracks, and every call changes those populations by exactly the handles it creates or drops. *)
From EB Require Import Obs ObsSpec ObsFacts.

Theorem C19_counts_exact_sync :
  forall (V : Type) (veq heq : V -> V -> bool) (vdefault : V) (o o' : obs V) a b c d w,
    step veq heq vdefault o HCounts = Ok (o', OCounts a b c d, w) ->
    a = owners o /\ b = live_subs o /\ c = owners o + live_subs o /\ d = weaks o /\ o' = o.
Proof. intros V veq heq vdefault o o' a b c d w; apply counts_exact. Qed.
Print Assumptions C19_counts_exact_sync.

(* (owners +,-), (subscribers +,-), (weak references +,-) caused by one successful call *)
Theorem C19_counts_track_handles :
  forall (V : Type) (veq heq : V -> V -> bool) (vdefault : V) (o : obs V) x o' r w,
    oinv o -> step veq heq vdefault o x = Ok (o', r, w) ->
    let '((op_, om), (sp, sm), (wp, wm)) := delta x r in
    owners o' + om = owners o + op_ /\
    live_subs o' + sm = live_subs o + sp /\
    weaks o' + wm = weaks o + wp.
Proof. intros V veq heq vdefault o x o' r w; apply counts_track_handles_reach. Qed.
Print Assumptions C19_counts_track_handles.

(* the specification agrees (C01 refinement covers HCounts): counts are those of the abstract state *)
Theorem C19_counts_in_spec :
  forall (V : Type) (veq heq : V -> V -> bool) (vdefault : V) (s : sspec V) s' r,
    sstep veq heq vdefault s HCounts = Some (s', r) ->
    r = OCounts (s_owners s) (s_live s) (s_owners s + s_live s) (s_weaks s).
Proof.
  intros V veq heq vdefault s s' r H. cbn in H. destruct (s_owners s =? 0); [discriminate|].
  injection H as _ <-. reflexivity.
Qed.
Print Assumptions C19_counts_in_spec.

Example C19_nonvacuous :
  let veq := Nat.eqb in
  outs_spec veq veq 0 (s_new Shared 0) [HClone; WSubscribe; WSubscribe; HDowngrade; SDrop 0; HCounts]
  = [Some OUnit; Some (OSubId 0); Some (OSubId 1); Some OUnit; Some OUnit; Some (OCounts 2 1 3 1)].
Proof. vm_compute. reflexivity. Qed.
