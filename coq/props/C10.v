(* C10 — Filter and FilterMap present exactly the matching (mapped) items, in order.
   Only the pinned statements; proofs in theories/FilterFacts.v, PollLoopFacts.v. *)
From EB Require Import Diff Filter PollLoop AdapterCore FilterFacts PollLoopFacts.

(* FilterMap::new / Filter::new *)
Theorem C10_init :
  forall (A B : Type) (f : A -> option B) (vs : list A),
    fst (filter_init f vs) = fmap_opt f vs /\
    f_idx (snd (filter_init f vs)) = kept_from f 0 vs /\ f_len (snd (filter_init f vs)) = length vs.
Proof. intros. destruct (filter_init_ok f vs) as [H1 [H2 [H3 _]]]. auto. Qed.
Print Assumptions C10_init.

(* one source diff, any filter / partial mapping f: no panic (the usize subtractions and asserts are
   safe), the index bookkeeping stays exact, and the (at most one) emitted diff - applicable to the
   old view - takes [fmap_opt f l] to [fmap_opt f l'].  Includes a Reset whose items all fail. *)
Theorem C10_step :
  forall (A B : Type) (f : A -> option B) (st : filter_st) (l : list A) (v : list B) (d : diff A),
    f_idx st = kept_from f 0 l /\ f_len st = length l /\ v = fmap_opt f l ->
    ok_in d l = true ->
    exists st' outs l',
      filter_on_diff f st d = Ok (st', outs) /\ apply d l = Some l' /\
      apply_all_ok outs v = Some (fmap_opt f l') /\
      f_idx st' = kept_from f 0 l' /\ f_len st' = length l' /\ length outs <= 1.
Proof.
  intros A B f st l v d HR Hok.
  destruct (filter_step f st l v d HR Hok) as (st' & outs & l' & E1 & E2 & E3 & H1 & H2 & _).
  exists st', outs, l'. repeat split; try assumption.
  eapply filter_on_diff_le1; eassumption.
Qed.
Print Assumptions C10_step.

(* Filter proper is the instance f x = if p x then Some x else None: the view is [filter p l] *)
Theorem C10_filter_instance :
  forall (A : Type) (p : A -> bool) (l : list A),
    fmap_opt (fun x => if p x then Some x else None) l = filter p l.
Proof.
  intros A p l. induction l as [|x l IH]; cbn [fmap_opt filter]; [reflexivity|].
  destruct (p x); rewrite IH; reflexivity.
Qed.
Print Assumptions C10_filter_instance.

Theorem C10_view_at_quiescence :
  forall (A B : Type) (f : A -> option B) (ds : list (diff A)) (st : filter_st) (l : list A) (v : list B),
    f_idx st = kept_from f 0 l /\ f_len st = length l /\ v = fmap_opt f l ->
    src_valid (map EDiff ds) l = true ->
    exists st',
      run_events (filter_on_diff f) (fun s _ => (s, None)) (map EDiff ds) st l v
        = Some (st', src_after (map EDiff ds) l, fmap_opt f (src_after (map EDiff ds) l)).
Proof.
  intros A B f ds st l v HR Hv.
  assert (Hs : step_ok (filter_on_diff f) (filter_R f)).
  { intros st0 l0 v0 d HR0 Hok.
    destruct (filter_step f st0 l0 v0 d HR0 Hok) as (st' & outs & l' & E1 & E2 & E3 & HR').
    exists st', outs, l', (fmap_opt f l'). auto. }
  assert (Hp : param_ok (fun (s : filter_st) (_ : nat) => (s, @None (list (diff B)))) (filter_R f)).
  { intros st0 l0 v0 n HR0. exists st0, v0. auto. }
  destruct (run_events_ok _ _ _ Hs Hp (map EDiff ds) st l v HR Hv) as (st' & v' & E & (_ & _ & Hv')).
  exists st'. rewrite E, Hv'. reflexivity.
Qed.
Print Assumptions C10_view_at_quiescence.

(* the stream ends exactly when the source ends (both flavours) *)
Theorem C10_stream_end :
  forall (A B : Type) (f : A -> option B),
  (forall (s : @ustate B filter_st) qi iend s' qi' qp' tr,
     poll_u (filter_on_diff f) (fun s _ => (s, None)) false s qi iend [] true
       = Ok (s', qi', qp', Ready None, tr) -> iend = true /\ qi' = [] /\ u_ready s' = []) /\
  (forall (st : filter_st) qi iend st' qi' qp' tr,
     poll_b (filter_on_diff f) (fun s _ => (s, None)) false st qi iend [] true
       = Ok (st', qi', qp', Ready None, tr) -> iend = true /\ qi' = []) /\
  (forall (st : filter_st), exists tr,
     poll_u (filter_on_diff f) (fun s _ => (s, None)) false {| u_st := st; u_ready := [] |} [] true [] true
       = Ok ({| u_st := st; u_ready := [] |}, [], [], Ready (@None (diff B)), tr)).
Proof.
  intros A B f. split; [|split].
  - intros s qi iend s' qi' qp' tr H.
    refine (poll_u_spec _ _ _ _ _ _ _ _ _ _ _ _ _ _ H). intros; discriminate.
  - intros st qi iend st' qi' qp' tr H.
    refine (poll_b_spec _ _ _ _ _ _ _ _ _ _ _ _ _ _ H). intros; discriminate.
  - intros st. apply poll_u_ends.
Qed.
Print Assumptions C10_stream_end.

Example C10_nonvacuous :
  let f := fun x => if Nat.even x then Some x else None in
  kept_from f 0 [2;3;4] = [0;2] /\ fmap_opt f [2;3;4] = [2;4] /\
  ok_in (Reset [1;3]) [2;3;4] = true /\ fmap_opt f [1;3] = [].
Proof. repeat split. Qed.
