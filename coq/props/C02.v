(* C02 — no lost wakeups: a pending subscriber is woken by the next update or close
   (operation granularity; every pending subscriber, every interleaving of calls). *)
From EB Require Import Obs ObsSpec ObsFacts.

(* a poll that answers Pending has put its waker on the list *)
Theorem C02_seq_pending_is_registered :
  forall (V : Type) (veq heq : V -> V -> bool) (vdefault : V) (o : obs V) k o' w,
    step veq heq vdefault o (SPoll k) = Ok (o', OPollR Pending, w) -> In k (wakers o') /\ w = [].
Proof. intros V veq heq vdefault o k o' w; apply pending_is_registered. Qed.
Print Assumptions C02_seq_pending_is_registered.

(* every call that changes the version wakes the whole list (all pending subscribers, not just
   one) and leaves it empty; any other call wakes nobody and removes nobody from the list *)
Theorem C02_seq_update_and_close_wake_all :
  forall (V : Type) (veq heq : V -> V -> bool) (vdefault : V) (o : obs V) x o' r w,
    oinv o -> step veq heq vdefault o x = Ok (o', r, w) ->
    (ver o' <> ver o -> w = wakers o /\ wakers o' = []) /\
    (ver o' = ver o -> w = [] /\ exists extra, wakers o' = wakers o ++ extra).
Proof. intros V veq heq vdefault o x o' r w; apply version_change_wakes_all_reach. Qed.
Print Assumptions C02_seq_update_and_close_wake_all.

(* the version changes exactly for a notifying update and for the drop of the last owner (close) *)
Theorem C02_seq_version_changes_iff :
  forall (V : Type) (veq heq : V -> V -> bool) (vdefault : V) (o : obs V) x o' r w,
    oinv o -> step veq heq vdefault o x = Ok (o', r, w) ->
    (ver o' <> ver o <->
     match x with
     | WSet _ | WTake | WUpdate _ => True
     | WSetIfNotEq v => veq (val o) v = false
     | WSetIfHashNotEq v => heq (val o) v = false
     | WUpdateIf _ b => b = true
     | HDropOwner => owners o = 1
     | _ => False
     end).
Proof. intros V veq heq vdefault o x o' r w; apply version_changes_iff. Qed.
Print Assumptions C02_seq_version_changes_iff.

(* through any further history - other subscribers' polls, clones, drops, setters that do not
   fire - a registered waker stays registered until it has been woken *)
Theorem C02_seq_no_lost_wakeup :
  forall (V : Type) (veq heq : V -> V -> bool) (vdefault : V) (o : obs V) (xs : list (op V)) (k : nat),
    In k (wakers o) ->
    In k (wakers (fst (run_woken veq heq vdefault o xs))) \/ In k (snd (run_woken veq heq vdefault o xs)).
Proof. intros V veq heq vdefault o xs k; apply no_lost_wakeup. Qed.
Print Assumptions C02_seq_no_lost_wakeup.

Example C02_nonvacuous :
  let veq := Nat.eqb in
  snd (run_woken veq veq 0 (obs_new Shared 0) [WSubscribe; WSubscribe; SPoll 0; SPoll 1; SPoll 0; WSetIfNotEq 0; WSet 5])
  = [0; 1; 0].
Proof. vm_compute. reflexivity. Qed.
