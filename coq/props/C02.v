(* C02 — no lost wakeups: a pending subscriber is woken by the next update or close
   (operation granularity; every pending subscriber, every interleaving of calls). *)
From EB Require Import Obs ObsSpec ObsFacts.

(* a poll that answers Pending has put its waker on the list *)
Theorem C02_seq_pending_is_registered :
  forall (V : Type) (veq heq : V -> V -> bool) (vdefault : V) (o : obs V) k o' w,
    step veq heq vdefault o (SPoll k) = Ok (o', OPollR Pending, w) -> In k (wakers o') /\ w = [].
Proof. intros V veq heq vdefault o k o' w; apply pending_is_registered. Qed.
Print Assumptions C02_seq_pending_is_registered.

(* every call that changes the version wakes the whole list (all pending subscribers, not just
   one) and leaves it empty; any other call wakes nobody and removes nobody from the list *)
Theorem C02_seq_update_and_close_wake_all :
  forall (V : Type) (veq heq : V -> V -> bool) (vdefault : V) (o : obs V) x o' r w,
    oinv o -> step veq heq vdefault o x = Ok (o', r, w) ->
    (ver o' <> ver o -> w = wakers o /\ wakers o' = []) /\
    (ver o' = ver o -> w = [] /\ exists extra, wakers o' = wakers o ++ extra).
Proof. intros V veq heq vdefault o x o' r w; apply version_change_wakes_all_reach. Qed.
Print Assumptions C02_seq_update_and_close_wake_all.

(* the version changes exactly for a notifying update and for the drop of the last owner (close) *)
Theorem C02_seq_version_changes_iff :
  forall (V : Type) (veq heq : V -> V -> bool) (vdefault : V) (o : obs V) x o' r w,
    oinv o -> step veq heq vdefault o x = Ok (o', r, w) ->
    (ver o' <> ver o <->
     match x with
     | WSet _ | WTake | WUpdate _ => True
     | WSetIfNotEq v => veq (val o) v = false
     | WSetIfHashNotEq v => heq (val o) v = false
     | WUpdateIf _ b => b = true
     | HDropOwner => owners o = 1
     | _ => False
     end).
Proof. intros V veq heq vdefault o x o' r w; apply version_changes_iff. Qed.
Print Assumptions C02_seq_version_changes_iff.

(* through any further history - other subscribers' polls, clones, drops, setters that do not
   fire - a registered waker stays registered until it has been woken *)
Theorem C02_seq_no_lost_wakeup :
  forall (V : Type) (veq heq : V -> V -> bool) (vdefault : V) (o : obs V) (xs : list (op V)) (k : nat),
    In k (wakers o) ->
    In k (wakers (fst (run_woken veq heq vdefault o xs))) \/ In k (snd (run_woken veq heq vdefault o xs)).
Proof. intros V veq heq vdefault o xs k; apply no_lost_wakeup. Qed.
Print Assumptions C02_seq_no_lost_wakeup.

Example C02_nonvacuous :
  let veq := Nat.eqb in
  snd (run_woken veq veq 0 (obs_new Shared 0) [WSubscribe; WSubscribe; SPoll 0; SPoll 1; SPoll 0; WSetIfNotEq 0; WSet 5])
  = [0; 1; 0].
Proof. vm_compute. reflexivity. Qed.

(* ---------------- lock granularity: every schedule, any number of threads ---------------- *)
From EB Require Import ObsConc ObsConcFacts.

(* the lock protocol: counters = numbers of threads at the corresponding program points, reader /
   writer exclusion, one holder of the metadata lock.  In particular a setter cannot take the write
   lock while any poll holds the value read lock (between poll_value_locked and its last step), and
   close cannot take the metadata lock while a poll is between taking it and releasing it. *)
Theorem C02_conc_lock_invariant :
  forall (V : Type) (fixed : bool) (v : V) ver clones subs pending ops sched,
    start_ok ver clones subs pending ops ->
    let s := run_sched fixed (cinit v ver clones subs pending ops) sched in
    c_readers s = count_pcs (@holds_read V) s /\
    (c_writer s = true <-> count_pcs (@holds_write V) s = 1) /\
    (c_writer s = false <-> count_pcs (@holds_write V) s = 0) /\
    (c_meta s = true <-> count_pcs (@holds_meta V) s = 1) /\
    (c_meta s = false <-> count_pcs (@holds_meta V) s = 0) /\
    (c_writer s = true -> c_readers s = 0).
Proof. intros V fixed v ver clones subs pending ops sched; apply lock_invariant. Qed.
Print Assumptions C02_conc_lock_invariant.

(* in every reachable micro-state: a subscriber registered as a waker and not yet woken has nothing
   new to see (observed = current version, stream open); a poll that decided Pending has its waker
   registered or already woken; subscribers pending before the threads started are still
   registered or have been woken *)
Theorem C02_conc_no_lost_wakeup :
  forall (V : Type) (fixed : bool) (v : V) ver clones subs pending ops sched,
    start_ok ver clones subs pending ops ->
    let s := run_sched fixed (cinit v ver clones subs pending ops) sched in
    (forall k, In k (c_wakers s) -> c_ver s <> 0 /\ nth_error (c_subs s) k = Some (c_ver s)) /\
    (forall t th k, nth_error (c_threads s) t = Some th -> t_op th = CPoll k ->
       (t_pc th = PPollDecided Pending \/ t_pc th = PDone (Some Pending) None None) ->
       In k (c_wakers s) \/ In k (c_woken s)) /\
    (forall k, In k pending -> In k (c_wakers s) \/ In k (c_woken s)).
Proof. intros V fixed v ver clones subs pending ops sched; apply conc_no_lost_wakeup. Qed.
Print Assumptions C02_conc_no_lost_wakeup.

(* every set and the close move the whole waker list to the woken list *)
Theorem C02_conc_wake_all :
  forall (V : Type) (fixed : bool) (s : cstate V) t s',
    cstep fixed s t = Advanced s' -> c_ver s' <> c_ver s ->
    c_wakers s' = [] /\ c_woken s' = c_woken s ++ c_wakers s.
Proof. intros V fixed s t s'; apply conc_wake_all. Qed.
Print Assumptions C02_conc_wake_all.

(* ---------------- threads running programs, every schedule (ObsConcProg.v) ---------------- *)
From EB Require Import ObsConcLin ObsConcProg.

(* a poll that decides Pending registers its waker at that very micro-step (holding both locks) *)
Theorem C02_programs_pending_registers :
  forall (V : Type) (s s' : cstate V) t th th' k,
    nth_error (c_threads s) t = Some th -> t_op th = CPoll k ->
    cstep true s t = Advanced s' ->
    nth_error (c_threads s') t = Some th' -> t_pc th' = PPollDecided Pending ->
    t_pc th = PPollMetaLocked /\ In k (c_wakers s').
Proof. intros V s s' t th th' k; apply prog_pending_registers. Qed.
Print Assumptions C02_programs_pending_registers.

(* ... and whatever the threads' programs do afterwards, however they are scheduled, a registered
   waker stays registered until it is woken *)
Theorem C02_programs_no_lost_wakeup :
  forall (V : Type) (v : V) ver clones subs pending progs sched1 sched2 k,
    value_ops (all_ops progs) ->
    (forall k, In (CPoll k) (all_ops progs) -> k < length subs) ->
    1 <= clones ->
    let p1 := prun (pinit v ver clones subs pending progs) sched1 in
    let p2 := prun p1 sched2 in
    In k (c_wakers (p_s p1)) ->
    In k (c_wakers (p_s p2)) \/
    In k (skipn (length (c_woken (p_s p1))) (c_woken (p_s p2))).
Proof. intros V v ver clones subs pending progs sched1 sched2 k; apply prog_no_lost_wakeup. Qed.
Print Assumptions C02_programs_no_lost_wakeup.

(* ---------------- waker identity (ObsWaker.v) ----------------
   A task may poll the same subscriber with different waker objects over time.  [wstep] runs
   Obs.step and tracks, for every entry of the waker list, which waker object it is (the poll's). *)
From EB Require Import ObsWaker ObsWakerFacts.

(* "wakes the waker supplied to that Pending poll": that very waker object is registered ... *)
Theorem C02_waker_supplied_is_registered :
  forall (V : Type) (veq heq : V -> V -> bool) (vdefault : V) (s : wobs (V:=V)) k wid s' w,
    winv s -> wstep veq heq vdefault s (SPoll k) wid = Ok (s', OPollR Pending, w) ->
    In (k, wid) (entries s') /\ w = [].
Proof. intros V veq heq vdefault s k wid s' w; apply wpoll_pending_registers. Qed.
Print Assumptions C02_waker_supplied_is_registered.

(* ... stays registered through any further history (calls made with whatever wakers) until it is
   woken - and what is woken then is this waker object *)
Theorem C02_waker_supplied_is_woken :
  forall (V : Type) (veq heq : V -> V -> bool) (vdefault : V) xs (s : wobs (V:=V)) e,
    winv s -> In e (entries s) ->
    In e (entries (fst (wrun veq heq vdefault s xs))) \/ In e (snd (wrun veq heq vdefault s xs)).
Proof. intros V veq heq vdefault xs s e; apply wno_lost_wakeup. Qed.
Print Assumptions C02_waker_supplied_is_woken.

(* a call that changes the version wakes every registered waker object and leaves none *)
Theorem C02_version_change_wakes_every_waker_object :
  forall (V : Type) (veq heq : V -> V -> bool) (vdefault : V) (s : wobs (V:=V)) x wid s' r w,
    winv s -> oinv (w_obs s) -> wstep veq heq vdefault s x wid = Ok (s', r, w) ->
    ver (w_obs s') <> ver (w_obs s) -> w = entries s /\ entries s' = [].
Proof. intros V veq heq vdefault s x wid s' r w; apply wversion_change_wakes_all. Qed.
Print Assumptions C02_version_change_wakes_every_waker_object.

(* the tracking is consistent (one identity per entry) and does not change what Obs.step does *)
Theorem C02_waker_tracking_is_conservative :
  forall (V : Type) (veq heq : V -> V -> bool) (vdefault : V) (s : wobs (V:=V)) x wid,
    (forall s' r w, winv s -> wstep veq heq vdefault s x wid = Ok (s', r, w) -> winv s') /\
    match wstep veq heq vdefault s x wid with
    | Ok (s', r, w) => exists w0, step veq heq vdefault (w_obs s) x = Ok (w_obs s', r, w0) /\ length w <= length w0
    | Panic => step veq heq vdefault (w_obs s) x = Panic
    end.
Proof.
  intros V veq heq vdefault s x wid. split.
  - intros s' r w. apply winv_step.
  - apply wstep_erases.
Qed.
Print Assumptions C02_waker_tracking_is_conservative.
