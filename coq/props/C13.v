(* C13 — batched adapters never expose a half-applied transaction; batched = unbatched.
   Generic in the adapter: [on_diff] is any per-diff step function (Head, Tail, Skip, Filter, Sort
   are instances), [pending_*] is what is still to be delivered: for both flavours it is the
   flat_map of on_diff over all queued source diffs. *)
From EB Require Import Diff PollLoop BatchFacts PollLoopFacts.

(* same queued source diffs => same diffs still to deliver, in the same order *)
Theorem C13_batched_eq_unbatched :
  forall (I B St : Type) (on_diff : St -> I -> outcome (St * list (diff B))) (st : St)
         (batches : list (list I)),
    pending_u on_diff {| u_st := st; u_ready := [] |} (concat batches) = pending_b on_diff st batches.
Proof. intros; apply pending_same. Qed.
Print Assumptions C13_batched_eq_unbatched.

(* one poll of the unbatched flavour delivers exactly the next pending diff *)
Theorem C13_unbatched_poll_delivers_next :
  forall (I B St : Type) (on_diff : St -> I -> outcome (St * list (diff B)))
         (on_param : St -> nat -> St * option (list (diff B))) (hp : bool)
         s qi iend pend s' qi' qp' r tr stf all,
    poll_u on_diff on_param hp s qi iend [] pend = Ok (s', qi', qp', r, tr) ->
    pending_u on_diff s qi = Ok (stf, all) ->
    match r with
    | Ready (Some o) => exists rest, pending_u on_diff s' qi' = Ok (stf, rest) /\ all = o :: rest
    | _ => all = [] /\ u_st s' = stf /\ qi' = [] /\ u_ready s' = []
    end.
Proof. intros I B St on_diff on_param hp; apply poll_u_next. Qed.
Print Assumptions C13_unbatched_poll_delivers_next.

(* one poll of the batched flavour delivers a non-empty batch that is a prefix of the pending
   diffs ending at a source-batch boundary (what remains is the pending output of the remaining
   whole source batches); it is Pending / ended only when nothing is pending *)
Theorem C13_batched_poll_delivers_whole_batches :
  forall (I B St : Type) (on_diff : St -> I -> outcome (St * list (diff B)))
         (on_param : St -> nat -> St * option (list (diff B))) (hp : bool)
         st qi iend pend st' qi' qp' r tr stf all,
    poll_b on_diff on_param hp st qi iend [] pend = Ok (st', qi', qp', r, tr) ->
    pending_b on_diff st qi = Ok (stf, all) ->
    match r with
    | Ready (Some outs) =>
        outs <> [] /\ exists rest, pending_b on_diff st' qi' = Ok (stf, rest) /\ all = outs ++ rest
    | _ => all = [] /\ st' = stf /\ qi' = []
    end.
Proof. intros I B St on_diff on_param hp; apply poll_b_next. Qed.
Print Assumptions C13_batched_poll_delivers_whole_batches.

(* no empty batch is ever emitted (also when parameter changes are queued) *)
Theorem C13_no_empty_batch :
  forall (I B St : Type) (on_diff : St -> I -> outcome (St * list (diff B)))
         (on_param : St -> nat -> St * option (list (diff B))) (hp : bool),
    (forall st n, snd (on_param st n) <> Some []) ->
    forall st qi iend qp pend st' qi' qp' outs tr,
      poll_b on_diff on_param hp st qi iend qp pend = Ok (st', qi', qp', Ready (Some outs), tr) ->
      outs <> [].
Proof.
  intros I B St on_diff on_param hp Hne st qi iend qp pend st' qi' qp' outs tr H.
  exact (poll_b_spec on_diff on_param hp Hne _ _ _ _ _ _ _ _ _ _ H).
Qed.
Print Assumptions C13_no_empty_batch.

(* a parameter change yields one batch: exactly the diffs of that change *)
Theorem C13_one_batch_per_param_change :
  forall (I B St : Type) (on_diff : St -> I -> outcome (St * list (diff B)))
         (on_param : St -> nat -> St * option (list (diff B))) st qi iend n qp pend st1 ds,
    on_param st n = (st1, Some ds) -> ds <> [] ->
    exists tr, poll_b on_diff on_param true st qi iend (n :: qp) pend
               = Ok (st1, qi, qp, Ready (Some ds), tr).
Proof. intros; eapply poll_b_param; eauto. Qed.
Print Assumptions C13_one_batch_per_param_change.

(* ---------------- end to end on the model (BatchCompose.v) ----------------
   For any adapter whose step function is correct w.r.t. a relation R (step_ok: proved for Head, Tail,
   Skip, Filter, Sort in C09-C11, preserved by composition in C12): a batch emitted by the batched
   flavour takes the consumer's view to a view that R relates to the source contents after k >= 1
   WHOLE source batches - a state the source had between top-level operations (a source batch is
   one top-level operation or one committed transaction, C07), never a state inside one. *)
From EB Require Import AdapterCore BatchCompose.

Theorem C13_batch_lands_on_source_batch_boundary :
  forall (A B St : Type) (on_diff : St -> diff A -> outcome (St * list (diff B)))
         (on_param : St -> nat -> St * option (list (diff B))) (R : St -> list A -> list B -> Prop),
    step_ok on_diff R ->
    forall (hp : bool) st l v (batches : list (list (diff A))) iend pend st' qi' qp' outs tr,
      R st l v -> batches_valid batches l = true ->
      poll_b on_diff on_param hp st batches iend [] pend = Ok (st', qi', qp', Ready (Some outs), tr) ->
      exists k v', 0 < k /\ k <= length batches /\ qi' = skipn k batches /\
        apply_all_ok outs v = Some v' /\ R st' (after_batches (firstn k batches) l) v'.
Proof. intros A B St on_diff on_param R; exact (poll_b_lands_on_batch_boundary on_diff on_param R). Qed.
Print Assumptions C13_batch_lands_on_source_batch_boundary.

(* when the batched flavour answers Pending (or the end) everything queued was consumed without
   output and the unchanged view stands for the contents after all source batches *)
Theorem C13_quiet_means_caught_up :
  forall (A B St : Type) (on_diff : St -> diff A -> outcome (St * list (diff B)))
         (on_param : St -> nat -> St * option (list (diff B))) (R : St -> list A -> list B -> Prop),
    step_ok on_diff R ->
    forall (hp : bool) st l v (batches : list (list (diff A))) iend pend st' qi' qp' r tr,
      R st l v -> batches_valid batches l = true ->
      poll_b on_diff on_param hp st batches iend [] pend = Ok (st', qi', qp', r, tr) ->
      (r = Pending \/ r = Ready None) ->
      qi' = [] /\ R st' (after_batches batches l) v.
Proof. intros A B St on_diff on_param R; exact (poll_b_quiet_means_caught_up on_diff on_param R). Qed.
Print Assumptions C13_quiet_means_caught_up.

(* ---------------- across the three crates, batched flavour (FullStackB.v) ----------------
   A dynamic adapter on `vector.subscribe().batched()` with a Subscriber of an Observable<usize> as
   its limit stream, in ANY history of calls on the vector (mutators, multi-operation transactions
   committed / rolled back / dropped, other subscribers, drop; any capacity) and on the observable:
   a batch handed out is never empty; it stems either from ONE limit change (the vector side is
   untouched by that poll) or from source items, and then the replica the consumer's view now
   stands for IS the vector's contents as of that poll - a state the vector has between top-level
   operations, never one inside a transaction. *)
From EB Require Import AdapterCore OVec OVecRun Obs FullStack FullStackFacts FullStackB FullStackBFacts.

Theorem C13_full_stack_batch_lands_on_a_vector_state :
  forall (A St : Type) (veq heq : nat -> nat -> bool) (vdefault : nat)
         (on_diff : St -> diff A -> outcome (St * list (diff A)))
         (on_param : St -> nat -> St * option (list (diff A)))
         (init : nat -> list A -> St * list A)
         (R : St -> list A -> list A -> Prop) (param : St -> nat),
    (forall n l, R (fst (init n l)) l (snd (init n l)) /\ param (fst (init n l)) = n) ->
    step_ok on_diff R ->
    (forall st d st' outs, on_diff st d = Ok (st', outs) -> param st' = param st) ->
    param_ok on_param R ->
    (forall st n, param (fst (on_param st n)) = n) ->
    (forall st n, snd (on_param st n) <> Some []) ->
    forall capacity okd limit0 evs s fuel s' ds,
      frun_b veq heq vdefault on_diff on_param init (fsb_init capacity okd limit0) evs = ROk s ->
      fstep_b veq heq vdefault on_diff on_param init s (FPoll fuel) = ROk (s', FBAnswer (Ready (Some ds))) ->
      ds <> [] /\
      exists a gh, fb_ad s' = Some a /\ nth_error (g_gh (fb_g s')) (b_k a) = Some gh /\
        R (b_st a) (gh_replica gh) (b_view a) /\
        (fb_g s' = fb_g s \/ gh_replica gh = values (g_o (fb_g s'))).
Proof. exact (@fullb_batch_lands_on_a_vector_state). Qed.
Print Assumptions C13_full_stack_batch_lands_on_a_vector_state.

Theorem C13_full_stack_batched_invariant :
  forall (A St : Type) (veq heq : nat -> nat -> bool) (vdefault : nat)
         (on_diff : St -> diff A -> outcome (St * list (diff A)))
         (on_param : St -> nat -> St * option (list (diff A)))
         (init : nat -> list A -> St * list A)
         (R : St -> list A -> list A -> Prop) (param : St -> nat),
    (forall n l, R (fst (init n l)) l (snd (init n l)) /\ param (fst (init n l)) = n) ->
    step_ok on_diff R ->
    (forall st d st' outs, on_diff st d = Ok (st', outs) -> param st' = param st) ->
    param_ok on_param R ->
    (forall st n, param (fst (on_param st n)) = n) ->
    (forall st n, snd (on_param st n) <> Some []) ->
    forall capacity okd limit0 evs,
      frun_b veq heq vdefault on_diff on_param init (fsb_init capacity okd limit0) evs <> RPanic /\
      forall s, frun_b veq heq vdefault on_diff on_param init (fsb_init capacity okd limit0) evs = ROk s ->
        fb_ok s = true /\
        match fb_ad s with
        | None => True
        | Some a => exists gh, nth_error (g_gh (fb_g s)) (b_k a) = Some gh /\ R (b_st a) (gh_replica gh) (b_view a)
        end.
Proof.
  intros A St veq heq vdefault on_diff on_param init R param H1 H2 H3 H4 H5 H6 capacity okd limit0 evs.
  split.
  - exact (fullb_never_panics veq heq vdefault on_diff on_param init R param H1 H2 H3 H4 H5 H6 capacity okd limit0 evs).
  - exact (fullb_invariant veq heq vdefault on_diff on_param init R param H1 H2 H3 H4 H5 H6 capacity okd limit0 evs).
Qed.
Print Assumptions C13_full_stack_batched_invariant.

(* ---------------- stacks of BATCHED adapters as nested loops (ChainViewB.v) ----------------
   Real stacked batched adapters are nested poll loops without ready buffers, each level pulling
   whole batches from the level below (ChainPollB.chain_poll_b).  For stacks of any height whose
   stages satisfy the one-step statements: one poll of the top consumes a WHOLE NUMBER k of source
   batches (k = 0 exactly for a batch produced by a limit change), a batch it hands out is never
   empty and applicable to the consumer's view, and afterwards every level's state stands for the
   view of the level below, the bottom one for the source after those k whole batches: the consumer
   never sees a state inside a source batch, at any level of the stack.  At Pending the queue is
   empty, every leaf holds the waker, and the view is the composition of the stages' views; and
   the stack always answers. *)
From EB Require Import ChainPollB ChainPollBFacts ChainViewB.

Theorem C13_lazy_batched_chain_lands_on_whole_source_batches :
  forall (A : Type) (depth fuel : nat) (cc : cchain_b (A:=A)) (l v lq : list A) c' r tr,
    chain_view_b cc l v ->
    apply_all_ok (concat (fst (snd cc))) l = Some lq ->
    chain_poll_b depth fuel (erase_b cc) = Ok (c', r, tr) ->
    exists (cc' : cchain_b) (l' : list A) (k : nat),
      erase_b cc' = c' /\ Forall2 evolves_b (fst cc) (fst cc') /\
      k <= length (fst (snd cc)) /\
      apply_all_ok (concat (firstn k (fst (snd cc)))) l = Some l' /\
      fst (snd cc') = skipn k (fst (snd cc)) /\
      apply_all_ok (concat (fst (snd cc'))) l' = Some lq /\
      match r with
      | Ready (Some ds) =>
          (fst cc <> [] -> ds <> []) /\
          exists v1, apply_all_ok ds v = Some v1 /\ chain_view_b cc' l' v1
      | _ => chain_view_b cc' l' v
      end.
Proof. intro A. exact (@chain_poll_b_view A). Qed.
Print Assumptions C13_lazy_batched_chain_lands_on_whole_source_batches.

Theorem C13_lazy_batched_chain_view_at_pending_and_answers :
  forall (A : Type) (cc : cchain_b (A:=A)) (l v lq : list A),
    chain_view_b cc l v ->
    apply_all_ok (concat (fst (snd cc))) l = Some lq ->
    (forall depth fuel c' tr,
       chain_poll_b depth fuel (erase_b cc) = Ok (c', Pending, tr) ->
       exists cc' : cchain_b,
         erase_b cc' = c' /\ Forall2 evolves_b (fst cc) (fst cc') /\
         snd cc' = ([], false) /\ all_registered_b c' tr /\ chain_view_b cc' lq v) /\
    drains_b (erase_b cc) /\
    exists F res, forall depth fuel, length (fst cc) <= depth -> F <= fuel ->
      chain_poll_b depth fuel (erase_b cc) = Ok res.
Proof.
  intros A cc l v lq H1 H2. split; [|split].
  - intros depth fuel c' tr H. exact (chain_b_view_at_pending depth fuel cc l v lq c' tr H1 H2 H).
  - exact (chain_view_b_drains cc l v lq H1 H2).
  - exact (chain_b_always_answers cc l v lq H1 H2).
Qed.
Print Assumptions C13_lazy_batched_chain_view_at_pending_and_answers.
