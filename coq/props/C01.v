(* C01 — subscribers see the latest value and exactly the updates they have not observed.
   The implementation model (Obs.step: version counter, observed_version per subscriber) refines
   the specification written from the property text (ObsSpec.sstep: current value + one "unseen"
   flag per subscriber).  Every sentence of the property is a line of sstep:
     - values handed out are s_cur, the value most recently stored;
     - SPoll answers Ready(Some cur) iff unseen (then clears it), Pending otherwise, None once no owner;
     - WSet/WTake/WUpdate always s_notify and WSet/WTake return the previous value;
     - WSetIfNotEq / WSetIfHashNotEq s_notify and return Some(previous) iff the values differ by
       veq / heq, else change nothing and return None;  WUpdateIf notifies iff its closure returns true;
     - SGet leaves unseen, SNextNow clears it, SClone copies it, subscribe starts false,
       subscribe_reset / reset / clone_reset give true. *)
From EB Require Import Obs ObsSpec ObsFacts.

Theorem C01_refines_spec :
  forall (V : Type) (veq heq : V -> V -> bool) (vdefault : V) (o : obs V) (s : sspec V) (x : op V),
    oinv o -> sim o s ->
    match step veq heq vdefault o x with
    | Ok (o', r, _) => exists s', sstep veq heq vdefault s x = Some (s', r) /\ sim o' s' /\ oinv o'
    | Panic => sstep veq heq vdefault s x = None
    end.
Proof.
  intros V veq heq vdefault o s x Hi Hs.
  pose proof (step_refines_spec veq heq vdefault o s x Hi Hs) as H.
  destruct (step veq heq vdefault o x) as [[[o' r] w]|] eqn:E; [|exact H].
  destruct H as (s' & H1 & H2). exists s'. split; [exact H1|]. split; [exact H2|].
  eapply oinv_step; eassumption.
Qed.
Print Assumptions C01_refines_spec.

(* whole histories, from a fresh Observable / SharedObservable: call by call, the implementation
   returns what the specification returns (a call impossible in the current state is skipped) *)
Theorem C01_histories_refine_spec :
  forall (V : Type) (veq heq : V -> V -> bool) (vdefault : V) (k : kind) (v : V) (xs : list (op V)),
    outs_impl veq heq vdefault (obs_new k v) xs = outs_spec veq heq vdefault (s_new k v) xs.
Proof. intros; apply run_refines_spec. Qed.
Print Assumptions C01_histories_refine_spec.

(* non-vacuity and readability: a concrete history evaluated on the specification.
   values are v = e*10+h, equality on e, hash on h *)
Example C01_spec_example :
  let veq := fun a b => Nat.eqb (a / 10) (b / 10) in
  let heq := fun a b => Nat.eqb (a mod 10) (b mod 10) in
  outs_spec veq heq 0 (s_new Shared 0)
    [WSubscribe; SPoll 0; WSet 12; WSet 13; SPoll 0; SPoll 0; WSetIfNotEq 15; WSetIfHashNotEq 23;
     WSetIfHashNotEq 31; SGet 0; SPoll 0; WUpdateIf 7 false; SPoll 0; SGet 0; HDropOwner; SPoll 0; SGet 0]
  = [Some (OSubId 0); Some (OPollR Pending); Some (OVal 0); Some (OVal 12);
     Some (OPollR (Ready (Some 13))); Some (OPollR Pending); Some (OOpt None); Some (OOpt None);
     Some (OOpt (Some 13)); Some (OVal 31); Some (OPollR (Ready (Some 31))); Some OUnit;
     Some (OPollR Pending); Some (OVal 7); Some OUnit; Some (OPollR (Ready None)); Some (OVal 7)].
Proof. vm_compute. reflexivity. Qed.
