(* C08 — vector streams end only when the vector is dropped, and on its final state. *)
From EB Require Import OVecStepwise OVecDrain OVecDrainFacts OVec OVecRun OVecFacts OVecExtra.

(* the stream reports its end only after the vector is gone - and then the replica built from the
   snapshot and everything delivered equals the vector's final contents, for every capacity and
   polling pattern: up to date, behind within capacity, behind beyond capacity (then a last Reset
   is delivered first), or in the middle of a multi-diff batch; both flavours *)
Theorem C08_end_only_after_drop_on_final_state :
  forall (A : Type) (capacity : nat) (xs : list (op A)) (k : nat) g' gh',
    let g := grun (ginit capacity) xs in
    gstep g (OPoll k) = Ok (g', VPoll (Ready None)) -> nth_error (g_gh g') k = Some gh' ->
    alive (g_o g) = false /\ gh_replica gh' = values (g_o g').
Proof.
  intros A capacity xs k g' gh' g H E.
  exact (poll_meaning g k g' (Ready None) gh' (reachable_strong capacity xs) H E).
Qed.
Print Assumptions C08_end_only_after_drop_on_final_state.

(* while the vector is alive a poll never reports the end; Pending is only reported while alive *)
Theorem C08_no_end_while_alive :
  forall (A : Type) (capacity : nat) (xs : list (op A)) (k : nat) g' r gh',
    let g := grun (ginit capacity) xs in
    gstep g (OPoll k) = Ok (g', VPoll r) -> nth_error (g_gh g') k = Some gh' ->
    (alive (g_o g) = true -> r <> Ready None) /\ (r = Pending -> alive (g_o g) = true).
Proof.
  intros A capacity xs k g' r gh' g H E.
  pose proof (poll_meaning g k g' r gh' (reachable_strong capacity xs) H E) as P.
  split.
  - intros Ha ->. cbv beta iota in P. destruct P as [P _]. congruence.
  - intros ->. cbv beta iota in P. tauto.
Qed.
Print Assumptions C08_no_end_while_alive.

(* after the drop the final contents never change again, so "final" is well defined *)
Theorem C08_contents_frozen_after_drop :
  forall (A : Type) (g : gst A) x g' out,
    alive (g_o g) = false -> gstep g x = Ok (g', out) ->
    values (g_o g') = values (g_o g) /\ alive (g_o g') = false /\ log (g_o g') = log (g_o g) \/
    (exists k, x = OPoll k) \/ (exists k, x = ODropSub k) \/ cur_txn (g_o g) <> None.
Proof.
  intros A g x g' out Ha H. unfold gstep in H. rewrite Ha in H. cbn [negb orb] in H.
  destruct x; try discriminate; eauto.
  - right; right; right. destruct (txn_mutate (g_o g) m) as [[o1 r]|] eqn:E; [|discriminate].
    unfold txn_mutate in E. destruct (cur_txn (g_o g)); [discriminate|discriminate].
  - right; right; right. destruct (cur_txn (g_o g)); discriminate.
  - right; right; right. destruct (cur_txn (g_o g)); discriminate.
  - right; right; right. destruct (cur_txn (g_o g)); discriminate.
  - right; right; right. destruct (cur_txn (g_o g)); discriminate.
Qed.
Print Assumptions C08_contents_frozen_after_drop.

(* a subscriber whose last poll answered Pending is registered as waiting, and the drop of the
   vector (like every published message) wakes every waiting subscriber *)
Theorem C08_pending_subscriber_woken_by_drop :
  forall (A : Type) (o : ovec A) (k : nat) o',
    poll_sub o k = Ok (o', Pending) ->
    (exists s', nth_error (subs o') k = Some (Some s') /\ sb_waiting s' = true) /\
    (forall s', nth_error (subs o') k = Some (Some s') -> sb_waiting s' = true -> In k (snd (drop_vec o'))) /\
    (forall s' m, 0 < rx_cnt o' -> nth_error (subs o') k = Some (Some s') -> sb_waiting s' = true ->
                  In k (snd (send o' m))).
Proof.
  intros A o k o' H. split; [eapply pending_registers; eassumption|]. split.
  - intros s' E W. eapply drop_vec_wakes; eassumption.
  - intros s' m R E W. eapply send_wakes; eassumption.
Qed.
Print Assumptions C08_pending_subscriber_woken_by_drop.

Example C08_nonvacuous :
  let g := grun (ginit 2) [OSub false; OMut (MPushBack 0); OMut (MPushBack 1); OMut (MPushBack 2);
                           OMut (MPushBack 3); OMut (MPushBack 4); ODropVec; OPoll 0; OPoll 0] in
  map (@gh_replica nat) (g_gh g) = [[0; 1; 2; 3; 4]] /\ alive (g_o g) = false.
Proof. split; reflexivity. Qed.

(* ---- the vector is dropped between two receive attempts of one poll (OVecDrain.v) ---- *)
Theorem C08_racing_poll_ends_only_dropped_and_on_final {A} (g : gst A) k inj g' u s gh' :
  step_inv g -> forallb (env_ops k) inj = true ->
  nth_error (subs (g_o g)) k = Some (Some s) ->
  c_gpoll g k inj = Ok (g', Ready None, u) -> nth_error (g_gh g') k = Some gh' ->
  alive (g_o g') = false /\ gh_replica gh' = values (g_o g').
Proof.
  intros H1 H2 H3 H4 H5. exact (proj2 (c_poll_meaning g k inj g' (Ready None) u s gh' H1 H2 H3 H4 H5)).
Qed.
Print Assumptions C08_racing_poll_ends_only_dropped_and_on_final.
