(* C14 — vector streams and adapters never lose a wakeup from any of their inputs.
   An input polled while it has nothing to give answers Pending *and keeps the caller's waker*
   (that is the Stream contract; the correspondence check verifies with Waker::will_wake that the
   waker stored by each input is the caller's).  So "no lost wakeup" for an adapter is: whenever its
   poll answers Pending, in that very call each of its inputs was polled and the last answer of
   the inner stream was Pending, and the last answer of the parameter stream was Pending or the
   terminal end; and nothing deliverable was left behind. *)
From EB Require Import Diff PollLoop PollLoopFacts.

Theorem C14_pending_registers_everywhere_unbatched :
  forall (I B St : Type) (on_diff : St -> I -> outcome (St * list (diff B)))
         (on_param : St -> nat -> St * option (list (diff B))) (hp : bool),
    (forall st n, snd (on_param st n) <> Some []) ->
    forall s qi iend qp pend s' qi' qp' tr,
      poll_u on_diff on_param hp s qi iend qp pend = Ok (s', qi', qp', Pending, tr) ->
      iend = false /\ qi' = [] /\ u_ready s' = [] /\ (hp = true -> qp' = []) /\
      last_resp SrcInner tr = Some RPending /\
      (hp = true -> last_resp SrcParam tr = Some (if pend then REnd else RPending)).
Proof.
  intros I B St on_diff on_param hp Hne s qi iend qp pend s' qi' qp' tr H.
  exact (poll_u_spec on_diff on_param hp Hne _ _ _ _ _ _ _ _ _ _ H).
Qed.
Print Assumptions C14_pending_registers_everywhere_unbatched.

Theorem C14_pending_registers_everywhere_batched :
  forall (I B St : Type) (on_diff : St -> I -> outcome (St * list (diff B)))
         (on_param : St -> nat -> St * option (list (diff B))) (hp : bool),
    (forall st n, snd (on_param st n) <> Some []) ->
    forall st qi iend qp pend st' qi' qp' tr,
      poll_b on_diff on_param hp st qi iend qp pend = Ok (st', qi', qp', Pending, tr) ->
      iend = false /\ qi' = [] /\ (hp = true -> qp' = []) /\
      last_resp SrcInner tr = Some RPending /\
      (hp = true -> last_resp SrcParam tr = Some (if pend then REnd else RPending)).
Proof.
  intros I B St on_diff on_param hp Hne st qi iend qp pend st' qi' qp' tr H.
  exact (poll_b_spec on_diff on_param hp Hne _ _ _ _ _ _ _ _ _ _ H).
Qed.
Print Assumptions C14_pending_registers_everywhere_batched.

(* after a Pending answer (ready buffer empty, nothing queued on either input) the adapter stays
   Pending until an input has something new: it is never ready again without an input being ready *)
Theorem C14_ready_needs_input_ready :
  forall (I B St : Type) (on_diff : St -> I -> outcome (St * list (diff B)))
         (on_param : St -> nat -> St * option (list (diff B))) (hp pend : bool) (st : St),
    (exists tr, poll_u on_diff on_param hp {| u_st := st; u_ready := [] |} [] false [] pend
                = Ok ({| u_st := st; u_ready := [] |}, [], [], Pending, tr)) /\
    (exists tr, poll_b on_diff on_param hp st [] false [] pend = Ok (st, [], [], Pending, tr)).
Proof.
  intros I B St on_diff on_param hp pend st. unfold poll_u, poll_b. cbn [u_ready u_st].
  destruct hp; cbn; split; eexists; reflexivity.
Qed.
Print Assumptions C14_ready_needs_input_ready.
