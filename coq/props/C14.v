(* C14 — vector streams and adapters never lose a wakeup from any of their inputs.
   An input polled while it has nothing to give answers Pending *and keeps the caller's waker*
   (that is the Stream contract; the correspondence check verifies with Waker::will_wake that the
   waker stored by each input is the caller's).  So "no lost wakeup" for an adapter is: whenever its
   poll answers Pending, in that very call each of its inputs was polled and the last answer of
   the inner stream was Pending, and the last answer of the parameter stream was Pending or the
   terminal end; and nothing deliverable was left behind. *)
From EB Require Import Diff PollLoop PollLoopFacts.

Theorem C14_pending_registers_everywhere_unbatched :
  forall (I B St : Type) (on_diff : St -> I -> outcome (St * list (diff B)))
         (on_param : St -> nat -> St * option (list (diff B))) (hp : bool),
    (forall st n, snd (on_param st n) <> Some []) ->
    forall s qi iend qp pend s' qi' qp' tr,
      poll_u on_diff on_param hp s qi iend qp pend = Ok (s', qi', qp', Pending, tr) ->
      iend = false /\ qi' = [] /\ u_ready s' = [] /\ (hp = true -> qp' = []) /\
      last_resp SrcInner tr = Some RPending /\
      (hp = true -> last_resp SrcParam tr = Some (if pend then REnd else RPending)).
Proof.
  intros I B St on_diff on_param hp Hne s qi iend qp pend s' qi' qp' tr H.
  exact (poll_u_spec on_diff on_param hp Hne _ _ _ _ _ _ _ _ _ _ H).
Qed.
Print Assumptions C14_pending_registers_everywhere_unbatched.

Theorem C14_pending_registers_everywhere_batched :
  forall (I B St : Type) (on_diff : St -> I -> outcome (St * list (diff B)))
         (on_param : St -> nat -> St * option (list (diff B))) (hp : bool),
    (forall st n, snd (on_param st n) <> Some []) ->
    forall st qi iend qp pend st' qi' qp' tr,
      poll_b on_diff on_param hp st qi iend qp pend = Ok (st', qi', qp', Pending, tr) ->
      iend = false /\ qi' = [] /\ (hp = true -> qp' = []) /\
      last_resp SrcInner tr = Some RPending /\
      (hp = true -> last_resp SrcParam tr = Some (if pend then REnd else RPending)).
Proof.
  intros I B St on_diff on_param hp Hne st qi iend qp pend st' qi' qp' tr H.
  exact (poll_b_spec on_diff on_param hp Hne _ _ _ _ _ _ _ _ _ _ H).
Qed.
Print Assumptions C14_pending_registers_everywhere_batched.

(* after a Pending answer (ready buffer empty, nothing queued on either input) the adapter stays
   Pending until an input has something new: it is never ready again without an input being ready *)
Theorem C14_ready_needs_input_ready :
  forall (I B St : Type) (on_diff : St -> I -> outcome (St * list (diff B)))
         (on_param : St -> nat -> St * option (list (diff B))) (hp pend : bool) (st : St),
    (exists tr, poll_u on_diff on_param hp {| u_st := st; u_ready := [] |} [] false [] pend
                = Ok ({| u_st := st; u_ready := [] |}, [], [], Pending, tr)) /\
    (exists tr, poll_b on_diff on_param hp st [] false [] pend = Ok (st, [], [], Pending, tr)).
Proof.
  intros I B St on_diff on_param hp pend st. unfold poll_u, poll_b. cbn [u_ready u_st].
  destruct hp; cbn; split; eexists; reflexivity.
Qed.
Print Assumptions C14_ready_needs_input_ready.

(* ---------------- chains (ChainPoll.v): the loop over an arbitrary inner stream ----------------
   The inner stream of an adapter in a stack is the adapter below it, polled with the same Context.
   A Pending answer of the top of a stack of any height leaves the waker of that call registered
   with every leaf: the source stream at the bottom (leaf 0) and the limit/count stream of every
   stage that has one (leaf k for the k-th stage from the bottom), with nothing deliverable left in
   any stage. *)
From EB Require Import ChainPoll ChainPollFacts.

Theorem C14_chain_pending_registers_everywhere :
  forall (A : Type) (depth fuel : nat) (c c' : chain (A:=A)) (tr : ltrace),
    stages_ok (fst c) ->
    chain_poll depth fuel c = Ok (c', Pending, tr) ->
    all_registered c' tr.
Proof. exact chain_pending_registers_everywhere. Qed.
Print Assumptions C14_chain_pending_registers_everywhere.

(* a stack in which nothing is deliverable answers Pending again and is left as it was: it is
   never ready again without a leaf having become ready (and hence having woken the waker) *)
Theorem C14_chain_quiet_stays_pending :
  forall (A : Type) (depth fuel : nat) (c : chain (A:=A)),
    quiet c -> length (fst c) <= depth -> 1 <= fuel ->
    exists tr, chain_poll depth fuel c = Ok (c, Pending, tr).
Proof. exact chain_quiet_stays_pending. Qed.
Print Assumptions C14_chain_quiet_stays_pending.

(* over a scripted queue the generic loop is exactly the loop of PollLoop.v, which is the one the
   correspondence check compares with the five poll_next implementations call by call *)
Theorem C14_generic_loop_is_scripted_loop :
  forall (I B St : Type) (on_diff : St -> I -> outcome (St * list (diff B)))
         (on_param : St -> nat -> St * option (list (diff B))) (hp : bool)
         (s : ustate) (qi : list I) (iend : bool) (qp : list nat) (pend : bool),
    gpoll on_diff on_param hp 1 queue_inner (S (length qi)) s (qi, iend) qp pend =
    match poll_u on_diff on_param hp s qi iend qp pend with
    | Ok (s', qi', qp', r, tr) => Ok (s', (qi', iend), qp', r, map conv_src tr)
    | Panic => Panic
    end.
Proof. exact gpoll_queue_is_poll_u. Qed.
Print Assumptions C14_generic_loop_is_scripted_loop.

(* the fuel / depth bounds of the model never change an answer *)
Theorem C14_chain_fuel_irrelevant :
  forall (A : Type) (depth depth' fuel fuel' : nat) (c : chain (A:=A)) res,
    depth <= depth' -> fuel <= fuel' ->
    chain_poll depth fuel c = Ok res -> chain_poll depth' fuel' c = Ok res.
Proof. exact chain_poll_fuel_mono. Qed.
Print Assumptions C14_chain_fuel_irrelevant.

(* ---------------- the leaves: the plain and the batched subscriber stream of an ObservableVector ----------------
   (OVec.v) a poll that answers Pending registers the subscriber as waiting, and every published
   message - as well as the drop of the vector - wakes every waiting subscriber.  Together with the
   chain theorem: the waker of a Pending poll of any stack is woken by the next source update, by
   the next limit/count change (the limit stream's own contract) and by the source being dropped. *)
From EB Require Import OVec OVecFacts.

Theorem C14_subscriber_stream_pending_is_woken :
  forall (A : Type) (o : ovec A) (k : nat) o',
    poll_sub o k = Ok (o', Pending) ->
    (exists s', nth_error (subs o') k = Some (Some s') /\ sb_waiting s' = true) /\
    (forall s', nth_error (subs o') k = Some (Some s') -> sb_waiting s' = true -> In k (snd (drop_vec o'))) /\
    (forall s' m, 0 < rx_cnt o' -> nth_error (subs o') k = Some (Some s') -> sb_waiting s' = true ->
                  In k (snd (send o' m))).
Proof.
  intros A o k o' H. split; [eapply pending_registers; eassumption|]. split.
  - intros s' E W. eapply drop_vec_wakes; eassumption.
  - intros s' m R E W. eapply send_wakes; eassumption.
Qed.
Print Assumptions C14_subscriber_stream_pending_is_woken.

(* ---------------- the whole stack on its two REAL leaves (FullStack.v) ----------------
   A dynamic adapter whose inner stream is the plain stream of a subscriber of an ObservableVector
   and whose limit stream is a Subscriber of an Observable<usize>; any history of calls on both
   sides.  Whenever the adapter's stream answers Pending, the vector's receiver is waiting and the
   observable's waker list holds the limit subscriber's entry (registration is a fact about the
   states of the two leaves, not about a scripted trace); hence every published message and the
   drop of the vector, every notifying update of the limit and the closing of the observable wake
   the task; and a poll always answers (the loop terminates). *)
From EB Require Import AdapterCore Obs OVecRun FullStack FullStackFacts.

Section FullStackC14.
Context {A St : Type}.
Variable veq heq : nat -> nat -> bool.
Variable vdefault : nat.
Variable on_diff : St -> diff A -> outcome (St * list (diff A)).
Variable on_param : St -> nat -> St * option (list (diff A)).
Variable init : nat -> list A -> St * list A.
Variable R : St -> list A -> list A -> Prop.
Variable param : St -> nat.
Hypothesis Hinit : forall n l, R (fst (init n l)) l (snd (init n l)) /\ param (fst (init n l)) = n.
Hypothesis Hstep : step_ok on_diff R.
Hypothesis Hstep_param : forall st d st' outs, on_diff st d = Ok (st', outs) -> param st' = param st.
Hypothesis Hparam : param_ok on_param R.
Hypothesis Hparam_set : forall st n, param (fst (on_param st n)) = n.
Hypothesis Hshape : forall st n, snd (on_param st n) <> Some [].
Notation fstep := (fstep veq heq vdefault on_diff on_param init).
Notation frun := (frun veq heq vdefault on_diff on_param init).

Theorem C14_full_stack_pending_registers_with_both_leaves :
  forall capacity okd limit0 evs s fuel s',
    frun (fs_init capacity okd limit0) evs = ROk s ->
    fstep s (FPoll fuel) = ROk (s', FAnswer Pending) ->
    exists a, f_ad s' = Some a /\
      (exists sb, nth_error (OVec.subs (g_o (f_g s'))) (a_k a) = Some (Some sb) /\ sb_waiting sb = true) /\
      (ver (f_lim s') <> 0 -> In (a_j a) (wakers (f_lim s'))).
Proof.
  exact (full_pending_registers veq heq vdefault on_diff on_param init R param
           Hinit Hstep Hstep_param Hparam Hparam_set Hshape).
Qed.

Theorem C14_full_stack_limit_change_and_close_wake :
  forall capacity okd limit0 evs s fuel s' a x o' out w,
    frun (fs_init capacity okd limit0) evs = ROk s ->
    fstep s (FPoll fuel) = ROk (s', FAnswer Pending) ->
    f_ad s' = Some a ->
    Obs.step veq heq vdefault (f_lim s') x = Ok (o', out, w) ->
    ver o' <> ver (f_lim s') ->
    In (a_j a) w.
Proof.
  exact (full_limit_change_wakes veq heq vdefault on_diff on_param init R param
           Hinit Hstep Hstep_param Hparam Hparam_set Hshape).
Qed.

Theorem C14_full_stack_vector_update_and_drop_wake :
  forall capacity okd limit0 evs s fuel s' a,
    frun (fs_init capacity okd limit0) evs = ROk s ->
    fstep s (FPoll fuel) = ROk (s', FAnswer Pending) ->
    f_ad s' = Some a ->
    (forall m, 0 < rx_cnt (g_o (f_g s')) -> In (a_k a) (snd (send (g_o (f_g s')) m))) /\
    In (a_k a) (snd (drop_vec (g_o (f_g s')))).
Proof.
  intros capacity okd limit0 evs s fuel s' a E H Ea.
  destruct (C14_full_stack_pending_registers_with_both_leaves _ _ _ _ _ _ _ E H)
    as (a' & Ea' & (sb & Esb & Hw) & _).
  rewrite Ea in Ea'. injection Ea' as <-.
  split.
  - intros m Hr. eapply send_wakes; eassumption.
  - eapply drop_vec_wakes; eassumption.
Qed.

Theorem C14_full_stack_poll_always_answers :
  forall capacity okd limit0 evs s,
    frun (fs_init capacity okd limit0) evs = ROk s ->
    exists fuel, forall fuel', fuel <= fuel' -> fstep s (FPoll fuel') <> RFuel.
Proof.
  exact (full_poll_terminates veq heq vdefault on_diff on_param init R param
           Hinit Hstep Hstep_param Hparam Hparam_set Hshape).
Qed.

End FullStackC14.
Print Assumptions C14_full_stack_pending_registers_with_both_leaves.
Print Assumptions C14_full_stack_limit_change_and_close_wake.
Print Assumptions C14_full_stack_vector_update_and_drop_wake.
Print Assumptions C14_full_stack_poll_always_answers.

(* the same on the batched subscriber stream (FullStackB.v) *)
From EB Require Import FullStackB FullStackBFacts.

Theorem C14_full_stack_batched_pending_registers_and_terminates :
  forall (A St : Type) (veq heq : nat -> nat -> bool) (vdefault : nat)
         (on_diff : St -> diff A -> outcome (St * list (diff A)))
         (on_param : St -> nat -> St * option (list (diff A)))
         (init : nat -> list A -> St * list A)
         (R : St -> list A -> list A -> Prop) (param : St -> nat),
    (forall n l, R (fst (init n l)) l (snd (init n l)) /\ param (fst (init n l)) = n) ->
    step_ok on_diff R ->
    (forall st d st' outs, on_diff st d = Ok (st', outs) -> param st' = param st) ->
    param_ok on_param R ->
    (forall st n, param (fst (on_param st n)) = n) ->
    (forall st n, snd (on_param st n) <> Some []) ->
    forall capacity okd limit0 evs s,
      frun_b veq heq vdefault on_diff on_param init (fsb_init capacity okd limit0) evs = ROk s ->
      (exists fuel, forall fuel', fuel <= fuel' -> fstep_b veq heq vdefault on_diff on_param init s (FPoll fuel') <> RFuel) /\
      forall fuel s',
        fstep_b veq heq vdefault on_diff on_param init s (FPoll fuel) = ROk (s', FBAnswer Pending) ->
        exists a, fb_ad s' = Some a /\
          (exists sb, nth_error (OVec.subs (g_o (fb_g s'))) (b_k a) = Some (Some sb) /\ sb_waiting sb = true) /\
          (ver (fb_lim s') <> 0 -> In (b_j a) (wakers (fb_lim s'))) /\
          (forall x o' out w, Obs.step veq heq vdefault (fb_lim s') x = Ok (o', out, w) ->
                              ver o' <> ver (fb_lim s') -> In (b_j a) w).
Proof.
  intros A St veq heq vdefault on_diff on_param init R param H1 H2 H3 H4 H5 H6 capacity okd limit0 evs s E.
  split.
  - exact (fullb_poll_terminates veq heq vdefault on_diff on_param init R param H1 H2 H3 H4 H5 H6 capacity okd limit0 evs s E).
  - intros fuel s' H.
    destruct (fullb_pending_registers veq heq vdefault on_diff on_param init R param H1 H2 H3 H4 H5 H6
                capacity okd limit0 evs s fuel s' E H) as (a & Ea & Hw & Hr).
    exists a. split; [exact Ea|]. split; [exact Hw|]. split; [exact Hr|].
    intros x o' out w Hs Hv.
    exact (fullb_limit_change_wakes veq heq vdefault on_diff on_param init R param H1 H2 H3 H4 H5 H6
             capacity okd limit0 evs s fuel s' a x o' out w E H Ea Hs Hv).
Qed.
Print Assumptions C14_full_stack_batched_pending_registers_and_terminates.

(* ---------------- chains, BATCHED flavour (ChainPollB.v) ----------------
   The batched loop over an arbitrary inner stream (gpoll_b: a whole batch through flat_map_diffs,
   no ready buffer, "nothing produced => poll again") and stacks of any height: the same statements
   as for the unbatched flavour above. *)
From EB Require Import ChainPollB ChainPollBFacts.

Theorem C14_chain_batched_pending_registers_everywhere :
  forall (A : Type) (depth fuel : nat) (c c' : chain_b (A:=A)) (tr : ltrace),
    stages_ok_b (fst c) ->
    chain_poll_b depth fuel c = Ok (c', Pending, tr) ->
    all_registered_b c' tr.
Proof. exact chain_b_pending_registers_everywhere. Qed.
Print Assumptions C14_chain_batched_pending_registers_everywhere.

Theorem C14_chain_batched_quiet_stays_pending :
  forall (A : Type) (depth fuel : nat) (c : chain_b (A:=A)),
    quiet_b c -> length (fst c) <= depth -> 1 <= fuel ->
    exists tr, chain_poll_b depth fuel c = Ok (c, Pending, tr).
Proof. exact chain_b_quiet_stays_pending. Qed.
Print Assumptions C14_chain_batched_quiet_stays_pending.

Theorem C14_generic_batched_loop_is_scripted_loop :
  forall (I B St : Type) (on_diff : St -> I -> outcome (St * list (diff B)))
         (on_param : St -> nat -> St * option (list (diff B))) (hp : bool)
         (st : St) (qi : list (list I)) (iend : bool) (qp : list nat) (pend : bool),
    gpoll_b on_diff on_param hp 1 queue_inner_b (S (length qi)) st (qi, iend) qp pend =
    match poll_b on_diff on_param hp st qi iend qp pend with
    | Ok (st', qi', qp', r, tr) => Ok (st', (qi', iend), qp', r, map conv_src tr)
    | Panic => Panic
    end.
Proof. exact gpoll_b_queue_is_poll_b. Qed.
Print Assumptions C14_generic_batched_loop_is_scripted_loop.

Theorem C14_chain_batched_fuel_irrelevant :
  forall (A : Type) (depth depth' fuel fuel' : nat) (c : chain_b (A:=A)) res,
    depth <= depth' -> fuel <= fuel' ->
    chain_poll_b depth fuel c = Ok res -> chain_poll_b depth' fuel' c = Ok res.
Proof. exact chain_poll_b_fuel_mono. Qed.
Print Assumptions C14_chain_batched_fuel_irrelevant.

(* ---------------- the full-stack loops ARE the scripted loops (FullStackTie.v) ----------------
   Over scripted queues the loops of FullStack.v / FullStackB.v (both inputs arbitrary state
   machines) compute exactly PollLoop.poll_u / poll_b - the two functions the correspondence check
   compares call by call with the five poll_next implementations. *)
From EB Require Import ChainPoll FullStackTie.

Theorem C14_full_stack_loop_is_scripted_loop :
  forall (I B St : Type) (on_diff : St -> I -> outcome (St * list (diff B)))
         (on_param : St -> nat -> St * option (list (diff B)))
         (s : ustate (B:=B) (St:=St)) qi iend qp pend fuel,
    length qi + length qp + 2 <= fuel ->
    fpoll on_diff on_param qinner queue_param fuel s (qi, iend) (qp, pend) =
    match poll_u on_diff on_param true s qi iend qp pend with
    | Ok (s', qi', qp', r, _) => ROk (s', (qi', iend), (qp', pend), r)
    | Panic => RPanic
    end.
Proof. exact fpoll_queue_is_poll_u. Qed.
Print Assumptions C14_full_stack_loop_is_scripted_loop.

Theorem C14_full_stack_batched_loop_is_scripted_loop :
  forall (I B St : Type) (on_diff : St -> I -> outcome (St * list (diff B)))
         (on_param : St -> nat -> St * option (list (diff B)))
         (st : St) qi iend qp pend fuel,
    length qi + length qp + 2 <= fuel ->
    floop_b on_diff on_param qinner_b queue_param fuel st (qi, iend) (qp, pend) =
    match poll_b on_diff on_param true st qi iend qp pend with
    | Ok (st', qi', qp', r, _) => ROk (st', (qi', iend), (qp', pend), r)
    | Panic => RPanic
    end.
Proof. exact floop_b_queue_is_poll_b. Qed.
Print Assumptions C14_full_stack_batched_loop_is_scripted_loop.
