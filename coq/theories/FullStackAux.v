(* FullStackAux.v — facts about the two leaves of FullStack.v taken separately:
   * the vector side: what any call other than the adapter's own poll / drop does to the adapter's
     subscriber (it stays alive, unbatched, its ghost untouched); what one poll of a plain subscriber
     answers, and a measure of how many more items it can be handed;
   * the observable side: what any call that does not address the adapter's subscriber does to it,
     and the three possible answers of its Stream::poll_next. *)
From EB Require Import Diff AdapterCore ListTac OVec OVecRun OVecFacts OVecExtra.
From Coq Require Import Lia.

Section VecSide.
Context {A : Type}.
Implicit Types (o : ovec A) (g : gst A).

(* subscriber k exists, is alive and is a plain (unbatched) stream *)
Definition subk (k : nat) (ss : list (option (sub A))) : Prop :=
  exists s, nth_error ss k = Some (Some s) /\ sb_batched s = false.

Lemma subk_wake_all k ss : subk k ss -> subk k (wake_all ss).
Proof.
  intros (s & E & Hb). exists (wake1 s). split; [|exact Hb].
  unfold wake_all. rewrite nth_error_map, E. reflexivity.
Qed.

Lemma subk_app k ss x : subk k ss -> subk k (ss ++ [x]).
Proof.
  intros (s & E & Hb). exists s. split; [|exact Hb].
  rewrite nth_error_app1; [exact E|]. eapply nth_error_some_lt; eassumption.
Qed.

Lemma subk_set_neq k j x ss : j <> k -> subk k ss -> subk k (set_nth j x ss).
Proof.
  intros Hn (s & E & Hb). exists s. split; [|exact Hb].
  rewrite nth_error_set_nth_neq by lia. exact E.
Qed.

Lemma ovec_mutate_subk k o m o' r w :
  ovec_mutate o m = Ok (o', r, w) -> subk k (subs o) -> subk k (subs o').
Proof.
  intros H Hk. pose proof (ovec_mutate_spec o m) as S.
  destruct (mutate m (values o) false) as [[[v' r0] od]|]; [|congruence].
  destruct S as (o1 & w1 & E & _ & _ & _ & _ & Hs). rewrite E in H. injection H as <- _ _.
  destruct od as [d|].
  - destruct (rx_cnt o =? 0); destruct Hs as [_ ->]; [exact Hk|apply subk_wake_all; exact Hk].
  - destruct Hs as [_ ->]. exact Hk.
Qed.

Lemma do_mut_subk k o in_txn m o' r w :
  do_mut o in_txn m = Ok (o', r, w) -> subk k (subs o) -> subk k (subs o').
Proof.
  unfold do_mut. destruct in_txn.
  - destruct (txn_mutate o m) as [[o1 r1]|] eqn:E; [|discriminate].
    intro H; injection H as <- _ _.
    destruct (txn_mutate_invisible _ _ _ _ E) as (_ & _ & -> & _). exact (fun x => x).
  - apply ovec_mutate_subk.
Qed.

Lemma for_each_subk k o in_txn decs o' vis w :
  for_each o in_txn decs = Ok (o', vis, w) -> subk k (subs o) -> subk k (subs o').
Proof.
  unfold for_each. intros H Hk.
  refine (traverse_preserves (fun x => subk k (subs x)) in_txn _ _ _ _ _ _ _ _ _ _ Hk H).
  intros o0 m o1 r w0 HP E. eapply do_mut_subk; eassumption.
Qed.

(* any call on the vector other than the poll / the drop of subscriber k leaves that subscriber
   alive and unbatched, and leaves its ghost alone *)
Lemma gstep_other k g x g' out :
  gstep g x = Ok (g', out) -> x <> OPoll k -> x <> ODropSub k ->
  subk k (subs (g_o g)) -> k < length (g_gh g) ->
  subk k (subs (g_o g')) /\ nth_error (g_gh g') k = nth_error (g_gh g) k.
Proof.
  intros H Hx1 Hx2 Hk Hlen. unfold gstep in H. destruct x.
  - (* OMut *)
    destruct (_ || _); [discriminate|].
    destruct (ovec_mutate (g_o g) m) as [[[o' r] w]|] eqn:E; [|discriminate].
    injection H as <- _. cbn [g_o g_gh]. split; [|reflexivity]. eapply ovec_mutate_subk; eassumption.
  - (* OEach *)
    destruct (_ || _); [discriminate|].
    destruct (for_each (g_o g) false decs) as [[[o' vis] w]|] eqn:E; [|discriminate].
    injection H as <- _. cbn [g_o g_gh]. split; [|reflexivity]. eapply for_each_subk; eassumption.
  - (* OSub *)
    destruct (_ || _); [discriminate|]. unfold subscribe in H. injection H as <- _.
    cbn [g_o g_gh subs with_subs]. split; [apply subk_app; exact Hk|].
    rewrite nth_error_app1 by exact Hlen. reflexivity.
  - (* OPoll *)
    assert (Hne : k0 <> k) by congruence.
    unfold poll_sub in H. destruct (nth_error (subs (g_o g)) k0) as [[s|]|]; try discriminate.
    destruct ((if sb_batched s then poll_batched else poll_plain) _ _ _ s) as [[s' r]|]; [|discriminate].
    destruct r as [[it|]|].
    + destruct (nth_error (g_gh g) k0); [|discriminate]. destruct (deliver _ _ _).
      injection H as <- _. cbn [g_o g_gh subs with_subs].
      split; [apply subk_set_neq; assumption|]. rewrite nth_error_set_nth_neq by lia. reflexivity.
    + injection H as <- _. cbn [g_o g_gh subs with_subs].
      split; [apply subk_set_neq; assumption|reflexivity].
    + injection H as <- _. cbn [g_o g_gh subs with_subs].
      split; [apply subk_set_neq; assumption|reflexivity].
  - (* ODropSub *)
    assert (Hne : k0 <> k) by congruence.
    injection H as <- _. cbn [g_o g_gh subs with_subs drop_sub].
    split; [apply subk_set_neq; assumption|reflexivity].
  - (* OTxnBegin *)
    destruct (_ || _); [discriminate|]. injection H as <- _. cbn [g_o g_gh]. split; [exact Hk|reflexivity].
  - (* OTMut *)
    destruct (txn_mutate (g_o g) m) as [[o1 r]|] eqn:E; [|discriminate].
    injection H as <- _. cbn [g_o g_gh]. split; [|reflexivity].
    destruct (txn_mutate_invisible _ _ _ _ E) as (_ & _ & -> & _). exact Hk.
  - (* OTEach *)
    destruct (cur_txn (g_o g)); [|discriminate].
    destruct (for_each (g_o g) true decs) as [[[o1 vis] w]|] eqn:E; [|discriminate].
    injection H as <- _. cbn [g_o g_gh]. split; [|reflexivity]. eapply for_each_subk; eassumption.
  - (* OTRollback *)
    destruct (cur_txn (g_o g)) eqn:Et; [|discriminate]. injection H as <- _.
    cbn [g_o g_gh]. split; [|reflexivity]. unfold txn_rollback. rewrite Et. exact Hk.
  - (* OTCommit *)
    destruct (cur_txn (g_o g)) eqn:Et; [|discriminate]. injection H as <- _.
    cbn [g_o g_gh]. split; [|reflexivity]. unfold txn_commit. rewrite Et.
    destruct (tx_batch t); [exact Hk|].
    unfold send. cbn [rx_cnt subs with_txn with_values]. destruct (_ =? 0); cbn [fst subs with_txn with_values].
    + exact Hk.
    + apply subk_wake_all. exact Hk.
  - (* OTDrop *)
    destruct (cur_txn (g_o g)); [|discriminate]. injection H as <- _.
    cbn [g_o g_gh]. split; [exact Hk|reflexivity].
  - (* ODropVec *)
    destruct (_ || _); [discriminate|]. injection H as <- _.
    cbn [g_o g_gh drop_vec fst subs]. split; [apply subk_wake_all; exact Hk|reflexivity].
Qed.

(* how many more items the stream of subscriber s can hand out before it answers Pending / None:
   what is left of the batch it is yielding, plus (one Reset when it has lagged | every diff of
   the messages it has not received) *)
Definition mu o (s : sub A) : nat :=
  length (match sb_state s with SYield rest => rest | SRecv => [] end) +
  (if cap2 o <? length (log o) - sb_next s then 1
   else length (all_diffs (skipn (sb_next s) (log o)))).

Definition muk (k : nat) g : nat :=
  match nth_error (subs (g_o g)) k with Some (Some s) => mu (g_o g) s | _ => 0 end.

Lemma mu_with_subs o ss s : mu (with_subs o ss) s = mu o s.
Proof. reflexivity. Qed.

Lemma poll_case_plain o s s' r :
  poll_case o s s' r -> sb_batched s = false ->
  sb_batched s' = false /\
  (r = Pending -> sb_waiting s' = true) /\
  match r with
  | Ready (Some it) => (exists d, it = IDiff d) /\ S (mu o s') = mu o s
  | _ => True
  end.
Proof.
  intros Hc Hb.
  destruct Hc as [d rest' Est Eb | Est En Eal | Est En Eal | Est Hl | mg d rest Est Eb Hlt Hw En Ed
                  | Est Eb Hlt Hw Hne ].
  - (* yield *)
    split; [reflexivity|]. split; [discriminate|]. split; [eauto|].
    unfold mu. cbn [sb_state sb_next]. rewrite Est, yield_state_rest. cbn [length]. lia.
  - split; [exact Hb|]. split; [reflexivity|exact I].
  - split; [exact Hb|]. split; [discriminate|exact I].
  - (* lag *)
    rewrite Hb. split; [reflexivity|]. split; [discriminate|]. split; [eauto|].
    unfold mu. cbn [sb_state sb_next]. rewrite Est. apply Nat.ltb_lt in Hl. rewrite Hl.
    rewrite Nat.sub_diag, skipn_all.
    destruct (Nat.ltb_spec (cap2 o) 0); [lia|]. reflexivity.
  - (* plain *)
    split; [reflexivity|]. split; [discriminate|]. split; [eauto|].
    unfold mu. cbn [sb_state sb_next]. rewrite Est, yield_state_rest.
    destruct (Nat.ltb_spec (cap2 o) (length (log o) - sb_next s)); [lia|].
    destruct (Nat.ltb_spec (cap2 o) (length (log o) - S (sb_next s))); [lia|].
    rewrite (skipn_nth_cons _ _ _ En), all_diffs_cons, Ed. cbn [length app]. rewrite app_length. lia.
  - rewrite Eb in Hb. discriminate.
Qed.

(* one poll of a plain subscriber in a reachable state *)
Lemma gpoll_plain k g sb gh :
  ginv_strong g -> nth_error (subs (g_o g)) k = Some (Some sb) -> sb_batched sb = false ->
  nth_error (g_gh g) k = Some gh ->
  exists g' r,
    gstep g (OPoll k) = Ok (g', VPoll r) /\ ginv_strong g' /\
    (exists sb', nth_error (subs (g_o g')) k = Some (Some sb') /\ sb_batched sb' = false /\
                 (r = Pending -> sb_waiting sb' = true)) /\
    match r with
    | Ready (Some it) =>
        exists d gh', it = IDiff d /\ nth_error (g_gh g') k = Some gh' /\
          apply_all_ok [d] (gh_replica gh) = Some (gh_replica gh') /\
          S (muk k g') = muk k g
    | _ => nth_error (g_gh g') k = Some gh /\ gh_replica gh = values (g_o g')
    end.
Proof.
  intros Hg Ek Hb Eg.
  pose proof (poll_never_panics g k sb (ginv_strong_ginv _ Hg) Ek) as Hnp.
  destruct (gstep g (OPoll k)) as [[g' out]|] eqn:E; [|congruence].
  pose proof (ginv_strong_step _ _ _ _ Hg E) as Hg'.
  destruct (gstep_poll _ _ _ _ Hg E) as (s & gh0 & s' & r & gh' & Ek0 & Eg0 & [Hs Hy] & Hcase & -> & Eg' & Hgh).
  rewrite Ek in Ek0. injection Ek0 as <-. rewrite Eg in Eg0. injection Eg0 as <-.
  destruct (poll_case_plain _ _ _ _ Hcase Hb) as (Hb' & Hw & Hr).
  assert (Hk : k < length (subs (g_o g))) by (eapply nth_error_some_lt; eassumption).
  assert (Hkg : k < length (g_gh g)) by (eapply nth_error_some_lt; eassumption).
  assert (Esub' : nth_error (subs (g_o g')) k = Some (Some s')).
  { rewrite Eg'. cbn [g_o subs with_subs]. apply nth_error_set_nth_eq; exact Hk. }
  assert (Egh' : nth_error (g_gh g') k = Some gh').
  { rewrite Eg'. cbn [g_gh]. apply nth_error_set_nth_eq. exact Hkg. }
  exists g', r. split; [reflexivity|]. split; [exact Hg'|]. split; [exists s'; auto|].
  pose proof (poll_meaning g k g' r gh' Hg E Egh') as P.
  destruct r as [[it|]|].
  - destruct Hr as ((d & ->) & Hmu). destruct Hgh as (r' & Hap & ->).
    exists d. eexists. split; [reflexivity|]. split; [exact Egh'|].
    split; [exact Hap|].
    unfold muk. rewrite Esub', Ek. rewrite Eg'. cbn [g_o]. rewrite mu_with_subs. exact Hmu.
  - subst gh'. destruct P as (_ & P). split; assumption.
  - subst gh'. destruct P as (_ & P & _). split; assumption.
Qed.

(* a fresh plain subscription *)
Lemma gstep_sub_plain g :
  gstep g (OSub false) = Panic \/
  gstep g (OSub false) =
    Ok ({| g_o := with_subs (g_o g)
                    (subs (g_o g) ++ [Some {| sb_next := length (log (g_o g)); sb_batched := false;
                                               sb_state := SRecv; sb_waiting := false |}]);
           g_gh := g_gh g ++ [{| gh_replica := values (g_o g); gh_delivered := [];
                                 gh_start := length (log (g_o g)); gh_lagged := false |}];
           g_app_ok := g_app_ok g |},
        VSub (length (subs (g_o g))) (values (g_o g))).
Proof.
  unfold gstep. destruct (_ || _); [left; reflexivity|right]. reflexivity.
Qed.

(* ginv_strong: ghosts are indexed like subscribers *)
Lemma ginv_strong_len g : ginv_strong g -> length (g_gh g) = length (subs (g_o g)).
Proof. intros (_ & H & _). exact H. Qed.

End VecSide.

(* ---------------- the observable side ---------------- *)
From EB Require Import Obs ObsSpec ObsFacts ObsSeqFacts FullStack.

Section ObsSide.
Variable veq heq : nat -> nat -> bool.
Variable vdefault : nat.
Notation ostep := (Obs.step veq heq vdefault).
Notation lpoll := (lpoll veq heq vdefault).

Ltac split_tests H :=
  repeat match type of H with
  | context [?a =? ?b] => destruct (Nat.eqb_spec a b)
  | context [?a <? ?b] => destruct (Nat.ltb_spec0 a b)
  | context [nth_error ?l ?k] =>
      let E := fresh "Esub" in destruct (nth_error l k) as [[?|]|] eqn:E
  | context [okind ?o] => let E := fresh "Ekind" in destruct (okind o) eqn:E
  | context [if ?b then _ else _] => let E := fresh "Etest" in destruct b eqn:E
  end.

Ltac inv_step H :=
  unfold Obs.step, notify, close in H; cbv beta iota zeta in H;
  split_tests H; try discriminate H;
  injection H as <- <- <-.

(* a call that does not address subscriber j: the subscriber stays; and if afterwards it has seen
   the current version (of a still open observable), it had before, and the value is the same -
   unless the call was an update_if whose closure stores and answers false *)
Lemma ostep_other (o : obs nat) x o' r w j ov :
  ObsSpec.oinv o -> op_sub x <> Some j -> ostep o x = Ok (o', r, w) ->
  nth_error (Obs.subs o) j = Some (Some ov) ->
  exists ov', nth_error (Obs.subs o') j = Some (Some ov') /\
    ((forall v, x <> WUpdateIf v false) -> ver o' <> 0 -> ov' = ver o' ->
       ver o <> 0 /\ ov = ver o /\ val o' = val o).
Proof.
  intros (H1 & H2 & _) Hx H Hj. pose proof (H2 _ _ Hj) as Hle. destruct H1 as [H1a H1b].
  assert (Hlt : j < length (Obs.subs o)) by (eapply nth_error_some_lt; eassumption).
  destruct x; cbn [op_sub] in Hx; inv_step H;
    cbn [Obs.subs upd Obs.with_subs with_handles ver val];
    try (rewrite nth_set_nth_neq by congruence);
    try (rewrite nth_error_app1 by exact Hlt);
    (exists ov; split; [exact Hj|]); intros Hns Hv He;
    try (exfalso; eapply Hns; reflexivity);
    try (repeat split; try assumption; try reflexivity; lia).
Qed.

Lemma lpoll_step j (o : obs nat) o' r :
  lpoll j o = Ok (o', r) -> exists w, ostep o (SPoll j) = Ok (o', OPollR r, w).
Proof.
  unfold FullStack.lpoll. destruct (ostep o (SPoll j)) as [[[o1 out] w]|]; [|discriminate].
  destruct out; try discriminate. intro H; injection H as <- <-. eauto.
Qed.

(* the three answers of the limit stream *)
Lemma lpoll_spec (o : obs nat) j ov :
  ObsSpec.oinv o -> nth_error (Obs.subs o) j = Some (Some ov) ->
  (ver o = 0 /\ lpoll j o = Ok (o, Ready None)) \/
  (ver o <> 0 /\ ov < ver o /\
     lpoll j o = Ok (Obs.with_subs o (Obs.set_nth j (Some (ver o)) (Obs.subs o)), Ready (Some (val o)))) \/
  (ver o <> 0 /\ ov = ver o /\
     lpoll j o = Ok (upd o (val o) (ver o) (wakers o ++ [j]), Pending)).
Proof.
  intros (_ & H2 & _) Hj. pose proof (H2 _ _ Hj) as Hle. unfold FullStack.lpoll, Obs.step. rewrite Hj.
  destruct (Nat.eqb_spec (ver o) 0) as [e|ne]; [left; auto|]. right.
  specialize (Hle ne). destruct (Nat.ltb_spec ov (ver o)); [left|right]; repeat split; auto; lia.
Qed.

Lemma ostep_subscribe (o : obs nat) :
  ostep o WSubscribe = Panic \/
  ostep o WSubscribe = Ok (Obs.with_subs o (Obs.subs o ++ [Some (ver o)]), OSubId (length (Obs.subs o)), []).
Proof. unfold Obs.step. destruct (owners o =? 0); [left|right]; reflexivity. Qed.

End ObsSide.
