(* Chain.v — stacking adapters (C12).  The output of stage a is the input of stage b: every diff a
   emits is handed to b's step function, in order. *)
From EB Require Import Diff AdapterCore PollLoop Head Tail Skip.

Section Compose.
Context {A B C Sa Sb : Type}.
Variable on_a : Sa -> diff A -> outcome (Sa * list (diff B)).
Variable on_b : Sb -> diff B -> outcome (Sb * list (diff C)).
Variable par_a : Sa -> nat -> Sa * option (list (diff B)).
Variable par_b : Sb -> nat -> Sb * option (list (diff C)).
Variable Ra : Sa -> list A -> list B -> Prop.
Variable Rb : Sb -> list B -> list C -> Prop.

(* feed a list of diffs through stage b *)
Fixpoint feed_b (sb : Sb) (ds : list (diff B)) : outcome (Sb * list (diff C)) :=
  match ds with
  | [] => Ok (sb, [])
  | d :: rest =>
      match on_b sb d with
      | Panic => Panic
      | Ok (sb', outs) =>
          match feed_b sb' rest with
          | Panic => Panic
          | Ok (sb'', outs') => Ok (sb'', outs ++ outs')
          end
      end
  end.

Definition on_ab (s : Sa * Sb) (d : diff A) : outcome ((Sa * Sb) * list (diff C)) :=
  match on_a (fst s) d with
  | Panic => Panic
  | Ok (sa', mid) =>
      match feed_b (snd s) mid with
      | Panic => Panic
      | Ok (sb', outs) => Ok ((sa', sb'), outs)
      end
  end.

(* a parameter change of the lower stage travels through the upper one; one of the upper stage
   only concerns itself *)
Definition par_lower (s : Sa * Sb) (n : nat) : (Sa * Sb) * option (list (diff C)) :=
  let '(sa', o) := par_a (fst s) n in
  match feed_b (snd s) (match o with Some ds => ds | None => [] end) with
  | Ok (sb', outs) => ((sa', sb'), Some outs)
  | Panic => ((sa', snd s), None)      (* excluded by the theorem *)
  end.
Definition par_upper (s : Sa * Sb) (n : nat) : (Sa * Sb) * option (list (diff C)) :=
  let '(sb', o) := par_b (snd s) n in ((fst s, sb'), o).

(* the chain's view is the upper view of the lower view *)
Definition Rab (s : Sa * Sb) (l : list A) (v : list C) : Prop :=
  exists mid, Ra (fst s) l mid /\ Rb (snd s) mid v.

Lemma feed_b_ok :
  step_ok on_b Rb ->
  forall ds sb mid v mid',
    Rb sb mid v -> apply_all_ok ds mid = Some mid' ->
    exists sb' outs v',
      feed_b sb ds = Ok (sb', outs) /\ apply_all_ok outs v = Some v' /\ Rb sb' mid' v'.
Proof.
  intros Hb ds; induction ds as [|d rest IH]; intros sb mid v mid' HR Hap; cbn [feed_b apply_all_ok] in *.
  - injection Hap as <-. exists sb, [], v. repeat split; assumption.
  - destruct (ok_in d mid) eqn:Hok; [|discriminate].
    destruct (apply d mid) as [mid1|] eqn:E; [|discriminate]. cbn [obind] in Hap.
    destruct (Hb sb mid v d HR Hok) as (sb1 & outs1 & mid1' & v1 & E1 & E2 & E3 & HR1).
    rewrite E in E2. injection E2 as <-. rewrite E1.
    destruct (IH sb1 mid1 v1 mid' HR1 Hap) as (sb2 & outs2 & v2 & F1 & F2 & HR2).
    rewrite F1. exists sb2, (outs1 ++ outs2), v2. repeat split; try assumption.
    rewrite apply_all_ok_app, E3. exact F2.
Qed.

(* C12: correct stages compose into a correct chain *)
Theorem compose_step_ok : step_ok on_a Ra -> step_ok on_b Rb -> step_ok on_ab Rab.
Proof.
  intros Ha Hb [sa sb] l v d (mid & HRa & HRb) Hok. cbn [fst snd] in *.
  destruct (Ha sa l mid d HRa Hok) as (sa' & outs & l' & mid' & E1 & E2 & E3 & HRa').
  destruct (feed_b_ok Hb outs sb mid v mid' HRb E3) as (sb' & outs' & v' & F1 & F2 & HRb').
  exists (sa', sb'), outs', l', v'. unfold on_ab. cbn [fst snd]. rewrite E1, F1.
  repeat split; try assumption. exists mid'. split; assumption.
Qed.

Theorem compose_param_lower_ok : param_ok par_a Ra -> step_ok on_b Rb -> param_ok par_lower Rab.
Proof.
  intros Ha Hb [sa sb] l v n (mid & HRa & HRb). cbn [fst snd] in *.
  destruct (Ha sa l mid n HRa) as (sa' & mid' & E1 & E2 & HRa').
  unfold par_lower. cbn [fst snd]. destruct (par_a sa n) as [sa1 o] eqn:E. cbn [fst snd] in *. subst sa1.
  destruct (feed_b_ok Hb _ sb mid v mid' HRb E2) as (sb' & outs' & v' & F1 & F2 & HRb').
  rewrite F1. exists (sa', sb'), v'. cbn [fst snd]. repeat split; try assumption.
  exists mid'. split; assumption.
Qed.

Theorem compose_param_upper_ok : param_ok par_b Rb -> param_ok par_upper Rab.
Proof.
  intros Hb [sa sb] l v n (mid & HRa & HRb). cbn [fst snd] in *.
  destruct (Hb sb mid v n HRb) as (sb' & v' & E1 & E2 & HRb').
  unfold par_upper. cbn [fst snd]. destruct (par_b sb n) as [sb1 o] eqn:E. cbn [fst snd] in *. subst sb1.
  exists (sa, sb'), v'. cbn [fst snd]. repeat split; try assumption.
  exists mid. split; assumption.
Qed.

End Compose.

(* ---------------- the hand-over "by the adapter itself" ----------------
   VectorObserver::into_parts of Head / Tail / Skip (head.rs:203-214, tail.rs:210-221,
   skip.rs:219-230): the initial values handed to the next stage *)
Section IntoParts.
Context {A : Type}.

Definition head_into_parts (st : head_st A) : list A := truncate (h_limit st) (h_buf st).
Definition tail_into_parts (st : tail_st A) : list A := tfe_impl (t_limit st) (t_buf st).
Definition skip_into_parts (st : skip_st A) : list A :=
  match s_count st with Some c => skeep_impl c (s_buf st) | None => [] end.

End IntoParts.

(* The hand-over of an adapter that is in use: the poll-loop state (PollLoop.ustate: adapter state
   + diffs of the current burst not handed out yet) goes on living as the stream of the next
   stage; [keep_ready] = the parked diffs are kept (the code before the repair F9) *)
Definition hand_over_u {B St : Type} (keep_ready : bool) (into_parts : St -> list B)
           (s : ustate (B:=B) (St:=St)) : ustate (B:=B) (St:=St) * list B :=
  ({| u_st := u_st s; u_ready := if keep_ready then u_ready s else [] |}, into_parts (u_st s)).
