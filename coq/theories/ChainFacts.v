(* ChainFacts.v — the hand-over by the adapter itself passes the current view (C12). *)
From EB Require Import Diff AdapterCore Head Tail Skip Chain ListTac HeadFacts TailFacts SkipFacts.

Section ChainFacts.
Context {A : Type}.

Lemma head_into_parts_view (st : head_st A) l v : head_R st l v -> head_into_parts st = v.
Proof. intros [Hb ->]. unfold head_into_parts, truncate. rewrite Hb. reflexivity. Qed.

Lemma tail_into_parts_view (st : tail_st A) l v : tail_R st l v -> tail_into_parts st = v.
Proof. intros [Hb ->]. unfold tail_into_parts. rewrite Hb. apply tfe_impl_eq. Qed.

Lemma skip_into_parts_view (st : skip_st A) l v : skip_R st l v -> skip_into_parts st = v.
Proof.
  intros [Hb ->]. unfold skip_into_parts, skip_view_of. rewrite Hb.
  destruct (s_count st); [apply skeep_impl_skipn|reflexivity].
Qed.

End ChainFacts.
