(* ChainPollBFacts.v — the theorems of ChainPollFacts.v transposed to the batched flavour
   (ChainPollB.v): a Pending answer of the top of a stack of batched adapters leaves the waker
   registered with every leaf; over a scripted queue of batches the generic batched loop is
   PollLoop.poll_b; a quiet chain stays Pending and unchanged; fuel / depth are irrelevant. *)
From EB Require Import PollLoop PollLoopFacts ChainPoll ChainPollFacts ChainPollB Head Skip HeadFacts.
From Coq Require Import Lia.

(* ---------------- the generic batched loop ---------------- *)
Section GenFactsB.
Context {I B St IS : Type}.
Variable on_diff : St -> I -> outcome (St * list (diff B)).
Variable on_param : St -> nat -> St * option (list (diff B)).
Variable hp : bool.
Variable me : nat.
Variable inner : IS -> outcome (IS * poll (option (list I)) * ltrace).

(* an invariant of the inner stream's state and a property of all trace entries *)
Variable P : IS -> Prop.
Variable T : nat * resp -> Prop.
Hypothesis T_me : forall r, T (me, r).
Hypothesis inner_inv :
  forall is is' r itr, P is -> inner is = Ok (is', r, itr) -> P is' /\ Forall T itr.

Lemma gpoll_inner_b_inv fuel : forall st is pend first tr st' is' r tr',
  P is -> Forall T tr ->
  gpoll_inner_b on_diff hp me inner fuel st is pend first tr = Ok (st', is', r, tr') ->
  P is' /\ Forall T tr'.
Proof.
  induction fuel as [|fuel IH]; intros st is pend first tr st' is' r tr' HP HT H;
    cbn [gpoll_inner_b] in H; [discriminate|].
  destruct (inner is) as [[[is1 r1] itr]|] eqn:Ei; [|discriminate].
  destruct (inner_inv _ _ _ _ HP Ei) as [HP1 HTi].
  assert (HT1 : Forall T ((if first then tr else tr ++ gparam_again hp me pend) ++ itr)).
  { apply Forall_app. split; [|assumption]. destruct first; [assumption|].
    apply Forall_app. split; [assumption|apply (gparam_again_T hp me T T_me)]. }
  destruct r1 as [[b|]|].
  - destruct (flat_map_diffs on_diff st b) as [[st1 outs]|]; [|discriminate].
    destruct outs as [|o outs'].
    + eapply IH; eassumption.
    + injection H as <- <- <- <-. split; assumption.
  - injection H as <- <- <- <-. split; assumption.
  - injection H as <- <- <- <-. split; assumption.
Qed.

Lemma gpoll_b_inv fuel st is qp pend st' is' qp' r tr :
  P is ->
  gpoll_b on_diff on_param hp me inner fuel st is qp pend = Ok (st', is', qp', r, tr) ->
  P is' /\ Forall T tr.
Proof.
  intros HP. unfold gpoll_b.
  destruct hp eqn:Hh.
  - destruct (gpoll_params on_param me st qp pend []) as [[[st1 qp1] o] tr1] eqn:Ep.
    assert (HT1 : Forall T tr1).
    { eapply (gpoll_params_inv on_param me T T_me); [|eassumption]. constructor. }
    destruct o as [[|d ds]|].
    + intro H. injection H as <- <- <- <- <-. split; assumption.
    + intro H. injection H as <- <- <- <- <-. split; assumption.
    + destruct (gpoll_inner_b on_diff true me inner fuel st1 is pend true tr1)
        as [[[[st2 is2] r2] tr2]|] eqn:Ei; [|discriminate].
      intro H. injection H as <- <- <- <- <-.
      rewrite <- Hh in Ei. eapply gpoll_inner_b_inv; eassumption.
  - destruct (gpoll_inner_b on_diff false me inner fuel st is pend true [])
      as [[[[st2 is2] r2] tr2]|] eqn:Ei; [|discriminate].
    intro H. injection H as <- <- <- <- <-.
    rewrite <- Hh in Ei. eapply gpoll_inner_b_inv; [eassumption|constructor|eassumption].
Qed.

(* a Pending answer: the last inner poll answered Pending, and the parameter stream's last
   answer came before it *)
Lemma gpoll_inner_b_pending fuel : forall st is pend first tr st' is' tr',
  P is ->
  (first = true -> hp = true -> last_leaf me tr = Some (empty_resp pend)) ->
  gpoll_inner_b on_diff hp me inner fuel st is pend first tr = Ok (st', is', Pending, tr') ->
  exists isx tr0 itr,
    P isx /\ inner isx = Ok (is', Pending, itr) /\ tr' = tr0 ++ itr /\
    (hp = true -> last_leaf me tr0 = Some (empty_resp pend)).
Proof.
  induction fuel as [|fuel IH]; intros st is pend first tr st' is' tr' HP Hreg H;
    cbn [gpoll_inner_b] in H; [discriminate|].
  destruct (inner is) as [[[is1 r1] itr]|] eqn:Ei; [|discriminate].
  destruct (inner_inv _ _ _ _ HP Ei) as [HP1 _].
  destruct r1 as [[b|]|].
  - destruct (flat_map_diffs on_diff st b) as [[st1 outs]|]; [|discriminate].
    destruct outs as [|o outs'].
    + eapply IH; [exact HP1| |exact H]. discriminate.
    + discriminate.
  - discriminate.
  - injection H as <- <- <-.
    exists is, (if first then tr else tr ++ gparam_again hp me pend), itr.
    repeat split; try assumption.
    intro Hh. destruct first; [apply Hreg; auto|].
    unfold gparam_again. rewrite Hh. apply last_leaf_app_me.
Qed.

Lemma gpoll_b_pending fuel st is qp pend st' is' qp' tr :
  (forall st n, snd (on_param st n) <> Some []) ->
  P is ->
  gpoll_b on_diff on_param hp me inner fuel st is qp pend = Ok (st', is', qp', Pending, tr) ->
  (hp = true -> qp' = []) /\
  exists isx tr0 itr,
    P isx /\ inner isx = Ok (is', Pending, itr) /\ tr = tr0 ++ itr /\
    (hp = true -> last_leaf me tr0 = Some (empty_resp pend)).
Proof.
  intros Hne HP. unfold gpoll_b.
  destruct hp eqn:Hh.
  - destruct (gpoll_params on_param me st qp pend []) as [[[st1 qp1] o] tr1] eqn:Ep.
    destruct (gpoll_params_spec on_param me _ _ _ _ _ _ _ _ Hne Ep) as [Hnone _].
    destruct o as [[|d ds]|]; try discriminate.
    destruct (Hnone eq_refl) as [-> Hl].
    destruct (gpoll_inner_b on_diff true me inner fuel st1 is pend true tr1)
      as [[[[st2 is2] r2] tr2]|] eqn:Ei; [|discriminate].
    intro H. injection H as <- <- <- -> <-.
    rewrite <- Hh in Ei.
    pose proof (gpoll_inner_b_pending _ _ _ _ _ _ _ _ _ HP (fun _ _ => Hl) Ei) as Hex.
    rewrite Hh in Hex. auto.
  - destruct (gpoll_inner_b on_diff false me inner fuel st is pend true [])
      as [[[[st2 is2] r2] tr2]|] eqn:Ei; [|discriminate].
    intro H. injection H as <- <- <- -> <-.
    rewrite <- Hh in Ei.
    assert (Hreg : true = true -> hp = true -> last_leaf me [] = Some (empty_resp pend))
      by (intros _ Hf; congruence).
    pose proof (gpoll_inner_b_pending _ _ _ _ _ _ _ _ _ HP Hreg Ei) as Hex.
    rewrite Hh in Hex. split; [discriminate|assumption].
Qed.

End GenFactsB.

(* ---------------- chains ---------------- *)

Lemma queue_inner_b_is_queue_inner {X : Type} (q : list (list X) * bool) :
  queue_inner_b q = queue_inner q.
Proof. reflexivity. Qed.

Lemma chain_poll_b_nil {A : Type} depth fuel (q : list (list (diff A)) * bool) :
  chain_poll_b depth fuel ([], q) =
  match queue_inner_b q with
  | Ok (q', r, tr) => Ok (([], q'), r, tr)
  | Panic => Panic
  end.
Proof. destruct depth; reflexivity. Qed.

Lemma chain_poll_b_cons {A : Type} depth fuel (g : stage_b (A:=A)) below q :
  chain_poll_b (S depth) fuel (g :: below, q) =
  match gpoll_b (sgb_on_diff g) (sgb_on_param g) (sgb_hp g) (S (length below))
                (chain_poll_b depth fuel) fuel (sgb_st g) (below, q) (sgb_qp g) (sgb_pend g) with
  | Panic => Panic
  | Ok (st', c', qp', r, tr) => Ok ((stage_b_with g st' qp' :: fst c', snd c'), r, tr)
  end.
Proof. reflexivity. Qed.

Lemma queue_inner_b_inv {X : Type} (q q' : list (list X) * bool) r tr :
  queue_inner_b q = Ok (q', r, tr) ->
  leaves_le 0 tr /\
  (r = Pending -> snd q' = false /\ fst q' = [] /\ tr = [(0, RPending)]).
Proof.
  unfold queue_inner_b. destruct q as [[|d rest] e]; cbn [fst snd].
  - intro H. injection H as <- <- <-. split; [repeat constructor|].
    destruct e; [discriminate|]. intros _. repeat split.
  - intro H. injection H as <- <- <-. split; [repeat constructor|discriminate].
Qed.

(* lengths are kept, leaf ids are bounded by the number of stages, handlers are kept *)
Lemma chain_poll_b_inv {A : Type} depth fuel : forall (c c' : chain_b (A:=A)) r tr,
  stages_ok_b (fst c) ->
  chain_poll_b depth fuel c = Ok (c', r, tr) ->
  length (fst c') = length (fst c) /\ stages_ok_b (fst c') /\ leaves_le (length (fst c)) tr.
Proof.
  induction depth as [|depth IH]; intros [[|g below] q] c' r tr Hok H; cbn [fst] in *.
  - rewrite chain_poll_b_nil in H.
    destruct (queue_inner_b q) as [[[q1 r1] tr1]|] eqn:E; [|discriminate].
    injection H as <- <- <-. apply queue_inner_b_inv in E. cbn. intuition constructor.
  - discriminate.
  - rewrite chain_poll_b_nil in H.
    destruct (queue_inner_b q) as [[[q1 r1] tr1]|] eqn:E; [|discriminate].
    injection H as <- <- <-. apply queue_inner_b_inv in E. cbn. intuition constructor.
  - rewrite chain_poll_b_cons in H.
    destruct (gpoll_b _ _ _ _ _ _ _ _ _ _) as [[[[[st1 c1] qp1] r1] tr1]|] eqn:E; [|discriminate].
    injection H as <- <- <-. cbn [fst snd length].
    inversion Hok as [|g0 l0 Hg Hbelow]; subst.
    apply (gpoll_b_inv _ _ _ _ _
             (fun is : chain_b (A:=A) => length (fst is) = length below /\ stages_ok_b (fst is))
             (fun e => fst e <= S (length below))) in E.
    + destruct E as [[Hl Hs] HT]. repeat split.
      * cbn [length]. congruence.
      * constructor; [exact Hg|exact Hs].
      * exact HT.
    + intros; cbn; lia.
    + intros is is' r0 itr [Hl Hs] Hi. destruct (IH _ _ _ _ Hs Hi) as (H1 & H2 & H3).
      repeat split; [congruence|assumption|].
      eapply Forall_impl; [|exact H3]. cbn. intros; lia.
    + cbn. split; [reflexivity|assumption].
Qed.

Lemma chain_b_nil_registered {A : Type} depth fuel (q : list (list (diff A)) * bool) c' tr :
  chain_poll_b depth fuel ([], q) = Ok (c', Pending, tr) -> all_registered_b c' tr.
Proof.
  intro H. rewrite chain_poll_b_nil in H.
  destruct (queue_inner_b q) as [[[q1 r1] tr1]|] eqn:E; [|discriminate].
  injection H as <- -> <-. apply queue_inner_b_inv in E. destruct E as [_ E].
  destruct (E eq_refl) as (H1 & H2 & ->). unfold all_registered_b. cbn [fst snd rev].
  repeat split; try assumption. all: destruct k; discriminate.
Qed.

(* T1. the chain theorem, batched *)
Theorem chain_b_pending_registers_everywhere :
  forall (A : Type) (depth fuel : nat) (c c' : chain_b (A:=A)) (tr : ltrace),
    stages_ok_b (fst c) ->
    chain_poll_b depth fuel c = Ok (c', Pending, tr) ->
    all_registered_b c' tr.
Proof.
  intros A depth fuel.
  induction depth as [|depth IH]; intros [[|g below] q] c' tr Hok H.
  - eapply chain_b_nil_registered; eassumption.
  - discriminate.
  - eapply chain_b_nil_registered; eassumption.
  - rewrite chain_poll_b_cons in H.
    destruct (gpoll_b _ _ _ _ _ _ _ _ _ _) as [[[[[st1 c1] qp1] r1] tr1]|] eqn:E; [|discriminate].
    injection H as <- -> <-. cbn [fst] in Hok.
    inversion Hok as [|g0 l0 Hg Hbelow]; subst.
    apply (gpoll_b_pending _ _ _ _ _
             (fun is : chain_b (A:=A) => length (fst is) = length below /\ stages_ok_b (fst is))
             (fun e => fst e <= S (length below))) in E.
    + destruct E as (Hqp & isx & tr0 & itr & [Hlx Hsx] & Hi & -> & Hme).
      assert (IHx : all_registered_b c1 itr).
      { eapply IH; [exact Hsx|exact Hi]. }
      destruct (chain_poll_b_inv _ _ _ _ _ _ Hsx Hi) as (Hl1 & _ & Hle).
      destruct IHx as (Ha & Hb & Hc & Hd).
      unfold all_registered_b. cbn [fst snd rev].
      split; [exact Ha|]. split; [exact Hb|]. split.
      { rewrite last_leaf_app, Hc. reflexivity. }
      intros k g' Hk.
      destruct (Nat.lt_ge_cases k (length (rev (fst c1)))) as [Hlt|Hge].
      * rewrite nth_error_app1 in Hk by assumption.
        pose proof (Hd _ _ Hk) as Hp.
        intro Hh. destruct (Hp Hh) as [Hq Hll]. split; [assumption|].
        rewrite last_leaf_app, Hll. reflexivity.
      * rewrite nth_error_app2 in Hk by assumption.
        rewrite rev_length in *.
        destruct (k - length (fst c1)) as [|m] eqn:Ek; cbn in Hk;
          [|destruct m; discriminate].
        injection Hk as <-. cbn. assert (k = length below) by lia. subst k.
        intro Hh. split; [auto|].
        rewrite last_leaf_app.
        rewrite (last_leaf_none_of_le (length below)); [auto| |lia].
        rewrite <- Hlx. exact Hle.
    + intros is is' r0 itr [Hl Hs] Hi. destruct (chain_poll_b_inv _ _ _ _ _ _ Hs Hi) as (H1 & H2 & H3).
      repeat split; [congruence|assumption|].
      eapply Forall_impl; [|exact H3]. cbn. intros; lia.
    + exact Hg.
    + cbn. split; [reflexivity|assumption].
Qed.

(* T2. over a scripted queue of batches the generic batched loop is the batched loop of
   PollLoop.v, with the inner stream as leaf 0 and the parameter stream as leaf 1
   (the renaming [conv_src] of gpoll_queue_is_poll_u) *)
Section QueueFactsB.
Context {I B St : Type}.
Variable on_diff : St -> I -> outcome (St * list (diff B)).
Variable on_param : St -> nat -> St * option (list (diff B)).
Variable hp : bool.

Lemma gpoll_inner_b_queue (iend pend : bool) qi : forall st first tr,
  gpoll_inner_b on_diff hp 1 queue_inner_b (S (length qi)) st (qi, iend) pend first (map conv_src tr) =
  match poll_inner_b on_diff hp st qi iend pend first tr with
  | Ok (st', qi', r, tr') => Ok (st', (qi', iend), r, map conv_src tr')
  | Panic => Panic
  end.
Proof.
  induction qi as [|b rest IH]; intros st first tr.
  - cbn [gpoll_inner_b poll_inner_b length]. unfold queue_inner_b. cbn [fst snd].
    rewrite pre_queue. rewrite map_app. destruct iend; reflexivity.
  - cbn [length]. set (f := S (length rest)). cbn [gpoll_inner_b poll_inner_b].
    unfold queue_inner_b at 1. cbn [fst snd].
    rewrite pre_queue.
    destruct (flat_map_diffs on_diff st b) as [[st1 outs]|]; [|reflexivity].
    change ([(0, RItem)]) with (map conv_src [(SrcInner, RItem)]).
    rewrite <- map_app.
    destruct outs as [|o outs']; [|reflexivity].
    subst f. apply IH.
Qed.

End QueueFactsB.

Theorem gpoll_b_queue_is_poll_b :
  forall (I B St : Type) (on_diff : St -> I -> outcome (St * list (diff B)))
         (on_param : St -> nat -> St * option (list (diff B))) (hp : bool)
         (st : St) (qi : list (list I)) (iend : bool) (qp : list nat) (pend : bool),
    gpoll_b on_diff on_param hp 1 queue_inner_b (S (length qi)) st (qi, iend) qp pend =
    match poll_b on_diff on_param hp st qi iend qp pend with
    | Ok (st', qi', qp', r, tr) => Ok (st', (qi', iend), qp', r, map conv_src tr)
    | Panic => Panic
    end.
Proof.
  intros. unfold gpoll_b, poll_b.
  destruct hp.
  - pose proof (gpoll_params_queue on_param qp st pend []) as Hp. cbn [map] in Hp.
    rewrite Hp. clear Hp.
    destruct (poll_params on_param st qp pend []) as [[[st1 qp1] o] tr1].
    destruct o as [[|d ds]|]; try reflexivity.
    rewrite gpoll_inner_b_queue.
    destruct (poll_inner_b on_diff true st1 qi iend pend true tr1) as [[[[st2 qi2] r2] tr2]|];
      reflexivity.
  - pose proof (gpoll_inner_b_queue on_diff false iend pend qi st true []) as Hi.
    cbn [map] in Hi. rewrite Hi.
    destruct (poll_inner_b on_diff false st qi iend pend true []) as [[[[st2 qi2] r2] tr2]|];
      reflexivity.
Qed.

(* T3. never ready again without a leaf having something new: a batched chain in which nothing
   is deliverable (source queue empty and not ended, every parameter queue of a stage that has one
   empty; there are no ready buffers) answers Pending and is left exactly as it was *)
Definition quiet_b {A : Type} (c : chain_b (A:=A)) : Prop :=
  snd (snd c) = false /\ fst (snd c) = [] /\
  Forall (fun g => sgb_hp g = true -> sgb_qp g = []) (fst c).

Theorem chain_b_quiet_stays_pending :
  forall (A : Type) (depth fuel : nat) (c : chain_b (A:=A)),
    quiet_b c -> length (fst c) <= depth -> 1 <= fuel ->
    exists tr, chain_poll_b depth fuel c = Ok (c, Pending, tr).
Proof.
  intros A depth fuel.
  induction depth as [|depth IH]; intros [[|g below] [qs e]] (He & Hq & Hall) Hlen Hf;
    cbn [fst snd length] in *.
  - subst. rewrite chain_poll_b_nil. unfold queue_inner_b. cbn [fst snd]. eexists; reflexivity.
  - lia.
  - subst. rewrite chain_poll_b_nil. unfold queue_inner_b. cbn [fst snd]. eexists; reflexivity.
  - subst. rewrite chain_poll_b_cons.
    inversion Hall as [|g0 l0 Hqp Hbelow]; subst.
    destruct (IH (below, ([], false))) as [itr Hi].
    { repeat split; assumption. }
    { cbn [fst]. lia. }
    { assumption. }
    destruct fuel as [|fuel']; [lia|].
    destruct g as [St od op hp st qp pend]. cbn [sgb_hp sgb_qp] in Hqp.
    cbn [sgb_st sgb_hp sgb_qp sgb_on_diff sgb_on_param sgb_pend].
    unfold gpoll_b. destruct hp.
    + rewrite (Hqp eq_refl). cbn [gpoll_params]. cbn [gpoll_inner_b]. rewrite Hi.
      eexists. reflexivity.
    + cbn [gpoll_inner_b]. rewrite Hi. eexists. reflexivity.
Qed.

(* T4. more fuel / depth never changes an answer *)
Section MonoFactsB.
Context {I B St IS : Type}.
Variable on_diff : St -> I -> outcome (St * list (diff B)).
Variable on_param : St -> nat -> St * option (list (diff B)).
Variable hp : bool.
Variable me : nat.
Variables inner inner' : IS -> outcome (IS * poll (option (list I)) * ltrace).
Hypothesis inner_mono : forall is res, inner is = Ok res -> inner' is = Ok res.

Lemma gpoll_inner_b_mono fuel : forall fuel' st is pend first tr res,
  fuel <= fuel' ->
  gpoll_inner_b on_diff hp me inner fuel st is pend first tr = Ok res ->
  gpoll_inner_b on_diff hp me inner' fuel' st is pend first tr = Ok res.
Proof.
  induction fuel as [|fuel IH]; intros fuel' st is pend first tr res Hf H; [discriminate|].
  destruct fuel' as [|fuel']; [lia|]. cbn [gpoll_inner_b] in *.
  destruct (inner is) as [[[is1 r1] itr]|] eqn:Ei; [|discriminate].
  rewrite (inner_mono _ _ Ei).
  destruct r1 as [[b|]|]; try assumption.
  destruct (flat_map_diffs on_diff st b) as [[st1 outs]|]; [|discriminate].
  destruct outs as [|o outs']; [|assumption].
  eapply IH; [lia|eassumption].
Qed.

Lemma gpoll_b_mono fuel fuel' st is qp pend res :
  fuel <= fuel' ->
  gpoll_b on_diff on_param hp me inner fuel st is qp pend = Ok res ->
  gpoll_b on_diff on_param hp me inner' fuel' st is qp pend = Ok res.
Proof.
  intros Hf. unfold gpoll_b.
  pose proof gpoll_inner_b_mono as Hm. destruct hp.
  - destruct (gpoll_params on_param me st qp pend []) as [[[st1 qp1] o] tr1].
    destruct o as [[|d ds]|]; auto.
    destruct (gpoll_inner_b on_diff true me inner fuel st1 is pend true tr1) as [r|] eqn:Ei;
      [|discriminate].
    rewrite (Hm _ _ _ _ _ _ _ _ Hf Ei). auto.
  - destruct (gpoll_inner_b on_diff false me inner fuel st is pend true []) as [r|] eqn:Ei;
      [|discriminate].
    rewrite (Hm _ _ _ _ _ _ _ _ Hf Ei). auto.
Qed.

End MonoFactsB.

Theorem chain_poll_b_fuel_mono :
  forall (A : Type) (depth depth' fuel fuel' : nat) (c : chain_b (A:=A)) res,
    depth <= depth' -> fuel <= fuel' ->
    chain_poll_b depth fuel c = Ok res -> chain_poll_b depth' fuel' c = Ok res.
Proof.
  intros A depth depth' fuel fuel' c res Hd Hf. revert depth' c res Hd.
  induction depth as [|depth IH]; intros depth' [[|g below] q] res Hd H.
  - rewrite chain_poll_b_nil in *. assumption.
  - discriminate.
  - rewrite chain_poll_b_nil in *. assumption.
  - destruct depth' as [|depth']; [lia|]. rewrite chain_poll_b_cons in *.
    destruct (gpoll_b _ _ _ _ (chain_poll_b depth fuel) _ _ _ _ _) as [r|] eqn:E; [|discriminate].
    rewrite (gpoll_b_mono _ _ _ _ _ (chain_poll_b depth' fuel') (fun is res => IH depth' is res ltac:(lia))
               _ _ _ _ _ _ _ Hf E).
    exact H.
Qed.

(* T5. non-vacuity: a concrete two-stage batched chain (Head 2 over Skip 1, both with parameter
   streams) over a source whose first item is a two-diff batch answers batches and finally Pending,
   with Ok results. *)
Definition ex_head_b : stage_b (A:=nat) :=
  {| sgb_St := head_st nat; sgb_on_diff := head_on_diff; sgb_on_param := head_update_limit;
     sgb_hp := true;
     sgb_st := {| h_buf := []; h_limit := 2 |};
     sgb_qp := [2]; sgb_pend := false |}.

Definition ex_skip_b : stage_b (A:=nat) :=
  {| sgb_St := skip_st nat; sgb_on_diff := skip_on_diff; sgb_on_param := skip_update_count;
     sgb_hp := true;
     sgb_st := {| s_buf := []; s_count := Some 0 |};
     sgb_qp := [1]; sgb_pend := true |}.

(* top first: Head over Skip over the source; the first source item is a two-diff batch *)
Definition ex_chain_b : chain_b (A:=nat) :=
  ([ex_head_b; ex_skip_b], ([[Append [10; 20; 30; 40]; PushBack 50]; [PopFront]], false)).

(* poll until the top answers Pending, collecting the batches *)
Fixpoint poll_until_pending_b {A : Type} (n depth fuel : nat) (c : chain_b (A:=A))
  (acc : list (list (diff A))) : outcome (chain_b (A:=A) * list (list (diff A)) * ltrace) :=
  match n with
  | 0 => Panic
  | S n' =>
      match chain_poll_b depth fuel c with
      | Ok (c', Ready (Some b), _) => poll_until_pending_b n' depth fuel c' (acc ++ [b])
      | Ok (c', Pending, tr) => Ok (c', acc, tr)
      | _ => Panic
      end
  end.

Example chain_b_example :
  stages_ok_b (fst ex_chain_b) /\
  exists c' tr,
    poll_until_pending_b 10 2 10 ex_chain_b [] =
      Ok (c', [[Append [20; 30]]; [PopFront; PushBack 40]], tr) /\
    tr = [(2, RPending); (1, REnd); (0, RPending)] /\
    all_registered_b c' tr.
Proof.
  split.
  - repeat constructor; cbn [ex_head_b ex_skip_b sgb_on_param sgb_St].
    + apply head_update_limit_nonempty.
    + apply skip_update_count_nonempty.
  - eexists. eexists. split; [vm_compute; reflexivity|]. split; [reflexivity|].
    unfold all_registered_b. cbn [fst snd rev app].
    split; [reflexivity|]. split; [reflexivity|]. split; [reflexivity|].
    intros k g Hk. destruct k as [|[|k]]; cbn [nth_error] in Hk.
    + injection Hk as <-. cbn. intros _. split; reflexivity.
    + injection Hk as <-. cbn. intros _. split; reflexivity.
    + destruct k; discriminate.
Qed.

Print Assumptions gpoll_b_queue_is_poll_b.
Print Assumptions chain_b_pending_registers_everywhere.
Print Assumptions chain_b_quiet_stays_pending.
Print Assumptions chain_poll_b_fuel_mono.
Print Assumptions chain_b_example.
