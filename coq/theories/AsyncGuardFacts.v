(* AsyncGuardFacts.v — theorems about the guarded async model (C16). *)
From EB Require Import AsyncGuard.
From EB Require Import AsyncGuardAux AsyncGuardInv AsyncGuardAbs AsyncGuardRun.
From Coq Require Import Lia.

Section AsyncGuardFacts.
Context {V : Type}.
Variable veq : V -> V -> bool.
Variable heq : V -> V -> bool.
Variable vdefault : V.

(* reachable states of the code as it is (fixed_next_ref = true), under ANY sequence of events:
   every executor order, spurious polls included *)
Definition areach (s : astate V) : Prop :=
  exists v n es, s = a_run veq heq vdefault true (a_init v n) es.

(* the inductive invariant (AsyncGuardInv.Inv) holds in every reachable state *)
Lemma areach_inv s : areach s -> Inv s.
Proof. intros (v & n & es & ->). apply a_run_inv. apply a_init_inv. Qed.

(* A. refinement: every completed call is a call of the default flavour's specification, linearised at
   the moment its future completes; events that complete nothing leave the abstract state alone *)
Theorem aguard_refines_spec :
  forall s e s' done w, areach s -> a_step veq heq vdefault true s e = (s', done, w) ->
    match done with
    | Some (c, r) =>
        match sync_op c with
        | Some x => sstep veq heq vdefault (abs s) x = Some (abs s', conv c r)
        | None => abs s' = abs s
        end
    | None => abs s' = abs s
    end.
Proof.
  intros s e s' done w Hr H. apply areach_inv in Hr.
  destruct (a_step_ok veq heq vdefault s e s' done w Hr H) as [_ HR]. exact HR.
Qed.

(* B. the executor misses nobody: a future that is runnable after an event was runnable before or is
   in the event's woken list *)
Theorem aguard_woken_complete :
  forall s e s' done w, areach s -> a_step veq heq vdefault true s e = (s', done, w) ->
    forall id f', nth_error (a_futs s') id = Some f' -> runnable_phase (f_phase f') = true ->
      In id w \/ (exists f, nth_error (a_futs s) id = Some f /\ runnable_phase (f_phase f) = true).
Proof.
  intros s e s' done w _ H id f' Hf Hrun.
  apply a_step_chg in H. apply (H id). exists f'. auto.
Qed.

(* C. no lost wake-up: when the executor has nothing left to poll and the caller holds no guard, the
   lock is free, nobody is queued for it, and every unfinished future is a subscriber call whose
   waker is registered and whose subscriber has seen the current version *)
Theorem aguard_quiescent_no_lost_wakeup :
  forall s, areach s -> quiescent s = true ->
    s_queue (a_sem s) = [] /\ s_free (a_sem s) = maxp /\
    forall id f, nth_error (a_futs s) id = Some f ->
      f_phase f = PhDone \/
      (f_phase f = PhNotify /\ In id (wakers (a_obs s)) /\
       exists k, call_sub (f_call f) = Some k /\
                 nth_error (subs (a_obs s)) k = Some (Some (ver (a_obs s)))).
Proof.
  intros s Hr Hq. apply areach_inv in Hr. destruct Hr as [HI HF].
  unfold quiescent in Hq. apply andb_true_iff in Hq. destruct Hq as [Hq1 Hq2].
  rewrite forallb_forall in Hq1, Hq2.
  assert (S1 : sumf held_fut (a_futs s) = 0).
  { apply sumf_zero. intros f Hin. specialize (Hq1 f Hin). unfold held_fut.
    destruct (f_phase f); auto; discriminate. }
  assert (S2 : sumf held_guard (a_guards s) = 0).
  { apply sumf_zero. intros g Hin. specialize (Hq2 g Hin). destruct g; auto; discriminate. }
  pose proof (pi_cons _ _ _ _ _ HI) as Hc. rewrite S1, S2 in Hc.
  assert (Q0 : s_queue (a_sem s) = []).
  { destruct (s_queue (a_sem s)) as [|w Q] eqn:EQ; auto. exfalso.
    assert (s_free (a_sem s) = 0) by (apply HF; congruence).
    destruct (pi_q _ _ _ _ _ HI w (or_introl eq_refl)) as (f & Hf & _ & Hn).
    pose proof (tneed_bounds f). cbn [hq] in Hc. unfold fneed in Hc. rewrite Hf in Hc. lia. }
  rewrite Q0 in *. cbn [hq] in Hc.
  split; auto. split. lia.
  intros id f Hf. destruct (pi_fut _ _ _ _ _ HI _ _ Hf) as (_ & _ & Hph).
  specialize (Hq1 f (nth_error_In _ _ Hf)).
  destruct (f_phase f); cbn in *; try discriminate; tauto.
Qed.

End AsyncGuardFacts.

(* D. why next_ref_now has to re-read the version under its second lock: without it
   (fixed_next_ref = false) the refinement fails on a concrete history *)
Theorem aguard_unfixed_refuted :
  exists (es : list (aev (V:=nat))) e s s' c r w x,
    s = a_run Nat.eqb Nat.eqb 0 false (a_init 0 1) es /\
    a_step Nat.eqb Nat.eqb 0 false s e = (s', Some (c, r), w) /\
    sync_op c = Some x /\
    sstep Nat.eqb Nat.eqb 0 (abs s) x <> Some (abs s', conv c r).
Proof.
  exists [EStart AWrite; EStart (ANext 0); EStart (ASet 3); EGuardSet 0 40; EDropGuard 0; EPoll 1; EPoll 2].
  exists (EPoll 1).
  eexists. eexists. eexists. eexists. eexists. eexists.
  split; [reflexivity|]. split; [vm_compute; reflexivity|]. split; [reflexivity|].
  vm_compute. intro H. discriminate H.
Qed.

Print Assumptions aguard_refines_spec.
Print Assumptions aguard_woken_complete.
Print Assumptions aguard_quiescent_no_lost_wakeup.
Print Assumptions aguard_unfixed_refuted.
