(* Sort.v — eyeball-im-util/src/vector/sort.rs (SortImpl), transcribed arm by arm.
   [cmp] is the user's comparison; imbl's Vector::sort_by is an oracle: every arm that sorts
   takes the oracle's answer as an extra argument ([ans]); the theorems quantify over every
   answer satisfying the sort contract. *)
From EB Require Export Diff.

Section Sort.
Context {A : Type}.
Variable cmp : A -> A -> comparison.

Definition entry := (nat * A)%type.   (* (unsorted index, value) *)

(* imbl-5.0.0 vector/mod.rs:583-606 binary_search_by; Ok(i) and Err(i) are used alike by
   sort.rs, so only the index is returned.  Fuel = length (the loop halves [size]). *)
Fixpoint bs_loop (fuel size base : nat) (probe : nat -> comparison) : nat :=
  match fuel with
  | 0 => base
  | S fuel' =>
      if size <=? 1 then base else
      let half := size / 2 in
      let mid := base + half in
      let base' := match probe mid with Gt => base | _ => mid end in
      bs_loop fuel' (size - half) base' probe
  end.

Definition binary_search_by (probe : entry -> comparison) (v : list entry) : nat :=
  match v with
  | [] => 0
  | _ =>
      (* self[mid]: in range by construction (lemma bs_probe_in_range); the default is never used *)
      let probe_at i := match nth_error v i with Some e => probe e | None => Eq end in
      let base := bs_loop (length v) (length v) 0 probe_at in
      match probe_at base with
      | Eq => base
      | Gt => base
      | Lt => base + 1
      end
  end.

Definition search (x : A) (buf : list entry) : nat :=
  binary_search_by (fun e => cmp (snd e) x) buf.

Definition enumerate_from (offset : nat) (vs : list A) : list entry :=
  combine (seq offset (length vs)) vs.

(* position of the entry with unsorted index u (Iterator::position) *)
Fixpoint position (u : nat) (buf : list entry) : option nat :=
  match buf with
  | [] => None
  | (i, _) :: rest => if i =? u then Some 0 else option_map S (position u rest)
  end.

(* the three-way "where" match used by PushFront/PushBack/Insert arms (sort.rs:448-464 etc.) *)
Definition place (u : nat) (x : A) (buf : list entry) : list entry * list (diff A) :=
  let index := search x buf in
  if index =? 0 then ((u, x) :: buf, [PushFront x])
  else if negb (index =? length buf) then
    (firstn index buf ++ (u, x) :: skipn index buf, [Insert index x])
  else (buf ++ [(u, x)], [PushBack x]).

(* remove at a position: PopFront / PopBack / Remove (sort.rs:542-558) *)
Definition unplace (position last_index : nat) (buf : list entry) : list entry * list (diff A) :=
  if position =? 0 then (tl buf, [PopFront])
  else if position =? last_index then (removelast buf, [PopBack])
  else (firstn position buf ++ skipn (S position) buf, [Remove position]).

(* Append's slow loop, sort.rs:367-422; structural recursion on the (sorted) new values *)
Fixpoint append_loop (news : list entry) (buf : list entry) (acc : list (diff A))
  : outcome (list entry * list entry * list (diff A)) :=
  match news with
  | [] => Ok ([], buf, acc)
  | (u, x) :: rest =>
      match back buf with
      | None => Panic                                (* expect("buffered_vector cannot be empty") *)
      | Some (_, lastv) =>
          match cmp x lastv with
          | Eq | Gt => Ok (news, buf, acc)             (* is_ge: break *)
          | Lt =>
              let index := search x buf in
              if negb (index =? length buf) then
                let buf' := firstn index buf ++ (u, x) :: skipn index buf in
                let dd := if index =? 0 then PushFront x else Insert index x in
                append_loop rest buf' (acc ++ [dd])
              else Ok (news, buf, acc)                 (* break *)
          end
      end
  end.

Definition sort_init (ans : list entry) : list A * list entry := (map snd ans, ans).

(* sort.rs:319-710 handle_diff_and_update_buffered_vector *)
Definition sort_on_diff (buf : list entry) (d : diff A) (ans : list entry)
  : outcome (list entry * list (diff A)) :=
  match d with
  | Append _ =>
      (* ans = sort_by (enumerate_from (length buf) vs) *)
      match buf with
      | [] => Ok (ans, [Append (map snd ans)])
      | _ =>
          match append_loop ans buf [] with
          | Panic => Panic
          | Ok (rest, buf', acc) =>
              match rest with
              | [] => Ok (buf', acc)
              | _ => Ok (buf' ++ rest, acc ++ [Append (map snd rest)])
              end
          end
      end
  | Clear => Ok ([], [Clear])
  | PushFront x =>
      let buf1 := map (fun e => (S (fst e), snd e)) buf in
      Ok (place 0 x buf1)
  | PushBack x => Ok (place (length buf) x buf)
  | Insert i x =>
      let buf1 := map (fun e => (if i <=? fst e then S (fst e) else fst e, snd e)) buf in
      Ok (place i x buf1)
  | PopFront =>
      match csub (length buf) 1 with
      | None => Panic
      | Some last_index =>
          match position 0 buf with
          | None => Panic                             (* expect(..) — also: other entries underflow *)
          | Some p =>
              (* entries other than the first one with unsorted index 0 are decremented *)
              let dec := fix dec (found : bool) (l : list entry) : option (list entry) :=
                match l with
                | [] => Some []
                | (u, x) :: l' =>
                    if negb found && (u =? 0) then option_map (cons (u, x)) (dec true l')
                    else match csub u 1 with
                         | Some u' => option_map (cons (u', x)) (dec found l')
                         | None => None
                         end
                end in
              match dec false buf with
              | None => Panic
              | Some buf1 => Ok (unplace p last_index buf1)
              end
          end
      end
  | PopBack =>
      match csub (length buf) 1 with
      | None => Panic
      | Some last_index =>
          match position last_index buf with
          | None => Panic
          | Some p => Ok (unplace p last_index buf)
          end
      end
  | Remove i =>
      match csub (length buf) 1 with
      | None => Panic
      | Some last_index =>
          match position i buf with
          | None => Panic
          | Some p =>
              let buf1 := map (fun e => (if i <? fst e then fst e - 1 else fst e, snd e)) buf in
              Ok (unplace p last_index buf1)
          end
      end
  | SetAt i x =>
      match position i buf with
      | None => Panic
      | Some old_index =>
          let new_index := search x buf in
          match old_index ?= new_index with
          | Lt =>
              let new_index := new_index - 1 in
              if old_index =? new_index then
                Ok (firstn old_index buf ++ (i, x) :: skipn (S old_index) buf, [SetAt old_index x])
              else
                let b1 := firstn old_index buf ++ skipn (S old_index) buf in
                Ok (firstn new_index b1 ++ (i, x) :: skipn new_index b1,
                    [Remove old_index; Insert new_index x])
          | Eq => Ok (firstn new_index buf ++ (i, x) :: skipn (S new_index) buf, [SetAt new_index x])
          | Gt =>
              let b1 := firstn old_index buf ++ skipn (S old_index) buf in
              Ok (firstn new_index b1 ++ (i, x) :: skipn new_index b1,
                  [Remove old_index; Insert new_index x])
          end
      end
  | Truncate n =>
      Ok (filter (fun e => fst e <? n) buf, [Truncate n])
  | Reset _ =>
      (* ans = sort_by (enumerate_from 0 vs) *)
      Ok (ans, [Reset (map snd ans)])
  end.

(* Known-finding class F6 (pinned by the existing sort*::truncate tests): Truncate{n} is forwarded
   to the sorted view although the retained items are those with *source* index < n; the result
   is wrong exactly when the first n sorted items are not the items with source index < n. *)
Definition sort_truncate_misaligned (buf : list entry) (d : diff A) : bool :=
  match d with
  | Truncate n => negb (forallb (fun e => fst e <? n) (firstn n buf))
  | _ => false
  end.

(* which diffs consult the oracle, and on which input *)
Definition sort_oracle_input (buf : list entry) (d : diff A) : option (list entry) :=
  match d with
  | Append vs => Some (enumerate_from (length buf) vs)
  | Reset vs => Some (enumerate_from 0 vs)
  | _ => None
  end.

End Sort.
