(* ObsConcProg.v — C04 for threads that run PROGRAMS (the property quantifies over "2-4 threads each
   running a short program").  ObsConc.v gives every thread one operation; here a thread whose
   operation has returned is reloaded with the next operation of its program when the director
   releases it again (that release is the invocation).  Everything else is ObsConc.release: one
   micro-step of the released thread plus the cascade of blocked threads it unblocks.
   The log records, in the order in which they happen, every invocation, linearization point and
   response; linearizability (Herlihy & Wing) is then: the operations in the order of their
   linearization points form a run of the sequential model with the same results, and every
   linearization point lies between the invocation and the response of its own operation. *)
From EB Require Import Obs ObsConc ObsConcAux ObsConcFacts ObsConcLin.

Section Prog.
Context {V : Type}.
Variables (veq heq : V -> V -> bool) (vdefault : V).

Inductive evkind := EInv | ELin | EResp.

(* an event of operation number pe_idx of thread pe_thread; for EResp, pe_pc is the final program
   counter, which holds what the operation returned *)
Record pev := { pe_thread : nat; pe_idx : nat; pe_kind : evkind; pe_op : cop V; pe_pc : pc V }.

Record pstate := {
  p_s : cstate V;
  p_rest : list (list (cop V));      (* per thread: operations not yet invoked *)
  p_idx : list nat;                  (* per thread: number of the operation it is running *)
  p_log : list pev;
}.

Definition is_done_pc (p : pc V) : bool := match p with PDone _ _ _ => true | _ => false end.

(* the events of one micro-step of thread t from s to s' *)
Definition step_pevs (idx : list nat) (s s' : cstate V) (t : nat) : list pev :=
  match nth_error (c_threads s) t, nth_error (c_threads s') t with
  | Some th, Some th' =>
      let i := nth t idx 0 in
      (if is_lin (t_op th) (t_pc th)
       then [{| pe_thread := t; pe_idx := i; pe_kind := ELin; pe_op := t_op th; pe_pc := t_pc th |}] else [])
      ++
      (if negb (is_done_pc (t_pc th)) && is_done_pc (t_pc th')
       then [{| pe_thread := t; pe_idx := i; pe_kind := EResp; pe_op := t_op th; pe_pc := t_pc th' |}] else [])
  | _, _ => []
  end.

(* mirrors ObsConc.wake_blocked *)
Fixpoint wake_blocked_pev (idx : list nat) (fuel : nat) (s : cstate V) (ids : list nat) : list pev :=
  match fuel with
  | 0 => []
  | S f =>
      match ids with
      | [] => []
      | t :: rest =>
          match nth_error (c_threads s) t with
          | Some th =>
              if t_waiting th then
                match cstep true s t with
                | Advanced s' => step_pevs idx s s' t ++ wake_blocked_pev idx f (mark_waiting s' t false) rest
                | _ => wake_blocked_pev idx f s rest
                end
              else wake_blocked_pev idx f s rest
          | None => wake_blocked_pev idx f s rest
          end
      end
  end.

Definition release_pev (idx : list nat) (s : cstate V) (t : nat) : list pev :=
  match cstep true s t with
  | Advanced s' =>
      step_pevs idx s s' t ++ wake_blocked_pev idx (length (c_threads s)) s' (seq 0 (length (c_threads s)))
  | _ => []
  end.

(* the director releases thread t *)
Definition prelease (p : pstate) (t : nat) : pstate :=
  let s := p_s p in
  match nth_error (c_threads s) t, nth_error (p_rest p) t with
  | Some th, Some (next :: more) =>
      if is_done_pc (t_pc th) then
        (* the previous operation has returned: invoke the next one *)
        let i := S (nth t (p_idx p) 0) in
        {| p_s := upd_thread s t {| t_op := next; t_pc := PStart; t_waiting := false |};
           p_rest := ObsConc.set_nth t more (p_rest p);
           p_idx := ObsConc.set_nth t i (p_idx p);
           p_log := p_log p ++ [{| pe_thread := t; pe_idx := i; pe_kind := EInv; pe_op := next; pe_pc := PStart |}] |}
      else
        {| p_s := fst (fst (release true s t)); p_rest := p_rest p; p_idx := p_idx p;
           p_log := p_log p ++ release_pev (p_idx p) s t |}
  | _, _ =>
      {| p_s := fst (fst (release true s t)); p_rest := p_rest p; p_idx := p_idx p;
         p_log := p_log p ++ release_pev (p_idx p) s t |}
  end.

Definition prun (p : pstate) (sched : list nat) : pstate := fold_left prelease sched p.

(* every thread has a first operation (invoked at the start) and the rest of its program *)
Definition pinit (v : V) (ver clones : nat) (subs pending : list nat) (progs : list (cop V * list (cop V)))
  : pstate :=
  {| p_s := cinit v ver clones subs pending (map fst progs);
     p_rest := map snd progs;
     p_idx := map (fun _ => 0) progs;
     p_log := map (fun tp => {| pe_thread := fst tp; pe_idx := 0; pe_kind := EInv; pe_op := fst (snd tp);
                                pe_pc := PStart |})
                  (combine (seq 0 (length progs)) progs) |}.

Definition all_ops (progs : list (cop V * list (cop V))) : list (cop V) :=
  concat (map (fun p => fst p :: snd p) progs).

Definition is_kind (k : evkind) (e : pev) : bool :=
  match k, pe_kind e with EInv, EInv | ELin, ELin | EResp, EResp => true | _, _ => false end.

Definition lins (log : list pev) : list pev := filter (is_kind ELin) log.

Definition same_op (e e' : pev) : Prop := pe_thread e = pe_thread e' /\ pe_idx e = pe_idx e'.

(* what the response event reports, against the sequential result *)
Definition reports_ev (e : pev) (out : Obs.out V) : Prop :=
  reports {| t_op := pe_op e; t_pc := pe_pc e; t_waiting := false |} out.

(* ---------------- auxiliary: lists ---------------- *)

Lemma nth_set_nth_eq {X} t (x d : X) l : t < length l -> nth t (ObsConc.set_nth t x l) d = x.
Proof.
  revert t; induction l as [|y l IH]; intros [|t] Hlt; cbn [length ObsConc.set_nth nth] in *; try lia; auto.
  apply IH; lia.
Qed.

Lemma nth_set_nth_neq {X} t u (x d : X) l : u <> t -> nth u (ObsConc.set_nth t x l) d = nth u l d.
Proof.
  revert t u; induction l as [|y l IH]; intros [|t] [|u] Hne; cbn [ObsConc.set_nth nth]; auto; try congruence.
Qed.

Lemma filter_none {X} (f : X -> bool) l : (forall x, In x l -> f x = false) -> filter f l = [].
Proof.
  induction l as [|y l IH]; intros Hf; cbn [filter]; [reflexivity|].
  rewrite (Hf y) by (left; reflexivity). apply IH. intros x Hx. apply Hf. right; exact Hx.
Qed.

Lemma in_app_if {X} (l : list X) (b : bool) x y :
  In y (l ++ if b then [x] else []) <-> In y l \/ (b = true /\ y = x).
Proof.
  rewrite in_app_iff. destruct b; cbn [In].
  - split; [intros [Hl|[He|[]]]; [left; exact Hl|right; split; [reflexivity|symmetry; exact He]]
           |intros [Hl|(_ & He)]; [left; exact Hl|right; left; symmetry; exact He]].
  - split; [intros [Hl|[]]; left; exact Hl|intros [Hl|(Hb & _)]; [left; exact Hl|discriminate Hb]].
Qed.

Lemma nth_error_snoc {X} (l : list X) x i e :
  nth_error (l ++ [x]) i = Some e ->
  (i < length l /\ nth_error l i = Some e) \/ (i = length l /\ e = x).
Proof.
  intros H. destruct (Nat.lt_ge_cases i (length l)) as [Hlt|Hge].
  - left. rewrite nth_error_app1 in H by exact Hlt. auto.
  - right. rewrite nth_error_app2 in H by exact Hge.
    destruct (i - length l) as [|n] eqn:En; cbn [nth_error] in H.
    + injection H as <-. split; [lia|reflexivity].
    + destruct n; discriminate H.
Qed.

(* ---------------- auxiliary: logs ---------------- *)

Lemma same_op_sym e e' : same_op e e' -> same_op e' e.
Proof. intros (Ht & Hi). split; congruence. Qed.

Lemma same_op_trans e1 e2 e3 : same_op e1 e2 -> same_op e2 e3 -> same_op e1 e3.
Proof. intros (Ht & Hi) (Ht' & Hi'). split; congruence. Qed.

(* "every P-event is preceded by a Q-related event": stable under appending *)
Definition ord (P : pev -> Prop) (Q : pev -> pev -> Prop) (log : list pev) : Prop :=
  forall j e, nth_error log j = Some e -> P e ->
    exists i e', i < j /\ nth_error log i = Some e' /\ Q e e'.

Lemma ord_snoc_if P Q log (b : bool) x :
  ord P Q log -> (b = true -> P x -> exists e', In e' log /\ Q x e') ->
  ord P Q (log ++ if b then [x] else []).
Proof.
  intros Ho Hx. destruct b; [|rewrite app_nil_r; exact Ho].
  intros j e Hj HP. destruct (nth_error_snoc _ _ _ _ Hj) as [(Hlt & Hj0)|(Hjl & ->)].
  - destruct (Ho j e Hj0 HP) as (i & e' & Hij & Hi & HQ).
    exists i, e'. split; [exact Hij|]. split; [|exact HQ].
    rewrite nth_error_app1 by lia. exact Hi.
  - destruct (Hx eq_refl HP) as (e' & Hin & HQ).
    destruct (In_nth_error _ _ Hin) as (i & Hi).
    assert (Hil : i < length log) by (apply nth_error_Some; congruence).
    exists i, e'. split; [lia|]. split; [|exact HQ].
    rewrite nth_error_app1 by exact Hil. exact Hi.
Qed.

Definition uniq (log : list pev) : Prop :=
  forall i j e e', nth_error log i = Some e -> nth_error log j = Some e' ->
    same_op e e' -> pe_kind e = pe_kind e' -> i = j.

Lemma uniq_snoc_if log (b : bool) x :
  uniq log ->
  (b = true -> forall e', In e' log -> same_op x e' -> pe_kind x = pe_kind e' -> False) ->
  uniq (log ++ if b then [x] else []).
Proof.
  intros Hu Hx. destruct b; [|rewrite app_nil_r; exact Hu].
  intros i j e e' Hi Hj Hs Hk.
  destruct (nth_error_snoc _ _ _ _ Hi) as [(Hil & Hi0)|(Hil & ->)];
    destruct (nth_error_snoc _ _ _ _ Hj) as [(Hjl & Hj0)|(Hjl & ->)].
  - eapply Hu; eauto.
  - exfalso. apply (Hx eq_refl e); [eapply nth_error_In; eauto|apply same_op_sym; exact Hs|congruence].
  - exfalso. apply (Hx eq_refl e'); [eapply nth_error_In; eauto|exact Hs|exact Hk].
  - lia.
Qed.

Definition has (log : list pev) (t i : nat) (k : evkind) : Prop :=
  exists e, In e log /\ pe_thread e = t /\ pe_idx e = i /\ pe_kind e = k.

Lemma has_snoc_if log (b : bool) x t i k :
  has (log ++ if b then [x] else []) t i k <->
  has log t i k \/ (b = true /\ pe_thread x = t /\ pe_idx x = i /\ pe_kind x = k).
Proof.
  unfold has. split.
  - intros (e & Hin & Ht & Hi & Hk). apply in_app_if in Hin. destruct Hin as [Hin|(Hb & ->)].
    + left. exists e. auto.
    + right. auto.
  - intros [(e & Hin & Ht & Hi & Hk)|(Hb & Ht & Hi & Hk)].
    + exists e. split; [apply in_app_if; left; exact Hin|auto].
    + exists x. split; [apply in_app_if; right; auto|auto].
Qed.

Lemma lins_snoc_if log (b : bool) x :
  lins (log ++ if b then [x] else []) = lins log ++ (if b && is_kind ELin x then [x] else []).
Proof.
  unfold lins. rewrite filter_app. destruct b; cbn [filter andb]; [|reflexivity].
  destruct (is_kind ELin x); reflexivity.
Qed.

Lemma lins_in log k e : nth_error (lins log) k = Some e -> In e log /\ pe_kind e = ELin.
Proof.
  intros H. apply nth_error_In in H. unfold lins in H. apply filter_In in H.
  destruct H as (Hin & Hk). split; [exact Hin|].
  unfold is_kind in Hk. destruct (pe_kind e); try discriminate Hk. reflexivity.
Qed.

(* ---------------- auxiliary: one micro-step ---------------- *)

Lemma cstep_not_done (s : cstate V) t s' th :
  nth_error (c_threads s) t = Some th -> cstep true s t = Advanced s' -> is_done_pc (t_pc th) = false.
Proof.
  intros Hth H. unfold cstep in H. rewrite Hth in H.
  destruct (t_pc th); try reflexivity. destruct (t_op th); cbn in H; discriminate H.
Qed.

Lemma done_past (op : cop V) (p : pc V) :
  match op with CDrop | CUpgrade => False | _ => True end ->
  is_done_pc p = true -> past_lin op p = true.
Proof. destruct op, p; cbn; intros Hv Hd; try contradiction; try discriminate Hd; reflexivity. Qed.

Lemma step_pevs_eq idx (s s' : cstate V) t th th' :
  nth_error (c_threads s) t = Some th -> nth_error (c_threads s') t = Some th' ->
  is_done_pc (t_pc th) = false ->
  step_pevs idx s s' t =
    (if is_lin (t_op th) (t_pc th)
     then [{| pe_thread := t; pe_idx := nth t idx 0; pe_kind := ELin; pe_op := t_op th; pe_pc := t_pc th |}]
     else [])
    ++ (if is_done_pc (t_pc th')
        then [{| pe_thread := t; pe_idx := nth t idx 0; pe_kind := EResp; pe_op := t_op th; pe_pc := t_pc th' |}]
        else []).
Proof. intros Hth Hth' Hnd. unfold step_pevs. rewrite Hth, Hth', Hnd. reflexivity. Qed.

Lemma mark_len (s : cstate V) t w : length (c_threads (mark_waiting s t w)) = length (c_threads s).
Proof.
  rewrite <- (map_length (@t_op V) (c_threads (mark_waiting s t w))), mark_ops. apply map_length.
Qed.

(* ---------------- the invariant carried along a schedule ---------------- *)
Section Trace.
Variable o0 : obs V.       (* the abstract state the sequential run starts from *)
Variable nsubs : nat.      (* the number of subscribers *)

Definition okop (op : cop V) : Prop :=
  match op with CDrop | CUpgrade => False | CPoll k => k < nsubs | _ => True end.

Lemma okop_value op : okop op -> match op with CDrop | CUpgrade => False | _ => True end.
Proof. destruct op; cbn; auto. Qed.

Definition P1 (e : pev) : Prop := pe_kind e = ELin.
Definition Q1 (e e' : pev) : Prop := same_op e e' /\ pe_kind e' = EInv /\ pe_op e' = pe_op e.
Definition P2 (e : pev) : Prop := pe_kind e = EResp.
Definition Q2 (e e' : pev) : Prop := same_op e e' /\ pe_kind e' = ELin /\ pe_op e' = pe_op e.
Definition P3 (e : pev) : Prop := pe_kind e = EInv /\ 0 < pe_idx e.
Definition Q3 (e e' : pev) : Prop :=
  pe_thread e' = pe_thread e /\ S (pe_idx e') = pe_idx e /\ pe_kind e' = EResp.

(* [idx]: the number of the operation each thread is running (its "current" operation) *)
Record PI (s : cstate V) (idx : list nat) (log : list pev) (outs : list (Obs.out V)) : Prop := {
  pi_len : length idx = length (c_threads s);
  pi_ok : Forall okop (map (@t_op V) (c_threads s));
  pi_cl : 1 <= c_clones s;
  pi_subs : length (c_subs s) = nsubs;
  pi_run : seq_run veq heq vdefault o0 (map (fun e => seq_op (pe_op e)) (lins log))
           = Some (abs_obs s, outs, c_woken s);
  (* events speak of existing threads, and of operations up to the current one *)
  pi_bound : forall e, In e log ->
               pe_thread e < length (c_threads s) /\ pe_idx e <= nth (pe_thread e) idx 0;
  pi_uniq : uniq log;
  (* the current operation of every thread has been invoked; its events carry its text *)
  pi_inv : forall t th, nth_error (c_threads s) t = Some th -> has log t (nth t idx 0) EInv;
  pi_op : forall e th, In e log -> nth_error (c_threads s) (pe_thread e) = Some th ->
            pe_idx e = nth (pe_thread e) idx 0 -> pe_op e = t_op th;
  pi_past : forall t th, nth_error (c_threads s) t = Some th ->
              (past_lin (t_op th) (t_pc th) = true <-> has log t (nth t idx 0) ELin);
  pi_done : forall t th, nth_error (c_threads s) t = Some th ->
              (is_done_pc (t_pc th) = true <-> has log t (nth t idx 0) EResp);
  pi_o1 : ord P1 Q1 log;
  pi_o2 : ord P2 Q2 log;
  pi_o3 : ord P3 Q3 log;
  (* results: of returned operations, and of the current operations past their linearization point *)
  pi_repA : forall k e out e', nth_error (lins log) k = Some e -> nth_error outs k = Some out ->
              In e' log -> pe_kind e' = EResp -> same_op e e' -> reports_ev e' out;
  pi_repB : forall k e out th, nth_error (lins log) k = Some e -> nth_error outs k = Some out ->
              nth_error (c_threads s) (pe_thread e) = Some th ->
              pe_idx e = nth (pe_thread e) idx 0 -> reports th out }.

Lemma PI_mark s t w idx log outs : PI s idx log outs -> PI (mark_waiting s t w) idx log outs.
Proof.
  intros [Hlen Hok Hcl Hsubs Hrun Hbound Huniq Hinv Hopf Hpast Hdone Ho1 Ho2 Ho3 HrA HrB].
  split; rewrite ?mark_ops, ?abs_obs_mark, ?mark_len; try assumption.
  - mark_rw s t w. exact Hcl.
  - mark_rw s t w. exact Hsubs.
  - mark_rw s t w. exact Hrun.
  - intros u thu Hu. destruct (mark_nth _ _ _ _ _ Hu) as (th & Hth & Ho & Hp). eauto.
  - intros e thu Hin Hu Hi. destruct (mark_nth _ _ _ _ _ Hu) as (th & Hth & Ho & Hp).
    rewrite Ho. eauto.
  - intros u thu Hu. destruct (mark_nth _ _ _ _ _ Hu) as (th & Hth & Ho & Hp).
    rewrite Ho, Hp. eauto.
  - intros u thu Hu. destruct (mark_nth _ _ _ _ _ Hu) as (th & Hth & Ho & Hp).
    rewrite Hp. eauto.
  - intros k e out thu Hk Hout Hu Hi. destruct (mark_nth _ _ _ _ _ Hu) as (th & Hth & Ho & Hp).
    eapply reports_ext; eauto.
Qed.

Lemma PI_step s idx t s' log outs :
  PI s idx log outs -> cstep true s t = Advanced s' ->
  exists outs', PI s' idx (log ++ step_pevs idx s s' t) outs'.
Proof.
  intros [Hlen Hok Hcl Hsubs Hrun Hbound Huniq Hinv Hopf Hpast Hdone Ho1 Ho2 Ho3 HrA HrB] H.
  destruct (cstep_nth _ _ _ H) as (th & th' & Hth & Hth').
  destruct (lin_once _ _ _ _ _ Hth H Hth') as (Hop & Hl1 & Hl0 & Hoth).
  assert (Hvo : value_ops (map (@t_op V) (c_threads s))).
  { unfold value_ops. eapply Forall_impl; [|exact Hok]. exact okop_value. }
  destruct (cstep_keeps _ _ _ Hvo H) as (Hcl' & Hlens).
  pose proof (cstep_ops _ _ _ _ H) as Hops.
  assert (Hokt : okop (t_op th)).
  { eapply Forall_nth_error; [exact Hok|]. rewrite nth_error_map, Hth. reflexivity. }
  assert (Hkt : forall k, t_op th = CPoll k -> k < length (c_subs s)).
  { intros k Hk. rewrite Hk in Hokt. cbn [okop] in Hokt. lia. }
  pose proof (lin_step veq heq vdefault _ _ _ _ Hvo Hth H Hkt Hcl) as Hlin.
  pose proof (cstep_not_done _ _ _ _ Hth H) as Hnd.
  assert (Hlt : length (c_threads s') = length (c_threads s)).
  { rewrite <- (map_length (@t_op V) (c_threads s')), Hops. apply map_length. }
  assert (Htlt : t < length (c_threads s)) by (apply nth_error_Some; congruence).
  assert (Hdp : is_done_pc (t_pc th') = true -> past_lin (t_op th') (t_pc th') = true).
  { apply done_past. rewrite Hop. apply okop_value, Hokt. }
  pose proof (seq_run_length _ _ _ _ _ _ _ _ Hrun) as Hlen_o. rewrite map_length in Hlen_o.
  rewrite (step_pevs_eq idx _ _ _ _ _ Hth Hth' Hnd), app_assoc.
  remember (is_lin (t_op th) (t_pc th)) as bL eqn:EbL.
  remember (is_done_pc (t_pc th')) as bR eqn:EbR.
  remember (nth t idx 0) as i eqn:Ei.
  pose proof (Hpast _ _ Hth) as HpastT. rewrite <- Ei in HpastT.
  pose proof (Hdone _ _ Hth) as HdoneT. rewrite <- Ei in HdoneT.
  pose proof (Hinv _ _ Hth) as HinvT. rewrite <- Ei in HinvT.
  set (eL := {| pe_thread := t; pe_idx := i; pe_kind := ELin; pe_op := t_op th; pe_pc := t_pc th |}).
  set (eR := {| pe_thread := t; pe_idx := i; pe_kind := EResp; pe_op := t_op th; pe_pc := t_pc th' |}).
  set (log1 := log ++ if bL then [eL] else []).
  set (log2 := log1 ++ if bR then [eR] else []).
  assert (HinL : forall e, In e log1 <-> In e log \/ (bL = true /\ e = eL)).
  { intros e. apply in_app_if. }
  assert (Hin2 : forall e, In e log2 <-> In e log1 \/ (bR = true /\ e = eR)).
  { intros e. apply in_app_if. }
  assert (Hcases : forall e, In e log2 -> In e log \/ (bL = true /\ e = eL) \/ (bR = true /\ e = eR)).
  { intros e Hin. apply Hin2 in Hin. destruct Hin as [Hin|Hin]; [|auto].
    apply HinL in Hin. destruct Hin as [Hin|Hin]; auto. }
  assert (HhasL : forall e, In e log -> pe_thread e = t -> pe_idx e = i -> pe_kind e = ELin ->
                            past_lin (t_op th) (t_pc th) = true).
  { intros e Hin Ht Hi Hk. apply HpastT. exists e. split; [exact Hin|]. repeat split; congruence. }
  assert (HhasR : forall e, In e log -> pe_thread e = t -> pe_idx e = i -> pe_kind e = EResp -> False).
  { intros e Hin Ht Hi Hk.
    assert (Hd : is_done_pc (t_pc th) = true) by (apply HdoneT; exists e; split; [exact Hin|]; repeat split; congruence).
    congruence. }
  assert (Hhas2 : forall u j k, has log2 u j k <->
            (has log u j k \/ (bL = true /\ t = u /\ i = j /\ ELin = k))
            \/ (bR = true /\ t = u /\ i = j /\ EResp = k)).
  { intros u j k. unfold log2, log1. rewrite !has_snoc_if. reflexivity. }
  assert (Hprev : forall u thu, nth_error (c_threads s') u = Some thu ->
            exists th0, nth_error (c_threads s) u = Some th0 /\ t_op thu = t_op th0 /\
                        (u <> t -> thu = th0) /\ (u = t -> thu = th' /\ th0 = th)).
  { intros u thu Hu. destruct (Nat.eq_dec u t) as [->|Hne].
    - rewrite Hth' in Hu. injection Hu as <-. exists th. repeat split; auto; congruence.
    - rewrite (Hoth _ Hne) in Hu. exists thu. repeat split; auto; congruence. }
  (* ---- the fields that do not depend on whether this is the linearization point ---- *)
  assert (F_bound : forall e, In e log2 ->
            pe_thread e < length (c_threads s') /\ pe_idx e <= nth (pe_thread e) idx 0).
  { intros e Hin. rewrite Hlt.
    destruct (Hcases e Hin) as [Hin0|[(_ & ->)|(_ & ->)]]; [auto| |];
      cbn [pe_thread pe_idx eL eR]; split; try exact Htlt; lia. }
  assert (F_uniq : uniq log2).
  { apply uniq_snoc_if; [apply uniq_snoc_if; [exact Huniq|]|].
    - intros Eb e' Hin (Ht & Hi) Hk. cbn [pe_thread pe_idx pe_kind eL] in Ht, Hi, Hk.
      destruct (Hl1 Eb) as (Hp0 & _).
      rewrite (HhasL e' Hin) in Hp0; [discriminate Hp0|congruence..].
    - intros Eb e' Hin (Ht & Hi) Hk. cbn [pe_thread pe_idx pe_kind eR] in Ht, Hi, Hk.
      apply HinL in Hin. destruct Hin as [Hin|(_ & ->)].
      + apply (HhasR e' Hin); congruence.
      + cbn [pe_kind eL] in Hk. discriminate Hk. }
  assert (F_inv : forall u thu, nth_error (c_threads s') u = Some thu -> has log2 u (nth u idx 0) EInv).
  { intros u thu Hu. destruct (Hprev _ _ Hu) as (th0 & Hu0 & _).
    apply Hhas2. left; left. eapply Hinv; eauto. }
  assert (F_op : forall e thu, In e log2 -> nth_error (c_threads s') (pe_thread e) = Some thu ->
            pe_idx e = nth (pe_thread e) idx 0 -> pe_op e = t_op thu).
  { intros e thu Hin Hu Hi.
    destruct (Hcases e Hin) as [Hin0|[(_ & ->)|(_ & ->)]].
    - destruct (Hprev _ _ Hu) as (th0 & Hu0 & Ho0 & _). rewrite Ho0. eauto.
    - cbn [pe_thread pe_op eL] in *. rewrite Hth' in Hu. injection Hu as <-. symmetry; exact Hop.
    - cbn [pe_thread pe_op eR] in *. rewrite Hth' in Hu. injection Hu as <-. symmetry; exact Hop. }
  assert (F_past : forall u thu, nth_error (c_threads s') u = Some thu ->
            (past_lin (t_op thu) (t_pc thu) = true <-> has log2 u (nth u idx 0) ELin)).
  { intros u thu Hu. rewrite Hhas2. destruct (Hprev _ _ Hu) as (th0 & Hu0 & Ho0 & Hne & Heq).
    destruct (Nat.eq_dec u t) as [Hut|Hut].
    - destruct (Heq Hut) as (-> & ->). subst u. rewrite <- Ei. split.
      + intros Hp. destruct bL.
        * left; right. auto.
        * left; left. apply HpastT. rewrite <- (Hl0 eq_refl). exact Hp.
      + intros [[Hh|(Eb & _)]|(_ & _ & _ & Hk)]; [| |discriminate Hk].
        * apply HpastT in Hh. destruct bL.
          -- destruct (Hl1 eq_refl) as (Hp0 & _). congruence.
          -- rewrite (Hl0 eq_refl). exact Hh.
        * exact (proj2 (Hl1 Eb)).
    - rewrite (Hne Hut). rewrite (Hpast _ _ Hu0). split; [intros Hh; left; left; exact Hh|].
      intros [[Hh|(_ & Et & _)]|(_ & Et & _)]; [exact Hh|congruence..]. }
  assert (F_done : forall u thu, nth_error (c_threads s') u = Some thu ->
            (is_done_pc (t_pc thu) = true <-> has log2 u (nth u idx 0) EResp)).
  { intros u thu Hu. rewrite Hhas2. destruct (Hprev _ _ Hu) as (th0 & Hu0 & Ho0 & Hne & Heq).
    destruct (Nat.eq_dec u t) as [Hut|Hut].
    - destruct (Heq Hut) as (-> & ->). subst u. rewrite <- Ei. split.
      + intros Hd. right. repeat split; congruence.
      + intros [[Hh|(_ & _ & _ & Hk)]|(Eb & _)]; [|discriminate Hk|congruence].
        apply HdoneT in Hh. congruence.
    - rewrite (Hne Hut). rewrite (Hdone _ _ Hu0). split; [intros Hh; left; left; exact Hh|].
      intros [[Hh|(_ & Et & _)]|(_ & Et & _)]; [exact Hh|congruence..]. }
  assert (F_o1 : ord P1 Q1 log2).
  { apply ord_snoc_if; [apply ord_snoc_if; [exact Ho1|]|].
    - intros _ _. destruct HinvT as (e' & Hin & Ht & Hi & Hk).
      exists e'. split; [exact Hin|]. unfold Q1, same_op. cbn [pe_thread pe_idx pe_op eL].
      repeat split; try congruence. apply Hopf; [exact Hin|rewrite Ht; exact Hth|congruence].
    - intros _ Hk. unfold P1 in Hk. cbn [pe_kind eR] in Hk. discriminate Hk. }
  assert (F_o2 : ord P2 Q2 log2).
  { apply ord_snoc_if; [apply ord_snoc_if; [exact Ho2|]|].
    - intros _ Hk. unfold P2 in Hk. cbn [pe_kind eL] in Hk. discriminate Hk.
    - intros Eb _. assert (Hp' : past_lin (t_op th') (t_pc th') = true) by (apply Hdp; congruence).
      destruct bL.
      + exists eL. split; [apply HinL; right; auto|].
        unfold Q2, same_op. cbn [pe_thread pe_idx pe_op pe_kind eL eR]. auto.
      + rewrite (Hl0 eq_refl) in Hp'. apply HpastT in Hp'.
        destruct Hp' as (e' & Hin & Ht & Hi & Hk).
        exists e'. split; [apply HinL; left; exact Hin|].
        unfold Q2, same_op. cbn [pe_thread pe_idx pe_op eR].
        repeat split; try congruence. apply Hopf; [exact Hin|rewrite Ht; exact Hth|congruence]. }
  assert (F_o3 : ord P3 Q3 log2).
  { apply ord_snoc_if; [apply ord_snoc_if; [exact Ho3|]|].
    - intros _ (Hk & _). cbn [pe_kind eL] in Hk. discriminate Hk.
    - intros _ (Hk & _). cbn [pe_kind eR] in Hk. discriminate Hk. }
  assert (Hlins : lins log2 = lins log ++ if bL then [eL] else []).
  { unfold log2, log1. rewrite !lins_snoc_if. cbn [is_kind pe_kind eL eR].
    rewrite andb_false_r, andb_true_r, app_nil_r. reflexivity. }
  assert (HlinT : forall k e, nth_error (lins log) k = Some e -> pe_thread e = t -> pe_idx e = i ->
                              past_lin (t_op th) (t_pc th) = true).
  { intros k e Hk Ht Hi. destruct (lins_in _ _ _ Hk) as (Hin & Hkind). eapply HhasL; eauto. }
  destruct bL.
  - (* the linearization point of the current operation of thread t *)
    destruct Hlin as (r & w & Hstep & Hwok & Hres).
    destruct (Hl1 eq_refl) as (Hp0 & Hp1).
    assert (HrepL : reports th' r).
    { rewrite Hth' in Hres. unfold reports. rewrite Hop.
      destruct (t_op th); try destruct Hres as (pr & -> & ->); auto; destruct (t_pc th'); auto. }
    exists (outs ++ [r]). split; try assumption.
    + rewrite Hlt; exact Hlen.
    + rewrite Hops; exact Hok.
    + lia.
    + rewrite Hlens; exact Hsubs.
    + rewrite Hlins, map_app. cbn [map pe_op eL]. rewrite Hwok.
      eapply seq_run_app; [exact Hrun|]. cbn [seq_run]. rewrite Hstep, app_nil_r. reflexivity.
    + intros k e out e' Hk Ho Hin' Hkind Hso. rewrite Hlins in Hk.
      destruct (nth_error_snoc _ _ _ _ Hk) as [(Hklt & Hk0)|(Hkeq & ->)].
      * rewrite nth_error_app1 in Ho by lia.
        destruct (Hcases e' Hin') as [Hin0|[(_ & ->)|(_ & ->)]].
        -- eapply HrA; eauto.
        -- cbn [pe_kind eL] in Hkind. discriminate Hkind.
        -- destruct Hso as (Ht & Hi). cbn [pe_thread pe_idx eR] in Ht, Hi.
           rewrite (HlinT _ _ Hk0 Ht Hi) in Hp0. discriminate Hp0.
      * rewrite nth_error_app2 in Ho by lia. rewrite Hkeq, Hlen_o, Nat.sub_diag in Ho.
        cbn [nth_error] in Ho. injection Ho as <-.
        destruct Hso as (Ht & Hi). cbn [pe_thread pe_idx eL] in Ht, Hi.
        destruct (Hcases e' Hin') as [Hin0|[(_ & ->)|(_ & ->)]].
        -- exfalso. apply (HhasR e' Hin0); congruence.
        -- cbn [pe_kind eL] in Hkind. discriminate Hkind.
        -- unfold reports_ev. cbn [pe_op pe_pc eR]. eapply reports_ext; [| |exact HrepL]; cbn [t_op t_pc]; congruence.
    + intros k e out thu Hk Ho Hu Hi. rewrite Hlins in Hk.
      destruct (nth_error_snoc _ _ _ _ Hk) as [(Hklt & Hk0)|(Hkeq & ->)].
      * rewrite nth_error_app1 in Ho by lia.
        destruct (Hprev _ _ Hu) as (th0 & Hu0 & Ho0 & Hne & Heq).
        destruct (Nat.eq_dec (pe_thread e) t) as [Het|Het].
        -- rewrite Het, <- Ei in Hi. rewrite (HlinT _ _ Hk0 Het Hi) in Hp0. discriminate Hp0.
        -- rewrite (Hne Het). eapply HrB; eauto.
      * rewrite nth_error_app2 in Ho by lia. rewrite Hkeq, Hlen_o, Nat.sub_diag in Ho.
        cbn [nth_error] in Ho. injection Ho as <-.
        cbn [pe_thread eL] in Hu. rewrite Hth' in Hu. injection Hu as <-. exact HrepL.
  - (* any other micro-step *)
    destruct Hlin as (Habs & Hwok). rewrite app_nil_r in Hlins.
    exists outs. split; try assumption.
    + rewrite Hlt; exact Hlen.
    + rewrite Hops; exact Hok.
    + lia.
    + rewrite Hlens; exact Hsubs.
    + rewrite Hlins, Habs, Hwok. exact Hrun.
    + intros k e out e' Hk Ho Hin' Hkind Hso. rewrite Hlins in Hk.
      destruct (Hcases e' Hin') as [Hin0|[(Eb & _)|(_ & ->)]]; [eapply HrA; eauto|discriminate Eb|].
      destruct Hso as (Ht & Hi). cbn [pe_thread pe_idx eR] in Ht, Hi.
      assert (Hthe : nth_error (c_threads s) (pe_thread e) = Some th) by (rewrite Ht; exact Hth).
      assert (Hie : pe_idx e = nth (pe_thread e) idx 0) by (rewrite Ht, <- Ei; exact Hi).
      pose proof (HrB _ _ _ _ Hk Ho Hthe Hie) as Hr.
      pose proof (reports_step s t s' th th' out Hth H Hth' (HlinT _ _ Hk Ht Hi) Hr) as Hr'.
      unfold reports_ev. cbn [pe_op pe_pc eR]. eapply reports_ext; [| |exact Hr']; cbn [t_op t_pc]; congruence.
    + intros k e out thu Hk Ho Hu Hi. rewrite Hlins in Hk.
      destruct (Hprev _ _ Hu) as (th0 & Hu0 & Ho0 & Hne & Heq).
      destruct (Nat.eq_dec (pe_thread e) t) as [Het|Het].
      * destruct (Heq Het) as (-> & ->).
        apply (reports_step s t s' th th' out Hth H Hth'); [|eapply HrB; eauto].
        rewrite Het, <- Ei in Hi. eapply HlinT; eauto.
      * rewrite (Hne Het). eapply HrB; eauto.
Qed.

Lemma PI_wake idx fuel : forall s ids acc log outs, PI s idx log outs ->
  exists outs', PI (fst (wake_blocked true fuel s ids acc)) idx
                   (log ++ wake_blocked_pev idx fuel s ids) outs'.
Proof.
  induction fuel as [|f IH]; intros s ids acc log outs HI; cbn [wake_blocked wake_blocked_pev].
  - cbn [fst]. rewrite app_nil_r. eauto.
  - destruct ids as [|t rest]; [cbn [fst]; rewrite app_nil_r; eauto|].
    destruct (nth_error (c_threads s) t) as [th|]; [|eauto].
    destruct (t_waiting th); [|eauto].
    destruct (cstep true s t) as [s'| |] eqn:E; eauto.
    destruct (PI_step _ _ _ _ _ _ HI E) as (outs1 & HI1).
    destruct (IH (mark_waiting s' t false) rest (acc ++ [t]) _ _ (PI_mark _ t false _ _ _ HI1))
      as (outs2 & HI2).
    exists outs2. rewrite app_assoc. exact HI2.
Qed.

Lemma PI_release s idx t log outs : PI s idx log outs ->
  exists outs', PI (fst (fst (release true s t))) idx (log ++ release_pev idx s t) outs'.
Proof.
  intros HI. unfold release, release_pev. destruct (cstep true s t) as [s'| |] eqn:E.
  - destruct (PI_step _ _ _ _ _ _ HI E) as (outs1 & HI1).
    destruct (PI_wake idx (length (c_threads s)) s' (seq 0 (length (c_threads s))) [] _ _ HI1)
      as (outs2 & HI2).
    destruct (wake_blocked true (length (c_threads s)) s' (seq 0 (length (c_threads s))) [])
      as [s'' unb].
    cbn [fst] in *. exists outs2. rewrite app_assoc. exact HI2.
  - cbn [fst]. rewrite app_nil_r. exists outs. apply PI_mark; auto.
  - cbn [fst]. rewrite app_nil_r. eauto.
Qed.

(* the director reloads a thread whose operation has returned with the next one of its program *)
Lemma PI_reload s idx t th next log outs :
  PI s idx log outs -> nth_error (c_threads s) t = Some th -> is_done_pc (t_pc th) = true ->
  okop next ->
  PI (upd_thread s t {| t_op := next; t_pc := PStart; t_waiting := false |})
     (ObsConc.set_nth t (S (nth t idx 0)) idx)
     (log ++ [{| pe_thread := t; pe_idx := S (nth t idx 0); pe_kind := EInv; pe_op := next;
                 pe_pc := PStart |}])
     outs.
Proof.
  intros [Hlen Hok Hcl Hsubs Hrun Hbound Huniq Hinv Hopf Hpast Hdone Ho1 Ho2 Ho3 HrA HrB] Hth Hd Hnext.
  assert (Htlt : t < length (c_threads s)) by (apply nth_error_Some; congruence).
  remember (nth t idx 0) as i eqn:Ei.
  set (th' := {| t_op := next; t_pc := PStart; t_waiting := false |}).
  set (eI := {| pe_thread := t; pe_idx := S i; pe_kind := EInv; pe_op := next; pe_pc := PStart |}).
  set (idx' := ObsConc.set_nth t (S i) idx).
  assert (Hidx_t : nth t idx' 0 = S i) by (apply nth_set_nth_eq; lia).
  assert (Hidx_u : forall u, u <> t -> nth u idx' 0 = nth u idx 0)
    by (intros u Hu; apply nth_set_nth_neq; exact Hu).
  assert (Hth_t : nth_error (ObsConc.set_nth t th' (c_threads s)) t = Some th')
    by (eapply nth_error_set_nth_eq; eauto).
  assert (Hth_u : forall u, u <> t ->
            nth_error (ObsConc.set_nth t th' (c_threads s)) u = nth_error (c_threads s) u)
    by (intros u Hu; apply nth_error_set_nth_neq; exact Hu).
  assert (Hin' : forall e, In e (log ++ [eI]) <-> In e log \/ e = eI).
  { intros e. rewrite in_app_iff. cbn [In]. split.
    - intros [Hl|[Hr|[]]]; [left; exact Hl|right; symmetry; exact Hr].
    - intros [Hl|Hr]; [left; exact Hl|right; left; symmetry; exact Hr]. }
  assert (Hold : forall e, In e log -> pe_thread e = t -> pe_idx e <= i).
  { intros e Hin Ht. destruct (Hbound e Hin) as (_ & Hle). rewrite Ht, <- Ei in Hle. exact Hle. }
  assert (Hhas' : forall u j k, has (log ++ [eI]) u j k <->
                                has log u j k \/ (t = u /\ S i = j /\ EInv = k)).
  { intros u j k. pose proof (has_snoc_if log true eI u j k) as Hh. cbn [pe_thread pe_idx pe_kind eI] in Hh.
    rewrite Hh. split.
    - intros [Hl|(_ & Hr)]; [left; exact Hl|right; exact Hr].
    - intros [Hl|Hr]; [left; exact Hl|right; split; [reflexivity|exact Hr]]. }
  assert (Hnone : forall k, ~ has log t (S i) k).
  { intros k (e & Hin & Ht & Hi & _). pose proof (Hold e Hin Ht). lia. }
  assert (Hlins : lins (log ++ [eI]) = lins log).
  { pose proof (lins_snoc_if log true eI) as Hl. cbn [andb is_kind pe_kind eI] in Hl.
    rewrite app_nil_r in Hl. exact Hl. }
  split; cbn [upd_thread c_threads c_clones c_subs c_woken]; try assumption.
  - unfold idx'. rewrite !set_nth_length. exact Hlen.
  - rewrite <- set_nth_map. apply Forall_set_nth; [exact Hok|exact Hnext].
  - rewrite Hlins. exact Hrun.
  - intros e Hin. rewrite set_nth_length. apply Hin' in Hin. destruct Hin as [Hin| ->].
    + destruct (Hbound e Hin) as (Hlt & Hle). split; [exact Hlt|].
      destruct (Nat.eq_dec (pe_thread e) t) as [Het|Het].
      * rewrite Het, Hidx_t. pose proof (Hold e Hin Het). lia.
      * rewrite (Hidx_u _ Het). exact Hle.
    + cbn [pe_thread pe_idx eI]. rewrite Hidx_t. split; [exact Htlt|lia].
  - apply (uniq_snoc_if log true eI); [exact Huniq|].
    intros _ e' Hin (Ht & Hi) _. cbn [pe_thread pe_idx eI] in Ht, Hi.
    pose proof (Hold e' Hin (eq_sym Ht)). lia.
  - intros u thu Hu. apply Hhas'. destruct (Nat.eq_dec u t) as [->|Hne].
    + right. rewrite Hidx_t. auto.
    + left. rewrite (Hidx_u _ Hne). rewrite (Hth_u _ Hne) in Hu. eauto.
  - intros e thu Hin Hu Hi. apply Hin' in Hin. destruct Hin as [Hin| ->].
    + destruct (Nat.eq_dec (pe_thread e) t) as [Het|Het].
      * rewrite Het, Hidx_t in Hi. pose proof (Hold e Hin Het). lia.
      * rewrite (Hidx_u _ Het) in Hi. rewrite (Hth_u _ Het) in Hu. eauto.
    + cbn [pe_thread pe_op eI] in *. rewrite Hth_t in Hu. injection Hu as <-. reflexivity.
  - intros u thu Hu. rewrite Hhas'. destruct (Nat.eq_dec u t) as [->|Hne].
    + rewrite Hth_t in Hu. injection Hu as <-. rewrite Hidx_t. cbn [t_op t_pc th']. split.
      * intros Hp. destruct next; discriminate Hp.
      * intros [Hh|(_ & _ & Hk)]; [exfalso; exact (Hnone _ Hh)|discriminate Hk].
    + rewrite (Hidx_u _ Hne). rewrite (Hth_u _ Hne) in Hu. rewrite (Hpast _ _ Hu).
      split; [auto|]. intros [Hh|(Et & _)]; [exact Hh|congruence].
  - intros u thu Hu. rewrite Hhas'. destruct (Nat.eq_dec u t) as [->|Hne].
    + rewrite Hth_t in Hu. injection Hu as <-. rewrite Hidx_t. cbn [t_pc th' is_done_pc]. split.
      * intros Hp. discriminate Hp.
      * intros [Hh|(_ & _ & Hk)]; [exfalso; exact (Hnone _ Hh)|discriminate Hk].
    + rewrite (Hidx_u _ Hne). rewrite (Hth_u _ Hne) in Hu. rewrite (Hdone _ _ Hu).
      split; [auto|]. intros [Hh|(Et & _)]; [exact Hh|congruence].
  - apply (ord_snoc_if P1 Q1 log true eI); [exact Ho1|].
    intros _ Hk. unfold P1 in Hk. cbn [pe_kind eI] in Hk. discriminate Hk.
  - apply (ord_snoc_if P2 Q2 log true eI); [exact Ho2|].
    intros _ Hk. unfold P2 in Hk. cbn [pe_kind eI] in Hk. discriminate Hk.
  - apply (ord_snoc_if P3 Q3 log true eI); [exact Ho3|].
    intros _ _. apply (Hdone _ _ Hth) in Hd. rewrite <- Ei in Hd.
    destruct Hd as (e' & Hin & Ht & Hi & Hk).
    exists e'. split; [exact Hin|]. unfold Q3. cbn [pe_thread pe_idx eI]. repeat split; congruence.
  - intros k e out e' Hk Ho Hine Hkind Hso. rewrite Hlins in Hk.
    apply Hin' in Hine. destruct Hine as [Hine| ->]; [eapply HrA; eauto|].
    cbn [pe_kind eI] in Hkind. discriminate Hkind.
  - intros k e out thu Hk Ho Hu Hi. rewrite Hlins in Hk.
    destruct (lins_in _ _ _ Hk) as (Hin & _).
    destruct (Nat.eq_dec (pe_thread e) t) as [Het|Het].
    + rewrite Het, Hidx_t in Hi. pose proof (Hold e Hin Het). lia.
    + rewrite (Hidx_u _ Het) in Hi. rewrite (Hth_u _ Het) in Hu. eapply HrB; eauto.
Qed.

(* ---------------- whole program states ---------------- *)

Definition RI (rest : list (list (cop V))) : Prop :=
  forall t ops op, nth_error rest t = Some ops -> In op ops -> okop op.

Definition PP (p : pstate) (outs : list (Obs.out V)) : Prop :=
  PI (p_s p) (p_idx p) (p_log p) outs /\ RI (p_rest p).

Lemma PP_prelease p t outs : PP p outs -> exists outs', PP (prelease p t) outs'.
Proof.
  intros (HI & HR).
  assert (Hrel : exists outs',
            PP {| p_s := fst (fst (release true (p_s p) t)); p_rest := p_rest p; p_idx := p_idx p;
                  p_log := p_log p ++ release_pev (p_idx p) (p_s p) t |} outs').
  { destruct (PI_release _ _ t _ _ HI) as (outs' & HI'). exists outs'. split; assumption. }
  unfold prelease.
  destruct (nth_error (c_threads (p_s p)) t) as [th|] eqn:Hth; [|exact Hrel].
  destruct (nth_error (p_rest p) t) as [[|next more]|] eqn:Hrest; [exact Hrel| |exact Hrel].
  destruct (is_done_pc (t_pc th)) eqn:Hd; [|exact Hrel].
  exists outs. split; cbn [p_s p_idx p_log p_rest].
  - apply (PI_reload _ _ _ th); auto. eapply HR; [exact Hrest|left; reflexivity].
  - intros u ops op Hu Hin. destruct (Nat.eq_dec u t) as [->|Hne].
    + erewrite nth_error_set_nth_eq in Hu by eauto. injection Hu as <-.
      eapply HR; [exact Hrest|right; exact Hin].
    + rewrite nth_error_set_nth_neq in Hu by exact Hne. eapply HR; eauto.
Qed.

Lemma PP_prun sched : forall p outs, PP p outs -> exists outs', PP (prun p sched) outs'.
Proof.
  induction sched as [|t rest IH]; intros p outs HP; cbn [prun fold_left].
  - eauto.
  - destruct (PP_prelease p t outs HP) as (outs1 & HP1). exact (IH _ _ HP1).
Qed.

End Trace.

(* ---------------- the start ---------------- *)

Lemma init_log_nth (progs : list (cop V * list (cop V))) : forall a j,
  nth_error (map (fun tp => {| pe_thread := fst tp; pe_idx := 0; pe_kind := EInv; pe_op := fst (snd tp);
                               pe_pc := PStart |})
                 (combine (seq a (length progs)) progs)) j =
  option_map (fun pr => {| pe_thread := a + j; pe_idx := 0; pe_kind := EInv; pe_op := fst pr;
                           pe_pc := PStart |}) (nth_error progs j).
Proof.
  induction progs as [|pr progs IH]; intros a j; cbn [length seq combine map].
  - destruct j; reflexivity.
  - destruct j as [|j]; cbn [nth_error option_map fst snd].
    + rewrite Nat.add_0_r. reflexivity.
    + rewrite IH. rewrite Nat.add_succ_r. reflexivity.
Qed.

Lemma nth_map_zero {X} (l : list X) t : nth t (map (fun _ => 0) l) 0 = 0.
Proof. revert t; induction l as [|x l IH]; intros [|t]; cbn [map nth]; auto. Qed.

Lemma all_ops_in (progs : list (cop V * list (cop V))) pr op :
  In pr progs -> (op = fst pr \/ In op (snd pr)) -> In op (all_ops progs).
Proof.
  intros Hpr Hop. unfold all_ops. apply in_concat. exists (fst pr :: snd pr). split.
  - apply in_map_iff. exists pr. split; [reflexivity|exact Hpr].
  - destruct Hop as [->|Hop]; [left; reflexivity|right; exact Hop].
Qed.

Lemma PP_init (v : V) ver clones subs pending progs :
  value_ops (all_ops progs) ->
  (forall k, In (CPoll k) (all_ops progs) -> k < length subs) ->
  1 <= clones ->
  let p0 := pinit v ver clones subs pending progs in
  PP (abs_obs (p_s p0)) (length subs) p0 [].
Proof.
  intros Hvo HkP Hcl p0.
  assert (Hokall : forall op, In op (all_ops progs) -> okop (length subs) op).
  { intros op Hin. unfold value_ops in Hvo. rewrite Forall_forall in Hvo. specialize (Hvo op Hin).
    destruct op; cbn [okop]; auto. }
  set (log0 := p_log p0).
  assert (Hlog : forall j e, nth_error log0 j = Some e ->
            exists pr, nth_error progs j = Some pr /\
              e = {| pe_thread := j; pe_idx := 0; pe_kind := EInv; pe_op := fst pr; pe_pc := PStart |}).
  { intros j e Hj. unfold log0, p0, pinit in Hj. cbn [p_log] in Hj. rewrite init_log_nth in Hj.
    destruct (nth_error progs j) as [pr|]; [|discriminate Hj]. cbn [option_map] in Hj.
    injection Hj as <-. exists pr. split; reflexivity. }
  assert (Hlog' : forall j pr, nth_error progs j = Some pr ->
            nth_error log0 j =
              Some {| pe_thread := j; pe_idx := 0; pe_kind := EInv; pe_op := fst pr; pe_pc := PStart |}).
  { intros j pr Hj. unfold log0, p0, pinit. cbn [p_log]. rewrite init_log_nth, Hj. reflexivity. }
  assert (Hlogin : forall e, In e log0 -> exists j pr, nth_error progs j = Some pr /\
              e = {| pe_thread := j; pe_idx := 0; pe_kind := EInv; pe_op := fst pr; pe_pc := PStart |}).
  { intros e Hin. destruct (In_nth_error _ _ Hin) as (j & Hj). destruct (Hlog _ _ Hj) as (pr & Hpr & He).
    eauto. }
  assert (Hthr : forall t th, nth_error (c_threads (p_s p0)) t = Some th ->
            exists pr, nth_error progs t = Some pr /\
                       th = {| t_op := fst pr; t_pc := PStart; t_waiting := false |}).
  { intros t th Hth. unfold p0, pinit, cinit in Hth. cbn [p_s c_threads] in Hth.
    rewrite map_map, nth_error_map in Hth. destruct (nth_error progs t) as [pr|]; [|discriminate Hth].
    cbn [option_map] in Hth. injection Hth as <-. eauto. }
  assert (Hnth_idx : forall t, nth t (p_idx p0) 0 = 0).
  { intros t. unfold p0, pinit. cbn [p_idx]. apply nth_map_zero. }
  assert (Hlins : lins log0 = []).
  { unfold lins. apply filter_none. intros e Hin. destruct (Hlogin e Hin) as (j & pr & _ & ->). reflexivity. }
  assert (Hnokind : forall t i k, k <> EInv -> ~ has log0 t i k).
  { intros t i k Hne (e & Hin & _ & _ & Hke). destruct (Hlogin e Hin) as (j & pr & _ & ->).
    cbn [pe_kind] in Hke. congruence. }
  assert (Hlenthr : length (c_threads (p_s p0)) = length progs).
  { unfold p0, pinit, cinit. cbn [p_s c_threads]. rewrite !map_length. reflexivity. }
  split; [split|].
  - rewrite Hlenthr. unfold p0, pinit. cbn [p_idx]. apply map_length.
  - unfold p0, pinit, cinit. cbn [p_s c_threads]. rewrite !map_map. cbn [t_op].
    apply Forall_forall. intros op Hin. apply in_map_iff in Hin. destruct Hin as (pr & <- & Hpr).
    apply Hokall. eapply all_ops_in; [exact Hpr|left; reflexivity].
  - exact Hcl.
  - reflexivity.
  - fold log0. rewrite Hlins. reflexivity.
  - fold log0. intros e Hin. destruct (Hlogin e Hin) as (j & pr & Hj & ->). cbn [pe_thread pe_idx].
    split; [|lia]. rewrite Hlenthr. apply nth_error_Some. congruence.
  - fold log0. intros i j e e' Hi Hj (Ht & _) _.
    destruct (Hlog _ _ Hi) as (pr & _ & ->). destruct (Hlog _ _ Hj) as (pr' & _ & ->).
    exact Ht.
  - fold log0. intros t th Hth. destruct (Hthr _ _ Hth) as (pr & Hpr & ->).
    eexists. split; [eapply nth_error_In; apply (Hlog' _ _ Hpr)|].
    cbn [pe_thread pe_idx pe_kind]. rewrite Hnth_idx. auto.
  - fold log0. intros e th Hin Hth _. destruct (Hlogin e Hin) as (j & pr & Hj & ->).
    cbn [pe_thread pe_op] in *. destruct (Hthr _ _ Hth) as (pr' & Hpr' & ->). cbn [t_op]. congruence.
  - fold log0. intros t th Hth. destruct (Hthr _ _ Hth) as (pr & Hpr & ->). cbn [t_op t_pc]. split.
    + intros Hp. destruct (fst pr); discriminate Hp.
    + intros Hh. exfalso. revert Hh. apply Hnokind. discriminate.
  - fold log0. intros t th Hth. destruct (Hthr _ _ Hth) as (pr & Hpr & ->). cbn [t_pc is_done_pc]. split.
    + intros Hp. discriminate Hp.
    + intros Hh. exfalso. revert Hh. apply Hnokind. discriminate.
  - fold log0. intros j e Hj Hk. destruct (Hlog _ _ Hj) as (pr & _ & ->). discriminate Hk.
  - fold log0. intros j e Hj Hk. destruct (Hlog _ _ Hj) as (pr & _ & ->). discriminate Hk.
  - fold log0. intros j e Hj (_ & Hpos). destruct (Hlog _ _ Hj) as (pr & _ & ->).
    cbn [pe_idx] in Hpos. lia.
  - fold log0. rewrite Hlins. intros k e out e' Hk. destruct k; discriminate Hk.
  - fold log0. rewrite Hlins. intros k e out th Hk. destruct k; discriminate Hk.
  - intros t ops op Ht Hin. unfold p0, pinit in Ht. cbn [p_rest] in Ht.
    rewrite nth_error_map in Ht. destruct (nth_error progs t) as [pr|] eqn:Hpr; [|discriminate Ht].
    cbn [option_map] in Ht. injection Ht as <-. apply Hokall.
    eapply all_ops_in; [eapply nth_error_In; exact Hpr|right; exact Hin].
Qed.

Theorem prog_linearizable (v : V) ver clones subs pending progs sched :
  value_ops (all_ops progs) ->
  (forall k, In (CPoll k) (all_ops progs) -> k < length subs) ->
  1 <= clones ->
  let p0 := pinit v ver clones subs pending progs in
  let p := prun p0 sched in
  let log := p_log p in
  exists outs,
    (* (1) legality: the operations in linearization order are a run of the sequential model, ending
       in the abstraction of the concurrent state, having woken the same wakers in the same order *)
    seq_run veq heq vdefault (abs_obs (p_s p0)) (map (fun e => seq_op (pe_op e)) (lins log))
      = Some (abs_obs (p_s p), outs, c_woken (p_s p)) /\
    (* (2) at most one event of each kind per operation *)
    (forall i j e e', nth_error log i = Some e -> nth_error log j = Some e' ->
       same_op e e' -> pe_kind e = pe_kind e' -> i = j) /\
    (* (3) a linearization point lies after the invocation, a response after the linearization
       point, of the same operation; and they speak of the same operation text *)
    (forall j e, nth_error log j = Some e -> pe_kind e = ELin ->
       exists i e', i < j /\ nth_error log i = Some e' /\ same_op e e' /\ pe_kind e' = EInv /\ pe_op e' = pe_op e) /\
    (forall j e, nth_error log j = Some e -> pe_kind e = EResp ->
       exists i e', i < j /\ nth_error log i = Some e' /\ same_op e e' /\ pe_kind e' = ELin /\ pe_op e' = pe_op e) /\
    (* (4) program order: an operation is invoked only after the previous one of its thread returned *)
    (forall j e, nth_error log j = Some e -> pe_kind e = EInv -> 0 < pe_idx e ->
       exists i e', i < j /\ nth_error log i = Some e' /\ pe_thread e' = pe_thread e /\
                    S (pe_idx e') = pe_idx e /\ pe_kind e' = EResp) /\
    (* (5) results: a response reports what the sequential run returns at the linearization point *)
    (forall k e out j e', nth_error (lins log) k = Some e -> nth_error outs k = Some out ->
       nth_error log j = Some e' -> pe_kind e' = EResp -> same_op e e' -> reports_ev e' out).
Proof.
  intros Hvo Hk Hcl p0 p log.
  pose proof (PP_init v ver clones subs pending progs Hvo Hk Hcl) as HP0. cbv zeta in HP0. fold p0 in HP0.
  destruct (PP_prun _ _ sched _ _ HP0) as (outs & HI & _). fold p in HI. fold log in HI.
  destruct HI as [_ _ _ _ Hrun _ Huniq _ _ _ _ Ho1 Ho2 Ho3 HrA _].
  exists outs. split; [exact Hrun|]. split; [exact Huniq|]. split; [exact Ho1|]. split; [exact Ho2|].
  split.
  - intros j e Hj Hkind Hpos. exact (Ho3 j e Hj (conj Hkind Hpos)).
  - intros k e out j e' Hke Hko Hj Hkind Hso. eapply HrA; eauto. eapply nth_error_In; eauto.
Qed.

(* the order of linearization points respects real time: if a returned before b was invoked, a is
   linearized before b *)
Corollary prog_real_time (v : V) ver clones subs pending progs sched :
  value_ops (all_ops progs) ->
  (forall k, In (CPoll k) (all_ops progs) -> k < length subs) ->
  1 <= clones ->
  let log := p_log (prun (pinit v ver clones subs pending progs) sched) in
  forall ia ja ib jb ra la ib' lb,
    nth_error log ia = Some ra -> pe_kind ra = EResp ->
    nth_error log ja = Some la -> pe_kind la = ELin -> same_op la ra ->
    nth_error log ib = Some ib' -> pe_kind ib' = EInv ->
    nth_error log jb = Some lb -> pe_kind lb = ELin -> same_op lb ib' ->
    ia < ib -> ja < jb.
Proof.
  intros Hvo Hk Hcl log ia ja ib jb ra la ib' lb Hra Hkra Hla Hkla Hsa Hib Hkib Hlb Hklb Hsb Hlt.
  destruct (prog_linearizable v ver clones subs pending progs sched Hvo Hk Hcl)
    as (outs & _ & Huniq & Ho1 & Ho2 & _). cbv zeta in Huniq, Ho1, Ho2. fold log in Huniq, Ho1, Ho2.
  destruct (Ho2 _ _ Hra Hkra) as (i1 & e1 & Hi1 & He1 & Hs1 & Hk1 & _).
  assert (E1 : ja = i1).
  { apply (Huniq _ _ _ _ Hla He1); [eapply same_op_trans; eauto|congruence]. }
  destruct (Ho1 _ _ Hlb Hklb) as (i2 & e2 & Hi2 & He2 & Hs2 & Hk2 & _).
  assert (E2 : ib = i2).
  { apply (Huniq _ _ _ _ Hib He2); [eapply same_op_trans; [apply same_op_sym; exact Hsb|exact Hs2]|congruence]. }
  lia.
Qed.

(* ---------------- C02 for programs: no lost wakeups ---------------- *)

(* a poll that decides Pending registers its waker at that very micro-step *)
Lemma prog_pending_registers (s s' : cstate V) t th th' k :
  nth_error (c_threads s) t = Some th -> t_op th = CPoll k ->
  cstep true s t = Advanced s' ->
  nth_error (c_threads s') t = Some th' -> t_pc th' = PPollDecided Pending ->
  t_pc th = PPollMetaLocked /\ In k (c_wakers s').
Proof.
  intros Hth Hop H Hth' Hpc.
  cstep_inv H; injection Hth as <-; cbn [t_op] in Hop; try discriminate Hop;
    cbn [c_threads with_pc upd_thread mk] in Hth';
    erewrite nth_error_set_nth_eq in Hth' by eauto; injection Hth' as <-;
    cbn [t_pc] in Hpc; try discriminate Hpc.
  injection Hop as ->. split; [reflexivity|].
  cbn [c_wakers with_pc upd_thread mk]. apply in_or_app. right. left. reflexivity.
Qed.

(* from s to s' the list of woken wakers only grows, and every registered waker is still registered
   or among the newly woken *)
Definition keeps (s s' : cstate V) : Prop :=
  exists w, c_woken s' = c_woken s ++ w /\
            forall k, In k (c_wakers s) -> In k (c_wakers s') \/ In k w.

Lemma keeps_refl s : keeps s s.
Proof. exists []. split; [symmetry; apply app_nil_r|]. intros k Hk. left; exact Hk. Qed.

Lemma keeps_trans s1 s2 s3 : keeps s1 s2 -> keeps s2 s3 -> keeps s1 s3.
Proof.
  intros (w1 & Hw1 & Hk1) (w2 & Hw2 & Hk2). exists (w1 ++ w2). split.
  - rewrite Hw2, Hw1. symmetry. apply app_assoc.
  - intros k Hk. destruct (Hk1 k Hk) as [Hin|Hin].
    + destruct (Hk2 k Hin) as [Hin2|Hin2]; [left; exact Hin2|right; apply in_or_app; right; exact Hin2].
    + right. apply in_or_app. left; exact Hin.
Qed.

Lemma keeps_step s t s' : cstep true s t = Advanced s' -> keeps s s'.
Proof.
  intros H. unfold keeps.
  cstep_inv H; cbn [c_woken c_wakers with_pc upd_thread mk];
    first [ exists (c_wakers s); split; [reflexivity|]; intros k0 Hk0; right; exact Hk0
          | exists []; split; [symmetry; apply app_nil_r|]; intros k0 Hk0; left;
            first [exact Hk0 | apply in_or_app; left; exact Hk0] ].
Qed.

Lemma keeps_mark s t w : keeps s (mark_waiting s t w).
Proof.
  exists []. mark_rw s t w. split; [symmetry; apply app_nil_r|]. intros k Hk. left; exact Hk.
Qed.

Lemma keeps_wake fuel : forall s ids acc, keeps s (fst (wake_blocked true fuel s ids acc)).
Proof.
  induction fuel as [|f IH]; intros s ids acc; cbn [wake_blocked].
  - apply keeps_refl.
  - destruct ids as [|t rest]; [apply keeps_refl|].
    destruct (nth_error (c_threads s) t) as [th|]; [|apply IH].
    destruct (t_waiting th); [|apply IH].
    destruct (cstep true s t) as [s'| |] eqn:E; try apply IH.
    eapply keeps_trans; [exact (keeps_step _ _ _ E)|].
    eapply keeps_trans; [apply (keeps_mark s' t false)|apply IH].
Qed.

Lemma keeps_release s t : keeps s (fst (fst (release true s t))).
Proof.
  unfold release. destruct (cstep true s t) as [s'| |] eqn:E.
  - pose proof (keeps_wake (length (c_threads s)) s' (seq 0 (length (c_threads s))) []) as Hw.
    destruct (wake_blocked true (length (c_threads s)) s' (seq 0 (length (c_threads s))) [])
      as [s'' unb].
    cbn [fst] in *. eapply keeps_trans; [exact (keeps_step _ _ _ E)|exact Hw].
  - cbn [fst]. apply keeps_mark.
  - cbn [fst]. apply keeps_refl.
Qed.

Lemma keeps_prelease p t : keeps (p_s p) (p_s (prelease p t)).
Proof.
  unfold prelease.
  destruct (nth_error (c_threads (p_s p)) t) as [th|]; [|cbn [p_s]; apply keeps_release].
  destruct (nth_error (p_rest p) t) as [[|next more]|]; try (cbn [p_s]; apply keeps_release).
  destruct (is_done_pc (t_pc th)); cbn [p_s]; [|apply keeps_release].
  exists []. cbn [upd_thread c_woken c_wakers]. split; [symmetry; apply app_nil_r|].
  intros k Hk. left; exact Hk.
Qed.

Lemma keeps_prun sched : forall p, keeps (p_s p) (p_s (prun p sched)).
Proof.
  induction sched as [|t rest IH]; intros p; cbn [prun fold_left].
  - apply keeps_refl.
  - eapply keeps_trans; [apply (keeps_prelease p t)|apply IH].
Qed.

(* ... and, whatever the threads' programs do afterwards and however they are scheduled, a
   registered waker stays registered until it is woken: at any later point it is still on the list
   or occurs among the wakers woken since *)
Theorem prog_no_lost_wakeup (v : V) ver clones subs pending progs sched1 sched2 k :
  value_ops (all_ops progs) ->
  (forall k, In (CPoll k) (all_ops progs) -> k < length subs) ->
  1 <= clones ->
  let p1 := prun (pinit v ver clones subs pending progs) sched1 in
  let p2 := prun p1 sched2 in
  In k (c_wakers (p_s p1)) ->
  In k (c_wakers (p_s p2)) \/
  In k (skipn (length (c_woken (p_s p1))) (c_woken (p_s p2))).
Proof.
  intros _ _ _ p1 p2 Hin.
  destruct (keeps_prun sched2 p1) as (w & Hw & Hk). fold p2 in Hw, Hk.
  rewrite Hw. rewrite skipn_app, skipn_all, Nat.sub_diag. cbn [skipn app].
  apply Hk. exact Hin.
Qed.

End Prog.

(* non-vacuity: thread 0 runs set 7 then get, thread 1 runs set 9 then set 5, thread 2 polls twice *)
Example prog_example :
  let p0 := pinit 0 1 3 [1] [] [(CSet 7, [CGet]); (CSet 9, [CSet 5]); (CPoll 0, [CPoll 0])] in
  let sched := [0;1;0;0;2;1;1;2;2;2;2; 0;1;2; 0;1;2; 0;1;2; 0;1;2; 0;1;2; 0;1;2] in
  let p := prun p0 sched in
  length (lins (p_log p)) = 6 /\ length (filter (is_kind EResp) (p_log p)) = 6.
Proof. vm_compute. split; reflexivity. Qed.

Print Assumptions prog_linearizable.
Print Assumptions prog_real_time.
Print Assumptions prog_no_lost_wakeup.
