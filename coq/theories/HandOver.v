(* HandOver.v — the by-itself hand-over of an adapter AT ANY MOMENT of its life (C12, finding F9).
   An unbatched Head / Tail / Skip may hold diffs of the current burst that it has not handed out
   yet (PollLoop.ustate.u_ready).  The consumer's view is then behind the adapter's own view by
   exactly those diffs: [mid_burst].  This relation is an invariant of the poll loop (for any
   adapter with correct step and parameter functions), and the hand-over (Chain.hand_over_u, as
   repaired: the parked diffs are dropped) starts the next stage from the adapter's own view with
   nothing parked.  With the parked diffs kept (the code before the repair) the statement is false. *)
From EB Require Import Diff AdapterCore PollLoop Head HeadFacts Chain.
From Coq Require Import Lia.

Section HandOver.
Context {A B St : Type}.
Variable on_diff : St -> diff A -> outcome (St * list (diff B)).
Variable on_param : St -> nat -> St * option (list (diff B)).
Variable has_param : bool.
Variable R : St -> list A -> list B -> Prop.

(* the consumer holds [v]; the adapter stands for source contents [l] with a view that is [v]
   after the parked diffs *)
Definition mid_burst (s : ustate (B:=B) (St:=St)) (l : list A) (v : list B) : Prop :=
  exists v', apply_all_ok (u_ready s) v = Some v' /\ R (u_st s) l v'.

Hypothesis Hstep : step_ok on_diff R.
Hypothesis Hparam : param_ok on_param R.

Lemma mid_burst_quiet st l v : R st l v -> mid_burst {| u_st := st; u_ready := [] |} l v.
Proof. intro H. exists v. split; [reflexivity|exact H]. Qed.

(* handing out the first of the diffs that take v to v' *)
Lemma deliver_first st l v (d : diff B) ds v' :
  apply_all_ok (d :: ds) v = Some v' -> R st l v' ->
  exists v1, apply_all_ok [d] v = Some v1 /\ mid_burst {| u_st := st; u_ready := ds |} l v1.
Proof.
  intros Hap HR. cbn [apply_all_ok] in *.
  destruct (ok_in d v); [|discriminate].
  destruct (apply d v) as [v1|]; [|discriminate]. cbn [obind] in *.
  exists v1. split; [reflexivity|]. exists v'. split; assumption.
Qed.

Lemma poll_params_mid : forall qp st l v pend tr st' qp' o tr',
  R st l v ->
  poll_params on_param st qp pend tr = (st', qp', o, tr') ->
  exists v', apply_all_ok (match o with Some ds => ds | None => [] end) v = Some v' /\ R st' l v'.
Proof.
  induction qp as [|n rest IH]; intros st l v pend tr st' qp' o tr' HR H; cbn [poll_params] in H.
  - injection H as <- _ <- _. exists v. split; [reflexivity|exact HR].
  - destruct (Hparam st l v n HR) as (st1 & v1 & E1 & E2 & HR1).
    destruct (on_param st n) as [st2 o2] eqn:E. cbn [fst snd] in *. subst st2.
    destruct o2 as [ds|].
    + injection H as <- _ <- _. exists v1. split; assumption.
    + cbn in E2. injection E2 as <-. eapply IH; eassumption.
Qed.

Lemma poll_inner_mid hp : forall qi st l v iend pend first tr lq s' qi' r tr',
  R st l v -> apply_all_ok qi l = Some lq ->
  poll_inner_u on_diff hp st qi iend pend first tr = Ok (s', qi', r, tr') ->
  exists l', apply_all_ok qi' l' = Some lq /\
    match r with
    | Ready (Some d) => exists v1, apply_all_ok [d] v = Some v1 /\ mid_burst s' l' v1
    | _ => mid_burst s' l' v
    end.
Proof.
  induction qi as [|d rest IH]; intros st l v iend pend first tr lq s' qi' r tr' HR Hq H;
    cbn [poll_inner_u] in H.
  - injection H as <- <- <- _. exists l. split; [exact Hq|].
    destruct iend; apply mid_burst_quiet; exact HR.
  - cbn [apply_all_ok] in Hq. destruct (ok_in d l) eqn:Hok; [|discriminate].
    destruct (Hstep st l v d HR Hok) as (st1 & outs & l1 & v1 & E1 & E2 & E3 & HR1).
    rewrite E2 in Hq. cbn [obind] in Hq. rewrite E1 in H.
    destruct outs as [|o outs'].
    + cbn in E3. injection E3 as <-. eapply IH; eassumption.
    + injection H as <- <- <- _. exists l1. split; [exact Hq|].
      eapply deliver_first; eassumption.
Qed.

(* the invariant: whatever is queued on either input, one poll keeps the consumer exactly the parked
   diffs behind the adapter; [lq] = the source contents once everything queued is consumed *)
Theorem poll_u_mid_burst :
  forall s l v qi iend qp pend lq s' qi' qp' r tr,
    mid_burst s l v -> apply_all_ok qi l = Some lq ->
    poll_u on_diff on_param has_param s qi iend qp pend = Ok (s', qi', qp', r, tr) ->
    exists l', apply_all_ok qi' l' = Some lq /\
      match r with
      | Ready (Some d) => exists v1, apply_all_ok [d] v = Some v1 /\ mid_burst s' l' v1
      | _ => mid_burst s' l' v
      end.
Proof.
  intros s l v qi iend qp pend lq s' qi' qp' r tr (v' & Hrd & HR) Hq H.
  unfold poll_u in H. destruct (u_ready s) as [|o rd] eqn:Erd.
  - cbn in Hrd. injection Hrd as <-.
    destruct has_param.
    + destruct (poll_params on_param (u_st s) qp pend []) as [[[st1 qp1] o1] tr1] eqn:Ep.
      destruct (poll_params_mid _ _ _ _ _ _ _ _ _ _ HR Ep) as (v1 & E1 & HR1).
      destruct o1 as [[|d ds]|].
      * injection H as <- <- <- <- _. exists l. split; [exact Hq|].
        cbn in E1. injection E1 as <-. apply mid_burst_quiet. exact HR1.
      * injection H as <- <- <- <- _. exists l. split; [exact Hq|].
        eapply deliver_first; eassumption.
      * cbn in E1. injection E1 as <-.
        destruct (poll_inner_u on_diff true st1 qi iend pend true tr1) as [[[[s2 qi2] r2] tr2]|] eqn:Ei;
          [|discriminate].
        injection H as <- <- <- <- _. eapply poll_inner_mid; eassumption.
    + destruct (poll_inner_u on_diff false (u_st s) qi iend pend true []) as [[[[s2 qi2] r2] tr2]|] eqn:Ei;
        [|discriminate].
      injection H as <- <- <- <- _. eapply poll_inner_mid; eassumption.
  - injection H as <- <- <- <- _. exists l. split; [exact Hq|].
    eapply deliver_first; eassumption.
Qed.

(* the hand-over, as repaired: the next stage starts from the adapter's own view, nothing parked,
   and the pair (values, stream state) is again in the invariant - whatever the moment *)
Theorem hand_over_any_moment :
  forall (into_parts : St -> list B),
    (forall st l v, R st l v -> into_parts st = v) ->
    forall s l v, mid_burst s l v ->
      let '(s', vals) := hand_over_u false into_parts s in
      u_ready s' = [] /\ R (u_st s') l vals /\ mid_burst s' l vals.
Proof.
  intros into_parts Hip s l v (v' & Hrd & HR). cbn [hand_over_u].
  rewrite (Hip _ _ _ HR). split; [reflexivity|]. split; [exact HR|].
  apply mid_burst_quiet. exact HR.
Qed.

End HandOver.

(* before the repair (parked diffs kept) the hand-over of a Head in the middle of a burst breaks
   the invariant: Head with limit 2 over [1;2;3] after pop_front and ONE poll *)
Theorem hand_over_keeping_ready_refuted :
  exists (s : ustate (B:=nat) (St:=head_st nat)) l v,
    mid_burst head_R s l v /\
    let '(s', vals) := hand_over_u true head_into_parts s in
    ~ mid_burst head_R s' l vals.
Proof.
  exists {| u_st := {| h_buf := [2;3]; h_limit := 2 |}; u_ready := [PushBack 3] |}, [2;3], [2].
  split.
  - exists [2;3]. split; [reflexivity|]. split; reflexivity.
  - cbn [hand_over_u u_st u_ready]. intros (v' & Hap & _ & Hv). cbn in Hap. injection Hap as <-.
    cbn in Hv. discriminate.
Qed.

(* ... and that state is reached by the poll loop itself *)
Example hand_over_refutation_reachable :
  exists tr,
    poll_u head_on_diff head_update_limit true
      {| u_st := {| h_buf := [1;2;3]; h_limit := 2 |}; u_ready := [] |} [PopFront] false [] false
    = Ok ({| u_st := {| h_buf := [2;3]; h_limit := 2 |}; u_ready := [PushBack 3] |}, [], [], Ready (Some PopFront), tr).
Proof. eexists. vm_compute. reflexivity. Qed.

Print Assumptions poll_u_mid_burst.
Print Assumptions hand_over_any_moment.
Print Assumptions hand_over_keeping_ready_refuted.
