(* EndToEndDrain.v — the pipeline of EndToEnd.v when the polls of the adapter's subscriber race the
   sender (OVecDrain.v): the vector publishes, or is dropped, between the receive attempts of a
   poll whose items feed a stream adapter. *)
From EB Require Import Diff AdapterCore OVec OVecRun OVecFacts OVecExtra OVecStepwise OVecDrain OVecDrainAux OVecDrainFacts EndToEnd.
From Coq Require Import Lia.

Section EndToEndDrain.
Context {A B St : Type}.
Variable on_diff : St -> diff A -> outcome (St * list (diff B)).
Variable R : St -> list A -> list B -> Prop.
Variable init : list A -> St * list B.

(* injections that do not create subscribers (the adapter is attached at a top-level subscribe) *)
Definition no_sub (x : op A) : bool := match x with OSub _ => false | _ => true end.

(* run a history with racing polls together with the adapter attached to subscriber k *)
Fixpoint e2e_crun (k : nat) (g : gst A) (a : option (St * list B)) (cs : list (cop A))
  : option (gst A * option (St * list B)) :=
  match cs with
  | [] => Some (g, a)
  | CPlain x :: rest =>
      match gstep g x with
      | Panic => e2e_crun k g a rest
      | Ok (g', out) =>
          match x, out, a with
          | OSub _, VSub k' snap, _ =>
              e2e_crun k g' (if k' =? k then Some (init snap) else a) rest
          | OPoll k', VPoll (Ready (Some it)), Some (st, v) =>
              if k' =? k then
                match feed on_diff st v (item_diffs it) with
                | Some sv => e2e_crun k g' (Some sv) rest
                | None => None
                end
              else e2e_crun k g' a rest
          | _, _, _ => e2e_crun k g' a rest
          end
      end
  | CPoll k' inj :: rest =>
      if forallb (env_ops k') inj && forallb (forallb no_sub) inj then
        match c_gpoll g k' inj with
        | Panic => e2e_crun k g a rest
        | Ok (g', r, _) =>
            match r, a with
            | Ready (Some it), Some (st, v) =>
                if k' =? k then
                  match feed on_diff st v (item_diffs it) with
                  | Some sv => e2e_crun k g' (Some sv) rest
                  | None => None
                  end
                else e2e_crun k g' a rest
            | _, _ => e2e_crun k g' a rest
            end
        end
      else e2e_crun k g a rest
  end.

Hypothesis step : step_ok on_diff R.
Hypothesis init_ok : forall l, R (fst (init l)) l (snd (init l)).

(* ---------------- the ghosts during a racing poll ---------------- *)

(* an operation of the other side that is not a subscribe leaves the ghosts alone *)
Lemma grun_gh_same (k : nat) : forall (xs : list (op A)) (g : gst A),
  env_ops k xs = true -> forallb no_sub xs = true -> g_gh (grun g xs) = g_gh g.
Proof.
  induction xs as [|x xs IH]; intros g He Hn; cbn [grun]; [reflexivity|].
  unfold env_ops in He. cbn [forallb] in He, Hn.
  apply andb_prop in He as [Hx He]. apply andb_prop in Hn as [Hnx Hn].
  destruct (gstep g x) as [[g' out]|] eqn:E; [|apply IH; assumption].
  rewrite (IH g' He Hn). pose proof (gstep_gh_other _ _ _ _ E) as Hgh.
  destruct x; try discriminate; exact Hgh.
Qed.

Lemma c_handle_lag_gh (k : nat) : forall (inj : list (list (op A))) (g : gst A) next last used r n g1 u,
  forallb (env_ops k) inj = true -> forallb (forallb no_sub) inj = true ->
  c_handle_lag inj g next last used = (r, n, g1, u) -> g_gh g1 = g_gh g.
Proof.
  induction inj as [|xs inj IH]; intros g next last used r n g1 u He Hn; cbn [c_handle_lag].
  - destruct (handle_lag _ _ _ _ next last) as [r0 n0]. intro H; injection H as _ _ <- _. reflexivity.
  - cbn [forallb] in He, Hn. apply andb_prop in He as [Hx He]. apply andb_prop in Hn as [Hnx Hn].
    pose proof (grun_gh_same k xs g Hx Hnx) as Hg.
    destruct (try_recv _ _ _ next) as [[m| | |] n0].
    + intro H. rewrite (IH _ _ _ _ _ _ _ _ He Hn H). exact Hg.
    + intro H; injection H as _ _ <- _. exact Hg.
    + intro H; injection H as _ _ <- _. exact Hg.
    + intro H. rewrite (IH _ _ _ _ _ _ _ _ He Hn H). exact Hg.
Qed.

Lemma c_batch_loop_gh (k : nat) : forall (inj : list (list (op A))) (g : gst A) next batch used r n g1 u,
  forallb (env_ops k) inj = true -> forallb (forallb no_sub) inj = true ->
  c_batch_loop inj g next batch used = (r, n, g1, u) -> g_gh g1 = g_gh g.
Proof.
  induction inj as [|xs inj IH]; intros g next batch used r n g1 u He Hn; cbn [c_batch_loop].
  - destruct (batch_loop _ _ _ _ next batch) as [r0 n0]. intro H; injection H as _ _ <- _. reflexivity.
  - cbn [forallb] in He, Hn. apply andb_prop in He as [Hx He]. apply andb_prop in Hn as [Hnx Hn].
    pose proof (grun_gh_same k xs g Hx Hnx) as Hg.
    destruct (try_recv _ _ _ next) as [[m| | |] n0].
    + intro H. rewrite (IH _ _ _ _ _ _ _ _ He Hn H). exact Hg.
    + intro H; injection H as _ _ <- _. exact Hg.
    + intro H; injection H as _ _ <- _. exact Hg.
    + destruct (c_handle_lag inj (grun g xs) n0 None (S used)) as [[[r2 n2] g2] u2] eqn:E2.
      pose proof (c_handle_lag_gh k _ _ _ _ _ _ _ _ _ He Hn E2) as Hg2.
      destruct r2 as [r2|]; intro H; injection H as _ _ <- _; rewrite Hg2; exact Hg.
Qed.

Lemma poll_sub_path_gh (g gp : gst A) k0 (r : poll (option (item A))) (u : nat) :
  match poll_sub (g_o g) k0 with
  | Panic => Panic
  | Ok (o', r0) => Ok ({| g_o := o'; g_gh := g_gh g; g_app_ok := g_app_ok g |}, r0, 0)
  end = Ok (gp, r, u) -> g_gh gp = g_gh g.
Proof.
  destruct (poll_sub (g_o g) k0) as [[o' r0]|]; [|discriminate].
  intro H; injection H as <- _ _. reflexivity.
Qed.

(* the state a racing poll hands to the ghost bookkeeping has the ghosts of the start, provided no
   injection subscribes; a Pending answer never comes from a racing path at all *)
Lemma c_poll_sub_gh (g gp : gst A) k0 inj r u :
  forallb (env_ops k0) inj = true ->
  c_poll_sub g k0 inj = Ok (gp, r, u) ->
  r = Pending \/ forallb (forallb no_sub) inj = true -> g_gh gp = g_gh g.
Proof.
  intros He H Hc. unfold c_poll_sub in H.
  destruct (nth_error (subs (g_o g)) k0) as [[s|]|]; try discriminate.
  destruct (sb_state s); [|eapply poll_sub_path_gh; exact H].
  destruct (try_recv _ _ _ (sb_next s)) as [[m| | |] n0]; try (eapply poll_sub_path_gh; exact H).
  - destruct (sb_batched s); [|eapply poll_sub_path_gh; exact H].
    destruct (c_batch_loop inj g n0 (m_diffs m) 0) as [[[r1 n1] g1] u1] eqn:E1.
    destruct r1 as [r1|]; [|discriminate]. injection H as <- <- _. cbn [g_gh].
    destruct Hc as [Hc|Hn]; [discriminate|]. eapply c_batch_loop_gh; eassumption.
  - destruct (c_handle_lag inj g n0 None 0) as [[[r1 n1] g1] u1] eqn:E1.
    destruct r1 as [r1|]; [|discriminate]. injection H as <- <- _. cbn [g_gh].
    destruct Hc as [Hc|Hn]; [discriminate|]. eapply c_handle_lag_gh; eassumption.
Qed.

Lemma deliver_true (gh gh' : ghost A) ds lag :
  deliver gh ds lag = (gh', true) -> apply_all_ok ds (gh_replica gh) = Some (gh_replica gh').
Proof.
  unfold deliver. destruct (apply_all_ok ds (gh_replica gh)) as [r|]; intro H; [|discriminate].
  injection H as <-. reflexivity.
Qed.

(* what gstep_poll gives in the sequential case *)
Lemma c_gpoll_ghosts (g g' : gst A) k0 inj r u :
  step_inv g -> forallb (env_ops k0) inj = true ->
  c_gpoll g k0 inj = Ok (g', r, u) ->
  match r with
  | Ready (Some it) =>
      forallb (forallb no_sub) inj = true ->
      exists gh gh', nth_error (g_gh g) k0 = Some gh /\
        apply_all_ok (item_diffs it) (gh_replica gh) = Some (gh_replica gh') /\
        g_gh g' = set_nth k0 gh' (g_gh g)
  | Ready None => forallb (forallb no_sub) inj = true -> g_gh g' = g_gh g
  | Pending => g_gh g' = g_gh g
  end.
Proof.
  intros Hg He H. pose proof (c_gpoll_step_inv _ _ _ _ _ _ Hg He H) as [[Hok' _] _].
  unfold c_gpoll in H. destruct (c_poll_sub g k0 inj) as [[[gp r0] u0]|] eqn:Ep; [|discriminate].
  destruct r0 as [[it|]|].
  - destruct (nth_error (g_gh gp) k0) as [gh0|] eqn:Eg0; [|discriminate].
    destruct (deliver gh0 (item_diffs it) (is_lag_item it)) as [gh' ok] eqn:Ed.
    injection H as <- <- <-. intro Hn.
    pose proof (c_poll_sub_gh _ _ _ _ _ _ He Ep (or_intror Hn)) as Hgh. rewrite Hgh in *.
    cbn [g_app_ok] in Hok'. apply andb_prop in Hok' as [_ ->].
    exists gh0, gh'. split; [exact Eg0|]. split; [eapply deliver_true; exact Ed|reflexivity].
  - injection H as <- <- <-. intro Hn. eapply c_poll_sub_gh; [exact He|exact Ep|right; exact Hn].
  - injection H as <- <- <-. eapply c_poll_sub_gh; [exact He|exact Ep|left; reflexivity].
Qed.

(* ---------------- the pipeline ---------------- *)
Lemma crun_plain k g a x rest :
  e2e_crun k g a (CPlain x :: rest)
  = match e2e_run on_diff init k g a [x] with
    | Some (g', a') => e2e_crun k g' a' rest
    | None => None
    end.
Proof.
  cbn [e2e_crun e2e_run]. destruct (gstep g x) as [[g' out]|]; [|reflexivity].
  destruct x; try reflexivity.
  - destruct out; reflexivity.
  - destruct out as [ | | |r| ]; try reflexivity. destruct r as [[it|]|]; try reflexivity.
    destruct a as [[st v]|]; try reflexivity. destruct (k0 =? k); try reflexivity.
    destruct (feed on_diff st v (item_diffs it)) as [sv|]; reflexivity.
Qed.

Lemma e2e_c_gen k : forall (cs : list (cop A)) (g : gst A) a, step_inv g -> clause R k g a ->
  exists g' a', e2e_crun k g a cs = Some (g', a') /\ step_inv g' /\ clause R k g' a'.
Proof.
  induction cs as [|c cs IH]; intros g a Hg Ha.
  - exists g, a. split; [reflexivity|]. split; assumption.
  - destruct c as [x|k0 inj].
    + rewrite crun_plain.
      destruct (e2e_gen on_diff R init step init_ok k [x] g a (proj1 Hg) Ha) as (a' & E & Hc).
      rewrite E. apply IH; [apply step_inv_run; exact Hg|exact Hc].
    + cbn [e2e_crun].
      destruct (forallb (env_ops k0) inj && forallb (forallb no_sub) inj) eqn:Ec; [|apply IH; assumption].
      apply andb_prop in Ec as [He Hn].
      destruct (c_gpoll g k0 inj) as [[[g' r] u]|] eqn:E; [|apply IH; assumption].
      pose proof (c_gpoll_step_inv _ _ _ _ _ _ Hg He E) as Hg'.
      pose proof (c_gpoll_ghosts _ _ _ _ _ _ Hg He E) as Hgh.
      destruct r as [[it|]|].
      * destruct (Hgh Hn) as (gh & gh' & Eg & Hap & Egh').
        assert (Hk : k0 < length (g_gh g)) by (apply nth_error_Some; congruence).
        destruct a as [[st v]|].
        -- destruct (Nat.eqb_spec k0 k) as [e|ne].
           ++ subst k0. destruct Ha as (gh0 & E0 & HR). rewrite Eg in E0. injection E0 as <-.
              destruct (feed_ok on_diff R step _ _ _ _ _ HR Hap) as (st' & v' & Ef & HR').
              rewrite Ef. apply IH; [exact Hg'|].
              unfold clause. rewrite Egh'. eexists. split; [apply nth_error_set_nth_eq; assumption|].
              exact HR'.
           ++ apply IH; [exact Hg'|]. unfold clause in *. rewrite Egh'.
              rewrite nth_error_set_nth_neq by congruence. exact Ha.
        -- apply IH; [exact Hg'|]. unfold clause in *. rewrite Egh', length_set_nth. exact Ha.
      * apply IH; [exact Hg'|]. eapply clause_same_gh; [exact (Hgh Hn)|exact Ha].
      * apply IH; [exact Hg'|]. eapply clause_same_gh; [exact Hgh|exact Ha].
Qed.

(* the adapter never panics, never emits an inapplicable diff, and its view always stands for
   subscriber k's replica - also when that subscriber's polls race the vector *)
Theorem e2e_c_invariant :
  forall (capacity : nat) (cs : list (cop A)) (k : nat),
    exists g a, e2e_crun k (ginit capacity) None cs = Some (g, a) /\
      step_inv g /\
      match a with
      | Some (st, v) => exists gh, nth_error (g_gh g) k = Some gh /\ R st (gh_replica gh) v
      | None => length (g_gh g) <= k
      end.
Proof.
  intros capacity cs k.
  destruct (e2e_c_gen k cs (ginit capacity) None) as (g & a & E & Hg & Hc).
  - apply step_inv_init.
  - cbn. lia.
  - exists g, a. split; [exact E|]. split; [exact Hg|exact Hc].
Qed.

(* when the adapter's subscriber answers Pending (or a batched item / Reset has just been handed
   out), the replica is the vector's contents, so the consumer's view stands for the contents *)
Theorem e2e_c_view_at_pending :
  forall (capacity : nat) (cs : list (cop A)) (k : nat) g st v inj g' u,
    e2e_crun k (ginit capacity) None cs = Some (g, Some (st, v)) ->
    forallb (env_ops k) inj = true ->
    c_gpoll g k inj = Ok (g', Pending, u) ->
    R st (values (g_o g')) v.
Proof.
  intros capacity cs k g st v inj g' u E He H.
  destruct (e2e_c_invariant capacity cs k) as (g0 & a0 & E0 & Hg & Hc).
  rewrite E0 in E. injection E as -> ->. destruct Hc as (gh & Eg & HR).
  pose proof (c_gpoll_ghosts _ _ _ _ _ _ Hg He H) as Hgh. cbv beta iota in Hgh.
  destruct (nth_error (subs (g_o g)) k) as [[s|]|] eqn:Ek.
  2,3: unfold c_gpoll, c_poll_sub in H; rewrite Ek in H; discriminate.
  assert (Egh' : nth_error (g_gh g') k = Some gh) by (rewrite Hgh; exact Eg).
  destruct (c_poll_meaning g k inj g' Pending u s gh Hg He Ek H Egh') as (_ & _ & _ & Hrep).
  rewrite <- Hrep. exact HR.
Qed.

End EndToEndDrain.

Print Assumptions e2e_c_invariant.
Print Assumptions e2e_c_view_at_pending.
