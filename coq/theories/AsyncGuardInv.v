(* AsyncGuardInv.v — the inductive invariant of the guarded async model and its preservation by the
   elementary transitions the model's functions are composed of. *)
From EB Require Import AsyncGuard AsyncGuardAux.
From Coq Require Import Lia.

Section Inv.
Context {V : Type}.
Notation fut := (@fut V).
Notation astate := (astate V).
Notation acall := (acall V).

Definition tneed (f : fut) : nat := match f_phase f with Ph2Queued => 1 | _ => need_of (f_call f) end.
Definition held_fut (f : fut) : nat :=
  match f_phase f with PhGranted => need_of (f_call f) | Ph2Granted => 1 | _ => 0 end.
Definition held_guard (g : guard) : nat := match g with GWrite => maxp | GRead => 1 | GNone => 0 end.
Definition fneed (F : list fut) (id : nat) : nat :=
  match nth_error F id with Some f => tneed f | None => 0 end.
Definition hq (F : list fut) (Q : list waiter) : nat :=
  match Q with [] => 0 | w :: _ => fneed F (w_id w) - w_need w end.
Definition is_next (c : acall) : bool := match c with ANext _ | ANextRef _ => true | _ => false end.
Definition queued (ph : phase) : bool := match ph with PhQueued | Ph2Queued => true | _ => false end.

Definition fut_ok (o : obs V) (Q : list waiter) (id : nat) (f : fut) : Prop :=
  (forall k, call_sub (f_call f) = Some k -> f_phase f <> PhDone -> k < length (subs o)) /\
  (f_call f = ASkip -> f_phase f = PhDone) /\
  match f_phase f with
  | PhQueued => In id (map w_id Q)
  | Ph2Queued => In id (map w_id Q) /\ is_next (f_call f) = true
  | Ph2Granted => is_next (f_call f) = true
  | PhNotify => In id (wakers o) /\
                exists k, call_sub (f_call f) = Some k /\ nth_error (subs o) k = Some (Some (ver o))
  | _ => True
  end.

(* a future for another writer only exists for a call that is one (call_possible) *)
Definition call_wf (c : acall) : Prop := match c with AUpd x => is_writer x = true | _ => True end.
Definition calls_wf (F : list fut) : Prop := forall id f, nth_error F id = Some f -> call_wf (f_call f).

Record PInv (o : obs V) (fr : nat) (Q : list waiter) (F : list fut) (G : list guard) : Prop := {
  pi_owners : owners o = 1;
  pi_ver : 1 <= ver o;
  pi_subs : forall k x, nth_error (subs o) k = Some x -> exists ov, x = Some ov /\ ov <= ver o;
  pi_fut : forall id f, nth_error F id = Some f -> fut_ok o Q id f;
  pi_qnodup : NoDup (map w_id Q);
  pi_q : forall w, In w Q -> exists f, nth_error F (w_id w) = Some f /\ queued (f_phase f) = true /\
                                       0 < w_need w <= tneed f;
  pi_qtl : forall w', In w' (tl Q) -> w_need w' = fneed F (w_id w');
  pi_wk : forall id, In id (wakers o) -> exists f, nth_error F id = Some f /\ f_phase f = PhNotify;
  pi_uniq : forall i j fi fj k, nth_error F i = Some fi -> nth_error F j = Some fj ->
       call_sub (f_call fi) = Some k -> call_sub (f_call fj) = Some k ->
       f_phase fi <> PhDone -> f_phase fj <> PhDone -> i = j;
  pi_glen : length G = length F;
  pi_g : forall id g, nth_error G id = Some g -> g <> GNone ->
                      exists f, nth_error F id = Some f /\ f_phase f = PhDone;
  pi_cons : fr + sumf held_fut F + sumf held_guard G + hq F Q = maxp;
  pi_upd : calls_wf F;
}.

Definition Inv (s : astate) : Prop :=
  PInv (a_obs s) (s_free (a_sem s)) (s_queue (a_sem s)) (a_futs s) (a_guards s) /\
  (s_queue (a_sem s) <> [] -> s_free (a_sem s) = 0).

Lemma need_of_bounds (c : acall) : 1 <= need_of c <= maxp.
Proof. destruct c; cbn; unfold maxp; lia. Qed.

Lemma tneed_bounds (f : fut) : 1 <= tneed f <= maxp.
Proof. unfold tneed. pose proof (need_of_bounds (f_call f)). destruct (f_phase f); unfold maxp in *; lia. Qed.

Lemma in_tl {X} (x : X) l : In x (tl l) -> In x l.
Proof. destruct l; cbn; auto. Qed.

Section Facts.
Variables (o : obs V) (fr : nat) (Q : list waiter) (F : list fut) (G : list guard).
Hypothesis HI : PInv o fr Q F G.

Lemma pinv_notq id f : nth_error F id = Some f -> queued (f_phase f) = false -> ~ In id (map w_id Q).
Proof.
  intros Hf Hq Hin. apply in_map_iff in Hin. destruct Hin as [w [E Hw]]. subst.
  destruct (pi_q _ _ _ _ _ HI _ Hw) as [f' [H1 [H2 _]]]. congruence.
Qed.

Lemma pinv_notw id f : nth_error F id = Some f -> f_phase f <> PhNotify -> ~ In id (wakers o).
Proof.
  intros Hf Hq Hin. destruct (pi_wk _ _ _ _ _ HI _ Hin) as [f' [H1 H2]]. congruence.
Qed.

Lemma pinv_sub id f k : nth_error F id = Some f -> call_sub (f_call f) = Some k -> f_phase f <> PhDone ->
  exists ov, nth_error (subs o) k = Some (Some ov) /\ ov <= ver o.
Proof.
  intros Hf Hk Hp. destruct (pi_fut _ _ _ _ _ HI _ _ Hf) as [H1 _]. specialize (H1 _ Hk Hp).
  destruct (nth_error (subs o) k) as [x|] eqn:E.
  - destruct (pi_subs _ _ _ _ _ HI _ _ E) as [ov [? ?]]. subst. eauto.
  - apply nth_error_None in E. lia.
Qed.

Lemma pinv_guard_none id f : nth_error F id = Some f -> f_phase f <> PhDone -> nth_error G id = Some GNone.
Proof.
  intros Hf Hp. destruct (nth_error G id) as [g|] eqn:E.
  - destruct g; auto; destruct (pi_g _ _ _ _ _ HI _ _ E) as [f' [? ?]]; congruence.
  - apply nth_error_None in E. rewrite (pi_glen _ _ _ _ _ HI) in E.
    assert (nth_error F id <> None) by congruence. apply nth_error_Some in H. lia.
Qed.
End Facts.

(* pointwise facts about one changed future *)
Lemma fneed_upd_at_neq id g (F : list fut) j : j <> id -> fneed (upd_at id g F) j = fneed F j.
Proof. intros. unfold fneed. rewrite nth_error_upd_at_neq; auto. Qed.

Lemma hq_upd_at id g (F : list fut) Q : ~ In id (map w_id Q) -> hq (upd_at id g F) Q = hq F Q.
Proof.
  destruct Q as [|w Q]; cbn; auto. intros. rewrite fneed_upd_at_neq; auto.
Qed.

Lemma sumf_upd_at id g (F : list fut) f :
  nth_error F id = Some f ->
  sumf held_fut (upd_at id g F) + held_fut f = sumf held_fut F + held_fut (app_ph g f).
Proof. intros. unfold upd_at. rewrite H. apply sumf_set_nth. auto. Qed.

Lemma calls_wf_upd_at id g (F : list fut) : calls_wf F -> calls_wf (upd_at id g F).
Proof.
  intros H j fj Hj. rewrite nth_error_upd_at in Hj. destruct (j =? id); [|eauto].
  destruct (nth_error F j) as [f0|] eqn:E; cbn in Hj; inversion Hj; subst. cbn. eauto.
Qed.

Lemma calls_wf_mn ids : forall (F : list fut), calls_wf F -> calls_wf (mn_futs F ids).
Proof.
  induction ids as [|a ids IH]; intros F H; auto.
  change (mn_futs F (a :: ids)) with (mn_futs (set_ph a PhNotified F) ids).
  apply IH. apply calls_wf_upd_at. auto.
Qed.

Lemma calls_wf_snoc (F : list fut) c X :
  calls_wf F -> call_wf c -> calls_wf (F ++ [{| f_call := c; f_phase := X |}]).
Proof.
  intros H Hc j fj Hj. apply nth_error_snoc in Hj. destruct Hj as [[_ Hj]|[_ Hj]]; [eauto|subst; auto].
Qed.

End Inv.
#[global] Hint Resolve calls_wf_upd_at calls_wf_mn calls_wf_snoc : core.

Section Trans1.
Context {V : Type}.
Notation fut := (@fut V).
Notation astate := (astate V).
Notation acall := (acall V).

Lemma pinv_move (o : obs V) fr fr' Q (F : list fut) G id f X :
  PInv o fr Q F G -> nth_error F id = Some f ->
  queued (f_phase f) = false -> f_phase f <> PhNotify -> f_phase f <> PhDone ->
  queued X = false -> X <> PhNotify -> (X = Ph2Granted -> is_next (f_call f) = true) ->
  fr' + held_fut (app_ph (fun _ => X) f) = fr + held_fut f ->
  PInv o fr' Q (set_ph id X F) G.
Proof.
  intros HI Hf Hq Hn Hd HXq HXn HX2 Hfr.
  pose proof (pinv_notq _ _ _ _ _ HI _ _ Hf Hq) as NQ.
  pose proof (pinv_notw _ _ _ _ _ HI _ _ Hf Hn) as NW.
  destruct HI as [Ho Hv Hs Hfu Hnd Hqq Hqt Hwk Hun Hgl Hg Hc Hup]. unfold set_ph. constructor; auto.
  - intros j fj Hj. rewrite nth_error_upd_at in Hj. destruct (Nat.eqb_spec j id).
    + subst. rewrite Hf in Hj. cbn in Hj. inversion Hj; subst; clear Hj.
      destruct (Hfu _ _ Hf) as (A & B & C). unfold fut_ok, app_ph; cbn. split; [|split].
      * intros. apply A; auto.
      * intro E. specialize (B E). congruence.
      * destruct X; cbn in *; auto; try congruence.
    + apply Hfu; auto.
  - intros w Hw. destruct (Hqq _ Hw) as (fw & A & B & C).
    exists fw. rewrite nth_error_upd_at_neq; auto.
    intro E. apply NQ. rewrite <- E. apply in_map. auto.
  - intros w Hw. rewrite fneed_upd_at_neq; auto.
    intro E. apply NQ. rewrite <- E. apply in_map. apply in_tl. auto.
  - intros j Hj. destruct (Hwk _ Hj) as (fj & A & B). exists fj. rewrite nth_error_upd_at_neq; auto.
    intro; subst. auto.
  - intros i j fi fj k Hi Hj. rewrite nth_error_upd_at in Hi, Hj.
    assert (exists fi0, nth_error F i = Some fi0 /\ f_call fi0 = f_call fi /\ (f_phase fi <> PhDone -> f_phase fi0 <> PhDone)) as (fi0 & A1 & A2 & A3).
    { destruct (Nat.eqb_spec i id).
      - subst. rewrite Hf in Hi. inversion Hi; subst. exists f. cbn. auto.
      - exists fi. auto. }
    assert (exists fj0, nth_error F j = Some fj0 /\ f_call fj0 = f_call fj /\ (f_phase fj <> PhDone -> f_phase fj0 <> PhDone)) as (fj0 & B1 & B2 & B3).
    { destruct (Nat.eqb_spec j id).
      - subst. rewrite Hf in Hj. inversion Hj; subst. exists f. cbn. auto.
      - exists fj. auto. }
    intros. eapply (Hun i j fi0 fj0 k); eauto; congruence.
  - rewrite upd_at_length. auto.
  - intros j g Hj Hgn. destruct (Hg _ _ Hj Hgn) as (fj & A & B). exists fj.
    rewrite nth_error_upd_at_neq; auto. intro; subst. congruence.
  - pose proof (sumf_upd_at id (fun _ => X) F f Hf). rewrite hq_upd_at by auto. lia.
Qed.

(* T2: a subscriber catches up *)
Lemma pinv_subs_set (o : obs V) fr Q (F : list fut) G k :
  PInv o fr Q F G ->
  PInv (with_subs o (set_nth k (Some (ver o)) (subs o))) fr Q F G.
Proof.
  intros HI. destruct HI as [Ho Hv Hs Hfu Hnd Hqq Hqt Hwk Hun Hgl Hg Hc Hup].
  constructor; auto; cbn [with_subs owners ver subs wakers].
  - intros j x Hj. rewrite nth_error_set_nth in Hj. destruct (Nat.eqb_spec j k).
    + subst. destruct (nth_error (subs o) k); cbn in Hj; inversion Hj. eauto.
    + eauto.
  - intros j fj Hj. destruct (Hfu _ _ Hj) as (A & B & C). unfold fut_ok.
    cbn [with_subs owners ver subs wakers]. rewrite set_nth_length. split; [|split]; auto.
    destruct (f_phase fj); auto. destruct C as (C1 & k' & C2 & C3). split; auto.
    exists k'. split; auto. rewrite nth_error_set_nth. destruct (Nat.eqb_spec k' k); auto.
    subst. rewrite C3. reflexivity.
Qed.

(* T10: a guard is handed back *)
Lemma pinv_guard_drop (o : obs V) fr Q (F : list fut) G id g :
  PInv o fr Q F G -> nth_error G id = Some g ->
  PInv o (fr + held_guard g) Q F (set_nth id GNone G).
Proof.
  intros HI HG. destruct HI as [Ho Hv Hs Hfu Hnd Hqq Hqt Hwk Hun Hgl Hg Hc Hup].
  constructor; auto.
  - rewrite set_nth_length. auto.
  - intros j g' Hj Hn. rewrite nth_error_set_nth in Hj. destruct (Nat.eqb_spec j id).
    + subst. rewrite HG in Hj. cbn in Hj. congruence.
    + eauto.
  - pose proof (sumf_set_nth held_guard G id GNone g HG). cbn [held_guard] in H. lia.
Qed.

(* T9: a completed write()/read() keeps its permits as a guard *)
Lemma pinv_guard_take (o : obs V) fr Q (F : list fut) G id f g :
  PInv o (fr + held_guard g) Q F G -> nth_error F id = Some f -> f_phase f = PhDone ->
  nth_error G id = Some GNone ->
  PInv o fr Q F (set_nth id g G).
Proof.
  intros HI Hf Hd HG. destruct HI as [Ho Hv Hs Hfu Hnd Hqq Hqt Hwk Hun Hgl Hg Hc Hup].
  constructor; auto.
  - rewrite set_nth_length. auto.
  - intros j g' Hj Hn. rewrite nth_error_set_nth in Hj. destruct (Nat.eqb_spec j id).
    + subst. eauto.
    + eauto.
  - pose proof (sumf_set_nth held_guard G id g GNone HG). cbn [held_guard] in H. lia.
Qed.

(* T3: a notifying update *)
Lemma sumf_mn ids : forall (F : list fut),
  (forall id f, In id ids -> nth_error F id = Some f -> held_fut f = 0) ->
  sumf held_fut (mn_futs F ids) = sumf held_fut F.
Proof.
  induction ids as [|a ids IH]; intros F H; auto.
  change (mn_futs F (a :: ids)) with (mn_futs (set_ph a PhNotified F) ids). rewrite IH.
  - unfold set_ph. destruct (nth_error F a) as [f|] eqn:E.
    + pose proof (sumf_upd_at a (fun _ => PhNotified) F f E). rewrite (H a f) in H0; cbn; auto.
      change (held_fut (app_ph (fun _ : phase => PhNotified) f)) with 0 in H0. lia.
    + unfold upd_at. rewrite E. auto.
  - intros id f Hin Hf. unfold set_ph in Hf. rewrite nth_error_upd_at in Hf.
    destruct (Nat.eqb_spec id a).
    + destruct (nth_error F id); cbn in Hf; inversion Hf. reflexivity.
    + eapply H; eauto. cbn; auto.
Qed.

Lemma mn_cases (o : obs V) fr Q (F : list fut) G j fj' :
  PInv o fr Q F G -> nth_error (mn_futs F (wakers o)) j = Some fj' ->
  exists fj, nth_error F j = Some fj /\
    ((~ In j (wakers o) /\ fj' = fj /\ f_phase fj <> PhNotify) \/
     (In j (wakers o) /\ f_phase fj = PhNotify /\ fj' = app_ph (fun _ => PhNotified) fj)).
Proof.
  intros HI Hj. rewrite nth_error_mn_futs in Hj.
  destruct (existsb (Nat.eqb j) (wakers o)) eqn:E.
  - apply existsb_eqb_In in E. destruct (pi_wk _ _ _ _ _ HI _ E) as (fj & A & B).
    exists fj. split; auto. right. rewrite A in Hj. cbn in Hj. inversion Hj. auto.
  - exists fj'. split; auto. left.
    assert (~ In j (wakers o)). { intro X. apply existsb_eqb_In in X. congruence. }
    split; auto. split; auto. intro P.
    destruct (pi_fut _ _ _ _ _ HI _ _ Hj) as (_ & _ & C). rewrite P in C. tauto.
Qed.

Lemma mn_keep (o : obs V) fr Q (F : list fut) G j fj :
  PInv o fr Q F G -> nth_error F j = Some fj -> f_phase fj <> PhNotify ->
  nth_error (mn_futs F (wakers o)) j = Some fj.
Proof.
  intros HI Hj Hp. rewrite nth_error_mn_futs.
  destruct (existsb (Nat.eqb j) (wakers o)) eqn:E; auto.
  apply existsb_eqb_In in E. destruct (pi_wk _ _ _ _ _ HI _ E) as (f' & A & B). congruence.
Qed.

Lemma pinv_notify (o : obs V) fr Q (F : list fut) G v :
  PInv o fr Q F G ->
  PInv (upd o v (S (ver o)) []) fr Q (mn_futs F (wakers o)) G.
Proof.
  intros HI. pose proof HI as HI'.
  destruct HI as [Ho Hv Hs Hfu Hnd Hqq Hqt Hwk Hun Hgl Hg Hc Hup].
  constructor; auto; cbn [upd owners ver subs wakers].
  - lia.
  - intros k x Hk. destruct (Hs _ _ Hk) as (ov & ? & ?). exists ov. split; auto.
  - intros j fj' Hj. destruct (mn_cases _ _ _ _ _ _ _ HI' Hj) as (fj & A & [(B1 & B2 & B3)|(B1 & B2 & B3)]).
    + subst. destruct (Hfu _ _ A) as (C1 & C2 & C3). unfold fut_ok. cbn [upd owners ver subs wakers].
      split; [|split]; auto. destruct (f_phase fj); auto. congruence.
    + subst. destruct (Hfu _ _ A) as (C1 & C2 & C3). unfold fut_ok, app_ph. cbn.
      split; [|split]; auto.
      * intros. apply C1; auto. congruence.
      * intro X. specialize (C2 X). congruence.
  - intros w Hw. destruct (Hqq _ Hw) as (fw & A & B & C). exists fw. split; auto.
    eapply mn_keep; eauto. intro X. rewrite X in B. discriminate.
  - intros w Hw. rewrite (Hqt _ Hw). unfold fneed.
    destruct (Hqq _ (in_tl _ _ Hw)) as (fw & A & B & C). rewrite A.
    erewrite mn_keep; eauto. intro X. rewrite X in B. discriminate.
  - intros j [].
  - intros i j fi' fj' k Hi Hj.
    destruct (mn_cases _ _ _ _ _ _ _ HI' Hi) as (fi & A & [(B1 & B2 & B3)|(B1 & B2 & B3)]);
    destruct (mn_cases _ _ _ _ _ _ _ HI' Hj) as (fj & A' & [(B1' & B2' & B3')|(B1' & B2' & B3')]);
    subst; cbn; intros; eapply (Hun i j fi fj k); eauto; congruence.
  - rewrite mn_futs_length. auto.
  - intros j g Hj Hn. destruct (Hg _ _ Hj Hn) as (fj & A & B). exists fj. split; auto.
    eapply mn_keep; eauto. congruence.
  - rewrite sumf_mn.
    + replace (hq (mn_futs F (wakers o)) Q) with (hq F Q); auto.
      destruct Q as [|w Q]; cbn; auto. unfold fneed.
      destruct (Hqq w (or_introl eq_refl)) as (fw & A & B & C). rewrite A.
      erewrite mn_keep; eauto. intro X. rewrite X in B. discriminate.
    + intros j f Hin Hf. destruct (Hwk _ Hin) as (f' & A & B). rewrite A in Hf. inversion Hf; subst.
      unfold held_fut. rewrite B. reflexivity.
Qed.

(* T4: a pending next registers its waker *)
Lemma pinv_register (o : obs V) fr Q (F : list fut) G id f k :
  PInv o fr Q F G -> nth_error F id = Some f -> f_phase f = PhNotified ->
  call_sub (f_call f) = Some k -> nth_error (subs o) k = Some (Some (ver o)) ->
  PInv (upd o (val o) (ver o) (wakers o ++ [id])) fr Q (set_ph id PhNotify F) G.
Proof.
  intros HI Hf Hp Hk Hsk.
  assert (Hq : queued (f_phase f) = false) by (rewrite Hp; reflexivity).
  pose proof (pinv_notq _ _ _ _ _ HI _ _ Hf Hq) as NQ.
  destruct HI as [Ho Hv Hs Hfu Hnd Hqq Hqt Hwk Hun Hgl Hg Hc Hup].
  unfold set_ph. constructor; auto; cbn [upd owners ver subs wakers].
  - intros j fj Hj. rewrite nth_error_upd_at in Hj. destruct (Nat.eqb_spec j id).
    + subst. rewrite Hf in Hj. cbn in Hj. inversion Hj; subst; clear Hj.
      destruct (Hfu _ _ Hf) as (A & B & C). unfold fut_ok, app_ph; cbn. split; [|split].
      * intros. apply A; auto. congruence.
      * intro E. specialize (B E). congruence.
      * split. apply in_or_app; cbn; auto. eauto.
    + destruct (Hfu _ _ Hj) as (A & B & C). unfold fut_ok. cbn [upd owners ver subs wakers].
      split; [|split]; auto. destruct (f_phase fj); auto. destruct C. split; auto. apply in_or_app; auto.
  - intros w Hw. destruct (Hqq _ Hw) as (fw & A & B & C).
    exists fw. rewrite nth_error_upd_at_neq; auto.
    intro E. apply NQ. rewrite <- E. apply in_map. auto.
  - intros w Hw. rewrite fneed_upd_at_neq; auto.
    intro E. apply NQ. rewrite <- E. apply in_map. apply in_tl. auto.
  - intros j Hj. apply in_app_or in Hj. destruct Hj as [Hj|[Hj|[]]].
    + destruct (Hwk _ Hj) as (fj & A & B). assert (j <> id) by congruence.
      exists fj. rewrite nth_error_upd_at_neq; auto.
    + subst. rewrite (nth_error_upd_at_eq _ _ _ _ Hf). eexists; split; eauto.
  - intros i j fi fj k' Hi Hj. rewrite nth_error_upd_at in Hi, Hj.
    assert (exists fi0, nth_error F i = Some fi0 /\ f_call fi0 = f_call fi /\ (f_phase fi <> PhDone -> f_phase fi0 <> PhDone)) as (fi0 & A1 & A2 & A3).
    { destruct (Nat.eqb_spec i id).
      - subst. rewrite Hf in Hi. inversion Hi; subst. exists f. cbn. split; auto. split; auto. congruence.
      - exists fi. auto. }
    assert (exists fj0, nth_error F j = Some fj0 /\ f_call fj0 = f_call fj /\ (f_phase fj <> PhDone -> f_phase fj0 <> PhDone)) as (fj0 & B1 & B2 & B3).
    { destruct (Nat.eqb_spec j id).
      - subst. rewrite Hf in Hj. inversion Hj; subst. exists f. cbn. split; auto. split; auto. congruence.
      - exists fj. auto. }
    intros. eapply (Hun i j fi0 fj0 k'); eauto; congruence.
  - rewrite upd_at_length. auto.
  - intros j g Hj Hgn. destruct (Hg _ _ Hj Hgn) as (fj & A & B). exists fj.
    rewrite nth_error_upd_at_neq; auto. intro; subst. congruence.
  - pose proof (sumf_upd_at id (fun _ => PhNotify) F f Hf). rewrite hq_upd_at by auto.
    change (held_fut (app_ph (fun _ : phase => PhNotify) f)) with 0 in H.
    assert (held_fut f = 0) by (unfold held_fut; rewrite Hp; reflexivity). lia.
Qed.
End Trans1.

Section Trans2.
Context {V : Type}.
Notation fut := (@fut V).
Notation astate := (astate V).
Notation acall := (acall V).

Definition p2key (f : fut) : option nat :=
  match f_call f, f_phase f with
  | (ANext k | ANextRef k), (Ph2Queued | Ph2Granted) => Some k
  | _, _ => None
  end.

Lemma p2key_grant (f : fut) : queued (f_phase f) = true -> p2key (app_ph grant f) = p2key f.
Proof. destruct f as [c p]. unfold p2key, app_ph; cbn. destruct p; try discriminate; destruct c; reflexivity. Qed.

Lemma map_upd_at {Y} (h : fut -> Y) id g (F : list fut) :
  (forall f, nth_error F id = Some f -> h (app_ph g f) = h f) -> map h (upd_at id g F) = map h F.
Proof.
  intros. apply nth_error_ext. intro k. rewrite !nth_error_map', nth_error_upd_at.
  destruct (Nat.eqb_spec k id); auto. subst. destruct (nth_error F id); cbn; auto. rewrite H; auto.
Qed.

(* T6, one step: the queue head has been served *)
Lemma pinv_pop (o : obs V) fr w Q (F : list fut) G :
  PInv o fr (w :: Q) F G -> w_need w <= fr ->
  PInv o (fr - w_need w) Q (upd_at (w_id w) grant F) G /\
  map p2key (upd_at (w_id w) grant F) = map p2key F.
Proof.
  intros HI Hle.
  destruct HI as [Ho Hv Hs Hfu Hnd Hqq Hqt Hwk Hun Hgl Hg Hc Hup].
  destruct (Hqq w (or_introl eq_refl)) as (f & Hf & Hfq & Hfn).
  cbn in Hnd. inversion Hnd as [|x l Hnin Hnd']; subst.
  assert (Hne : forall w', In w' Q -> w_id w' <> w_id w).
  { intros w' Hw' E. apply Hnin. rewrite <- E. apply in_map; auto. }
  split.
  2:{ apply map_upd_at. intros f0 Hf0. rewrite Hf in Hf0. inversion Hf0; subst. apply p2key_grant; auto. }
  constructor; auto.
  - intros j fj Hj. rewrite nth_error_upd_at in Hj. destruct (Nat.eqb_spec j (w_id w)).
    + subst. rewrite Hf in Hj. cbn in Hj. inversion Hj; subst; clear Hj.
      destruct (Hfu _ _ Hf) as (A & B & C). unfold fut_ok, app_ph; cbn. split; [|split].
      * intros. apply A; auto. intro X. rewrite X in Hfq. discriminate.
      * intro E. specialize (B E). rewrite B in Hfq. discriminate.
      * destruct (f_phase f); try discriminate; cbn; tauto.
    + destruct (Hfu _ _ Hj) as (A & B & C). unfold fut_ok. split; [|split]; auto.
      destruct (f_phase fj); auto.
      * cbn in C. destruct C; [congruence|auto].
      * destruct C as [C C']. cbn in C. split; auto. destruct C; [congruence|auto].
  - intros w' Hw'. destruct (Hqq w' (or_intror Hw')) as (fw & A & B & C).
    exists fw. rewrite nth_error_upd_at_neq; auto.
  - intros w' Hw'. rewrite fneed_upd_at_neq; auto. apply Hqt. cbn. apply in_tl; auto.
    apply Hne. apply in_tl; auto.
  - intros j Hj. destruct (Hwk _ Hj) as (fj & A & B). exists fj. rewrite nth_error_upd_at_neq; auto.
    intro; subst. rewrite Hf in A. inversion A; subst. rewrite B in Hfq. discriminate.
  - intros i j fi fj k Hi Hj. rewrite nth_error_upd_at in Hi, Hj.
    assert (exists fi0, nth_error F i = Some fi0 /\ f_call fi0 = f_call fi /\ (f_phase fi <> PhDone -> f_phase fi0 <> PhDone)) as (fi0 & A1 & A2 & A3).
    { destruct (Nat.eqb_spec i (w_id w)).
      - subst. rewrite Hf in Hi. inversion Hi; subst. exists f. cbn. split; auto. split; auto.
        intros _ X. rewrite X in Hfq. discriminate.
      - exists fi. auto. }
    assert (exists fj0, nth_error F j = Some fj0 /\ f_call fj0 = f_call fj /\ (f_phase fj <> PhDone -> f_phase fj0 <> PhDone)) as (fj0 & B1 & B2 & B3).
    { destruct (Nat.eqb_spec j (w_id w)).
      - subst. rewrite Hf in Hj. inversion Hj; subst. exists f. cbn. split; auto. split; auto.
        intros _ X. rewrite X in Hfq. discriminate.
      - exists fj. auto. }
    intros. eapply (Hun i j fi0 fj0 k); eauto; congruence.
  - rewrite upd_at_length. auto.
  - intros j g Hj Hgn. destruct (Hg _ _ Hj Hgn) as (fj & A & B). exists fj.
    rewrite nth_error_upd_at_neq; auto. intro; subst. rewrite Hf in A. inversion A; subst.
    rewrite B in Hfq. discriminate.
  - pose proof (sumf_upd_at (w_id w) grant F f Hf).
    assert (held_fut f = 0) by (unfold held_fut; destruct (f_phase f); try discriminate; auto).
    assert (held_fut (app_ph grant f) = tneed f)
      by (unfold held_fut, tneed, app_ph; cbn; destruct (f_phase f); try discriminate; auto).
    cbn [hq] in Hc. unfold fneed in Hc. rewrite Hf in Hc.
    assert (hq (upd_at (w_id w) grant F) Q = 0).
    { destruct Q as [|w2 Q2]; cbn; auto. rewrite fneed_upd_at_neq by (apply Hne; cbn; auto).
      rewrite (Hqt w2) by (cbn; auto). lia. }
    lia.
Qed.

Lemma pinv_partial (o : obs V) fr w Q (F : list fut) G :
  PInv o fr (w :: Q) F G -> fr < w_need w ->
  PInv o 0 ({| w_id := w_id w; w_need := w_need w - fr |} :: Q) F G.
Proof.
  intros HI Hlt.
  destruct HI as [Ho Hv Hs Hfu Hnd Hqq Hqt Hwk Hun Hgl Hg Hc Hup].
  destruct (Hqq w (or_introl eq_refl)) as (f & Hf & Hfq & Hfn).
  constructor; auto.
  - intros w' [E|Hw'].
    + subst. cbn. exists f. split; auto. split; auto. lia.
    + apply Hqq. right; auto.
  - cbn [hq w_id w_need] in *. unfold fneed in *. rewrite Hf in *. lia.
Qed.

Lemma release_loop : forall Q (o : obs V) fr (F : list fut) G n' Q' wk,
  PInv o fr Q F G -> sem_assign fr Q [] = (n', Q', wk) ->
  PInv o n' Q' (mg_futs F wk) G /\ (Q' <> [] -> n' = 0) /\ map p2key (mg_futs F wk) = map p2key F.
Proof.
  induction Q as [|w Q IH]; intros o fr F G n' Q' wk HI E; cbn in E.
  - inversion E; subst. cbn. split; auto. split; auto. congruence.
  - destruct (Nat.leb_spec (w_need w) fr).
    + rewrite sem_assign_app in E.
      destruct (sem_assign (fr - w_need w) Q []) as [[a b] c] eqn:E2. inversion E; subst; clear E.
      destruct (pinv_pop _ _ _ _ _ _ HI H) as [HI2 HM].
      destruct (IH _ _ _ _ _ _ _ HI2 E2) as (A & B & C).
      cbn [app]. change (mg_futs F (w_id w :: c)) with (mg_futs (upd_at (w_id w) grant F) c).
      split; auto. split; auto. congruence.
    + inversion E; subst; clear E. cbn. split; [|split]; auto.
      apply pinv_partial; auto.
Qed.

Lemma sem_assign_incl : forall Q n n' Q' wk,
  sem_assign n Q [] = (n', Q', wk) -> forall i, In i wk -> In i (map w_id Q).
Proof.
  induction Q as [|w Q IH]; intros n n' Q' wk E i Hi; cbn in E.
  - inversion E; subst. destruct Hi.
  - destruct (w_need w <=? n).
    + rewrite sem_assign_app in E.
      destruct (sem_assign (n - w_need w) Q []) as [[a b] c] eqn:E2. inversion E; subst; clear E.
      cbn in Hi. destruct Hi as [Hi|Hi]; [left; auto|right; eapply IH; eauto].
    + inversion E; subst. destruct Hi.
Qed.

Lemma release_inv (o : obs V) sm n sm' wk (F : list fut) G :
  PInv o (s_free sm + n) (s_queue sm) F G ->
  sem_release sm n = (sm', wk) ->
  PInv o (s_free sm') (s_queue sm') (mg_futs F wk) G /\ (s_queue sm' <> [] -> s_free sm' = 0) /\
  map p2key (mg_futs F wk) = map p2key F /\
  (forall i, In i wk -> In i (map w_id (s_queue sm))).
Proof.
  intros HI E4. unfold sem_release in E4.
  destruct (sem_assign (s_free sm + n) (s_queue sm) []) as [[a b] c] eqn:E5.
  inversion E4; subst; clear E4.
  destruct (release_loop _ _ _ _ _ _ _ _ HI E5) as (A & B & C).
  cbn. split; auto. split; auto. split; auto. eapply sem_assign_incl; eauto.
Qed.

Lemma NoDup_app_snoc {X} (l : list X) x : NoDup l -> ~ In x l -> NoDup (l ++ [x]).
Proof.
  induction l; cbn; intros.
  - constructor; auto.
  - inversion H; subst. constructor.
    + rewrite in_app_iff. cbn. intuition.
    + apply IHl; auto.
Qed.

(* T7: enqueueing *)
Lemma pinv_enqueue (o : obs V) fr fr' Q (F : list fut) G id f Xq wn :
  PInv o fr Q F G -> nth_error F id = Some f -> f_phase f = PhNotified ->
  queued Xq = true -> (Xq = Ph2Queued -> is_next (f_call f) = true) ->
  ((Q = [] /\ fr' = 0 /\ 0 < wn /\ wn + fr = tneed (app_ph (fun _ => Xq) f)) \/
   (Q <> [] /\ fr' = fr /\ wn = tneed (app_ph (fun _ => Xq) f))) ->
  PInv o fr' (Q ++ [{| w_id := id; w_need := wn |}]) (set_ph id Xq F) G.
Proof.
  intros HI Hf Hp HXq HX2 Hcase.
  assert (Hq : queued (f_phase f) = false) by (rewrite Hp; reflexivity).
  pose proof (pinv_notq _ _ _ _ _ HI _ _ Hf Hq) as NQ.
  assert (Hn : f_phase f <> PhNotify) by congruence.
  pose proof (pinv_notw _ _ _ _ _ HI _ _ Hf Hn) as NW.
  destruct HI as [Ho Hv Hs Hfu Hnd Hqq Hqt Hwk Hun Hgl Hg Hc Hup].
  pose proof (tneed_bounds (app_ph (fun _ => Xq) f)) as TB.
  unfold set_ph. constructor; auto.
  - intros j fj Hj. rewrite nth_error_upd_at in Hj. destruct (Nat.eqb_spec j id).
    + subst. rewrite Hf in Hj. cbn in Hj. inversion Hj; subst; clear Hj.
      destruct (Hfu _ _ Hf) as (A & B & C). unfold fut_ok, app_ph; cbn. split; [|split].
      * intros. apply A; auto. congruence.
      * intro E. specialize (B E). congruence.
      * assert (In id (map w_id (Q ++ [{| w_id := id; w_need := wn |}])))
          by (rewrite map_app, in_app_iff; cbn; auto).
        destruct Xq; try discriminate; auto.
    + destruct (Hfu _ _ Hj) as (A & B & C). unfold fut_ok. split; [|split]; auto.
      assert (forall x, In x (map w_id Q) -> In x (map w_id (Q ++ [{| w_id := id; w_need := wn |}])))
        by (intros; rewrite map_app, in_app_iff; auto).
      destruct (f_phase fj); intuition.
  - rewrite map_app. cbn. apply NoDup_app_snoc; auto.
  - intros w Hw. apply in_app_or in Hw. destruct Hw as [Hw|[Hw|[]]].
    + destruct (Hqq _ Hw) as (fw & A & B & C).
      exists fw. rewrite nth_error_upd_at_neq; auto.
      intro E. apply NQ. rewrite <- E. apply in_map. auto.
    + subst. cbn. rewrite (nth_error_upd_at_eq _ _ _ _ Hf). eexists; split; eauto. split; auto.
      destruct Hcase as [(? & ? & ? & ?)|(? & ? & ?)]; lia.
  - intros w Hw. destruct Hcase as [(? & ? & ? & ?)|(Qn & ? & ?)].
    + subst. cbn in Hw. tauto.
    + destruct Q as [|w0 Q0]; [congruence|]. cbn in Hw. apply in_app_or in Hw. destruct Hw as [Hw|[Hw|[]]].
      * rewrite fneed_upd_at_neq. apply Hqt; auto.
        intro E. apply NQ. rewrite <- E. apply in_map. right. auto.
      * subst. cbn. unfold fneed. rewrite (nth_error_upd_at_eq _ _ _ _ Hf). auto.
  - intros j Hj. destruct (Hwk _ Hj) as (fj & A & B). exists fj. rewrite nth_error_upd_at_neq; auto.
    intro; subst. auto.
  - intros i j fi fj k Hi Hj. rewrite nth_error_upd_at in Hi, Hj.
    assert (exists fi0, nth_error F i = Some fi0 /\ f_call fi0 = f_call fi /\ (f_phase fi <> PhDone -> f_phase fi0 <> PhDone)) as (fi0 & A1 & A2 & A3).
    { destruct (Nat.eqb_spec i id).
      - subst. rewrite Hf in Hi. inversion Hi; subst. exists f. cbn. split; auto. split; auto. congruence.
      - exists fi. auto. }
    assert (exists fj0, nth_error F j = Some fj0 /\ f_call fj0 = f_call fj /\ (f_phase fj <> PhDone -> f_phase fj0 <> PhDone)) as (fj0 & B1 & B2 & B3).
    { destruct (Nat.eqb_spec j id).
      - subst. rewrite Hf in Hj. inversion Hj; subst. exists f. cbn. split; auto. split; auto. congruence.
      - exists fj. auto. }
    intros. eapply (Hun i j fi0 fj0 k); eauto; congruence.
  - rewrite upd_at_length. auto.
  - intros j g Hj Hgn. destruct (Hg _ _ Hj Hgn) as (fj & A & B). exists fj.
    rewrite nth_error_upd_at_neq; auto. intro; subst. congruence.
  - pose proof (sumf_upd_at id (fun _ => Xq) F f Hf).
    assert (held_fut f = 0) by (unfold held_fut; rewrite Hp; reflexivity).
    assert (held_fut (app_ph (fun _ => Xq) f) = 0)
      by (unfold held_fut, app_ph; cbn; destruct Xq; try discriminate; auto).
    destruct Hcase as [(? & ? & ? & ?)|(Qn & ? & ?)].
    + subst. cbn [app hq w_id w_need] in *. unfold fneed. rewrite (nth_error_upd_at_eq _ _ _ _ Hf). lia.
    + destruct Q as [|w0 Q0]; [congruence|]. cbn [app hq] in *.
      rewrite fneed_upd_at_neq. lia. intro E. apply NQ. rewrite <- E. cbn. auto.
Qed.

Lemma acquire_inv (o : obs V) sm0 (F : list fut) G id f (second : bool) sm ok :
  PInv o (s_free sm0) (s_queue sm0) F G -> (s_queue sm0 <> [] -> s_free sm0 = 0) ->
  nth_error F id = Some f -> f_phase f = PhNotified ->
  (second = true -> is_next (f_call f) = true) ->
  sem_acquire sm0 id (if second then 1 else need_of (f_call f)) = (sm, ok) ->
  PInv o (s_free sm) (s_queue sm)
       (set_ph id (if ok then (if second then Ph2Granted else PhGranted)
                   else (if second then Ph2Queued else PhQueued)) F) G /\
  (s_queue sm <> [] -> s_free sm = 0).
Proof.
  intros HI HF Hf Hp H2 E. unfold sem_acquire in E.
  set (need := if second then 1 else need_of (f_call f)) in *.
  assert (Hneed : forall X, X = (if second then Ph2Queued else PhQueued) -> tneed (app_ph (fun _ => X) f) = need).
  { intros X ->. unfold tneed, app_ph, need. destruct second; reflexivity. }
  destruct (s_queue sm0) as [|w0 Q0] eqn:EQ.
  - destruct (Nat.leb_spec need (s_free sm0)).
    + inversion E; subst; clear E. cbn. split; [|congruence].
      eapply pinv_move; eauto; try (rewrite Hp; congruence || reflexivity).
      * destruct second; reflexivity.
      * destruct second; congruence.
      * destruct second; auto. discriminate.
      * unfold held_fut, app_ph. rewrite Hp. subst need. destruct second; cbn; lia.
    + inversion E; subst; clear E. cbn. split; auto.
      change [{| w_id := id; w_need := need - s_free sm0 |}]
        with ([] ++ [{| w_id := id; w_need := need - s_free sm0 |}]).
      eapply pinv_enqueue; eauto.
      * destruct second; reflexivity.
      * destruct second; auto. discriminate.
      * left. rewrite (Hneed _ eq_refl). repeat split; auto; lia.
  - inversion E; subst; clear E. cbn [s_free s_queue]. split.
    2:{ intros _. apply HF. congruence. }
    change (w0 :: Q0 ++ [{| w_id := id; w_need := need |}]) with ((w0 :: Q0) ++ [{| w_id := id; w_need := need |}]).
    eapply pinv_enqueue; eauto.
    * destruct second; reflexivity.
    * destruct second; auto. discriminate.
    * right. rewrite (Hneed _ eq_refl). repeat split; auto. congruence.
Qed.

(* T8: a new future *)
Lemma pinv_snoc (o : obs V) fr Q (F : list fut) G c X :
  PInv o fr Q F G -> (X = PhNotified \/ X = PhDone) ->
  (c = ASkip -> X = PhDone) ->
  (forall k, call_sub c = Some k -> X <> PhDone ->
     k < length (subs o) /\
     forall j fj, nth_error F j = Some fj -> call_sub (f_call fj) = Some k -> f_phase fj = PhDone) ->
  call_wf c ->
  PInv o fr Q (F ++ [{| f_call := c; f_phase := X |}]) (G ++ [GNone]).
Proof.
  intros HI HX Hsk Hsub Hwf.
  destruct HI as [Ho Hv Hs Hfu Hnd Hqq Hqt Hwk Hun Hgl Hg Hc Hup].
  constructor; auto.
  - intros j fj Hj. apply nth_error_snoc in Hj. destruct Hj as [[_ Hj]|[_ Hj]].
    + auto.
    + subst. unfold fut_ok. cbn. split; [|split]; auto.
      * intros. apply Hsub; auto.
      * destruct HX; subst; auto.
  - intros w Hw. destruct (Hqq _ Hw) as (fw & A & B & C). exists fw. split; auto.
    apply nth_error_app_l; auto.
  - intros w Hw. rewrite (Hqt _ Hw). destruct (Hqq _ (in_tl _ _ Hw)) as (fw & A & B & C).
    unfold fneed. rewrite A, (nth_error_app_l _ _ _ _ A). auto.
  - intros j Hj. destruct (Hwk _ Hj) as (fj & A & B). exists fj. split; auto. apply nth_error_app_l; auto.
  - intros i j fi fj k Hi Hj Ci Cj Pi Pj.
    apply nth_error_snoc in Hi. apply nth_error_snoc in Hj.
    destruct Hi as [[_ Hi]|[Hi1 Hi]], Hj as [[_ Hj]|[Hj1 Hj]].
    + eapply Hun; eauto.
    + subst. cbn in *. destruct (Hsub _ Cj Pj) as [_ A]. specialize (A _ _ Hi Ci). congruence.
    + subst. cbn in *. destruct (Hsub _ Ci Pi) as [_ A]. specialize (A _ _ Hj Cj). congruence.
    + congruence.
  - rewrite !app_length. cbn. lia.
  - intros j g Hj Hn. apply nth_error_snoc in Hj. destruct Hj as [[_ Hj]|[_ Hj]]; [|congruence].
    destruct (Hg _ _ Hj Hn) as (fj & A & B). exists fj. split; auto. apply nth_error_app_l; auto.
  - rewrite !sumf_app. unfold sumf at 2 4. cbn.
    assert (held_fut {| f_call := c; f_phase := X |} = 0) by (destruct HX; subst; reflexivity).
    assert (hq (F ++ [{| f_call := c; f_phase := X |}]) Q = hq F Q).
    { destruct Q as [|w Q']; cbn; auto. destruct (Hqq w (or_introl eq_refl)) as (fw & A & B & C).
      unfold fneed. rewrite A, (nth_error_app_l _ _ _ _ A). auto. }
    lia.
Qed.
End Trans2.
