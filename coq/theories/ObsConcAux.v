(* ObsConcAux.v — auxiliary lemmas for ObsConcFacts.v: lists, the case analysis of [cstep],
   and the invariants of reachable micro-states. *)
From EB Require Import Obs ObsConc.

(* ---------------- lists ---------------- *)

Lemma set_nth_same {X} k (x : X) l : Obs.set_nth k x l = ObsConc.set_nth k x l.
Proof. revert k; induction l; intros [|k]; simpl; auto; try now rewrite IHl. Qed.

Lemma set_nth_length {X} k (x : X) l : length (set_nth k x l) = length l.
Proof. revert k; induction l; intros [|k]; simpl; auto. Qed.

Lemma nth_error_set_nth_eq {X} t (x y : X) l :
  nth_error l t = Some y -> nth_error (set_nth t x l) t = Some x.
Proof. revert t; induction l; intros [|t]; simpl; try discriminate; auto. Qed.

Lemma nth_error_set_nth_neq {X} t u (x : X) l :
  u <> t -> nth_error (set_nth t x l) u = nth_error l u.
Proof.
  revert t u; induction l; intros [|t] [|u] H; simpl; auto; try congruence.
Qed.

Lemma nth_error_set_nth_none {X} t (x : X) l :
  nth_error l t = None -> set_nth t x l = l.
Proof. revert t; induction l; intros [|t]; simpl; try discriminate; auto. intros; f_equal; auto. Qed.

Lemma set_nth_map {X Y} (f : X -> Y) k x l : set_nth k (f x) (map f l) = map f (set_nth k x l).
Proof. revert k; induction l; intros [|k]; simpl; auto. now rewrite IHl. Qed.

Lemma map_set_nth_same {X Y} (f : X -> Y) t x y l :
  nth_error l t = Some y -> f x = f y -> map f (set_nth t x l) = map f l.
Proof.
  revert t; induction l; intros [|t]; simpl; try discriminate; intros.
  - injection H as ->. now rewrite H0.
  - f_equal; eauto.
Qed.

Definition countf {X} (f : X -> bool) (l : list X) : nat := length (filter f l).

Lemma countf_set_nth {X} (f : X -> bool) t x y l :
  nth_error l t = Some y ->
  countf f (set_nth t x l) + (if f y then 1 else 0) = countf f l + (if f x then 1 else 0).
Proof.
  unfold countf. revert t; induction l; intros [|t]; simpl; try discriminate; intros.
  - injection H as ->. destruct (f x), (f y); simpl; lia.
  - specialize (IHl _ H). destruct (f a); simpl; lia.
Qed.

Lemma countf_pos {X} (f : X -> bool) t y l :
  nth_error l t = Some y -> f y = true -> 1 <= countf f l.
Proof.
  unfold countf. revert t; induction l; intros [|t]; simpl; try discriminate; intros.
  - injection H as ->. rewrite H0. simpl; lia.
  - specialize (IHl _ H H0). destruct (f a); simpl; lia.
Qed.

Lemma countf_zero {X} (f : X -> bool) l :
  (forall x, In x l -> f x = false) -> countf f l = 0.
Proof.
  unfold countf. induction l; simpl; intros; auto.
  rewrite (H a) by auto. auto.
Qed.

Lemma countf_zero_inv {X} (f : X -> bool) l t x :
  countf f l = 0 -> nth_error l t = Some x -> f x = false.
Proof.
  intros. destruct (f x) eqn:E; auto. pose proof (countf_pos f t x l H0 E). lia.
Qed.

Lemma Forall_set_nth {X} (P : X -> Prop) k x l : Forall P l -> P x -> Forall P (set_nth k x l).
Proof.
  intros H Hx. revert k; induction H; intros [|k]; simpl; auto.
Qed.

Lemma Forall_nth_error {X} (P : X -> Prop) l k x : Forall P l -> nth_error l k = Some x -> P x.
Proof. intros H E. rewrite Forall_forall in H. apply H. eapply nth_error_In; eauto. Qed.

(* ---------------- the case analysis of one micro-step ---------------- *)

(* [cstep_inv H]: H : cstep f s t = Advanced s'.  Leaves one goal per enabled (op, pc) pair and
   branch, with s' replaced by the explicit successor and the branch conditions as hypotheses;
   Hth : nth_error (c_threads s) t = Some {| t_op := ..; t_pc := ..; t_waiting := .. |}. *)
Ltac cstep_inv H :=
  unfold cstep in H;
  let Hth := fresh "Hth" in
  match type of H with
  | context [nth_error (c_threads ?s) ?t] =>
      let op := fresh "op" in let p := fresh "p" in let w := fresh "w" in
      destruct (nth_error (c_threads s) t) as [[op p w]|] eqn:Hth; [|discriminate H];
      destruct op, p; cbn beta iota delta [t_op t_pc] in H; try discriminate H
  end;
  repeat match type of H with
         | context [if ?c then _ else _] => destruct c eqn:?; try discriminate H
         end;
  injection H as H; subst.

Ltac norm_conds :=
  repeat match goal with
         | H : _ || _ = false |- _ => apply orb_false_iff in H; destruct H
         | H : _ || _ = true |- _ => apply orb_true_iff in H
         | H : negb _ = false |- _ => apply negb_false_iff in H
         | H : negb _ = true |- _ => apply negb_true_iff in H
         | H : (_ =? _) = true |- _ => apply Nat.eqb_eq in H
         | H : (_ =? _) = false |- _ => apply Nat.eqb_neq in H
         | H : (_ <? _) = true |- _ => apply Nat.ltb_lt in H
         | H : (_ <? _) = false |- _ => apply Nat.ltb_ge in H
         end.

Section Aux.
Context {V : Type}.
Implicit Types (s : cstate V).

(* what the invariants see of a thread: its operation and program counter *)
Definition tcore (th : thread V) : cop V * pc V := (t_op th, t_pc th).
Definition cores s : list (cop V * pc V) := map tcore (c_threads s).
Definition cnt (g : cop V * pc V -> bool) s : nat := countf g (cores s).

Definition isw (op : cop V) : bool :=
  match op with CSet _ | CGet | CClone => true | _ => false end.
Definition hasw s : bool := existsb isw (map (@t_op V) (c_threads s)).

Lemma cstep_ops fixed s t s' :
  cstep fixed s t = Advanced s' -> map (@t_op V) (c_threads s') = map (@t_op V) (c_threads s).
Proof.
  intros H. cstep_inv H; simpl; eapply map_set_nth_same; eauto.
Qed.

Lemma hasw_step fixed s t s' : cstep fixed s t = Advanced s' -> hasw s' = hasw s.
Proof. intros H. unfold hasw. now rewrite (cstep_ops _ _ _ _ H). Qed.

Lemma cores_nth s t th : nth_error (c_threads s) t = Some th -> nth_error (cores s) t = Some (tcore th).
Proof. intros H. unfold cores. rewrite nth_error_map, H. reflexivity. Qed.

Lemma cores_set s s' t th' :
  c_threads s' = set_nth t th' (c_threads s) -> cores s' = set_nth t (tcore th') (cores s).
Proof. intros H. unfold cores. rewrite H. symmetry. apply set_nth_map. Qed.

Lemma cnt_upd g s s' t c c' :
  nth_error (cores s) t = Some c -> cores s' = set_nth t c' (cores s) ->
  cnt g s' + (if g c then 1 else 0) = cnt g s + (if g c' then 1 else 0).
Proof. intros H H'. unfold cnt. rewrite H'. now apply countf_set_nth. Qed.

Lemma cnt_ge (g : cop V * pc V -> bool) s t c :
  nth_error (cores s) t = Some c -> (if g c then 1 else 0) <= cnt g s.
Proof.
  intros H. destruct (g c) eqn:E; [|lia]. unfold cnt. eapply countf_pos; eauto.
Qed.

Lemma hasw_nth s t th : nth_error (c_threads s) t = Some th -> isw (t_op th) = true -> hasw s = true.
Proof.
  intros H E. unfold hasw. apply existsb_exists. exists (t_op th). split; auto.
  apply in_map. eapply nth_error_In; eauto.
Qed.

(* ---- mark_waiting ---- *)
Lemma mark_waiting_cases s t w :
  mark_waiting s t w = s \/
  exists th, nth_error (c_threads s) t = Some th /\
             mark_waiting s t w = upd_thread s t {| t_op := t_op th; t_pc := t_pc th; t_waiting := w |}.
Proof. unfold mark_waiting. destruct (nth_error (c_threads s) t) eqn:E; eauto. Qed.

Lemma cores_mark_waiting s t w : cores (mark_waiting s t w) = cores s.
Proof.
  destruct (mark_waiting_cases s t w) as [->|(th & Hth & ->)]; auto.
  unfold cores; simpl. eapply map_set_nth_same; eauto.
Qed.

Lemma hasw_mark_waiting s t w : hasw (mark_waiting s t w) = hasw s.
Proof.
  destruct (mark_waiting_cases s t w) as [->|(th & Hth & ->)]; auto.
  unfold hasw; simpl. f_equal. eapply map_set_nth_same; eauto.
Qed.

Lemma cnt_mark_waiting g s t w : cnt g (mark_waiting s t w) = cnt g s.
Proof. unfold cnt. now rewrite cores_mark_waiting. Qed.

(* the scalar fields *)
Definition scal s := (c_val s, c_ver s, c_wakers s, c_readers s, c_writer s, c_meta s,
                      c_strong s, c_clones s, c_subs s, c_woken s, c_panicked s).

Lemma scal_mark_waiting s t w : scal (mark_waiting s t w) = scal s.
Proof. destruct (mark_waiting_cases s t w) as [->|(th & Hth & ->)]; auto. Qed.

Lemma mark_fields s t w :
  c_val (mark_waiting s t w) = c_val s /\ c_ver (mark_waiting s t w) = c_ver s /\
  c_wakers (mark_waiting s t w) = c_wakers s /\ c_readers (mark_waiting s t w) = c_readers s /\
  c_writer (mark_waiting s t w) = c_writer s /\ c_meta (mark_waiting s t w) = c_meta s /\
  c_strong (mark_waiting s t w) = c_strong s /\ c_clones (mark_waiting s t w) = c_clones s /\
  c_subs (mark_waiting s t w) = c_subs s /\ c_woken (mark_waiting s t w) = c_woken s /\
  c_panicked (mark_waiting s t w) = c_panicked s.
Proof. destruct (mark_waiting_cases s t w) as [->|(th & Hth & ->)]; repeat split. Qed.

(* ---- lifting an invariant of micro-steps to schedules ---- *)
Section Lift.
Variable P : cstate V -> Prop.
Variable fixed : bool.
Hypothesis Pstep : forall s t s', P s -> cstep fixed s t = Advanced s' -> P s'.
Hypothesis Pmark : forall s t w, P s -> P (mark_waiting s t w).

Lemma wake_blocked_inv fuel : forall s ids acc, P s -> P (fst (wake_blocked fixed fuel s ids acc)).
Proof.
  induction fuel; intros s ids acc HP; simpl; auto.
  destruct ids as [|t rest]; simpl; auto.
  destruct (nth_error (c_threads s) t) as [th|]; auto.
  destruct (t_waiting th); auto.
  destruct (cstep fixed s t) eqn:E; auto.
  apply IHfuel. apply Pmark. eapply Pstep; eauto.
Qed.

Lemma release_inv s t : P s -> P (fst (fst (release fixed s t))).
Proof.
  intros HP. unfold release. destruct (cstep fixed s t) eqn:E; simpl; auto.
  pose proof (wake_blocked_inv (length (c_threads s)) s0 (seq 0 (length (c_threads s))) []
                (Pstep _ _ _ HP E)) as Hw.
  destruct (wake_blocked fixed (length (c_threads s)) s0 (seq 0 (length (c_threads s))) []).
  exact Hw.
Qed.

Lemma run_sched_inv sched : forall s, P s -> P (run_sched fixed s sched).
Proof.
  induction sched; simpl; intros; auto. apply IHsched. now apply release_inv.
Qed.
End Lift.

End Aux.

Ltac mark_rw s t w :=
  let E1 := fresh in let E2 := fresh in let E3 := fresh in let E4 := fresh in let E5 := fresh in
  let E6 := fresh in let E7 := fresh in let E8 := fresh in let E9 := fresh in let E10 := fresh in
  let E11 := fresh in
  destruct (mark_fields s t w) as (E1 & E2 & E3 & E4 & E5 & E6 & E7 & E8 & E9 & E10 & E11);
  rewrite ?E1, ?E2, ?E3, ?E4, ?E5, ?E6, ?E7, ?E8, ?E9, ?E10, ?E11;
  clear E1 E2 E3 E4 E5 E6 E7 E8 E9 E10 E11.

Global Arguments cores : simpl never.
Global Arguments cnt : simpl never.
Global Arguments hasw : simpl never.

(* [cstep_inv2 H]: as [cstep_inv], and in addition
     Hc  : nth_error (cores s) t = Some (op, p)
     Hc' : cores s' = set_nth t (op, p') (cores s)
     Hw  : hasw s' = hasw s                                 (s' the explicit successor) *)
Ltac cstep_inv2 H :=
  let Hw := fresh "Hw" in
  pose proof (hasw_step _ _ _ _ H) as Hw;
  unfold cstep in H;
  let Hth := fresh "Hth" in
  match type of H with
  | context [nth_error (c_threads ?s) ?t] =>
      let op := fresh "op" in let p := fresh "p" in let w := fresh "w" in
      destruct (nth_error (c_threads s) t) as [[op p w]|] eqn:Hth; [|discriminate H];
      destruct op, p; cbn beta iota delta [t_op t_pc] in H; try discriminate H
  end;
  repeat match type of H with
         | context [if ?c then _ else _] => destruct c eqn:?; try discriminate H
         end;
  injection H as H;
  let Hc := fresh "Hc" in let Hc' := fresh "Hc'" in
  pose proof (cores_nth _ _ _ Hth) as Hc; unfold tcore in Hc; cbn [t_op t_pc] in Hc;
  match type of H with
  | ?e = _ =>
      let T := eval simpl in (c_threads e) in
      match T with
      | set_nth _ ?th' (c_threads ?s0) =>
          pose proof (cores_set s0 e _ th' eq_refl) as Hc'; unfold tcore in Hc'; cbn [t_op t_pc] in Hc'
      end
  end;
  subst.

(* ---------------- the lock protocol ---------------- *)
Section Lock.
Context {V : Type}.
Implicit Types (s : cstate V).

Definition g_read (c : cop V * pc V) := holds_read (snd c).
Definition g_write (c : cop V * pc V) := holds_write (snd c).
Definition g_meta (c : cop V * pc V) := holds_meta (snd c).

Record LockInv s : Prop := {
  li_r : c_readers s = cnt g_read s;
  li_w : cnt g_write s = if c_writer s then 1 else 0;
  li_m : cnt g_meta s = if c_meta s then 1 else 0;
  li_wr : c_writer s = true -> c_readers s = 0 }.

Lemma LockInv_step fixed s t s' : LockInv s -> cstep fixed s t = Advanced s' -> LockInv s'.
Proof.
  intros [Hr Hw Hm Hwr] H.
  cstep_inv2 H;
    pose proof (cnt_upd g_read _ _ _ _ _ Hc Hc') as Cr;
    pose proof (cnt_upd g_write _ _ _ _ _ Hc Hc') as Cw;
    pose proof (cnt_upd g_meta _ _ _ _ _ Hc Hc') as Cm;
    cbn in Cr, Cw, Cm; norm_conds;
    (split; simpl; [ | | | ]).
  all: try (destruct (c_writer s); try discriminate; destruct (c_meta s); try discriminate; lia).
  all: try (destruct (c_writer s); try discriminate; destruct (c_meta s); try discriminate; intros; try discriminate; try lia; auto).
Qed.

Lemma LockInv_mark s t w : LockInv s -> LockInv (mark_waiting s t w).
Proof.
  intros [Hr Hw Hm Hwr].
  split; rewrite ?cnt_mark_waiting; mark_rw s t w; auto.
Qed.

Lemma count_pcs_cnt (f : pc V -> bool) s : count_pcs f s = cnt (fun c => f (snd c)) s.
Proof.
  unfold count_pcs, cnt, cores, countf. induction (c_threads s) as [|th l IH]; simpl; auto.
  destruct (f (t_pc th)); simpl; auto.
Qed.

Lemma countf_map {X Y} (h : X -> Y) g l : countf g (map h l) = countf (fun x => g (h x)) l.
Proof.
  unfold countf. induction l; simpl; auto. destruct (g (h a)); simpl; auto.
Qed.

Lemma countf_ext {X} (f g : X -> bool) l : (forall x, f x = g x) -> countf f l = countf g l.
Proof. intros E. unfold countf. induction l; simpl; auto. rewrite E. destruct (g a); simpl; auto. Qed.

Lemma cores_cinit (v : V) ver clones subs pending ops :
  cores (cinit v ver clones subs pending ops) = map (fun op => (op, PStart)) ops.
Proof. unfold cores, cinit; simpl. rewrite map_map. reflexivity. Qed.

Lemma LockInv_init (v : V) ver clones subs pending ops :
  LockInv (cinit v ver clones subs pending ops).
Proof.
  split; unfold cnt; rewrite ?cores_cinit, ?countf_map; simpl; try discriminate;
    first [apply countf_zero; auto | symmetry; apply countf_zero; auto].
Qed.

Theorem LockInv_reach fixed (v : V) ver clones subs pending ops sched :
  LockInv (run_sched fixed (cinit v ver clones subs pending ops) sched).
Proof.
  apply run_sched_inv.
  - intros; eapply LockInv_step; eauto.
  - intros; now apply LockInv_mark.
  - apply LockInv_init.
Qed.

End Lock.
