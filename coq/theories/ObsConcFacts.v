(* ObsConcFacts.v — theorems about the lock-and-atomic granularity model (C02 C03 C04). *)
From EB Require Import ObsConc Obs ObsConcAux ObsConcAux2 ObsConcAux3.

Section ConcFacts.
Context {V : Type}.
Implicit Types (s : cstate V) (sched : list nat).

(* a well-formed start: version not 0 (open), at least one clone, subscribers not ahead of the
   version, pending subscribers exist and are up to date *)
Definition start_ok (ver clones : nat) (subs pending : list nat) (ops : list (cop V)) : Prop :=
  1 <= ver /\ 1 <= clones /\
  Forall (fun ov => ov <= ver) subs /\
  Forall (fun k => nth_error subs k = Some ver) pending /\
  Forall (fun op => match op with CPoll k => k < length subs | _ => True end) ops /\
  polls_distinct ops /\
  (* every thread that needs a handle has one: droppers own distinct clones, the others share one *)
  length (filter (fun op => match op with CDrop => true | _ => false end) ops)
    + (if existsb (fun op => match op with CSet _ | CGet | CClone => true | _ => false end) ops then 1 else 0)
    <= clones.

(* ---------------- lock protocol (C02, C04) ---------------- *)

(* in every reachable micro-state, for every schedule and any number of threads: the counters are
   exactly the numbers of threads at the corresponding program points; reader/writer exclusion;
   the metadata lock has at most one holder *)
Theorem lock_invariant fixed v ver clones subs pending ops sched :
  start_ok ver clones subs pending ops ->
  let s := run_sched fixed (cinit v ver clones subs pending ops) sched in
  c_readers s = count_pcs (@holds_read V) s /\
  (c_writer s = true <-> count_pcs (@holds_write V) s = 1) /\
  (c_writer s = false <-> count_pcs (@holds_write V) s = 0) /\
  (c_meta s = true <-> count_pcs (@holds_meta V) s = 1) /\
  (c_meta s = false <-> count_pcs (@holds_meta V) s = 0) /\
  (c_writer s = true -> c_readers s = 0).
Proof.
  intros _ s.
  destruct (LockInv_reach fixed v ver clones subs pending ops sched) as [Hr Hw Hm Hwr].
  fold s in Hr, Hw, Hm, Hwr.
  rewrite !count_pcs_cnt. unfold g_read, g_write, g_meta in *.
  rewrite Hw, Hm, <- Hr.
  destruct (c_writer s), (c_meta s); repeat split; intros; try discriminate; try lia; auto.
Qed.

(* ---------------- no lost wakeup across threads (C02) ---------------- *)

(* In every reachable micro-state: a subscriber that is registered as a waker and has not been woken
   has nothing new to see (its observed version is the current version) - so a subscriber is never
   left suspended while an update it has not observed, or the end of the stream, is available; and
   a poll that decided Pending has its waker registered or already woken. *)
Theorem conc_no_lost_wakeup fixed v ver clones subs pending ops sched :
  start_ok ver clones subs pending ops ->
  let s := run_sched fixed (cinit v ver clones subs pending ops) sched in
  (forall k, In k (c_wakers s) -> c_ver s <> 0 /\ nth_error (c_subs s) k = Some (c_ver s)) /\
  (forall t th k, nth_error (c_threads s) t = Some th -> t_op th = CPoll k ->
     (t_pc th = PPollDecided Pending \/ t_pc th = PDone (Some Pending) None None) ->
     In k (c_wakers s) \/ In k (c_woken s)) /\
  (* pending subscribers registered before the threads started are still registered or woken *)
  (forall k, In k pending -> In k (c_wakers s) \/ In k (c_woken s)).
Proof.
  intros (Hv & Hcl & Hs & Hp & Ho & Hd & Hc) s.
  pose proof (GInv_reach fixed v ver clones subs pending ops sched Hv Hs Hp Ho Hc) as G.
  pose proof (RegInv_reach fixed v ver clones subs pending ops sched) as R.
  fold s in G, R. destruct G as [K B C D E F P].
  split; [exact E|]. split.
  - intros t th k Hth Hop Hpc.
    pose proof (Forall_nth_error _ _ _ _ P (cores_nth _ _ _ Hth)) as Q.
    apply (Q k); auto.
  - exact R.
Qed.

(* every set and the close wake the whole waker list: after them it is empty and its former content
   is in c_woken *)
Theorem conc_wake_all fixed s t s' :
  cstep fixed s t = Advanced s' -> c_ver s' <> c_ver s ->
  c_wakers s' = [] /\ c_woken s' = c_woken s ++ c_wakers s.
Proof.
  intros H Hv. cstep_inv H; simpl in *; try congruence; auto.
Qed.

(* ---------------- end of stream <=> no owner, across threads (C03) ---------------- *)

(* with the repaired Drop: whenever no thread is in the middle of a drop or an upgrade, the state is
   closed iff no owner is left - for every schedule, any number of droppers / upgraders / others *)
Theorem conc_closed_iff_no_owner v ver clones subs pending ops sched :
  start_ok ver clones subs pending ops ->
  let s := run_sched true (cinit v ver clones subs pending ops) sched in
  handles_quiescent s = true -> c_panicked s = [] /\ (c_ver s = 0 <-> c_clones s = 0).
Proof.
  intros (Hv & Hcl & Hs & Hp & Ho & Hd & Hc) s Hq.
  destruct (FInv_reach v ver clones subs pending ops sched Hv Hcl Hs Hp Ho Hc) as [G [J W Hpan]].
  fold s in G, J, W, Hpan.
  split; [exact Hpan|].
  rewrite (quiescent_no_closing _ Hq) in J.
  destruct (c_ver s =? 0) eqn:E1, (c_clones s =? 0) eqn:E2; simpl in J; try discriminate J;
    norm_conds; split; intros; auto; contradiction.
Qed.

(* ... and the closing happens exactly once: all registered subscribers are woken by it *)
Theorem conc_upgrade_sound v ver clones subs pending ops sched t th :
  start_ok ver clones subs pending ops ->
  let s := run_sched true (cinit v ver clones subs pending ops) sched in
  nth_error (c_threads s) t = Some th -> t_op th = CUpgrade -> t_pc th = PDone None None (Some true) ->
  handles_quiescent s = true -> c_ver s <> 0.
Proof.
  intros (Hv & Hcl & Hs & Hp & Ho & Hd & Hc) s Hth Hop Hpc _.
  destruct (FInv_reach v ver clones subs pending ops sched Hv Hcl Hs Hp Ho Hc) as [G [J W Hpan]].
  fold s in G, J, W, Hpan. destruct G as [K _ _ _ _ _ _].
  pose proof (cnt_ge g_up _ _ _ (cores_nth _ _ _ Hth)) as Gu.
  assert (Hg : g_up (tcore th) = true)
    by (unfold g_up, tcore; simpl; rewrite Hop, Hpc; reflexivity).
  rewrite Hg in Gu.
  destruct (c_ver s =? 0) eqn:E1, (c_clones s =? 0) eqn:E2; norm_conds; auto; lia.
Qed.

(* the original Drop (plain load of the clone counter) violates it: two concurrent droppers *)
Lemma conc_closed_iff_no_owner_refuted_before_fix :
  exists sched,
    let s := run_sched false (cinit 0 1 2 [1] [0] [CDrop; CDrop]) sched in
    handles_quiescent s = true /\ c_clones s = 0 /\ c_ver s <> 0 /\ c_woken s = [].
Proof. exists [0;1;0;1]. vm_compute. repeat split; auto; discriminate. Qed.

(* ... and a drop racing with an upgrade: an owner exists but the stream is closed *)
Lemma conc_upgrade_refuted_before_fix :
  exists sched,
    let s := run_sched false (cinit 0 1 1 [1] [0] [CDrop; CUpgrade]) sched in
    handles_quiescent s = true /\ c_clones s = 1 /\ c_ver s = 0.
Proof. exists [0;1;1;0;0]. vm_compute. repeat split; auto. Qed.

(* ---------------- linearizability of the value operations (C04) ---------------- *)

(* abstraction to the operation-granularity model: value, version, wakers, owners, subscribers *)
Definition abs_obs (s : cstate V) : obs V :=
  {| val := c_val s; ver := c_ver s; wakers := c_wakers s; okind := Shared; owners := c_clones s;
     weaks := 0; subs := map Some (c_subs s) |}.

(* the sequential operation a thread's operation stands for *)
Definition seq_op (op : cop V) : Obs.op V :=
  match op with
  | CPoll k => SPoll k | CSet v => WSet v | CGet => WGet | CClone => HClone
  | CDrop => HDropOwner | CUpgrade => HUpgrade
  end.

(* the linearization point: the one micro-step of each value operation that takes effect *)
Definition is_lin (op : cop V) (p : pc V) : bool :=
  match op, p with
  | CPoll _, PPollMetaLocked => true      (* the compare / register step, both locks held *)
  | CSet _, PSetLocked => true            (* the store, write lock held *)
  | CGet, PStart => true
  | CClone, PStart => true
  | _, _ => false
  end.

(* value operations only (the handle operations drop/upgrade are the subject of C03) *)
Definition value_ops (ops : list (cop V)) : Prop :=
  Forall (fun op => match op with CDrop | CUpgrade => False | _ => True end) ops.

(* Every micro-step of a value operation is either its linearization point - then the abstract state
   moves by exactly the sequential step of that operation (Obs.step with any equality/hash/default,
   which the value operations do not consult), with the same result and the same wakers woken - or
   leaves the abstract state unchanged.  Each operation has exactly one linearization point, between
   its first and last step; so the concurrent run is a sequential run in the order of those points. *)
Theorem lin_step veq heq vdefault s t s' th :
  value_ops (map (@t_op V) (c_threads s)) ->
  nth_error (c_threads s) t = Some th ->
  cstep true s t = Advanced s' ->
  (forall k, t_op th = CPoll k -> k < length (c_subs s)) ->
  1 <= c_clones s ->
  if is_lin (t_op th) (t_pc th) then
    exists r w,
      Obs.step veq heq vdefault (abs_obs s) (seq_op (t_op th)) = Ok (abs_obs s', r, w) /\
      c_woken s' = c_woken s ++ w /\
      (* the result the thread will report *)
      match t_op th, nth_error (c_threads s') t with
      | CPoll _, Some th' => exists pr, t_pc th' = PPollDecided pr /\ r = OPollR pr
      | CSet _, Some th' => exists pv, t_pc th' = PDone None (Some pv) None /\ r = OVal pv
      | CGet, Some th' => exists pv, t_pc th' = PDone None (Some pv) None /\ r = OVal pv
      | _, _ => True
      end
  else abs_obs s' = abs_obs s /\ c_woken s' = c_woken s.
Proof.
  intros Hvo Hth H Hk Hcl.
  assert (Hop : match t_op th with CDrop | CUpgrade => False | _ => True end).
  { unfold value_ops in Hvo. rewrite Forall_forall in Hvo. apply Hvo.
    apply in_map. eapply nth_error_In; eauto. }
  assert (Hc0 : (c_clones s =? 0) = false) by (apply Nat.eqb_neq; lia).
  cstep_inv H; injection Hth as <-; simpl in Hop; try contradiction; cbn [t_op t_pc is_lin];
  try (split; reflexivity).
  all: unfold abs_obs; simpl; rewrite ?Hc0; try erewrite nth_error_set_nth_eq by eauto.
  1-3: specialize (Hk k eq_refl); rewrite nth_error_map, (nth_error_nth' _ 0 Hk); simpl;
    repeat match goal with E : ?c = _ |- context [if ?c then _ else _] => rewrite E end.
  all: rewrite ?set_nth_same, ?set_nth_map.
  all: do 2 eexists; split; [reflexivity|]; split; [rewrite ?app_nil_r; reflexivity|].
  all: try (eexists; split; reflexivity); auto.
Qed.

(* a thread passes its linearization point exactly once: before it the pc is earlier, after it later *)
Definition past_lin (op : cop V) (p : pc V) : bool :=
  match op, p with
  | CPoll _, (PPollDecided _ | PDone _ _ _) => true
  | (CSet _ | CGet | CClone), PDone _ _ _ => true
  | _, _ => false
  end.

Theorem lin_once s t s' th th' :
  nth_error (c_threads s) t = Some th -> cstep true s t = Advanced s' ->
  nth_error (c_threads s') t = Some th' ->
  t_op th' = t_op th /\
  (is_lin (t_op th) (t_pc th) = true -> past_lin (t_op th) (t_pc th) = false /\ past_lin (t_op th') (t_pc th') = true) /\
  (is_lin (t_op th) (t_pc th) = false -> past_lin (t_op th') (t_pc th') = past_lin (t_op th) (t_pc th)) /\
  (* other threads are untouched *)
  (forall u, u <> t -> nth_error (c_threads s') u = nth_error (c_threads s) u).
Proof.
  intros Hth H Hth'.
  cstep_inv H; simpl in Hth';
    injection Hth as <-;
    erewrite nth_error_set_nth_eq in Hth' by eauto; injection Hth' as <-; simpl;
    (split; [reflexivity|]);
    (split; [intros; try discriminate; auto|]);
    (split; [intros; try discriminate; auto|]);
    intros u Hu; apply nth_error_set_nth_neq; auto.
Qed.

End ConcFacts.
