(* ListVecFacts.v — lemma library about the list operations used everywhere. *)
From EB Require Import ListVec.

Section Facts.
Context {A : Type}.
Implicit Types (l : list A) (x : A).

Lemma nth_error_ext l1 l2 :
  (forall k, nth_error l1 k = nth_error l2 k) -> l1 = l2.
Proof.
  revert l2; induction l1 as [|a l1 IH]; intros [|b l2] H; auto.
  - specialize (H 0); discriminate.
  - specialize (H 0); discriminate.
  - f_equal.
    + specialize (H 0); simpl in H; congruence.
    + apply IH; intro k; apply (H (S k)).
Qed.

Lemma nth_error_firstn n l k :
  nth_error (firstn n l) k = if k <? n then nth_error l k else None.
Proof.
  revert l k; induction n as [|n IH]; intros l k; simpl.
  - destruct k; reflexivity.
  - destruct l as [|a l]; simpl.
    + destruct k; [reflexivity|]. destruct (S k <? S n); reflexivity.
    + destruct k; [reflexivity|]. simpl nth_error. rewrite IH. reflexivity.
Qed.

Lemma nth_error_skipn n l k : nth_error (skipn n l) k = nth_error l (n + k).
Proof.
  revert l; induction n as [|n IH]; intros l; simpl; [reflexivity|].
  destruct l as [|a l]; simpl; [destruct k; reflexivity|apply IH].
Qed.

Lemma nth_error_app l1 l2 k :
  nth_error (l1 ++ l2) k =
  if k <? length l1 then nth_error l1 k else nth_error l2 (k - length l1).
Proof.
  destruct (Nat.ltb_spec k (length l1)).
  - apply nth_error_app1; assumption.
  - apply nth_error_app2; assumption.
Qed.

Lemma nth_error_tl l k : nth_error (tl l) k = nth_error l (S k).
Proof. destruct l; simpl; [destruct k|]; reflexivity. Qed.

Lemma removelast_firstn_len l : removelast l = firstn (length l - 1) l.
Proof.
  induction l as [|a l IH]; [reflexivity|].
  destruct l as [|b l]; [reflexivity|].
  change (removelast (a :: b :: l)) with (a :: removelast (b :: l)).
  rewrite IH. simpl. rewrite Nat.sub_0_r. reflexivity.
Qed.

Lemma nth_error_removelast l k :
  nth_error (removelast l) k = if S k <? length l then nth_error l k else None.
Proof.
  rewrite removelast_firstn_len, nth_error_firstn.
  destruct (Nat.ltb_spec k (length l - 1)), (Nat.ltb_spec (S k) (length l)); try lia; reflexivity.
Qed.

Lemma nth_error_None_ge l k : length l <= k -> nth_error l k = None.
Proof. apply nth_error_None. Qed.

Lemma length_tl l : length (tl l) = length l - 1.
Proof. destruct l; simpl; lia. Qed.

Lemma length_removelast l : length (removelast l) = length l - 1.
Proof. rewrite removelast_firstn_len, firstn_length. lia. Qed.

End Facts.

Lemma map_tl {A B} (f : A -> B) l : map f (tl l) = tl (map f l).
Proof. destruct l; reflexivity. Qed.

Lemma map_removelast {A B} (f : A -> B) l : map f (removelast l) = removelast (map f l).
Proof.
  induction l as [|a l IH]; [reflexivity|].
  destruct l as [|b l]; [reflexivity|].
  change (removelast (a :: b :: l)) with (a :: removelast (b :: l)).
  change (map f (a :: removelast (b :: l))) with (f a :: map f (removelast (b :: l))).
  rewrite IH. reflexivity.
Qed.
