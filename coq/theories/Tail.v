(* Tail.v — eyeball-im-util/src/vector/tail.rs, transcribed arm by arm. *)
From EB Require Export Diff.

Section Tail.
Context {A : Type}.

Record tail_st := { t_buf : list A; t_limit : nat }.

(* tail.rs:495-519 TruncateFromEnd::truncate_from_end *)
Definition tfe_impl (len : nat) (l : list A) : list A :=
  if len =? 0 then [] else
  let index := length l - len in           (* saturating_sub *)
  if index =? 0 then l else skipn index l. (* split_at(index).1 *)

(* tail.rs:171-194 dynamic_with_initial_limit; tail.rs:154-166 dynamic = limit 0 *)
Definition tail_init (limit : nat) (vs : list A) : list A * tail_st :=
  ((if limit <? length vs then tfe_impl limit vs else vs), {| t_buf := vs; t_limit := limit |}).

(* tail.rs:357-493 handle_diff *)
Definition tail_handle_diff (d : diff A) (limit prev_len : nat) (buf' : list A) : outcome (list (diff A)) :=
  if limit =? 0 then Ok [] else
  let index_of_limit := prev_len - limit in            (* saturating_sub *)
  let is_full := limit <=? prev_len in
  match d with
  | Append vs =>
      let vs' := tfe_impl limit vs in
      Ok (repeat PopFront (min (length vs') ((prev_len + length vs') - limit)) ++ [Append vs'])
  | Clear => Ok [Clear]
  | PushFront x => if is_full then Ok [] else Ok [PushFront x]
  | PushBack x => Ok ((if is_full then [PopFront] else []) ++ [PushBack x])
  | PopFront => if limit <? prev_len then Ok [] else Ok [PopFront]
  | PopBack =>
      Ok (PopBack ::
          if limit <? prev_len then
            match nth_error buf' (index_of_limit - 1) with Some y => [PushFront y] | None => [] end
          else [])
  | Insert i x =>
      if (prev_len <? limit) || (index_of_limit <? i) then
        match csub i index_of_limit with
        | Some j =>
            (* index: if is_full { index - index_of_limit - 1 } else { index } *)
            if is_full then
              match csub j 1 with
              | Some j' => Ok ([PopFront] ++ [Insert j' x])
              | None => Panic
              end
            else Ok [Insert i x]
        | None => Panic
        end
      else Ok []
  | SetAt i x => if index_of_limit <=? i then Ok [SetAt (i - index_of_limit) x] else Ok []
  | Remove i =>
      if index_of_limit <=? i then
        let ri := i - index_of_limit in
        Ok (Remove ri ::
            if negb (ri =? i) then
              match nth_error buf' (index_of_limit - 1) with Some y => [PushFront y] | None => [] end
            else [])
      else Ok []
  | Truncate n =>
      match csub prev_len n with
      | None => Panic
      | Some removed =>
          let k := min limit removed in
          Ok (repeat PopBack k ++ map PushFront (firstn k (skipn (limit - k) (rev buf'))))
      end
  | Reset vs => Ok [Reset (tfe_impl limit vs)]
  end.

(* the closure passed to push_into_tail_buf, tail.rs:253-264 *)
Definition tail_on_diff (st : tail_st) (d : diff A) : outcome (tail_st * list (diff A)) :=
  match apply d (t_buf st) with
  | None => Panic
  | Some buf' =>
      match tail_handle_diff d (t_limit st) (length (t_buf st)) buf' with
      | Ok outs => Ok ({| t_buf := buf'; t_limit := t_limit st |}, outs)
      | Panic => Panic
      end
  end.

(* tail.rs:284-354 update_limit *)
Definition tail_update_limit (st : tail_st) (new_limit : nat) : tail_st * option (list (diff A)) :=
  let old := t_limit st in
  let st' := {| t_buf := t_buf st; t_limit := new_limit |} in
  match t_buf st with
  | [] => (st', None)
  | _ =>
    match old ?= new_limit with
    | Lt =>
        let missing := firstn (new_limit - old) (skipn old (rev (t_buf st))) in
        (st', match missing with
              | [] => None
              | _ => if old =? 0 then Some [Append (rev missing)] else Some (map PushFront missing)
              end)
    | Gt =>
        if length (t_buf st) <=? new_limit then (st', None)
        else if new_limit =? 0 then (st', Some [Clear])
        else (st', Some (repeat PopFront (old - new_limit)))
    | Eq => (st', None)
    end
  end.

(* Known-finding class F4 (pinned by the existing test tail::increase_and_decrease_the_limit_only):
   the limit is decreased from above the length to a non-zero value below it; update_limit then
   emits old-new PopFronts instead of len-new. *)
Definition tail_shrink_over_len (old new len : nat) : bool :=
  (0 <? new) && (new <? len) && (len <? old).

Definition tail_view (st : tail_st) : list A :=
  skipn (length (t_buf st) - t_limit st) (t_buf st).

End Tail.
Arguments tail_st : clear implicits.
