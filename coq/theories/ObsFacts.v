(* ObsFacts.v — theorems about the observable value at operation granularity
   (C01, C02 sequential part, C03 sequential part, C19). *)
From EB Require Import Obs ObsSpec.

(* ---------------- auxiliary list facts ---------------- *)
Section ListAux.
Context {A B : Type}.

Lemma set_nth_length (k : nat) (x : A) l : length (set_nth k x l) = length l.
Proof. revert k; induction l; intros [|k]; simpl; auto. Qed.

Lemma set_nth_Forall (P : A -> Prop) k x l : Forall P l -> P x -> Forall P (set_nth k x l).
Proof. intros H Hx; revert k; induction H; intros [|k]; simpl; auto. Qed.

Lemma F2_set_nth (R : A -> B -> Prop) k a b l u :
  Forall2 R l u -> R a b -> Forall2 R (set_nth k a l) (set_nth k b u).
Proof. intros H Hx; revert k; induction H; intros [|k]; simpl; auto. Qed.

Lemma F2_nth_l (R : A -> B -> Prop) l u k a :
  Forall2 R l u -> nth_error l k = Some a -> exists b, nth_error u k = Some b /\ R a b.
Proof.
  intros H; revert k; induction H; intros [|k] E; simpl in *; try discriminate.
  - injection E as <-. eauto.
  - eauto.
Qed.

Lemma F2_nth_none (R : A -> B -> Prop) l u k :
  Forall2 R l u -> nth_error l k = None -> nth_error u k = None.
Proof.
  intros H; revert k; induction H; intros [|k] E; simpl in *; try discriminate; auto.
Qed.

Lemma F2_length (R : A -> B -> Prop) l u : Forall2 R l u -> length l = length u.
Proof. induction 1; simpl; auto. Qed.

Lemma F2_of_nth (R : A -> B -> Prop) l u :
  length l = length u ->
  (forall k a b, nth_error l k = Some a -> nth_error u k = Some b -> R a b) ->
  Forall2 R l u.
Proof.
  revert u; induction l as [|a l IH]; intros [|b u] Hl H; simpl in *; try discriminate.
  - constructor.
  - constructor.
    + apply (H 0); reflexivity.
    + apply IH; [lia|]. intros k; apply (H (S k)).
Qed.

Lemma F2_mono (R R' : A -> B -> Prop) l u :
  (forall a b, R a b -> R' a b) -> Forall2 R l u -> Forall2 R' l u.
Proof. intros HR; induction 1; constructor; auto. Qed.

Lemma Forall_of_nth (P : A -> Prop) l :
  (forall k a, nth_error l k = Some a -> P a) -> Forall P l.
Proof.
  intros H. apply Forall_forall. intros a Ha.
  destruct (In_nth_error _ _ Ha) as [k Hk]. eauto.
Qed.

Lemma Forall_nth (P : A -> Prop) l k a : Forall P l -> nth_error l k = Some a -> P a.
Proof.
  intros H E. rewrite Forall_forall in H. eapply H, nth_error_In, E.
Qed.
End ListAux.

(* number of live (not dropped) entries *)
Definition is_some {X} (s : option X) : bool := match s with Some _ => true | None => false end.
Definition cnt {X} (l : list (option X)) : nat := length (filter is_some l).
Arguments cnt : simpl never.

Lemma cnt_snoc {X} (l : list (option X)) x : cnt (l ++ [Some x]) = S (cnt l).
Proof. unfold cnt. rewrite filter_app, app_length. simpl. lia. Qed.

Lemma cnt_set_some {X} (l : list (option X)) k a b :
  nth_error l k = Some (Some a) -> cnt (set_nth k (Some b) l) = cnt l.
Proof.
  unfold cnt. revert k; induction l as [|y l IH]; intros [|k] E; simpl in *; try discriminate.
  - injection E as ->. reflexivity.
  - destruct y; simpl; rewrite (IH _ E); reflexivity.
Qed.

Lemma cnt_set_none {X} (l : list (option X)) k a :
  nth_error l k = Some (Some a) -> S (cnt (set_nth k None l)) = cnt l.
Proof.
  unfold cnt. revert k; induction l as [|y l IH]; intros [|k] E; simpl in *; try discriminate.
  - injection E as ->. reflexivity.
  - destruct y; simpl; rewrite <- (IH _ E); reflexivity.
Qed.

Section ObsFacts.
Context {V : Type}.
Variable veq : V -> V -> bool.
Variable heq : V -> V -> bool.
Variable vdefault : V.

Notation step := (step veq heq vdefault).
Notation run := (run veq heq vdefault).
Notation sstep := (sstep veq heq vdefault).

Lemma live_subs_cnt (o : obs V) : live_subs o = cnt (subs o).
Proof. reflexivity. Qed.
Lemma s_live_cnt (s : sspec V) : s_live s = cnt (s_unseen s).
Proof. reflexivity. Qed.

(* ---------------- case analysis of one call ---------------- *)

(* split every test that [step] performs (in hypothesis H : step o x = Ok _), after the
   case analysis on the operation *)
Ltac split_tests H :=
  repeat match type of H with
  | context [?a =? ?b] => destruct (Nat.eqb_spec a b)
  | context [?a <? ?b] => destruct (Nat.ltb_spec0 a b)
  | context [nth_error ?l ?k] =>
      let E := fresh "Esub" in destruct (nth_error l k) as [[?|]|] eqn:E
  | context [okind ?o] => let E := fresh "Ekind" in destruct (okind o) eqn:E
  | context [if ?b then _ else _] => let E := fresh "Etest" in destruct b eqn:E
  end.

Ltac inv_step H :=
  unfold Obs.step, notify, close in H; cbv beta iota zeta in H;
  split_tests H; try discriminate H;
  injection H as <- <- <-.

(* oinv, with the bound on observed versions as a Forall *)
Definition obound (vr : nat) (a : option nat) : Prop :=
  match a with Some ov => vr <> 0 -> ov <= vr | None => True end.

Lemma oinv_alt (o : obs V) :
  oinv o <->
  (ver o = 0 <-> owners o = 0) /\ Forall (obound (ver o)) (subs o) /\
  (okind o = Unique -> owners o <= 1 /\ weaks o = 0).
Proof.
  unfold oinv. split; intros (H1 & H2 & H3); (split; [exact H1|split; [|exact H3]]).
  - apply Forall_of_nth. intros k [ov|] E; simpl; eauto.
  - intros k ov E. apply (Forall_nth _ _ _ _ H2 E).
Qed.

Lemma obound_mono vr vr' l : vr <= vr' -> vr <> 0 -> Forall (obound vr) l -> Forall (obound vr') l.
Proof.
  intros Hle Hnz. apply Forall_impl. intros [ov|]; simpl; auto. intros H _. specialize (H Hnz). lia.
Qed.

Lemma obound_0 l : Forall (obound 0) l.
Proof. apply Forall_forall. intros [ov|] _; simpl; auto. intros H; contradiction H; reflexivity. Qed.

(* ---------------- reachable states ---------------- *)

Lemma oinv_new k (v : V) : oinv (obs_new k v).
Proof.
  unfold oinv, obs_new; simpl. repeat split; try lia; try discriminate.
  intros [|j] ov E; discriminate E.
Qed.

Lemma oinv_step o x o' r w : oinv o -> step o x = Ok (o', r, w) -> oinv o'.
Proof.
  rewrite !oinv_alt. intros (H1 & H2 & H3) H.
  destruct x; inv_step H; simpl;
    (split; [|split]);
    try assumption; try (intuition (try discriminate; lia)).
  all: try (apply (obound_mono (ver o)); [lia | intuition | assumption]).
  all: try (apply obound_0).
  all: try (apply set_nth_Forall; [assumption | simpl; lia]).
  all: apply Forall_app; split; [assumption | constructor; [simpl; try lia | constructor]].
  apply (Forall_nth _ _ _ _ H2 Esub).
Qed.

Lemma oinv_run o xs : oinv o -> oinv (run o xs).
Proof.
  revert o; induction xs as [|x xs IH]; intros o H; cbn [Obs.run]; auto.
  destruct (step o x) as [[[o' r] w]|] eqn:E; auto.
  apply IH. eapply oinv_step; eauto.
Qed.

Lemma sim_new k (v : V) : sim (obs_new k v) (s_new k v).
Proof.
  unfold sim, obs_new, s_new; simpl.
  split; [|split; [|split; [|split; [|split; [|split]]]]]; auto.
  - intros [|j]; split; discriminate.
  - intros _ [|j] ov E; discriminate E.
Qed.

(* the list part of [sim] as a Forall2 *)
Definition erel (P : Prop) (vr : nat) (a : option nat) (b : option bool) : Prop :=
  match a, b with
  | None, None => True
  | Some ov, Some u => P -> u = (ov <? vr)
  | _, _ => False
  end.

Lemma sim_alt (o : obs V) (s : sspec V) :
  sim o s <->
  s_cur s = val o /\ s_kind s = okind o /\ s_owners s = owners o /\ s_weaks s = weaks o /\
  Forall2 (erel (owners o <> 0) (ver o)) (subs o) (s_unseen s).
Proof.
  unfold sim. split.
  - intros (A & B & C & D & L & N & U).
    split; [|split; [|split; [|split]]]; auto.
    apply F2_of_nth; [lia|]. intros k [ov|] [u|] E1 E2; simpl; auto.
    + intros P. rewrite (U P _ _ E1) in E2. injection E2; auto.
    + apply N in E2. rewrite E2 in E1; discriminate.
    + apply N in E1. rewrite E1 in E2; discriminate.
  - intros (A & B & C & D & F).
    split; [|split; [|split; [|split; [|split; [|split]]]]]; auto.
    + symmetry; eapply F2_length; eauto.
    + intros k; split; intros E.
      * destruct (F2_nth_l _ _ _ _ _ F E) as ([u|] & E2 & R); simpl in R; [contradiction|auto].
      * destruct (nth_error (subs o) k) as [a|] eqn:E1.
        -- destruct (F2_nth_l _ _ _ _ _ F E1) as (b & E2 & R).
           rewrite E in E2; injection E2 as <-. destruct a; simpl in R; [contradiction|reflexivity].
        -- rewrite (F2_nth_none _ _ _ _ F E1) in E. discriminate.
    + intros P k ov E.
      destruct (F2_nth_l _ _ _ _ _ F E) as ([u|] & E2 & R); simpl in R; [|contradiction].
      rewrite E2, (R P). reflexivity.
Qed.

Lemma F2_cnt P vr l u : Forall2 (erel P vr) l u -> cnt l = cnt u.
Proof.
  unfold cnt. induction 1 as [|[a|] [b|] l u R _ IH]; simpl in *; try contradiction; auto.
Qed.

Lemma F2_notify (P P' : Prop) vr l u :
  P -> vr <> 0 -> Forall (obound vr) l -> Forall2 (erel P vr) l u ->
  Forall2 (erel P' (S vr)) l (map (option_map (fun _ => true)) u).
Proof.
  intros HP Hnz Hb F. induction F as [|[a|] [b|] l u R _ IH]; simpl in *;
    try contradiction; inversion Hb; subst; constructor; auto.
  simpl in *. intros _. symmetry. apply Nat.ltb_lt. specialize (H1 Hnz). lia.
Qed.

(* ---------------- C01: refinement to the specification ---------------- *)

Ltac panic_step H :=
  unfold Obs.step, notify, close in H; cbv beta iota zeta in H;
  split_tests H; try discriminate H; clear H.

Ltac res_tests :=
  repeat match goal with
  | |- context [?a =? ?b] => destruct (Nat.eqb_spec a b); try lia
  | |- context [?a <? ?b] => destruct (Nat.ltb_spec0 a b); try lia
  | E : ?b = _ |- context [if ?b then _ else _] => rewrite E
  end.

Theorem step_refines_spec o s x :
  oinv o -> sim o s ->
  match step o x with
  | Ok (o', r, _) => exists s', sstep s x = Some (s', r) /\ sim o' s'
  | Panic => sstep s x = None
  end.
Proof.
  intros Hinv Hsim. apply oinv_alt in Hinv. destruct Hinv as (H1 & H2 & H3).
  apply sim_alt in Hsim. destruct Hsim as (A & B & C & D & F).
  destruct s as [sc sk so sw su]; simpl in A, B, C, D, F; subst sc sk so sw.
  destruct (step o x) as [[[o' r] w]|] eqn:H.
  - destruct x; inv_step H; unfold ObsSpec.sstep; cbv beta iota zeta;
      cbn [s_cur s_kind s_owners s_weaks s_unseen].
    all: idtac.
    all: try (destruct (F2_nth_l _ _ _ _ _ F Esub) as ([u|] & E2 & R); simpl in R; [|contradiction];
              rewrite E2).
    all: try match goal with
         | R : _ -> ?u = (_ <? _) |- context [if ?u then _ else _] =>
             rewrite (R ltac:(intuition))
         end.
    all: rewrite ?live_subs_cnt, ?s_live_cnt; cbn [s_unseen];
         rewrite ?(F2_length _ _ _ F), ?(F2_cnt _ _ _ _ F).
    all: res_tests.
    all: eexists; split; [reflexivity|]; apply sim_alt; simpl;
         (split; [|split; [|split; [|split]]]); try reflexivity; try assumption; try lia.
    all: try (apply F2_notify with (P := owners o <> 0); auto; intuition; fail).
    all: try (apply F2_set_nth; [assumption | simpl; auto; intros P; symmetry;
              first [apply Nat.ltb_irrefl | apply Nat.ltb_lt; lia]]).
    all: try (apply Forall2_app; [assumption | constructor; [simpl | constructor]]; try exact R;
              intros P; symmetry; first [apply Nat.ltb_irrefl | apply Nat.ltb_lt; lia]).
    all: try (eapply F2_mono; [|exact F]; intros [a|] [b|]; simpl; auto; intros HR P;
              first [apply HR; lia | lia]).
  - destruct x; panic_step H; unfold ObsSpec.sstep; cbv beta iota zeta;
      cbn [s_cur s_kind s_owners s_weaks s_unseen].
    all: try (destruct (F2_nth_l _ _ _ _ _ F Esub) as ([u|] & E2 & R); simpl in R; [contradiction|];
              rewrite E2).
    all: try rewrite (F2_nth_none _ _ _ _ F Esub).
    all: res_tests.
    all: try reflexivity.
Qed.

(* whole histories: the outputs of the implementation are the outputs of the specification *)
Fixpoint outs_impl (o : obs V) (xs : list (op V)) : list (option (out V)) :=
  match xs with
  | [] => []
  | x :: rest =>
      match step o x with
      | Ok (o', r, _) => Some r :: outs_impl o' rest
      | Panic => None :: outs_impl o rest
      end
  end.
Fixpoint outs_spec (s : sspec V) (xs : list (op V)) : list (option (out V)) :=
  match xs with
  | [] => []
  | x :: rest =>
      match sstep s x with
      | Some (s', r) => Some r :: outs_spec s' rest
      | None => None :: outs_spec s rest
      end
  end.

Lemma outs_refine o s xs : oinv o -> sim o s -> outs_impl o xs = outs_spec s xs.
Proof.
  revert o s; induction xs as [|x xs IH]; intros o s Hi Hs; cbn [outs_impl outs_spec]; auto.
  pose proof (step_refines_spec o s x Hi Hs) as HR.
  destruct (step o x) as [[[o' r] w]|] eqn:E.
  - destruct HR as (s' & -> & Hs'). f_equal. apply IH; auto. eapply oinv_step; eauto.
  - rewrite HR. f_equal. auto.
Qed.

Theorem run_refines_spec k (v : V) xs : outs_impl (obs_new k v) xs = outs_spec (s_new k v) xs.
Proof. apply outs_refine; [apply oinv_new | apply sim_new]. Qed.

(* ---------------- C02 (sequential): no lost wakeups ---------------- *)

(* a poll that answers Pending has registered its waker *)
Theorem pending_is_registered o k o' w :
  step o (SPoll k) = Ok (o', OPollR Pending, w) -> In k (wakers o') /\ w = [].
Proof.
  intros H. unfold Obs.step in H; cbv beta iota zeta in H.
  split_tests H; try discriminate H. injection H as <- <-.
  simpl. split; auto. apply in_or_app; right; left; reflexivity.
Qed.

(* every call either wakes the entire waker list and leaves it empty, or wakes nobody and keeps
   every registered waker (no assumption on the state) *)
Lemma step_wakes o x o' r w :
  step o x = Ok (o', r, w) ->
  (w = wakers o /\ wakers o' = []) \/ (w = [] /\ exists extra, wakers o' = wakers o ++ extra).
Proof.
  intros H. destruct x; inv_step H; simpl;
    first [ left; split; reflexivity
          | right; split; [reflexivity|];
            first [ exists []; rewrite app_nil_r; reflexivity | eexists; reflexivity ] ].
Qed.

(* every notifying update and the close wake the entire waker list and leave it empty;
   nothing else wakes anybody.
   AS STATED (without [oinv o]) THIS IS FALSE on unreachable states: with ver o = 0 but
   owners o = 1 and wakers o = [5], HDropOwner closes (ver o' = 0 = ver o) and wakes [5].
   See [version_change_wakes_all_reach] below for the statement on reachable states, and
   [step_wakes] above for the unconditional part. *)
Theorem version_change_wakes_all o x o' r w :
  step o x = Ok (o', r, w) ->
  (ver o' <> ver o -> w = wakers o /\ wakers o' = []) /\
  (ver o' = ver o -> w = [] /\ exists extra, wakers o' = wakers o ++ extra).
Proof. (* FALSE without oinv — counterexample in the comment above *) Abort.

Theorem version_change_wakes_all_reach o x o' r w :
  oinv o ->
  step o x = Ok (o', r, w) ->
  (ver o' <> ver o -> w = wakers o /\ wakers o' = []) /\
  (ver o' = ver o -> w = [] /\ exists extra, wakers o' = wakers o ++ extra).
Proof.
  intros (H1 & _ & _) H.
  destruct x; inv_step H; simpl; split; intros Hv; try (exfalso; lia);
    (split; [reflexivity|]); try reflexivity;
    first [ exists []; rewrite app_nil_r; reflexivity | eexists; reflexivity ].
Qed.

(* the version changes exactly for: a notifying update, and the drop of the last owner *)
Theorem version_changes_iff o x o' r w :
  oinv o -> step o x = Ok (o', r, w) ->
  (ver o' <> ver o <->
   match x with
   | WSet _ | WTake | WUpdate _ => True
   | WSetIfNotEq v => veq (val o) v = false
   | WSetIfHashNotEq v => heq (val o) v = false
   | WUpdateIf _ b => b = true
   | HDropOwner => owners o = 1
   | _ => False
   end).
Proof.
  intros (H1 & _ & _) H.
  destruct x; inv_step H; simpl; split; intros Hv; auto; try lia; try congruence.
Qed.

(* run a history collecting everything woken *)
Fixpoint run_woken (o : obs V) (xs : list (op V)) : obs V * list nat :=
  match xs with
  | [] => (o, [])
  | x :: rest =>
      match step o x with
      | Ok (o', _, w) => let '(o'', w') := run_woken o' rest in (o'', w ++ w')
      | Panic => run_woken o rest
      end
  end.

(* a registered waker stays registered until it is woken, whatever happens in between
   (other subscribers' polls, drops, clones, conditional setters that do not fire, ...) *)
Theorem no_lost_wakeup o xs k :
  In k (wakers o) ->
  In k (wakers (fst (run_woken o xs))) \/ In k (snd (run_woken o xs)).
Proof.
  revert o; induction xs as [|x xs IH]; intros o Hk; cbn [run_woken].
  - left; exact Hk.
  - destruct (step o x) as [[[o' r] w]|] eqn:E.
    + destruct (step_wakes _ _ _ _ _ E) as [[-> Hw]|[-> [extra Hw]]].
      * destruct (run_woken o' xs) as [o'' w']; simpl.
        right; apply in_or_app; left; exact Hk.
      * assert (Hk' : In k (wakers o')) by (rewrite Hw; apply in_or_app; left; exact Hk).
        specialize (IH o' Hk').
        destruct (run_woken o' xs) as [o'' w']; simpl in *. exact IH.
    + apply IH; exact Hk.
Qed.

(* ---------------- C03 (sequential): end of stream <=> no owner ---------------- *)

Theorem none_iff_no_owner o k o' r w :
  oinv o -> step o (SPoll k) = Ok (o', OPollR r, w) -> (r = Ready None <-> owners o = 0).
Proof.
  intros (H1 & _ & _) H. inv_step H; split; intros Hv; try discriminate Hv; try reflexivity; lia.
Qed.

(* once the last owner is gone it stays gone, the value stays, get/read still return it,
   and next() keeps answering None *)
Theorem after_end o x o' r w :
  oinv o -> owners o = 0 -> step o x = Ok (o', r, w) ->
  owners o' = 0 /\ val o' = val o /\ w = [] /\
  match x with
  | SPoll _ => r = OPollR (Ready None)
  | SGet _ | SNextNow _ => r = OVal (val o)
  | HUpgrade => r = OBool false
  | _ => True
  end.
Proof.
  intros (H1 & _ & _) Ho H.
  destruct x; inv_step H; simpl; try (exfalso; lia); repeat split; auto.
Qed.

Theorem upgrade_iff_owner o o' b w :
  step o HUpgrade = Ok (o', OBool b, w) -> (b = true <-> 0 < owners o).
Proof.
  intros H. inv_step H; split; intros Hv; try discriminate Hv; try reflexivity; lia.
Qed.

(* only the drop of the last owner ends the stream: not into_shared, downgrade, dropping some
   clones, subscribers or weak references *)
Theorem only_last_drop_closes o x o' r w :
  oinv o -> owners o <> 0 -> step o x = Ok (o', r, w) ->
  (owners o' = 0 <-> x = HDropOwner /\ owners o = 1).
Proof.
  intros _ Ho H.
  destruct x; inv_step H; simpl; (split; [intros E0 | intros [Ex E1]]);
    try discriminate Ex; try lia; try (split; [reflexivity|lia]).
Qed.

(* ---------------- C19: counts ---------------- *)

(* what HCounts reports, and how every call changes the three populations *)
Theorem counts_exact o o' a b c d w :
  step o HCounts = Ok (o', OCounts a b c d, w) ->
  a = owners o /\ b = live_subs o /\ c = owners o + live_subs o /\ d = weaks o /\ o' = o.
Proof.
  intros H. unfold Obs.step in H; cbv beta iota zeta in H.
  split_tests H; try discriminate H. inversion H; subst. repeat split; reflexivity.
Qed.

Definition delta (x : op V) (r : out V) : (nat * nat) * (nat * nat) * (nat * nat) :=
  (* (owners +,-), (subscribers +,-), (weaks +,-) *)
  match x, r with
  | HClone, _ | HUpgrade, OBool true => ((1, 0), (0, 0), (0, 0))
  | HDropOwner, _ => ((0, 1), (0, 0), (0, 0))
  | WSubscribe, _ | WSubscribeReset, _ | SClone _, _ | SCloneReset _, _ => ((0, 0), (1, 0), (0, 0))
  | SDrop _, _ => ((0, 0), (0, 1), (0, 0))
  | HDowngrade, _ | HCloneWeak, _ => ((0, 0), (0, 0), (1, 0))
  | HDropWeak, _ => ((0, 0), (0, 0), (0, 1))
  | _, _ => ((0, 0), (0, 0), (0, 0))
  end.

(* AS STATED (without [oinv o]) THIS IS FALSE on unreachable states: a Unique observable with
   owners o = 2 (impossible: Observable is not Clone) becomes Shared with owners = 1 under
   HIntoShared, while delta HIntoShared _ says the owner count does not change.
   See [counts_track_handles_reach] below for the statement on reachable states. *)
Theorem counts_track_handles o x o' r w :
  step o x = Ok (o', r, w) ->
  let '((op_, om), (sp, sm), (wp, wm)) := delta x r in
  owners o' + om = owners o + op_ /\
  live_subs o' + sm = live_subs o + sp /\
  weaks o' + wm = weaks o + wp.
Proof. (* FALSE without oinv — counterexample in the comment above *) Abort.

Theorem counts_track_handles_reach o x o' r w :
  oinv o ->
  step o x = Ok (o', r, w) ->
  let '((op_, om), (sp, sm), (wp, wm)) := delta x r in
  owners o' + om = owners o + op_ /\
  live_subs o' + sm = live_subs o + sp /\
  weaks o' + wm = weaks o + wp.
Proof.
  intros (_ & _ & H3) H.
  destruct x; inv_step H; cbn [delta]; rewrite ?live_subs_cnt; simpl;
    rewrite ?cnt_snoc, ?(cnt_set_some _ _ _ _ Esub);
    try pose proof (cnt_set_none _ _ _ Esub);
    try specialize (H3 eq_refl);
    lia.
Qed.

End ObsFacts.

(* ---------------- machine-checked counterexamples for the two statements left open ----------------
   V := nat, veq := Nat.eqb, heq := equality mod 2, vdefault := 0.  Both states violate [oinv]. *)
Section Counterexamples.
Let heq2 (a b : nat) : bool := Nat.eqb (a mod 2) (b mod 2).
Let stp := @step nat Nat.eqb heq2 0.

(* version 0 (closed) although one owner is left, one registered waker *)
Definition cex_wakes : obs nat :=
  {| val := 7; ver := 0; wakers := [5]; okind := Shared; owners := 1; weaks := 0; subs := [] |}.

Lemma version_change_wakes_all_false :
  ~ (forall (o : obs nat) x o' r w,
       stp o x = Ok (o', r, w) ->
       (ver o' <> ver o -> w = wakers o /\ wakers o' = []) /\
       (ver o' = ver o -> w = [] /\ exists extra, wakers o' = wakers o ++ extra)).
Proof.
  intros H.
  specialize (H cex_wakes HDropOwner _ _ _ eq_refl). simpl in H.
  destruct H as [_ H]. destruct (H eq_refl) as [E _]. discriminate E.
Qed.

(* a Unique observable with two owners *)
Definition cex_counts : obs nat :=
  {| val := 7; ver := 1; wakers := []; okind := Unique; owners := 2; weaks := 0; subs := [] |}.

Lemma counts_track_handles_false :
  ~ (forall (o : obs nat) x o' r w,
       stp o x = Ok (o', r, w) ->
       let '((op_, om), (sp, sm), (wp, wm)) := delta x r in
       owners o' + om = owners o + op_ /\
       live_subs o' + sm = live_subs o + sp /\
       weaks o' + wm = weaks o + wp).
Proof.
  intros H.
  specialize (H cex_counts HIntoShared _ _ _ eq_refl). simpl in H.
  destruct H as [E _]. discriminate E.
Qed.
End Counterexamples.
