(* Own.v — token model of the ownership protocol at the three `unsafe` sites (C20):
   reusable_box.rs:105-161 (reuse_pin_box / ReusableBoxFuture::set / CallOnDrop),
   unique.rs:260-267 (Observable::into_shared: ptr::read + mem::forget),
   vector/subscriber.rs:139-149 (the YieldBatch -> Recv swap with unreachable_unchecked).
   A resource is a token; the model records, per token, how often it was dropped and whether it is
   owned by somebody at the end.  Undefined behaviour itself cannot be exhibited by a Gallina model;
   what is proved is that the protocol never drops a token twice, never forgets one, and never
   reaches the branch declared unreachable. *)
From EB Require Export Base.

(* what can happen to a token *)
Inductive ev := EDrop (tok : nat) | EInstall (tok : nat) | EReturn (tok : nat) | EForget (tok : nat).

Definition count_drop (tok : nat) (tr : list ev) : nat :=
  length (filter (fun e => match e with EDrop t => t =? tok | _ => false end) tr).
Definition installed (tok : nat) (tr : list ev) : nat :=
  length (filter (fun e => match e with EInstall t => t =? tok | _ => false end) tr).
Definition returned (tok : nat) (tr : list ev) : nat :=
  length (filter (fun e => match e with EReturn t => t =? tok | _ => false end) tr).

(* ---- ReusableBoxFuture::set(new) on a box holding [old]; token 0 = the Pending placeholder ----
   layout_eq: Layout::for_value(old) == Layout::new::<New>()
   drop_panics: <Old as Drop>::drop unwinds *)
Definition placeholder := 0.

Definition reusable_set (old new : nat) (layout_eq drop_panics : bool) : list ev * bool (* unwinds *) :=
  (* try_set: boxed := mem::replace(&mut this.boxed, Box::pin(pending())) *)
  if layout_eq then
    (* raw := Box::into_raw(boxed); guard armed; drop_in_place(raw) *)
    if drop_panics then
      (* unwinding drops the guard: CallOnDrop::drop runs the closure: write new, from_raw, callback *)
      ([EDrop old; EInstall new; EDrop placeholder], true)
    else
      (* guard.call(): ManuallyDrop keeps Drop from running a second time *)
      ([EDrop old; EInstall new; EDrop placeholder], false)
  else
    (* Err(new): the old box is dropped normally when `boxed` goes out of scope (if that panics the
       unwinding leaves the placeholder in place and `new` is dropped as a local); else
       set(): *self = Self::new(new) drops the placeholder *)
    if drop_panics then ([EDrop old; EDrop new], true)
    else ([EDrop old; EReturn new; EInstall new; EDrop placeholder], false).

(* ---- Observable::into_shared: state := ptr::read(&this.state); mem::forget(this) ---- *)
Definition into_shared_trace (state : nat) : list ev := [EForget state; EInstall state].

(* ---- VectorSubscriberStream: the YieldBatch -> Recv swap ----
   the state is inspected in the outer match (YieldBatch), replaced by Recv, and the old state is
   matched again: the second match sees what the first one saw *)
Inductive sstate := StRecv | StYield (rx : nat).
Definition swap_reaches_unreachable (st : sstate) : bool :=
  match st with
  | StYield _ =>
      (* old_state := mem::replace(&mut self.state, Recv);  match old_state { YieldBatch{rx} => rx, _ => unreachable } *)
      let old_state := st in
      match old_state with StYield _ => false | StRecv => true end
  | StRecv => false            (* the outer branch is not taken at all *)
  end.

(* ---- instance accounting used by the correspondence check ----
   every construction or clone creates an instance; the check fails on a second drop of an instance
   and on instances alive after everything was dropped *)
Record ledger := { live : list nat; dropped : list nat; violations : nat }.
Definition ledger_new : ledger := {| live := []; dropped := []; violations := 0 |}.
Definition l_create (l : ledger) (i : nat) : ledger :=
  {| live := i :: live l; dropped := dropped l; violations := violations l |}.
Definition l_drop (l : ledger) (i : nat) : ledger :=
  if existsb (Nat.eqb i) (live l)
  then {| live := filter (fun j => negb (j =? i)) (live l); dropped := i :: dropped l; violations := violations l |}
  else {| live := live l; dropped := dropped l; violations := S (violations l) |}.
