(* AsyncGuardAux.v — list/semaphore lemmas and the component view of the guarded async model. *)
From EB Require Import AsyncGuard.
From Coq Require Import Lia.

(* ---------------- lists ---------------- *)
Lemma nth_error_ext {X} : forall (l l' : list X),
  (forall k, nth_error l k = nth_error l' k) -> l = l'.
Proof.
  induction l as [|x l IH]; intros [|y l'] H; auto.
  - specialize (H 0); discriminate.
  - specialize (H 0); discriminate.
  - f_equal.
    + specialize (H 0); cbn in H; congruence.
    + apply IH; intro k; exact (H (S k)).
Qed.

Lemma set_nth_length {X} : forall (l : list X) k x, length (set_nth k x l) = length l.
Proof. induction l; destruct k; cbn; auto. Qed.

Lemma nth_error_set_nth {X} : forall (l : list X) k x j,
  nth_error (set_nth k x l) j =
  if j =? k then option_map (fun _ => x) (nth_error l j) else nth_error l j.
Proof.
  induction l as [|y l IH]; intros [|k] x [|j]; cbn; auto;
    try (destruct (j =? k); reflexivity).
Qed.

Lemma nth_error_set_nth_eq {X} : forall (l : list X) k x y,
  nth_error l k = Some y -> nth_error (set_nth k x l) k = Some x.
Proof. intros. rewrite nth_error_set_nth, Nat.eqb_refl, H. reflexivity. Qed.

Lemma nth_error_set_nth_neq {X} : forall (l : list X) k x j,
  j <> k -> nth_error (set_nth k x l) j = nth_error l j.
Proof. intros. rewrite nth_error_set_nth. apply Nat.eqb_neq in H. rewrite H. reflexivity. Qed.

Lemma set_nth_same {X} : forall (l : list X) k x, nth_error l k = Some x -> set_nth k x l = l.
Proof.
  intros. apply nth_error_ext. intro j. rewrite nth_error_set_nth.
  destruct (Nat.eqb_spec j k); subst; auto. rewrite H. reflexivity.
Qed.

Lemma set_nth_none {X} : forall (l : list X) k x, nth_error l k = None -> set_nth k x l = l.
Proof.
  intros. apply nth_error_ext. intro j. rewrite nth_error_set_nth.
  destruct (Nat.eqb_spec j k); subst; auto. rewrite H. reflexivity.
Qed.

Definition sumf {X} (h : X -> nat) (l : list X) : nat := list_sum (map h l).

Lemma sumf_app {X} (h : X -> nat) l l' : sumf h (l ++ l') = sumf h l + sumf h l'.
Proof. unfold sumf. rewrite map_app, list_sum_app. reflexivity. Qed.

Lemma sumf_set_nth {X} (h : X -> nat) : forall l k x y,
  nth_error l k = Some y -> sumf h (set_nth k x l) + h y = sumf h l + h x.
Proof.
  unfold sumf, list_sum. induction l as [|z l IH]; intros [|k] x y H; cbn in *; try discriminate.
  - inversion H; subst. lia.
  - specialize (IH _ x _ H). lia.
Qed.

Lemma sumf_zero {X} (h : X -> nat) l : (forall x, In x l -> h x = 0) -> sumf h l = 0.
Proof.
  unfold sumf, list_sum. induction l; cbn; intros; auto.
  rewrite H by auto. rewrite IHl; auto.
Qed.

Lemma nth_error_map' {X Y} (f : X -> Y) : forall l k, nth_error (map f l) k = option_map f (nth_error l k).
Proof. induction l; destruct k; cbn; auto. Qed.

Lemma nth_error_combine_seq {X} : forall (l : list X) a k,
  nth_error (combine (seq a (length l)) l) k = option_map (pair (a + k)) (nth_error l k).
Proof.
  induction l as [|x l IH]; intros a [|k]; cbn; auto.
  - rewrite Nat.add_0_r. reflexivity.
  - rewrite IH. replace (S a + k) with (a + S k) by lia. reflexivity.
Qed.

Lemma nth_error_app_l {X} (l l' : list X) k x : nth_error l k = Some x -> nth_error (l ++ l') k = Some x.
Proof. intros. rewrite nth_error_app1; auto. apply nth_error_Some. congruence. Qed.

Lemma nth_error_snoc {X} (l : list X) x k y :
  nth_error (l ++ [x]) k = Some y -> (k < length l /\ nth_error l k = Some y) \/ (k = length l /\ y = x).
Proof.
  intros. destruct (Nat.lt_ge_cases k (length l)).
  - rewrite nth_error_app1 in H by auto. auto.
  - rewrite nth_error_app2 in H by auto. right.
    destruct (k - length l) eqn:E; cbn in H.
    + inversion H. split; auto. lia.
    + destruct n; discriminate.
Qed.

Lemma nth_error_snoc_eq {X} (l : list X) x : nth_error (l ++ [x]) (length l) = Some x.
Proof. rewrite nth_error_app2 by lia. rewrite Nat.sub_diag. reflexivity. Qed.

(* ---------------- the semaphore ---------------- *)
Lemma sem_assign_app : forall q n acc,
  sem_assign n q acc =
  let '(n', q', w) := sem_assign n q [] in (n', q', acc ++ w).
Proof.
  induction q as [|w q IH]; intros; cbn.
  - rewrite app_nil_r. reflexivity.
  - destruct (w_need w <=? n).
    + rewrite IH. rewrite (IH _ [w_id w]).
      destruct (sem_assign (n - w_need w) q []) as [[a b] c]. rewrite <- app_assoc. reflexivity.
    + rewrite app_nil_r. reflexivity.
Qed.

Section Aux.
Context {V : Type}.
Variable veq : V -> V -> bool.
Variable heq : V -> V -> bool.
Variable vdefault : V.

Notation fut := (@fut V).
Notation astate := (astate V).
Notation acall := (acall V).

(* apply a phase function at one index *)
Definition upd_at (id : nat) (g : phase -> phase) (F : list fut) : list fut :=
  match nth_error F id with
  | Some f => set_nth id {| f_call := f_call f; f_phase := g (f_phase f) |} F
  | None => F
  end.

Definition app_ph (g : phase -> phase) (f : fut) : fut := {| f_call := f_call f; f_phase := g (f_phase f) |}.

Lemma upd_at_length id g F : length (upd_at id g F) = length F.
Proof. unfold upd_at. destruct (nth_error F id); auto. apply set_nth_length. Qed.

Lemma nth_error_upd_at id g F j :
  nth_error (upd_at id g F) j = if j =? id then option_map (app_ph g) (nth_error F j) else nth_error F j.
Proof.
  unfold upd_at. destruct (nth_error F id) eqn:E.
  - rewrite nth_error_set_nth. destruct (Nat.eqb_spec j id); subst; auto. rewrite E. reflexivity.
  - destruct (Nat.eqb_spec j id); subst; auto. rewrite E. reflexivity.
Qed.

Lemma nth_error_upd_at_eq id g F f :
  nth_error F id = Some f -> nth_error (upd_at id g F) id = Some (app_ph g f).
Proof. intros. rewrite nth_error_upd_at, Nat.eqb_refl, H. reflexivity. Qed.

Lemma nth_error_upd_at_neq id g F j :
  j <> id -> nth_error (upd_at id g F) j = nth_error F j.
Proof. intros. rewrite nth_error_upd_at. apply Nat.eqb_neq in H. rewrite H. reflexivity. Qed.

Lemma upd_at_comm i j g h F : i <> j -> upd_at i g (upd_at j h F) = upd_at j h (upd_at i g F).
Proof.
  intros. apply nth_error_ext. intro k. rewrite !nth_error_upd_at.
  destruct (Nat.eqb_spec k i), (Nat.eqb_spec k j); subst; try congruence; auto.
Qed.

Lemma upd_at_upd_at i g h F : upd_at i g (upd_at i h F) = upd_at i (fun p => g (h p)) F.
Proof.
  apply nth_error_ext. intro k. rewrite !nth_error_upd_at.
  destruct (Nat.eqb_spec k i); subst; auto. destruct (nth_error F i); reflexivity.
Qed.

Lemma upd_at_id i g F f : nth_error F i = Some f -> g (f_phase f) = f_phase f -> upd_at i g F = F.
Proof.
  intros. apply nth_error_ext. intro k. rewrite nth_error_upd_at.
  destruct (Nat.eqb_spec k i); subst; auto. rewrite H. cbn. unfold app_ph. rewrite H0. destruct f; reflexivity.
Qed.

Lemma upd_at_app_l i g F F' : i < length F -> upd_at i g (F ++ F') = upd_at i g F ++ F'.
Proof.
  intros. apply nth_error_ext. intro k. rewrite nth_error_upd_at.
  destruct (Nat.lt_ge_cases k (length F)).
  - rewrite !nth_error_app1 by (rewrite ?upd_at_length; auto). rewrite nth_error_upd_at. reflexivity.
  - rewrite !nth_error_app2 by (rewrite ?upd_at_length; auto). rewrite upd_at_length.
    destruct (Nat.eqb_spec k i); auto. lia.
Qed.

Definition set_ph (id : nat) (ph : phase) := upd_at id (fun _ => ph).
Definition grant (ph : phase) : phase := match ph with Ph2Queued => Ph2Granted | _ => PhGranted end.
Definition mg_futs (F : list fut) (ids : list nat) : list fut := fold_left (fun F i => upd_at i grant F) ids F.
Definition mn_futs (F : list fut) (ids : list nat) : list fut := fold_left (fun F i => set_ph i PhNotified F) ids F.

Lemma upd_fut_obs (s : astate) id ph : a_obs (upd_fut s id ph) = a_obs s.
Proof. unfold upd_fut. destruct (nth_error (a_futs s) id); reflexivity. Qed.
Lemma upd_fut_sem (s : astate) id ph : a_sem (upd_fut s id ph) = a_sem s.
Proof. unfold upd_fut. destruct (nth_error (a_futs s) id); reflexivity. Qed.
Lemma upd_fut_guards (s : astate) id ph : a_guards (upd_fut s id ph) = a_guards s.
Proof. unfold upd_fut. destruct (nth_error (a_futs s) id); reflexivity. Qed.
Lemma upd_fut_futs (s : astate) id ph : a_futs (upd_fut s id ph) = set_ph id ph (a_futs s).
Proof. unfold upd_fut, set_ph, upd_at. destruct (nth_error (a_futs s) id); reflexivity. Qed.

Lemma mark_granted_obs ids : forall (s : astate), a_obs (mark_granted s ids) = a_obs s.
Proof. induction ids; intros; cbn; auto. rewrite IHids. apply upd_fut_obs. Qed.
Lemma mark_granted_sem ids : forall (s : astate), a_sem (mark_granted s ids) = a_sem s.
Proof. induction ids; intros; cbn; auto. rewrite IHids. apply upd_fut_sem. Qed.
Lemma mark_granted_guards ids : forall (s : astate), a_guards (mark_granted s ids) = a_guards s.
Proof. induction ids; intros; cbn; auto. rewrite IHids. apply upd_fut_guards. Qed.
Lemma mark_granted_futs ids : forall (s : astate), a_futs (mark_granted s ids) = mg_futs (a_futs s) ids.
Proof.
  induction ids; intros; cbn; auto. rewrite IHids.
  rewrite upd_fut_futs. change (mg_futs (a_futs s) (a :: ids)) with (mg_futs (upd_at a grant (a_futs s)) ids). f_equal.
  unfold set_ph, upd_at, grant. destruct (nth_error (a_futs s) a) as [f|]; auto.
Qed.

Lemma mark_notified_obs ids : forall (s : astate), a_obs (mark_notified s ids) = a_obs s.
Proof. induction ids; intros; cbn; auto. rewrite IHids. apply upd_fut_obs. Qed.
Lemma mark_notified_sem ids : forall (s : astate), a_sem (mark_notified s ids) = a_sem s.
Proof. induction ids; intros; cbn; auto. rewrite IHids. apply upd_fut_sem. Qed.
Lemma mark_notified_guards ids : forall (s : astate), a_guards (mark_notified s ids) = a_guards s.
Proof. induction ids; intros; cbn; auto. rewrite IHids. apply upd_fut_guards. Qed.
Lemma mark_notified_futs ids : forall (s : astate), a_futs (mark_notified s ids) = mn_futs (a_futs s) ids.
Proof. induction ids; intros; cbn; auto. rewrite IHids. rewrite upd_fut_futs. reflexivity. Qed.

Lemma mg_futs_length ids : forall F, length (mg_futs F ids) = length F.
Proof. induction ids; intros; cbn; auto. unfold mg_futs in IHids. rewrite IHids. apply upd_at_length. Qed.
Lemma mn_futs_length ids : forall F, length (mn_futs F ids) = length F.
Proof. induction ids; intros; cbn; auto. unfold mn_futs in IHids. rewrite IHids. apply upd_at_length. Qed.

Lemma mg_futs_app F a b : mg_futs F (a ++ b) = mg_futs (mg_futs F a) b.
Proof. unfold mg_futs. apply fold_left_app. Qed.

Lemma mg_futs_comm i g ids : forall F, ~ In i ids -> mg_futs (upd_at i g F) ids = upd_at i g (mg_futs F ids).
Proof.
  induction ids as [|a ids IH]; intros; cbn; auto.
  cbn in H. rewrite upd_at_comm by intuition. apply IH. intuition.
Qed.
Lemma mn_futs_comm i g ids : forall F, ~ In i ids -> mn_futs (upd_at i g F) ids = upd_at i g (mn_futs F ids).
Proof.
  induction ids as [|a ids IH]; intros; cbn; auto.
  cbn in H. unfold set_ph. rewrite upd_at_comm by intuition. apply IH. intuition.
Qed.

Lemma nth_error_mn_futs ids : forall F j,
  nth_error (mn_futs F ids) j =
  if existsb (Nat.eqb j) ids then option_map (app_ph (fun _ => PhNotified)) (nth_error F j) else nth_error F j.
Proof.
  induction ids as [|a ids IH]; intros; cbn; auto.
  unfold mn_futs in IH. rewrite IH. unfold set_ph. rewrite nth_error_upd_at.
  destruct (Nat.eqb_spec j a); cbn; auto.
  destruct (existsb (Nat.eqb j) ids); auto. destruct (nth_error F j); reflexivity.
Qed.

Lemma existsb_eqb_In j ids : existsb (Nat.eqb j) ids = true <-> In j ids.
Proof.
  rewrite existsb_exists. split.
  - intros [x [H1 H2]]. apply Nat.eqb_eq in H2. subst; auto.
  - intros. exists j. split; auto. apply Nat.eqb_refl.
Qed.

End Aux.

(* ---------------- B: who becomes runnable ---------------- *)
Section Chg.
Context {V : Type}.
Variable veq : V -> V -> bool.
Variable heq : V -> V -> bool.
Variable vdefault : V.
Notation fut := (@fut V).
Notation astate := (astate V).

Definition rn (F : list fut) (id : nat) : Prop :=
  exists f, nth_error F id = Some f /\ runnable_phase (f_phase f) = true.
Definition chg (w : list nat) (F F' : list fut) : Prop :=
  forall id, rn F' id -> In id w \/ rn F id.

Lemma chg_refl w F : chg w F F.
Proof. intros id H; auto. Qed.
Lemma chg_trans w1 w2 F F' F'' : chg w1 F F' -> chg w2 F' F'' -> chg (w1 ++ w2) F F''.
Proof.
  intros H1 H2 id H. rewrite in_app_iff. destruct (H2 id H) as [|H3]; auto.
  destruct (H1 id H3); auto.
Qed.
Lemma chg_weaken w w' F F' : chg w F F' -> (forall i, In i w -> In i w') -> chg w' F F'.
Proof. intros H1 H2 id H. destruct (H1 id H); auto. Qed.
Lemma chg_set_ph id ph F : runnable_phase ph = false -> chg [] F (set_ph id ph F).
Proof.
  intros Hp j [f [H1 H2]]. right. unfold set_ph in H1. rewrite nth_error_upd_at in H1.
  destruct (Nat.eqb_spec j id).
  - destruct (nth_error F j); cbn in H1; inversion H1; subst. cbn in H2. congruence.
  - exists f; auto.
Qed.
Lemma chg_upd_at id g F : chg [id] F (upd_at id g F).
Proof.
  intros j [f [H1 H2]]. rewrite nth_error_upd_at in H1.
  destruct (Nat.eqb_spec j id); [left; cbn; auto | right; exists f; auto].
Qed.
Lemma chg_mg ids : forall F, chg ids F (mg_futs F ids).
Proof.
  induction ids as [|a ids IH]; intros; cbn. apply chg_refl.
  change (a :: ids) with ([a] ++ ids). eapply chg_trans; [apply chg_upd_at | apply IH].
Qed.
Lemma chg_mn ids : forall F, chg ids F (mn_futs F ids).
Proof.
  induction ids as [|a ids IH]; intros; cbn. apply chg_refl.
  change (a :: ids) with ([a] ++ ids). eapply chg_trans; [apply chg_upd_at | apply IH].
Qed.
Lemma chg_snoc F f : runnable_phase (f_phase f) = false -> chg [] F (F ++ [f]).
Proof.
  intros Hp j [f' [H1 H2]]. right. apply nth_error_snoc in H1. destruct H1 as [[_ H1]|[_ H1]].
  - exists f'; auto.
  - subst. congruence.
Qed.

Lemma release_permits_eq (s : astate) n s' w :
  release_permits s n = (s', w) ->
  a_obs s' = a_obs s /\ a_guards s' = a_guards s /\ a_futs s' = mg_futs (a_futs s) w /\
  sem_release (a_sem s) n = (a_sem s', w).
Proof.
  unfold release_permits. destruct (sem_release (a_sem s) n) as [sm wk] eqn:E.
  intro H; inversion H; subst; clear H.
  rewrite mark_granted_obs, mark_granted_guards, mark_granted_futs, mark_granted_sem. cbn. auto.
Qed.

End Chg.

(* ---------------- B, continued: every event ---------------- *)
Section StepChg.
Context {V : Type}.
Variable veq : V -> V -> bool.
Variable heq : V -> V -> bool.
Variable vdefault : V.
Notation astate := (astate V).
Notation fut := (@fut V).

Lemma chg_then_mg w g (F F' : list fut) : chg w F F' -> chg (w ++ g) F (mg_futs F' g).
Proof. intro. eapply chg_trans; eauto. apply chg_mg. Qed.
Lemma chg_then_mn w g (F F' : list fut) : chg w F F' -> chg (w ++ g) F (mn_futs F' g).
Proof. intro. eapply chg_trans; eauto. apply chg_mn. Qed.
Lemma chg_then_set w id ph (F F' : list fut) : runnable_phase ph = false -> chg w F F' -> chg w F (set_ph id ph F').
Proof.
  intros. eapply chg_weaken. eapply chg_trans; eauto. apply chg_set_ph; auto.
  intro. rewrite app_nil_r. auto.
Qed.

Ltac rp_destruct :=
  match goal with
  | H : context [release_permits ?s ?n] |- _ =>
      let s3 := fresh "s3" in let g := fresh "g" in let E := fresh "E" in
      destruct (release_permits s n) as [s3 g] eqn:E;
      apply release_permits_eq in E; destruct E as (? & ? & ? & ?)
  end.

Ltac futs_norm :=
  repeat match goal with
  | H : a_futs ?s = _ |- context [a_futs ?s] => rewrite H
  end;
  rewrite ?mark_notified_futs, ?upd_fut_futs, ?mark_granted_futs; cbn [a_futs].

Ltac chg_solve :=
  eapply chg_weaken;
  [ repeat (first [eapply chg_then_mg | eapply chg_then_mn | eapply chg_then_set; [reflexivity|] ]);
    apply (chg_refl [])
  | intro; rewrite ?in_app_iff; cbn; tauto ].

Lemma run_body_chg fx (s : astate) id c b s' r w :
  run_body veq heq vdefault fx s id c b = (s', r, w) -> chg w (a_futs s) (a_futs s').
Proof.
  unfold run_body. intro H.
  destruct c;
  repeat match type of H with
  | context [match step ?a ?b ?c ?d ?e with _ => _ end] => destruct (step a b c d e) as [[[? ?] ?]|]
  | context [match nth_error ?l ?k with _ => _ end] => destruct (nth_error l k) as [[?|]|]
  | context [if ?b then _ else _] => destruct b
  | context [release_permits ?s ?n] => rp_destruct
  | context [sem_acquire ?s ?i ?n] => destruct (sem_acquire s i n) as [? [|]]
  end;
  inversion H; subst; clear H; futs_norm; try chg_solve.
  all: try apply chg_refl.
Qed.

Lemma a_step_chg fx (s : astate) e s' d w :
  a_step veq heq vdefault fx s e = (s', d, w) -> chg w (a_futs s) (a_futs s').
Proof.
  unfold a_step. intro H. destruct e as [c|id|id|id v].
  - destruct (call_possible s c).
    + unfold a_start in H.
      destruct (sem_acquire _ _ _) as [sm [|]]; cbn [a_obs a_sem a_futs a_guards] in H.
      * destruct (run_body _ _ _ _ _ _ _ _) as [[s2 r] w2] eqn:E. inversion H; subst; clear H.
        apply run_body_chg in E. cbn [a_futs] in E.
        eapply chg_weaken. eapply chg_trans; [|exact E]. apply chg_snoc. reflexivity. auto.
      * inversion H; subst; clear H. cbn [a_futs]. apply chg_snoc. reflexivity.
    + inversion H; subst; clear H. cbn [a_futs a_pad]. apply chg_snoc. reflexivity.
  - destruct (nth_error (a_futs s) id) as [f|] eqn:Ef.
    2:{ inversion H; subst. apply chg_refl. }
    unfold a_poll in H. rewrite Ef in H.
    destruct (f_phase f).
    all: try (inversion H; subst; apply chg_refl).
    + destruct (run_body _ _ _ _ _ _ _ _) as [[s2 r] w2] eqn:E. inversion H; subst; clear H.
      eapply run_body_chg; eauto.
    + destruct (sem_acquire _ _ _) as [sm [|]].
      * destruct (run_body _ _ _ _ _ _ _ _) as [[s2 r] w2] eqn:E. inversion H; subst; clear H.
        apply run_body_chg in E. exact E.
      * inversion H; subst; clear H. rewrite upd_fut_futs. cbn [a_futs]. apply chg_set_ph. reflexivity.
    + destruct (run_body _ _ _ _ _ _ _ _) as [[s2 r] w2] eqn:E. inversion H; subst; clear H.
      eapply run_body_chg; eauto.
  - unfold a_drop_guard in H.
    destruct (nth_error (a_guards s) id) as [[| |]|].
    all: try (inversion H; subst; apply chg_refl).
    all: rp_destruct; inversion H; subst; clear H; futs_norm; chg_solve.
  - unfold a_guard_set in H.
    destruct (nth_error (a_guards s) id) as [[| |]|].
    all: try (inversion H; subst; apply chg_refl).
    destruct (step _ _ _ _ _) as [[[o' r'] w']|].
    all: inversion H; subst; clear H; try apply chg_refl.
    futs_norm. chg_solve.
Qed.

End StepChg.
