(* LtsLift.v — Head / Skip one-step theorems lifted to arbitrary event sequences (C09). *)
From EB Require Import Head Skip Tail AdapterCore ListTac DiffFacts HeadFacts SkipFacts TailFacts.

Section Lift.
Context {A : Type}.

Lemma head_step_ok : step_ok (@head_on_diff A) head_R.
Proof.
  intros st l v d HR Hok.
  destruct (head_step_bound st l v d HR Hok) as (st' & outs & l' & E1 & E2 & E3 & HR' & Hl).
  exists st', outs, l', (firstn (h_limit st) l'). repeat split; try assumption.
  - eapply apply_all_ok_bound_ok; eassumption.
  - destruct HR' as [Hb Hv]. exact Hb.
  - rewrite Hl. reflexivity.
Qed.

Lemma head_param_ok' : param_ok (@head_update_limit A) head_R.
Proof.
  intros st l v n HR.
  destruct (head_param_ok st l v n HR) as (st' & v' & E1 & E2 & HR' & _).
  exists st', v'. auto.
Qed.

(* every reachable quiescent point: the consumer's view is the first [limit] items of the source
   as it is now, for the latest limit announced *)
Theorem head_view_at_quiescence (evs : list (@event A)) (st : head_st A) (l v : list A) :
  head_R st l v -> src_valid evs l = true ->
  exists st' v',
    run_events head_on_diff head_update_limit evs st l v = Some (st', src_after evs l, v') /\
    v' = firstn (h_limit st') (src_after evs l) /\
    Some (h_limit st') = last_param evs (Some (h_limit st)).
Proof.
  intros HR Hv.
  destruct (run_events_ok _ _ _ head_step_ok head_param_ok' evs st l v HR Hv) as (st' & v' & E & [Hb Hv']).
  exists st', v'. repeat split; try assumption.
  clear Hb Hv' HR. revert st l v st' v' Hv E.
  induction evs as [|e evs IH]; intros st l v st' v' Hv E; cbn [run_events last_param src_valid src_after] in *.
  - assert (st = st') by congruence. subst. reflexivity.
  - destruct e as [d|n].
    + apply andb_prop in Hv as [Hok Hv]. rewrite Hok in E.
      destruct (head_on_diff st d) as [[st1 outs]|] eqn:E1; [|discriminate].
      destruct (apply d l) as [l1|] eqn:E2; [|discriminate].
      destruct (apply_all_ok outs v) as [v1|] eqn:E3; [|discriminate].
      assert (Hl : h_limit st1 = h_limit st).
      { unfold head_on_diff in E1. destruct (apply d (h_buf st)); [|discriminate].
        destruct (2 <? _); [discriminate|]. injection E1 as <- _. reflexivity. }
      rewrite <- Hl. eapply IH; eassumption.
    + destruct (head_update_limit st n) as [st1 o] eqn:E1.
      destruct (apply_all_ok _ v) as [v1|] eqn:E3; [|discriminate].
      assert (Hl : h_limit st1 = n).
      { unfold head_update_limit in E1. destruct (h_buf st); [injection E1 as <- _; reflexivity|].
        destruct (h_limit st ?= n); injection E1 as <- _; reflexivity. }
      rewrite <- Hl. eapply IH; eassumption.
Qed.

Lemma skip_step_ok : step_ok (@skip_on_diff A) skip_R.
Proof.
  intros st l v d HR Hok.
  destruct (skip_step st l v d HR Hok) as (st' & outs & l' & E1 & E2 & E3 & HR' & Hl).
  exists st', outs, l', (skip_view_of (s_count st) l'). repeat split; try assumption.
  - destruct HR' as [Hb Hv]. exact Hb.
  - rewrite Hl. reflexivity.
Qed.

Lemma skip_param_ok' : param_ok (@skip_update_count A) skip_R.
Proof.
  intros st l v n HR.
  destruct (skip_param_ok st l v n HR) as (st' & v' & E1 & E2 & HR' & _).
  exists st', v'. auto.
Qed.

(* the view is empty until the first count arrives, then all but the first [count] items *)
Theorem skip_view_at_quiescence (evs : list (@event A)) (st : skip_st A) (l v : list A) :
  skip_R st l v -> src_valid evs l = true ->
  exists st' v',
    run_events skip_on_diff skip_update_count evs st l v = Some (st', src_after evs l, v') /\
    v' = skip_view_of (s_count st') (src_after evs l) /\
    s_count st' = last_param evs (s_count st).
Proof.
  intros HR Hv.
  destruct (run_events_ok _ _ _ skip_step_ok skip_param_ok' evs st l v HR Hv) as (st' & v' & E & [Hb Hv']).
  exists st', v'. repeat split; try assumption.
  clear Hb Hv' HR. revert st l v st' v' Hv E.
  induction evs as [|e evs IH]; intros st l v st' v' Hv E; cbn [run_events last_param src_valid src_after] in *.
  - assert (st = st') by congruence. subst. reflexivity.
  - destruct e as [d|n].
    + apply andb_prop in Hv as [Hok Hv]. rewrite Hok in E.
      destruct (skip_on_diff st d) as [[st1 outs]|] eqn:E1; [|discriminate].
      destruct (apply d l) as [l1|] eqn:E2; [|discriminate].
      destruct (apply_all_ok outs v) as [v1|] eqn:E3; [|discriminate].
      assert (Hl : s_count st1 = s_count st).
      { unfold skip_on_diff in E1. destruct (apply d (s_buf st)); [|discriminate].
        destruct (s_count st); [destruct (skip_handle_diff _ _ _ _); [|discriminate]|];
          injection E1 as <- _; reflexivity. }
      rewrite <- Hl. eapply IH; eassumption.
    + destruct (skip_update_count st n) as [st1 o] eqn:E1.
      destruct (apply_all_ok _ v) as [v1|] eqn:E3; [|discriminate].
      assert (Hl : s_count st1 = Some n).
      { unfold skip_update_count in E1. destruct (s_buf st); [injection E1 as <- _; reflexivity|].
        destruct (s_count st); [|injection E1 as <- _; reflexivity].
        destruct (_ ?= _); [| |destruct (_ && _)]; injection E1 as <- _; reflexivity. }
      rewrite <- Hl. eapply IH; eassumption.
Qed.

(* no limit change of the sequence falls into the known-finding class tail_shrink_over_len *)
Fixpoint tail_class_free (evs : list (@event A)) (limit : nat) (l : list A) : bool :=
  match evs with
  | [] => true
  | EDiff d :: rest =>
      match apply d l with Some l' => tail_class_free rest limit l' | None => true end
  | EParam n :: rest =>
      negb (tail_shrink_over_len limit n (length l)) && tail_class_free rest n l
  end.

Theorem tail_view_at_quiescence (evs : list (@event A)) (st : tail_st A) (l v : list A) :
  tail_R st l v -> src_valid evs l = true -> tail_class_free evs (t_limit st) l = true ->
  exists st' v',
    run_events tail_on_diff tail_update_limit evs st l v = Some (st', src_after evs l, v') /\
    v' = skipn (length (src_after evs l) - t_limit st') (src_after evs l) /\
    Some (t_limit st') = last_param evs (Some (t_limit st)).
Proof.
  revert st l v; induction evs as [|e evs IH]; intros st l v HR Hv Hc;
    cbn [run_events last_param src_valid src_after tail_class_free] in *.
  - exists st, v. destruct HR as [Hb ->]. repeat split.
  - destruct e as [d|n].
    + apply andb_prop in Hv as [Hok Hv]. rewrite Hok.
      destruct (tail_step_bound st l v d HR Hok) as (st1 & outs & l1 & E1 & E2 & E3 & HR1 & Hl).
      rewrite E1, E2. rewrite E2 in Hv, Hc.
      rewrite (apply_all_ok_bound_ok _ _ _ _ E3). rewrite <- Hl in *.
      apply IH; assumption.
    + apply andb_prop in Hc as [Hn Hc]. apply negb_true_iff in Hn.
      destruct (tail_param_ok st l v n HR Hn) as (st1 & v1 & E1 & E2 & HR1 & Hl).
      destruct (tail_update_limit st n) as [st2 o] eqn:E. cbn [fst snd] in *. subst st2.
      rewrite E2. rewrite <- Hl in *. apply IH; assumption.
Qed.

End Lift.
