(* FullStackBAux.v — the vector side of FullStackB.v (the batched flavour), the counterpart of the
   first half of FullStackAux.v:
   * what any call other than the adapter's own poll / drop does to the adapter's subscriber (it
     stays alive, keeps its flavour - stated for either flavour -, its ghost untouched);
   * what one poll of a BATCHED subscriber answers: a whole non-empty batch that takes its replica
     to the vector's current contents, after which nothing is left to hand out (measure
     FullStackAux.mu drops to 0). *)
From EB Require Import Diff AdapterCore ListTac OVec OVecRun OVecFacts OVecExtra FullStackAux.
From Coq Require Import Lia.

Section VecSideB.
Context {A : Type}.
Implicit Types (o : ovec A) (g : gst A).

(* subscriber k exists, is alive and is a stream of flavour b (FullStackAux.subk = subkb false) *)
Definition subkb (b : bool) (k : nat) (ss : list (option (sub A))) : Prop :=
  exists s, nth_error ss k = Some (Some s) /\ sb_batched s = b.

Lemma subkb_wake_all b k ss : subkb b k ss -> subkb b k (wake_all ss).
Proof.
  intros (s & E & Hb). exists (wake1 s). split; [|exact Hb].
  unfold wake_all. rewrite nth_error_map, E. reflexivity.
Qed.

Lemma subkb_app b k ss x : subkb b k ss -> subkb b k (ss ++ [x]).
Proof.
  intros (s & E & Hb). exists s. split; [|exact Hb].
  rewrite nth_error_app1; [exact E|]. eapply nth_error_some_lt; eassumption.
Qed.

Lemma subkb_set_neq b k j x ss : j <> k -> subkb b k ss -> subkb b k (set_nth j x ss).
Proof.
  intros Hn (s & E & Hb). exists s. split; [|exact Hb].
  rewrite nth_error_set_nth_neq by lia. exact E.
Qed.

Lemma ovec_mutate_subkb b k o m o' r w :
  ovec_mutate o m = Ok (o', r, w) -> subkb b k (subs o) -> subkb b k (subs o').
Proof.
  intros H Hk. pose proof (ovec_mutate_spec o m) as S.
  destruct (mutate m (values o) false) as [[[v' r0] od]|]; [|congruence].
  destruct S as (o1 & w1 & E & _ & _ & _ & _ & Hs). rewrite E in H. injection H as <- _ _.
  destruct od as [d|].
  - destruct (rx_cnt o =? 0); destruct Hs as [_ ->]; [exact Hk|apply subkb_wake_all; exact Hk].
  - destruct Hs as [_ ->]. exact Hk.
Qed.

Lemma do_mut_subkb b k o in_txn m o' r w :
  do_mut o in_txn m = Ok (o', r, w) -> subkb b k (subs o) -> subkb b k (subs o').
Proof.
  unfold do_mut. destruct in_txn.
  - destruct (txn_mutate o m) as [[o1 r1]|] eqn:E; [|discriminate].
    intro H; injection H as <- _ _.
    destruct (txn_mutate_invisible _ _ _ _ E) as (_ & _ & -> & _). exact (fun x => x).
  - apply ovec_mutate_subkb.
Qed.

Lemma for_each_subkb b k o in_txn decs o' vis w :
  for_each o in_txn decs = Ok (o', vis, w) -> subkb b k (subs o) -> subkb b k (subs o').
Proof.
  unfold for_each. intros H Hk.
  refine (traverse_preserves (fun x => subkb b k (subs x)) in_txn _ _ _ _ _ _ _ _ _ _ Hk H).
  intros o0 m o1 r w0 HP E. eapply do_mut_subkb; eassumption.
Qed.

(* any call on the vector other than the poll / the drop of subscriber k leaves that subscriber
   alive and of the same flavour, and leaves its ghost alone *)
Lemma gstep_other_b b k g x g' out :
  gstep g x = Ok (g', out) -> x <> OPoll k -> x <> ODropSub k ->
  subkb b k (subs (g_o g)) -> k < length (g_gh g) ->
  subkb b k (subs (g_o g')) /\ nth_error (g_gh g') k = nth_error (g_gh g) k.
Proof.
  intros H Hx1 Hx2 Hk Hlen. unfold gstep in H. destruct x.
  - (* OMut *)
    destruct (_ || _); [discriminate|].
    destruct (ovec_mutate (g_o g) m) as [[[o' r] w]|] eqn:E; [|discriminate].
    injection H as <- _. cbn [g_o g_gh]. split; [|reflexivity]. eapply ovec_mutate_subkb; eassumption.
  - (* OEach *)
    destruct (_ || _); [discriminate|].
    destruct (for_each (g_o g) false decs) as [[[o' vis] w]|] eqn:E; [|discriminate].
    injection H as <- _. cbn [g_o g_gh]. split; [|reflexivity]. eapply for_each_subkb; eassumption.
  - (* OSub *)
    destruct (_ || _); [discriminate|]. unfold subscribe in H. injection H as <- _.
    cbn [g_o g_gh subs with_subs]. split; [apply subkb_app; exact Hk|].
    rewrite nth_error_app1 by exact Hlen. reflexivity.
  - (* OPoll *)
    assert (Hne : k0 <> k) by congruence.
    unfold poll_sub in H. destruct (nth_error (subs (g_o g)) k0) as [[s|]|]; try discriminate.
    destruct ((if sb_batched s then poll_batched else poll_plain) _ _ _ s) as [[s' r]|]; [|discriminate].
    destruct r as [[it|]|].
    + destruct (nth_error (g_gh g) k0); [|discriminate]. destruct (deliver _ _ _).
      injection H as <- _. cbn [g_o g_gh subs with_subs].
      split; [apply subkb_set_neq; assumption|]. rewrite nth_error_set_nth_neq by lia. reflexivity.
    + injection H as <- _. cbn [g_o g_gh subs with_subs].
      split; [apply subkb_set_neq; assumption|reflexivity].
    + injection H as <- _. cbn [g_o g_gh subs with_subs].
      split; [apply subkb_set_neq; assumption|reflexivity].
  - (* ODropSub *)
    assert (Hne : k0 <> k) by congruence.
    injection H as <- _. cbn [g_o g_gh subs with_subs drop_sub].
    split; [apply subkb_set_neq; assumption|reflexivity].
  - (* OTxnBegin *)
    destruct (_ || _); [discriminate|]. injection H as <- _. cbn [g_o g_gh]. split; [exact Hk|reflexivity].
  - (* OTMut *)
    destruct (txn_mutate (g_o g) m) as [[o1 r]|] eqn:E; [|discriminate].
    injection H as <- _. cbn [g_o g_gh]. split; [|reflexivity].
    destruct (txn_mutate_invisible _ _ _ _ E) as (_ & _ & -> & _). exact Hk.
  - (* OTEach *)
    destruct (cur_txn (g_o g)); [|discriminate].
    destruct (for_each (g_o g) true decs) as [[[o1 vis] w]|] eqn:E; [|discriminate].
    injection H as <- _. cbn [g_o g_gh]. split; [|reflexivity]. eapply for_each_subkb; eassumption.
  - (* OTRollback *)
    destruct (cur_txn (g_o g)) eqn:Et; [|discriminate]. injection H as <- _.
    cbn [g_o g_gh]. split; [|reflexivity]. unfold txn_rollback. rewrite Et. exact Hk.
  - (* OTCommit *)
    destruct (cur_txn (g_o g)) eqn:Et; [|discriminate]. injection H as <- _.
    cbn [g_o g_gh]. split; [|reflexivity]. unfold txn_commit. rewrite Et.
    destruct (tx_batch t); [exact Hk|].
    unfold send. cbn [rx_cnt subs with_txn with_values]. destruct (_ =? 0); cbn [fst subs with_txn with_values].
    + exact Hk.
    + apply subkb_wake_all. exact Hk.
  - (* OTDrop *)
    destruct (cur_txn (g_o g)); [|discriminate]. injection H as <- _.
    cbn [g_o g_gh]. split; [exact Hk|reflexivity].
  - (* ODropVec *)
    destruct (_ || _); [discriminate|]. injection H as <- _.
    cbn [g_o g_gh drop_vec fst subs]. split; [apply subkb_wake_all; exact Hk|reflexivity].
Qed.

(* a subscriber positioned at the tail of the log has nothing left to hand out *)
Lemma mu_at_tail o (s : sub A) :
  sb_state s = SRecv -> sb_next s = length (log o) -> mu o s = 0.
Proof.
  intros Est En. unfold mu. rewrite Est, En, Nat.sub_diag, skipn_all.
  destruct (Nat.ltb_spec (cap2 o) 0); [lia|]. reflexivity.
Qed.

(* one poll of a batched stream: it stays batched, Pending registers, and an item is a whole batch
   after which the measure is 0 *)
Lemma poll_case_batched o s s' r :
  poll_case o s s' r -> sb_batched s = true ->
  sb_batched s' = true /\
  (r = Pending -> sb_waiting s' = true) /\
  match r with
  | Ready (Some it) => (exists ds, it = IBatch ds) /\ mu o s' = 0 /\ 0 < mu o s
  | _ => True
  end.
Proof.
  intros Hc Hb.
  destruct Hc as [d rest' Est Eb | Est En Eal | Est En Eal | Est Hl | mg d rest Est Eb Hlt Hw En Ed
                  | Est Eb Hlt Hw Hne ].
  - rewrite Eb in Hb. discriminate.
  - split; [exact Hb|]. split; [reflexivity|exact I].
  - split; [exact Hb|]. split; [discriminate|exact I].
  - (* lag *)
    rewrite Hb. split; [reflexivity|]. split; [discriminate|]. split; [eauto|].
    split; [apply mu_at_tail; reflexivity|].
    unfold mu. rewrite Est. apply Nat.ltb_lt in Hl. rewrite Hl. cbn [length]. lia.
  - rewrite Eb in Hb. discriminate.
  - (* batch *)
    split; [reflexivity|]. split; [discriminate|]. split; [eauto|].
    split; [apply mu_at_tail; reflexivity|].
    unfold mu. rewrite Est.
    destruct (Nat.ltb_spec (cap2 o) (length (log o) - sb_next s)); [lia|].
    destruct (all_diffs (skipn (sb_next s) (log o))); [congruence|]. cbn [length]. lia.
Qed.

(* one poll of a batched subscriber in a reachable state *)
Lemma gpoll_batched k g sb gh :
  ginv_strong g -> nth_error (subs (g_o g)) k = Some (Some sb) -> sb_batched sb = true ->
  nth_error (g_gh g) k = Some gh ->
  exists g' r,
    gstep g (OPoll k) = Ok (g', VPoll r) /\ ginv_strong g' /\
    (exists sb', nth_error (subs (g_o g')) k = Some (Some sb') /\ sb_batched sb' = true /\
                 (r = Pending -> sb_waiting sb' = true)) /\
    match r with
    | Ready (Some it) =>
        exists ds gh', it = IBatch ds /\ ds <> [] /\ nth_error (g_gh g') k = Some gh' /\
          apply_all_ok ds (gh_replica gh) = Some (gh_replica gh') /\
          gh_replica gh' = values (g_o g') /\
          muk k g' = 0 /\ 0 < muk k g
    | _ => nth_error (g_gh g') k = Some gh /\ gh_replica gh = values (g_o g')
    end.
Proof.
  intros Hg Ek Hb Eg.
  pose proof (poll_never_panics g k sb (ginv_strong_ginv _ Hg) Ek) as Hnp.
  destruct (gstep g (OPoll k)) as [[g' out]|] eqn:E; [|congruence].
  pose proof (ginv_strong_step _ _ _ _ Hg E) as Hg'.
  destruct (gstep_poll _ _ _ _ Hg E) as (s & gh0 & s' & r & gh' & Ek0 & Eg0 & [Hs Hy] & Hcase & -> & Eg' & Hgh).
  rewrite Ek in Ek0. injection Ek0 as <-. rewrite Eg in Eg0. injection Eg0 as <-.
  destruct (poll_case_batched _ _ _ _ Hcase Hb) as (Hb' & Hw & Hr).
  assert (Hk : k < length (subs (g_o g))) by (eapply nth_error_some_lt; eassumption).
  assert (Hkg : k < length (g_gh g)) by (eapply nth_error_some_lt; eassumption).
  assert (Esub' : nth_error (subs (g_o g')) k = Some (Some s')).
  { rewrite Eg'. cbn [g_o subs with_subs]. apply nth_error_set_nth_eq; exact Hk. }
  assert (Egh' : nth_error (g_gh g') k = Some gh').
  { rewrite Eg'. cbn [g_gh]. apply nth_error_set_nth_eq. exact Hkg. }
  exists g', r. split; [reflexivity|]. split; [exact Hg'|]. split; [exists s'; auto|].
  pose proof (poll_meaning g k g' r gh' Hg E Egh') as P.
  destruct r as [[it|]|].
  - destruct Hr as ((ds & ->) & Hmu' & Hmu). destruct Hgh as (r' & Hap & ->).
    destruct P as (_ & Hcur & Hne). cbn [item_diffs] in Hap, Hne.
    exists ds. eexists. split; [reflexivity|]. split; [exact Hne|]. split; [exact Egh'|].
    split; [exact Hap|]. split; [exact Hcur|].
    unfold muk. rewrite Esub', Ek. rewrite Eg'. cbn [g_o]. rewrite mu_with_subs. split; assumption.
  - subst gh'. destruct P as (_ & P). split; assumption.
  - subst gh'. destruct P as (_ & P & _). split; assumption.
Qed.

(* a fresh batched subscription *)
Lemma gstep_sub_batched g :
  gstep g (OSub true) = Panic \/
  gstep g (OSub true) =
    Ok ({| g_o := with_subs (g_o g)
                    (subs (g_o g) ++ [Some {| sb_next := length (log (g_o g)); sb_batched := true;
                                               sb_state := SRecv; sb_waiting := false |}]);
           g_gh := g_gh g ++ [{| gh_replica := values (g_o g); gh_delivered := [];
                                 gh_start := length (log (g_o g)); gh_lagged := false |}];
           g_app_ok := g_app_ok g |},
        VSub (length (subs (g_o g))) (values (g_o g))).
Proof.
  unfold gstep. destruct (_ || _); [left; reflexivity|right]. reflexivity.
Qed.

End VecSideB.
