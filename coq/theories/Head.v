(* Head.v — eyeball-im-util/src/vector/head.rs, transcribed arm by arm. *)
From EB Require Export Diff.

Section Head.
Context {A : Type}.

Record head_st := { h_buf : list A; h_limit : nat }.

(* head.rs:167-187 dynamic_with_initial_limit (Head::new = same with an empty limit stream);
   head.rs:150-162 dynamic = limit 0, returns no initial values *)
Definition head_init (limit : nat) (vs : list A) : list A * head_st :=
  ((if limit <? length vs then truncate limit vs else vs), {| h_buf := vs; h_limit := limit |}).

(* head.rs:338-448 handle_diff; [buf'] is the buffered vector *after* the diff was applied *)
Definition head_handle_diff (d : diff A) (limit prev_len : nat) (buf' : list A) : list (diff A) :=
  if limit =? 0 then [] else
  let is_full := limit <=? prev_len in
  match d with
  | Append vs =>
      if is_full then [] else [Append (truncate (min (limit - prev_len) (length vs)) vs)]
  | Clear => [Clear]
  | PushFront x => (if is_full then [PopBack] else []) ++ [PushFront x]
  | PushBack x => if is_full then [] else [PushBack x]
  | PopFront =>
      PopFront :: match nth_error buf' (limit - 1) with Some y => [PushBack y] | None => [] end
  | PopBack => if limit <? prev_len then [] else [PopBack]
  | Insert i x =>
      if limit <=? i then [] else (if is_full then [PopBack] else []) ++ [Insert i x]
  | SetAt i x => if limit <=? i then [] else [SetAt i x]
  | Remove i =>
      if limit <=? i then [] else
      Remove i :: match nth_error buf' (limit - 1) with Some y => [PushBack y] | None => [] end
  | Truncate n => if limit <=? n then [] else [Truncate n]
  | Reset vs => [Reset (if limit <? length vs then truncate limit vs else vs)]
  end.

(* the closure passed to push_into_head_buf, head.rs:247-258.  Panic = VectorDiff::apply panics
   or the ArrayVec<_, 2> overflows *)
Definition head_on_diff (st : head_st) (d : diff A) : outcome (head_st * list (diff A)) :=
  match apply d (h_buf st) with
  | None => Panic
  | Some buf' =>
      let outs := head_handle_diff d (h_limit st) (length (h_buf st)) buf' in
      if 2 <? length outs then Panic
      else Ok ({| h_buf := buf'; h_limit := h_limit st |}, outs)
  end.

(* head.rs:278-322 update_limit.  None = nothing to emit *)
Definition head_update_limit (st : head_st) (new_limit : nat) : head_st * option (list (diff A)) :=
  let old := h_limit st in
  let st' := {| h_buf := h_buf st; h_limit := new_limit |} in
  match h_buf st with
  | [] => (st', None)
  | _ =>
    match old ?= new_limit with
    | Lt =>
        let missing := firstn (new_limit - old) (skipn old (h_buf st)) in
        (st', match missing with [] => None | _ => Some [Append missing] end)
    | Gt => (st', if length (h_buf st) <=? new_limit then None else Some [Truncate new_limit])
    | Eq => (st', None)
    end
  end.

Definition head_view (st : head_st) : list A := firstn (h_limit st) (h_buf st).

End Head.
Arguments head_st : clear implicits.
