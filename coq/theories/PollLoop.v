(* PollLoop.v — the poll_next loops of the adapters (head.rs:222-266, tail.rs:229-272,
   skip.rs:238-285, filter.rs:395-458, sort.rs:273-309) over *scripted* inputs, together with the
   two container flavours of ops.rs (unbatched: one VectorDiff per item + ready buffer;
   batched: Vec<VectorDiff> per item, flat_map, no buffer).

   An input is a queue of items plus an "ended" flag: polling an empty queue answers Pending
   (registering the caller's waker) or, once ended, Ready(None) — every time it is polled.
   The functions return the trace of input polls made during the call (for C14). *)
From EB Require Export Diff.

Inductive src_id := SrcParam | SrcInner.
Inductive resp := RItem | RPending | REnd.
Definition trace := list (src_id * resp).

Definition empty_resp (ended : bool) : resp := if ended then REnd else RPending.

Section Loop.
Context {I B St : Type}.   (* I: one input diff (for Sort: paired with the sort oracle's answer) *)
Variable on_diff : St -> I -> outcome (St * list (diff B)).
Variable on_param : St -> nat -> St * option (list (diff B)).
Variable has_param : bool.   (* Filter / Sort have no parameter stream *)

(* while let Poll::Ready(Some(next)) = limit_stream.poll_next(cx) { if let Some(diffs) = update(next) { return } } *)
Fixpoint poll_params (st : St) (qp : list nat) (pend : bool) (tr : trace)
  : St * list nat * option (list (diff B)) * trace :=
  match qp with
  | [] => (st, [], None, tr ++ [(SrcParam, empty_resp pend)])
  | n :: rest =>
      let '(st', o) := on_param st n in
      match o with
      | Some ds => (st', rest, Some ds, tr ++ [(SrcParam, RItem)])
      | None => poll_params st' rest pend (tr ++ [(SrcParam, RItem)])
      end
  end.

Definition param_again (pend : bool) : trace :=
  if has_param then [(SrcParam, empty_resp pend)] else [].

(* ---------------- unbatched flavour ---------------- *)

Record ustate := { u_st : St; u_ready : list (diff B) }.

(* the rest of the loop once the parameter queue is known to be empty; [first] says whether the
   parameter stream was already polled in this iteration *)
Fixpoint poll_inner_u (st : St) (qi : list I) (iend pend : bool) (first : bool) (tr : trace)
  : outcome (ustate * list I * poll (option (diff B)) * trace) :=
  let tr := if first then tr else tr ++ param_again pend in
  match qi with
  | [] => Ok ({| u_st := st; u_ready := [] |}, [],
              (if iend then Ready None else Pending), tr ++ [(SrcInner, empty_resp iend)])
  | d :: rest =>
      match on_diff st d with
      | Panic => Panic
      | Ok (st', outs) =>
          match outs with
          | [] => poll_inner_u st' rest iend pend false (tr ++ [(SrcInner, RItem)])
          | o :: outs' => Ok ({| u_st := st'; u_ready := outs' |}, rest, Ready (Some o),
                              tr ++ [(SrcInner, RItem)])
          end
      end
  end.

Definition poll_u (s : ustate) (qi : list I) (iend : bool) (qp : list nat) (pend : bool)
  : outcome (ustate * list I * list nat * poll (option (diff B)) * trace) :=
  match u_ready s with
  | o :: r => Ok ({| u_st := u_st s; u_ready := r |}, qi, qp, Ready (Some o), [])
  | [] =>
      if has_param then
        let '(st', qp', o, tr) := poll_params (u_st s) qp pend [] in
        match o with
        | Some [] => Ok ({| u_st := st'; u_ready := [] |}, qi, qp', Ready None, tr)   (* extend_*_buf([]) *)
        | Some (d :: ds) => Ok ({| u_st := st'; u_ready := ds |}, qi, qp', Ready (Some d), tr)
        | None =>
            match poll_inner_u st' qi iend pend true tr with
            | Panic => Panic
            | Ok (s', qi', r, tr') => Ok (s', qi', qp', r, tr')
            end
        end
      else
        match poll_inner_u (u_st s) qi iend pend true [] with
        | Panic => Panic
        | Ok (s', qi', r, tr') => Ok (s', qi', qp, r, tr')
        end
  end.

(* ---------------- batched flavour ---------------- *)

Fixpoint flat_map_diffs (st : St) (ds : list I) : outcome (St * list (diff B)) :=
  match ds with
  | [] => Ok (st, [])
  | d :: rest =>
      match on_diff st d with
      | Panic => Panic
      | Ok (st', outs) =>
          match flat_map_diffs st' rest with
          | Panic => Panic
          | Ok (st'', outs') => Ok (st'', outs ++ outs')
          end
      end
  end.

Fixpoint poll_inner_b (st : St) (qi : list (list I)) (iend pend : bool) (first : bool) (tr : trace)
  : outcome (St * list (list I) * poll (option (list (diff B))) * trace) :=
  let tr := if first then tr else tr ++ param_again pend in
  match qi with
  | [] => Ok (st, [], (if iend then Ready None else Pending), tr ++ [(SrcInner, empty_resp iend)])
  | b :: rest =>
      match flat_map_diffs st b with
      | Panic => Panic
      | Ok (st', outs) =>
          match outs with
          | [] => poll_inner_b st' rest iend pend false (tr ++ [(SrcInner, RItem)])
          | _ => Ok (st', rest, Ready (Some outs), tr ++ [(SrcInner, RItem)])
          end
      end
  end.

Definition poll_b (st : St) (qi : list (list I)) (iend : bool) (qp : list nat) (pend : bool)
  : outcome (St * list (list I) * list nat * poll (option (list (diff B))) * trace) :=
  if has_param then
    let '(st', qp', o, tr) := poll_params st qp pend [] in
    match o with
    | Some [] => Ok (st', qi, qp', Ready None, tr)
    | Some ds => Ok (st', qi, qp', Ready (Some ds), tr)
    | None =>
        match poll_inner_b st' qi iend pend true tr with
        | Panic => Panic
        | Ok (st'', qi', r, tr') => Ok (st'', qi', qp', r, tr')
        end
    end
  else
    match poll_inner_b st qi iend pend true [] with
    | Panic => Panic
    | Ok (st'', qi', r, tr') => Ok (st'', qi', qp, r, tr')
    end.

End Loop.
