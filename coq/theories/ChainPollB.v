(* ChainPollB.v — the BATCHED flavour of ChainPoll.v: the adapters' batched poll loop
   (ops.rs VectorDiffContainer for Vec<VectorDiff>: one item = a whole batch pushed through
   flat_map, no ready buffer, "nothing produced => poll again") over an *arbitrary* inner stream
   [inner : IS -> outcome (IS * poll (option (list I)) * ltrace)], and stacks of batched stages.
   It is to [PollLoop.poll_b] what [ChainPoll.gpoll] is to [PollLoop.poll_u].
   Trace conventions are those of ChainPoll.v (leaf 0 = the source at the bottom, leaf k >= 1 the
   limit/count stream of the k-th stage from the bottom); [gpoll_params] and [gparam_again] are
   reused unchanged (the parameter stream does not depend on the container flavour). *)
From EB Require Export PollLoop ChainPoll.

Section GenericB.
Context {I B St IS : Type}.
Variable on_diff : St -> I -> outcome (St * list (diff B)).
Variable on_param : St -> nat -> St * option (list (diff B)).
Variable has_param : bool.
Variable me : nat.                                           (* leaf id of this stage's parameter stream *)
Variable inner : IS -> outcome (IS * poll (option (list I)) * ltrace).

(* [fuel] bounds the number of inner polls in one call; running out is reported as Panic and is
   excluded by the hypotheses of the theorems (they speak about calls that answered) *)
Fixpoint gpoll_inner_b (fuel : nat) (st : St) (is : IS) (pend : bool) (first : bool) (tr : ltrace)
  : outcome (St * IS * poll (option (list (diff B))) * ltrace) :=
  match fuel with
  | 0 => Panic
  | S fuel' =>
      let tr := if first then tr else tr ++ gparam_again has_param me pend in
      match inner is with
      | Panic => Panic
      | Ok (is', r, itr) =>
          let tr := tr ++ itr in
          match r with
          | Pending => Ok (st, is', Pending, tr)
          | Ready None => Ok (st, is', Ready None, tr)
          | Ready (Some b) =>
              match flat_map_diffs on_diff st b with
              | Panic => Panic
              | Ok (st', outs) =>
                  match outs with
                  | [] => gpoll_inner_b fuel' st' is' pend false tr
                  | _ => Ok (st', is', Ready (Some outs), tr)
                  end
              end
          end
      end
  end.

Definition gpoll_b (fuel : nat) (st : St) (is : IS) (qp : list nat) (pend : bool)
  : outcome (St * IS * list nat * poll (option (list (diff B))) * ltrace) :=
  if has_param then
    let '(st', qp', o, tr) := gpoll_params on_param me st qp pend [] in
    match o with
    | Some [] => Ok (st', is, qp', Ready None, tr)
    | Some ds => Ok (st', is, qp', Ready (Some ds), tr)
    | None =>
        match gpoll_inner_b fuel st' is pend true tr with
        | Panic => Panic
        | Ok (st'', is', r, tr') => Ok (st'', is', qp', r, tr')
        end
    end
  else
    match gpoll_inner_b fuel st is pend true [] with
    | Panic => Panic
    | Ok (st'', is', r, tr') => Ok (st'', is', qp, r, tr')
    end.

End GenericB.

(* the scripted queue of batches of PollLoop.v as an inner stream (leaf 0) *)
Definition queue_inner_b {I : Type} (q : list (list I) * bool)
  : outcome (list (list I) * bool * poll (option (list I)) * ltrace) :=
  match fst q with
  | [] => Ok (q, (if snd q then Ready None else Pending), [(0, empty_resp (snd q))])
  | b :: rest => Ok ((rest, snd q), Ready (Some b), [(0, RItem)])
  end.

(* ---------------- chains ---------------- *)
Section ChainB.
Context {A : Type}.

(* one batched adapter of the stack with its own state (no ready buffer), parameter queue and
   "parameter stream ended" flag *)
Record stage_b := {
  sgb_St : Type;
  sgb_on_diff : sgb_St -> diff A -> outcome (sgb_St * list (diff A));
  sgb_on_param : sgb_St -> nat -> sgb_St * option (list (diff A));
  sgb_hp : bool;
  sgb_st : sgb_St;
  sgb_qp : list nat;
  sgb_pend : bool;
}.

Definition stage_b_with (g : stage_b) (st : sgb_St g) (qp : list nat) : stage_b :=
  {| sgb_St := sgb_St g; sgb_on_diff := sgb_on_diff g; sgb_on_param := sgb_on_param g;
     sgb_hp := sgb_hp g; sgb_st := st; sgb_qp := qp; sgb_pend := sgb_pend g |}.

(* a batched chain: the stages, top first, over the source queue of batches *)
Definition chain_b := (list stage_b * (list (list (diff A)) * bool))%type.

(* polling the top of a batched chain of at most [depth] stages *)
Fixpoint chain_poll_b (depth fuel : nat) (c : chain_b)
  : outcome (chain_b * poll (option (list (diff A))) * ltrace) :=
  match fst c with
  | [] =>
      match queue_inner_b (snd c) with
      | Ok (q', r, tr) => Ok (([], q'), r, tr)
      | Panic => Panic
      end
  | g :: below =>
      match depth with
      | 0 => Panic
      | S depth' =>
          match gpoll_b (sgb_on_diff g) (sgb_on_param g) (sgb_hp g) (length (fst c))
                        (chain_poll_b depth' fuel) fuel (sgb_st g) (below, snd c) (sgb_qp g)
                        (sgb_pend g) with
          | Panic => Panic
          | Ok (st', c', qp', r, tr) => Ok ((stage_b_with g st' qp' :: fst c', snd c'), r, tr)
          end
      end
  end.

(* every parameter handler in the chain never answers Some [] *)
Definition stages_ok_b (gs : list stage_b) : Prop :=
  Forall (fun g => forall st n, snd (sgb_on_param g st n) <> Some []) gs.

(* what "the waker of this call is registered with every leaf" means after a Pending answer:
   the source's last answer was Pending, and so was the last answer of the parameter stream of
   every stage that has one (or its terminal end), and nothing deliverable is left anywhere
   (there is no ready buffer in the batched flavour, so only the queues can hold something) *)
Definition all_registered_b (c : chain_b) (tr : ltrace) : Prop :=
  snd (snd c) = false /\ fst (snd c) = [] /\ last_leaf 0 tr = Some RPending /\
  forall k g, nth_error (rev (fst c)) k = Some g ->
    (sgb_hp g = true -> sgb_qp g = [] /\ last_leaf (S k) tr = Some (empty_resp (sgb_pend g))).

End ChainB.
