(* SortLift.v — the Sort one-step theorem lifted to arbitrary diff sequences (C11). *)
From Coq Require Import Permutation Sorted.
From EB Require Import Diff Sort AdapterCore SortFacts.

Section SortLift.
Context {A : Type}.
Variable cmp : A -> A -> comparison.
Hypothesis cmp_antisym : forall a b, cmp a b = CompOpp (cmp b a).
Hypothesis cmp_trans : forall a b c, cmp a b <> Gt -> cmp b c <> Gt -> cmp a c <> Gt.

(* a source history with, for every diff, the answer the sort oracle gives for it *)
Fixpoint run_sort (steps : list (diff A * list (nat * A))) (buf : list (nat * A)) (l v : list A)
  : option (list (nat * A) * list A * list A) :=
  match steps with
  | [] => Some (buf, l, v)
  | (d, ans) :: rest =>
      match sort_on_diff cmp buf d ans, apply d l with
      | Ok (buf', outs), Some l' =>
          match apply_all_ok outs v with
          | Some v' => run_sort rest buf' l' v'
          | None => None
          end
      | _, _ => None
      end
  end.

(* the history is admissible: source diffs applicable, oracle answers valid, and no step inside
   the known-finding class *)
Fixpoint steps_ok (steps : list (diff A * list (nat * A))) (buf : list (nat * A)) (l : list A) : Prop :=
  match steps with
  | [] => True
  | (d, ans) :: rest =>
      ok_in d l = true /\ sort_truncate_misaligned buf d = false /\
      (forall input, sort_oracle_input buf d = Some input -> valid_sort cmp input ans) /\
      (forall buf' outs l', sort_on_diff cmp buf d ans = Ok (buf', outs) -> apply d l = Some l' ->
                            steps_ok rest buf' l')
  end.

Theorem sort_view_at_quiescence steps buf l :
  sort_inv cmp l buf -> steps_ok steps buf l ->
  exists buf' l',
    run_sort steps buf l (map snd buf) = Some (buf', l', map snd buf') /\
    sort_inv cmp l' buf' /\
    StronglySorted (le cmp) (map snd buf') /\ Permutation (map snd buf') l'.
Proof.
  revert buf l; induction steps as [|[d ans] rest IH]; intros buf l Hinv Hok; cbn [run_sort steps_ok] in *.
  - exists buf, l. split; [reflexivity|]. split; [assumption|]. apply sort_inv_sorted_perm; assumption.
  - destruct Hok as (Hok & Hcl & Hans & Hrest).
    destruct (sort_step cmp cmp_antisym cmp_trans l buf d ans Hinv Hok Hcl Hans)
      as (buf' & outs & l' & E1 & E2 & E3 & Hinv').
    rewrite E1, E2, E3. apply IH; [assumption|]. eapply Hrest; eassumption.
Qed.

End SortLift.
