(* ListVec.v — the part of the imbl::Vector API the library uses, on [list].
   Operations that panic in imbl are option-valued (None = panic); never totalised. *)
From EB Require Export Base.

Section ListVec.
Context {A : Type}.

Definition push_front (x : A) (l : list A) : list A := x :: l.
Definition push_back (x : A) (l : list A) : list A := l ++ [x].
(* imbl pop_front / pop_back on an empty vector return None and leave it unchanged *)
Definition pop_front (l : list A) : list A := tl l.
Definition pop_back (l : list A) : list A := removelast l.
Definition front (l : list A) : option A := hd_error l.
Definition back (l : list A) : option A := nth_error l (length l - 1).

(* imbl insert: panics if index > len *)
Definition insert_at (i : nat) (x : A) (l : list A) : option (list A) :=
  if i <=? length l then Some (firstn i l ++ x :: skipn i l) else None.
(* imbl set: panics if index >= len *)
Definition set_at (i : nat) (x : A) (l : list A) : option (list A) :=
  if i <? length l then Some (firstn i l ++ x :: skipn (S i) l) else None.
(* imbl remove: panics if index >= len *)
Definition remove_at (i : nat) (l : list A) : option (list A) :=
  if i <? length l then Some (firstn i l ++ skipn (S i) l) else None.
(* imbl truncate: no-op when n >= len *)
Definition truncate (n : nat) (l : list A) : list A := firstn n l.
(* imbl skip / eyeball-im-util's Skeep *)
Definition skeep (n : nat) (l : list A) : list A := skipn n l.
(* eyeball-im-util tail.rs truncate_from_end: keep the last n *)
Definition truncate_from_end (n : nat) (l : list A) : list A := skipn (length l - n) l.

End ListVec.
