(* FullStackB.v — FullStack.v for the BATCHED flavour: the adapter is created on
   `vector.subscribe().batched()` (VectorSubscriberBatchedStream: one item = everything that is
   pending, or one Reset after a lag) with a Subscriber of an Observable<usize> as its limit
   stream.  Items are Vec<VectorDiff>; there is no ready buffer (ops.rs, impl for Vec<VectorDiff<T>>);
   the loop is head.rs:222-266 / skip.rs:238-285 with push_into_*_buf = flat_map over the batch
   (PollLoop.flat_map_diffs) and "nothing produced => loop again". *)
From EB Require Export Diff AdapterCore PollLoop OVec OVecRun Obs FullStack.

Section LoopB.
Context {I B St IS PS : Type}.
Variable on_diff : St -> I -> outcome (St * list (diff B)).
Variable on_param : St -> nat -> St * option (list (diff B)).
Variable inner : IS -> outcome (IS * poll (option (list I))).
Variable ppoll : PS -> outcome (PS * poll (option nat)).

Fixpoint floop_b (fuel : nat) (st : St) (is : IS) (ps : PS)
  : res (St * IS * PS * poll (option (list (diff B)))) :=
  match fuel with
  | 0 => RFuel
  | S f =>
      match fparams on_param ppoll fuel st ps with
      | RFuel => RFuel
      | RPanic => RPanic
      | ROk (st1, ps1, Some []) => ROk (st1, is, ps1, Ready None)          (* extend_*_buf([]) = None *)
      | ROk (st1, ps1, Some ds) => ROk (st1, is, ps1, Ready (Some ds))
      | ROk (st1, ps1, None) =>
          match inner is with
          | Panic => RPanic
          | Ok (is1, Pending) => ROk (st1, is1, ps1, Pending)
          | Ok (is1, Ready None) => ROk (st1, is1, ps1, Ready None)
          | Ok (is1, Ready (Some b)) =>
              match flat_map_diffs on_diff st1 b with
              | Panic => RPanic
              | Ok (st2, []) => floop_b f st2 is1 ps1
              | Ok (st2, outs) => ROk (st2, is1, ps1, Ready (Some outs))
              end
          end
      end
  end.

End LoopB.

Section FullB.
Context {A St : Type}.
Variable veq heq : nat -> nat -> bool.
Variable vdefault : nat.
Variable on_diff : St -> diff A -> outcome (St * list (diff A)).
Variable on_param : St -> nat -> St * option (list (diff A)).
Variable init : nat -> list A -> St * list A.

Record attached_b := { b_k : nat; b_j : nat; b_st : St; b_view : list A }.

Record fsb := {
  fb_g : gst A;
  fb_lim : obs nat;
  fb_ad : option attached_b;
  fb_ok : bool;                      (* every batch handed out so far was applicable to the view *)
}.

Definition fsb_init (capacity : nat) (okd : kind) (limit0 : nat) : fsb :=
  {| fb_g := ginit capacity; fb_lim := obs_new okd limit0; fb_ad := None; fb_ok := true |}.

(* the batched stream of vector subscriber k as the adapter's inner stream *)
Definition vinner_b (k : nat) (g : gst A) : outcome (gst A * poll (option (list (diff A)))) :=
  match gstep g (OPoll k) with
  | Ok (g', VPoll Pending) => Ok (g', Pending)
  | Ok (g', VPoll (Ready None)) => Ok (g', Ready None)
  | Ok (g', VPoll (Ready (Some (IBatch ds)))) => Ok (g', Ready (Some ds))
  | _ => Panic
  end.

Definition owns_vec_b (s : fsb) (x : OVecRun.op A) : bool :=
  match fb_ad s, x with
  | Some a, OPoll k | Some a, ODropSub k => k =? b_k a
  | _, _ => false
  end.
Definition owns_lim_b (s : fsb) (x : Obs.op nat) : bool :=
  match fb_ad s, op_sub x with
  | Some a, Some k => k =? b_j a
  | _, _ => false
  end.

Inductive fout_b := FBNone | FBAnswer (r : poll (option (list (diff A)))).

Definition fstep_b (s : fsb) (e : fev A) : res (fsb * fout_b) :=
  match e with
  | FVec x =>
      if owns_vec_b s x then ROk (s, FBNone) else
      match gstep (fb_g s) x with
      | Ok (g', _) => ROk ({| fb_g := g'; fb_lim := fb_lim s; fb_ad := fb_ad s; fb_ok := fb_ok s |}, FBNone)
      | Panic => ROk (s, FBNone)
      end
  | FLim x =>
      if owns_lim_b s x then ROk (s, FBNone) else
      match Obs.step veq heq vdefault (fb_lim s) x with
      | Ok (o', _, _) => ROk ({| fb_g := fb_g s; fb_lim := o'; fb_ad := fb_ad s; fb_ok := fb_ok s |}, FBNone)
      | Panic => ROk (s, FBNone)
      end
  | FAttach =>
      match fb_ad s with
      | Some _ => ROk (s, FBNone)
      | None =>
          match gstep (fb_g s) (OSub true), Obs.step veq heq vdefault (fb_lim s) WSubscribe with
          | Ok (g', VSub k snap), Ok (o', OSubId j, _) =>
              let '(st, view) := init (val (fb_lim s)) snap in
              ROk ({| fb_g := g'; fb_lim := o';
                      fb_ad := Some {| b_k := k; b_j := j; b_st := st; b_view := view |};
                      fb_ok := fb_ok s |}, FBNone)
          | _, _ => ROk (s, FBNone)
          end
      end
  | FPoll fuel =>
      match fb_ad s with
      | None => ROk (s, FBNone)
      | Some a =>
          match floop_b on_diff on_param (vinner_b (b_k a)) (lpoll veq heq vdefault (b_j a)) fuel (b_st a) (fb_g s) (fb_lim s) with
          | RFuel => RFuel
          | RPanic => RPanic
          | ROk (st', g', o', r) =>
              let '(view', ok) :=
                match r with
                | Ready (Some ds) =>
                    match apply_all_ok ds (b_view a) with
                    | Some v' => (v', true)
                    | None => (b_view a, false)
                    end
                | _ => (b_view a, true)
                end in
              ROk ({| fb_g := g'; fb_lim := o';
                      fb_ad := Some {| b_k := b_k a; b_j := b_j a; b_st := st'; b_view := view' |};
                      fb_ok := fb_ok s && ok |}, FBAnswer r)
          end
      end
  end.

Fixpoint frun_b (s : fsb) (evs : list (fev A)) : res fsb :=
  match evs with
  | [] => ROk s
  | e :: rest =>
      match fstep_b s e with
      | RFuel => RFuel
      | RPanic => RPanic
      | ROk (s', _) => frun_b s' rest
      end
  end.

End FullB.
Arguments fsb : clear implicits.
Arguments attached_b : clear implicits.
