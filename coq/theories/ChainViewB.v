(* ChainViewB.v — view correctness of LAZILY evaluated BATCHED adapter chains (C12 / C13 for real
   stacks of batched streams).  ChainView.v does the unbatched stacks (a ready buffer at every
   level, HandOver.mid_burst at every level).  The batched flavour (ChainPollB.chain_poll_b) has no
   ready buffer: a level pulls a WHOLE batch from the level below, pushes it through
   PollLoop.flat_map_diffs and hands the whole output on (or polls again if nothing came out).
   Here: every level's relation holds DIRECTLY between the view of the level below and the view of
   the level above, one poll keeps that, an emitted batch is never empty and takes the consumer's
   view to a state that stands for the source after a WHOLE NUMBER of source batches. *)
From EB Require Import Diff AdapterCore PollLoop ChainPoll ChainPollFacts.
From EB Require Import ChainPollB ChainPollBFacts BatchCompose ChainView.
From EB Require Import Head Skip HeadFacts SkipFacts LtsLift.
From Coq Require Import Lia.

(* ------------------------------------------------------------------------------------------ *)
(* 0. one batched level over an ARBITRARY inner stream of batches                             *)
(* ------------------------------------------------------------------------------------------ *)
Section GenViewB.
Context {A B St IS : Type}.
Variable on_diff : St -> diff A -> outcome (St * list (diff B)).
Variable on_param : St -> nat -> St * option (list (diff B)).
Variable hp : bool.
Variable me : nat.
Variable inner : IS -> outcome (IS * poll (option (list (diff A))) * ltrace).
Variable R : St -> list A -> list B -> Prop.
(* [J is w]: the inner stream is in state [is] while ITS consumer (= this level) holds [w] *)
Variable J : IS -> list A -> Prop.

Hypothesis Hstep : step_ok on_diff R.
Hypothesis Hparam : param_ok on_param R.
Hypothesis inner_view :
  forall is w is' r itr, J is w -> inner is = Ok (is', r, itr) ->
    match r with
    | Ready (Some b) => exists w1, apply_all_ok b w = Some w1 /\ J is' w1
    | _ => J is' w
    end.

Lemma gpoll_inner_b_view hp0 : forall fuel st is w v pend first tr st' is' r tr',
  R st w v -> J is w ->
  gpoll_inner_b on_diff hp0 me inner fuel st is pend first tr = Ok (st', is', r, tr') ->
  exists w', J is' w' /\
    match r with
    | Ready (Some ds) => ds <> [] /\ exists v1, apply_all_ok ds v = Some v1 /\ R st' w' v1
    | _ => R st' w' v
    end.
Proof.
  induction fuel as [|fuel IH]; intros st is w v pend first tr st' is' r tr' HR HJ H;
    cbn [gpoll_inner_b] in H; [discriminate|].
  destruct (inner is) as [[[is1 r1] itr]|] eqn:Ei; [|discriminate].
  pose proof (inner_view _ _ _ _ _ HJ Ei) as Hv.
  destruct r1 as [[b|]|].
  - destruct Hv as (w1 & Hap & HJ1).
    destruct (flat_map_diffs_ok on_diff R Hstep b st w v w1 HR Hap)
      as (st1 & outs & v1 & E1 & E2 & HR1).
    rewrite E1 in H. destruct outs as [|o outs'].
    + cbn in E2. injection E2 as <-. eapply IH; eassumption.
    + injection H as <- <- <- _. exists w1. split; [exact HJ1|].
      split; [discriminate|]. exists v1. split; assumption.
  - injection H as <- <- <- _. exists w. split; assumption.
  - injection H as <- <- <- _. exists w. split; assumption.
Qed.

(* the single-level theorem over an arbitrary inner stream: the level's relation is kept, a batch
   handed out is not empty and is applicable to the consumer's view *)
Lemma gpoll_b_view fuel st is w v qp pend st' is' qp' r tr :
  R st w v -> J is w ->
  gpoll_b on_diff on_param hp me inner fuel st is qp pend = Ok (st', is', qp', r, tr) ->
  exists w', J is' w' /\
    match r with
    | Ready (Some ds) => ds <> [] /\ exists v1, apply_all_ok ds v = Some v1 /\ R st' w' v1
    | _ => R st' w' v
    end.
Proof.
  intros HR HJ H. unfold gpoll_b in H. destruct hp.
  - destruct (gpoll_params on_param me st qp pend []) as [[[st1 qp1] o1] tr1] eqn:Ep.
    destruct (gpoll_params_mid on_param me R Hparam _ _ _ _ _ _ _ _ _ _ HR Ep) as (v1 & E1 & HR1).
    destruct o1 as [[|d ds]|].
    + injection H as <- <- <- <- _. exists w. split; [exact HJ|].
      cbn in E1. injection E1 as <-. exact HR1.
    + injection H as <- <- <- <- _. exists w. split; [exact HJ|].
      split; [discriminate|]. exists v1. split; assumption.
    + cbn in E1. injection E1 as <-.
      destruct (gpoll_inner_b on_diff true me inner fuel st1 is pend true tr1)
        as [[[[st2 is2] r2] tr2]|] eqn:Ei; [|discriminate].
      injection H as <- <- <- <- _. eapply gpoll_inner_b_view; eassumption.
  - destruct (gpoll_inner_b on_diff false me inner fuel st is pend true [])
      as [[[[st2 is2] r2] tr2]|] eqn:Ei; [|discriminate].
    injection H as <- <- <- <- _. eapply gpoll_inner_b_view; eassumption.
Qed.

End GenViewB.

(* two list facts used to turn "a prefix of the queue was consumed" into firstn / skipn *)
Lemma firstn_length_app {X : Type} (p q : list X) : firstn (length p) (p ++ q) = p.
Proof. rewrite firstn_app, firstn_all, Nat.sub_diag, firstn_O, app_nil_r. reflexivity. Qed.

Lemma skipn_length_app {X : Type} (p q : list X) : skipn (length p) (p ++ q) = q.
Proof. rewrite skipn_app, skipn_all, Nat.sub_diag, skipn_O. reflexivity. Qed.

(* ------------------------------------------------------------------------------------------ *)
(* 1. correct batched stages, packaged                                                        *)
(* ------------------------------------------------------------------------------------------ *)
Section ChainViewB.
Context {A : Type}.

Record stage_rel_b (g : stage_b (A:=A)) : Type := {
  srb_R : sgb_St g -> list A -> list A -> Prop;
  srb_step : step_ok (sgb_on_diff g) srb_R;
  srb_param : param_ok (sgb_on_param g) srb_R;
  srb_shape : forall st n, snd (sgb_on_param g st n) <> Some [];
}.

Definition cstage_b : Type := { g : stage_b (A:=A) & stage_rel_b g }.
Definition cs_stage_b (cg : cstage_b) : stage_b (A:=A) := projT1 cg.
Definition cs_R_b (cg : cstage_b) : sgb_St (cs_stage_b cg) -> list A -> list A -> Prop :=
  srb_R _ (projT2 cg).

(* the same stage (same handlers, SAME relation) in another dynamic state *)
Definition cstage_b_with (cg : cstage_b) (st : sgb_St (cs_stage_b cg)) (qp : list nat) : cstage_b :=
  existT stage_rel_b (stage_b_with (cs_stage_b cg) st qp)
    {| srb_R := (srb_R _ (projT2 cg) : sgb_St (stage_b_with (cs_stage_b cg) st qp) -> _);
       srb_step := srb_step _ (projT2 cg);
       srb_param := srb_param _ (projT2 cg);
       srb_shape := srb_shape _ (projT2 cg) |}.

Definition evolves_b (cg cg' : cstage_b) : Prop := exists st qp, cg' = cstage_b_with cg st qp.

Lemma evolves_b_refl cg : evolves_b cg cg.
Proof.
  destruct cg as [[St od op hp st qp pend] [R p1 p2 p3]].
  exists st, qp. reflexivity.
Qed.

Lemma evolves_b_trans cg1 cg2 cg3 : evolves_b cg1 cg2 -> evolves_b cg2 cg3 -> evolves_b cg1 cg3.
Proof.
  intros (st & qp & ->) (st' & qp' & ->). exists st', qp'. reflexivity.
Qed.

Lemma Forall2_evolves_b_refl gs : Forall2 evolves_b gs gs.
Proof. induction gs; constructor; [apply evolves_b_refl|assumption]. Qed.

Lemma Forall2_evolves_b_trans gs1 : forall gs2 gs3,
  Forall2 evolves_b gs1 gs2 -> Forall2 evolves_b gs2 gs3 -> Forall2 evolves_b gs1 gs3.
Proof.
  induction gs1 as [|g gs1 IH]; intros gs2 gs3 H12 H23.
  - inversion H12; subst. inversion H23; subst. constructor.
  - inversion H12; subst. inversion H23; subst. constructor.
    + eapply evolves_b_trans; eassumption.
    + eapply IH; eassumption.
Qed.

(* chains of correct batched stages (top first) over a queue of source batches *)
Definition cchain_b : Type := (list cstage_b * (list (list (diff A)) * bool))%type.
Definition erase_b (cc : cchain_b) : chain_b (A:=A) := (map cs_stage_b (fst cc), snd cc).

Lemma erase_b_stages_ok cc : stages_ok_b (fst (erase_b cc)).
Proof.
  unfold stages_ok_b, erase_b. cbn [fst]. apply Forall_forall. intros g Hin.
  apply in_map_iff in Hin. destruct Hin as (cg & <- & _). exact (srb_shape _ (projT2 cg)).
Qed.

(* ------------------------------------------------------------------------------------------ *)
(* 2. the chain invariant                                                                     *)
(* ------------------------------------------------------------------------------------------ *)
(* [stages_view_b gs l v]: the bottom stage has consumed the source up to contents [l]; going up,
   every level's relation holds between the view below and the view above; the top consumer holds
   [v].  For two stages [b] over [a]:  exists mid, Ra sa l mid /\ Rb sb mid v. *)
Fixpoint stages_view_b (gs : list cstage_b) (l v : list A) : Prop :=
  match gs with
  | [] => v = l
  | cg :: below =>
      exists w, stages_view_b below l w /\ cs_R_b cg (sgb_st (cs_stage_b cg)) w v
  end.

Definition chain_view_b (cc : cchain_b) (l v : list A) : Prop := stages_view_b (fst cc) l v.

Lemma stages_view_b_two (cb ca : cstage_b) l v :
  stages_view_b [cb; ca] l v <->
  exists mid, cs_R_b ca (sgb_st (cs_stage_b ca)) l mid /\ cs_R_b cb (sgb_st (cs_stage_b cb)) mid v.
Proof.
  cbn [stages_view_b]. split.
  - intros (mid & (l0 & -> & HRa) & HRb). exists mid. split; assumption.
  - intros (mid & HRa & HRb). exists mid. split; [|assumption]. exists l. split; [reflexivity|assumption].
Qed.

(* ------------------------------------------------------------------------------------------ *)
(* 3. the nested batched loops keep it                                                        *)
(* ------------------------------------------------------------------------------------------ *)
(* the working form: the batches consumed from the source queue are a PREFIX [pre] of the queue *)
Lemma chain_poll_b_view_pre :
  forall (depth fuel : nat) (cc : cchain_b) (l v lq : list A) c' r tr,
    chain_view_b cc l v ->
    apply_all_ok (concat (fst (snd cc))) l = Some lq ->
    chain_poll_b depth fuel (erase_b cc) = Ok (c', r, tr) ->
    exists (cc' : cchain_b) (l' : list A) (pre : list (list (diff A))),
      erase_b cc' = c' /\ Forall2 evolves_b (fst cc) (fst cc') /\
      fst (snd cc) = pre ++ fst (snd cc') /\
      apply_all_ok (concat pre) l = Some l' /\
      apply_all_ok (concat (fst (snd cc'))) l' = Some lq /\
      match r with
      | Ready (Some ds) =>
          (fst cc <> [] -> ds <> []) /\
          exists v1, apply_all_ok ds v = Some v1 /\ chain_view_b cc' l' v1
      | _ => chain_view_b cc' l' v
      end.
Proof.
  intros depth fuel cc l v lq. revert cc l v.
  assert (Hbase : forall (d0 : nat) (qs : list (list (diff A))) (e : bool) l v c' r tr,
            chain_view_b ([], (qs, e)) l v ->
            apply_all_ok (concat qs) l = Some lq ->
            chain_poll_b d0 fuel (erase_b ([], (qs, e))) = Ok (c', r, tr) ->
            exists (cc' : cchain_b) (l' : list A) (pre : list (list (diff A))),
              erase_b cc' = c' /\ Forall2 evolves_b [] (fst cc') /\
              qs = pre ++ fst (snd cc') /\
              apply_all_ok (concat pre) l = Some l' /\
              apply_all_ok (concat (fst (snd cc'))) l' = Some lq /\
              match r with
              | Ready (Some ds) =>
                  (@nil cstage_b <> [] -> ds <> []) /\
                  exists v1, apply_all_ok ds v = Some v1 /\ chain_view_b cc' l' v1
              | _ => chain_view_b cc' l' v
              end).
  { intros d0 qs e l v c' r tr Hv Hq H.
    unfold erase_b in H. cbn [fst snd map] in H. rewrite chain_poll_b_nil in H.
    unfold chain_view_b in Hv. cbn [fst stages_view_b] in Hv. subst v.
    unfold queue_inner_b in H. cbn [fst snd] in H. destruct qs as [|b rest].
    - injection H as <- <- _. exists ([], ([], e)), l, [].
      split; [reflexivity|]. split; [constructor|]. split; [reflexivity|].
      split; [reflexivity|]. split; [exact Hq|].
      destruct e; reflexivity.
    - injection H as <- <- _.
      cbn [concat] in Hq. rewrite apply_all_ok_app in Hq.
      destruct (apply_all_ok b l) as [l1|] eqn:Hb; [|discriminate]. cbn [obind] in Hq.
      exists ([], (rest, e)), l1, [b].
      split; [reflexivity|]. split; [constructor|]. split; [reflexivity|].
      split. { cbn [concat]. rewrite app_nil_r. exact Hb. }
      split; [exact Hq|].
      split; [intro Hne; exfalso; apply Hne; reflexivity|].
      exists l1. split; reflexivity. }
  induction depth as [|depth IH].
  - intros [[|cg below] [qs e]] l v c' r tr Hv Hq H; [|discriminate].
    eapply Hbase; eassumption.
  - intros [[|cg below] [qs e]] l v c' r tr Hv Hq H.
    + eapply Hbase; eassumption.
    + clear Hbase.
      unfold erase_b in H. cbn [fst snd map] in *. rewrite chain_poll_b_cons in H.
      destruct (gpoll_b _ _ _ _ _ _ _ _ _ _) as [[[[[st1 c1] qp1] r1] tr1]|] eqn:E; [|discriminate].
      injection H as <- <- _.
      unfold chain_view_b in Hv. cbn [fst stages_view_b] in Hv. destruct Hv as (w & Hbelow & HR).
      (* the invariant of the stream below, as seen by this level *)
      pose (J := fun (c : chain_b (A:=A)) (w0 : list A) =>
                   exists (cc1 : cchain_b) (l1 : list A) (pre1 : list (list (diff A))),
                     erase_b cc1 = c /\ Forall2 evolves_b below (fst cc1) /\
                     qs = pre1 ++ fst (snd cc1) /\
                     apply_all_ok (concat pre1) l = Some l1 /\
                     apply_all_ok (concat (fst (snd cc1))) l1 = Some lq /\ chain_view_b cc1 l1 w0).
      assert (HJ0 : J (map cs_stage_b below, (qs, e)) w).
      { exists (below, (qs, e)), l, []. split; [reflexivity|].
        split; [apply Forall2_evolves_b_refl|]. split; [reflexivity|]. split; [reflexivity|].
        split; [exact Hq|exact Hbelow]. }
      assert (Hinner : forall is w0 is' r0 itr, J is w0 ->
                chain_poll_b depth fuel is = Ok (is', r0, itr) ->
                match r0 with
                | Ready (Some b) => exists w1, apply_all_ok b w0 = Some w1 /\ J is' w1
                | _ => J is' w0
                end).
      { intros is w0 is' r0 itr (cc1 & l1 & pre1 & <- & Hev & Hpre1 & Hl1 & Hq1 & Hv1) Hp.
        destruct (IH cc1 l1 w0 is' r0 itr Hv1 Hq1 Hp)
          as (cc2 & l2 & pre2 & He2 & Hev2 & Hpre2 & Hl2 & Hq2 & Hpost).
        assert (Hev' : Forall2 evolves_b below (fst cc2))
          by (eapply Forall2_evolves_b_trans; eassumption).
        assert (Hpre' : qs = (pre1 ++ pre2) ++ fst (snd cc2)).
        { rewrite <- app_assoc, <- Hpre2. exact Hpre1. }
        assert (Hl' : apply_all_ok (concat (pre1 ++ pre2)) l = Some l2).
        { rewrite concat_app, apply_all_ok_app, Hl1. cbn [obind]. exact Hl2. }
        destruct r0 as [[b|]|].
        - destruct Hpost as (_ & w1 & Hap & Hv2). exists w1. split; [exact Hap|].
          exists cc2, l2, (pre1 ++ pre2). repeat split; assumption.
        - exists cc2, l2, (pre1 ++ pre2). repeat split; assumption.
        - exists cc2, l2, (pre1 ++ pre2). repeat split; assumption. }
      destruct (gpoll_b_view (sgb_on_diff (cs_stage_b cg)) (sgb_on_param (cs_stage_b cg))
                  (sgb_hp (cs_stage_b cg)) (S (length (map cs_stage_b below)))
                  (chain_poll_b depth fuel) (cs_R_b cg) J
                  (srb_step _ (projT2 cg)) (srb_param _ (projT2 cg)) Hinner
                  _ _ _ _ _ _ _ _ _ _ _ _ HR HJ0 E)
        as (w' & (cc1 & l1 & pre1 & He1 & Hev1 & Hpre1 & Hl1 & Hq1 & Hv1) & Hpost).
      exists (cstage_b_with cg st1 qp1 :: fst cc1, snd cc1), l1, pre1.
      split. { unfold erase_b. cbn [fst snd map]. rewrite <- He1. reflexivity. }
      split. { cbn [fst]. constructor; [exists st1, qp1; reflexivity|exact Hev1]. }
      split; [exact Hpre1|]. split; [exact Hl1|]. split; [exact Hq1|].
      destruct r1 as [[ds|]|].
      * destruct Hpost as (Hne & v1 & Hap & HR1). split; [intros _; exact Hne|].
        exists v1. split; [exact Hap|].
        unfold chain_view_b. cbn [fst stages_view_b]. exists w'. split; [exact Hv1|exact HR1].
      * unfold chain_view_b. cbn [fst stages_view_b]. exists w'. split; [exact Hv1|exact Hpost].
      * unfold chain_view_b. cbn [fst stages_view_b]. exists w'. split; [exact Hv1|exact Hpost].
Qed.

(* the theorem: one poll of the top of a batched stack keeps the invariant; a batch handed out is
   never empty (C13), is applicable to the consumer's view and takes it to a view that stands for
   the source after a WHOLE NUMBER [k] of source batches (never for a state inside a batch) *)
Theorem chain_poll_b_view :
  forall (depth fuel : nat) (cc : cchain_b) (l v lq : list A) c' r tr,
    chain_view_b cc l v ->
    apply_all_ok (concat (fst (snd cc))) l = Some lq ->
    chain_poll_b depth fuel (erase_b cc) = Ok (c', r, tr) ->
    exists (cc' : cchain_b) (l' : list A) (k : nat),
      erase_b cc' = c' /\ Forall2 evolves_b (fst cc) (fst cc') /\
      k <= length (fst (snd cc)) /\
      apply_all_ok (concat (firstn k (fst (snd cc)))) l = Some l' /\
      fst (snd cc') = skipn k (fst (snd cc)) /\
      apply_all_ok (concat (fst (snd cc'))) l' = Some lq /\
      match r with
      | Ready (Some ds) =>
          (fst cc <> [] -> ds <> []) /\
          exists v1, apply_all_ok ds v = Some v1 /\ chain_view_b cc' l' v1
      | _ => chain_view_b cc' l' v
      end.
Proof.
  intros depth fuel cc l v lq c' r tr Hv Hq H.
  destruct (chain_poll_b_view_pre _ _ _ _ _ _ _ _ _ Hv Hq H)
    as (cc' & l' & pre & He & Hev & Hpre & Hl & Hq' & Hpost).
  exists cc', l', (length pre). split; [exact He|]. split; [exact Hev|].
  rewrite Hpre. rewrite firstn_length_app, skipn_length_app, app_length.
  split; [lia|]. split; [exact Hl|]. split; [reflexivity|]. split; [exact Hq'|exact Hpost].
Qed.

(* ------------------------------------------------------------------------------------------ *)
(* 4. at a Pending answer: everything queued was consumed, the waker is registered with every  *)
(*    leaf and the top view IS the view of the final source contents through every level       *)
(* ------------------------------------------------------------------------------------------ *)
Corollary chain_b_view_at_pending :
  forall (depth fuel : nat) (cc : cchain_b) (l v lq : list A) c' tr,
    chain_view_b cc l v ->
    apply_all_ok (concat (fst (snd cc))) l = Some lq ->
    chain_poll_b depth fuel (erase_b cc) = Ok (c', Pending, tr) ->
    exists cc' : cchain_b,
      erase_b cc' = c' /\ Forall2 evolves_b (fst cc) (fst cc') /\
      snd cc' = ([], false) /\ all_registered_b c' tr /\
      chain_view_b cc' lq v.
Proof.
  intros depth fuel cc l v lq c' tr Hv Hq H.
  destruct (chain_poll_b_view_pre _ _ _ _ _ _ _ _ _ Hv Hq H)
    as (cc' & l' & pre & He & Hev & _ & _ & Hq' & Hv').
  pose proof (chain_b_pending_registers_everywhere _ _ _ _ _ _ (erase_b_stages_ok cc) H) as Hreg.
  exists cc'. split; [exact He|]. split; [exact Hev|].
  subst c'. pose proof Hreg as (Hend & Hqe & _). unfold erase_b in Hend, Hqe.
  cbn [fst snd] in Hend, Hqe.
  split. { destruct (snd cc') as [qs e]. cbn [fst snd] in *. subst. reflexivity. }
  split; [exact Hreg|].
  rewrite Hqe in Hq'. cbn in Hq'. injection Hq' as ->. exact Hv'.
Qed.

(* ------------------------------------------------------------------------------------------ *)
(* 5. no panic: with enough fuel and depth a poll of a batched chain in the invariant answers  *)
(* ------------------------------------------------------------------------------------------ *)
(* [answers_b c res]: from some fuel on (and any sufficient depth) the poll of [c] answers [res] *)
Definition answers_b (c : chain_b (A:=A))
  (res : chain_b (A:=A) * poll (option (list (diff A))) * ltrace) : Prop :=
  exists F, forall depth fuel, length (fst c) <= depth -> F <= fuel ->
    chain_poll_b depth fuel c = Ok res.

(* [drains_b c]: polled again and again, [c] answers every time and, after finitely many batches,
   something that is not a batch *)
Inductive drains_b : chain_b (A:=A) -> Prop :=
| drains_b_intro c c' r tr :
    answers_b c (c', r, tr) ->
    (forall ds, r = Ready (Some ds) -> drains_b c') ->
    drains_b c.

Definition Jvb (lq : list A) (c : chain_b (A:=A)) (w : list A) : Prop :=
  exists (cc1 : cchain_b) (l1 : list A),
    erase_b cc1 = c /\ apply_all_ok (concat (fst (snd cc1))) l1 = Some lq /\ chain_view_b cc1 l1 w.

Lemma Jvb_step lq depth fuel is w is' r itr :
  Jvb lq is w -> chain_poll_b depth fuel is = Ok (is', r, itr) ->
  match r with
  | Ready (Some b) => exists w1, apply_all_ok b w = Some w1 /\ Jvb lq is' w1
  | _ => Jvb lq is' w
  end.
Proof.
  intros (cc1 & l1 & <- & Hq1 & Hv1) Hp.
  destruct (chain_poll_b_view_pre _ _ _ _ _ _ _ _ _ Hv1 Hq1 Hp)
    as (cc2 & l2 & pre & He2 & _ & _ & _ & Hq2 & Hpost).
  destruct r as [[b|]|].
  - destruct Hpost as (_ & w1 & Hap & Hv2). exists w1. split; [exact Hap|].
    exists cc2, l2. repeat split; assumption.
  - exists cc2, l2. repeat split; assumption.
  - exists cc2, l2. repeat split; assumption.
Qed.

Lemma Jvb_length lq depth fuel is w is' r itr :
  Jvb lq is w -> chain_poll_b depth fuel is = Ok (is', r, itr) -> length (fst is') = length (fst is).
Proof.
  intros (cc1 & l1 & <- & _ & _) Hp.
  destruct (chain_poll_b_inv _ _ _ _ _ _ (erase_b_stages_ok cc1) Hp) as (Hl & _ & _). exact Hl.
Qed.

Definition top_b (g : stage_b (A:=A)) (st : sgb_St g) (qp : list nat) (is : chain_b (A:=A))
  : chain_b (A:=A) :=
  (stage_b_with g st qp :: fst is, snd is).

Lemma chain_poll_b_top (g : stage_b (A:=A)) depth fuel st qp (is : chain_b (A:=A)) :
  chain_poll_b (S depth) fuel (top_b g st qp is) =
  match gpoll_b (sgb_on_diff g) (sgb_on_param g) (sgb_hp g) (S (length (fst is)))
                (chain_poll_b depth fuel) fuel st is qp (sgb_pend g) with
  | Panic => Panic
  | Ok (st', c', qp', r, tr) => Ok (top_b g st' qp' c', r, tr)
  end.
Proof. destruct is as [below q]. reflexivity. Qed.

Section TopDrainsB.
Variable cg : cstage_b.
Variable lq : list A.
Let g := cs_stage_b cg.
Let R := cs_R_b cg.

(* the top level over a stream [is] that drains: *)
(* ... the whole level drains, whatever it has queued *)
Definition Pst_b (is : chain_b (A:=A)) : Prop :=
  forall st qp w v, Jvb lq is w -> R st w v -> drains_b (top_b g st qp is).
(* ... its loop over the stream below comes to an end *)
Definition Qst_b (is : chain_b (A:=A)) : Prop :=
  forall hp0 me w st v pend first tr qp, Jvb lq is w -> R st w v ->
    exists F st' is' r tr',
      (forall d fi fl, length (fst is) <= d -> F <= fi -> F <= fl ->
         gpoll_inner_b (sgb_on_diff g) hp0 me (chain_poll_b d fi) fl st is pend first tr
         = Ok (st', is', r, tr')) /\
      (forall x, r = Ready (Some x) -> drains_b (top_b g st' qp is')).

Lemma Pst_b_of_Qst_b is : Qst_b is -> Pst_b is.
Proof.
  intros HQ st qp w v HJ HR.
  assert (HP : forall n st qp v, length qp = n -> R st w v -> drains_b (top_b g st qp is)).
  2:{ eapply HP; [reflexivity|exact HR]. }
  clear st qp v HR.
  induction n as [n IHn] using lt_wf_ind.
  intros st qp v Hn HR.
  destruct (sgb_hp g) eqn:Hh.
  - destruct (gpoll_params (sgb_on_param g) (S (length (fst is))) st qp (sgb_pend g) [])
      as [[[st1 qp1] o1] tr1] eqn:Ep.
    destruct (gpoll_params_mid (sgb_on_param g) (S (length (fst is))) R (srb_param _ (projT2 cg))
                _ _ _ _ _ _ _ _ _ _ HR Ep) as (v1 & E1 & HR1).
    destruct (gpoll_params_len _ _ _ _ _ _ _ _ _ _ Ep) as [Hle Hlt].
    destruct o1 as [[|d ds]|].
    + (* Some []: the stream ends *)
      apply drains_b_intro with (c' := top_b g st1 qp1 is) (r := Ready None) (tr := tr1);
        [|discriminate].
      exists 0. intros depth fuel Hd _. destruct depth as [|depth]; [cbn in Hd; lia|].
      rewrite chain_poll_b_top. unfold gpoll_b. rewrite Hh, Ep. reflexivity.
    + apply drains_b_intro with (c' := top_b g st1 qp1 is) (r := Ready (Some (d :: ds))) (tr := tr1).
      * exists 0. intros depth fuel Hd _. destruct depth as [|depth]; [cbn in Hd; lia|].
        rewrite chain_poll_b_top. unfold gpoll_b. rewrite Hh, Ep. reflexivity.
      * intros ds0 _.
        eapply (IHn (length qp1)); [specialize (Hlt _ eq_refl); lia|reflexivity|exact HR1].
    + cbn in E1. injection E1 as <-.
      destruct (HQ true (S (length (fst is))) w st1 v (sgb_pend g) true tr1 qp1 HJ HR1)
        as (F & st' & is' & r & tr' & Hrun & Hdr).
      apply drains_b_intro with (c' := top_b g st' qp1 is') (r := r) (tr := tr'); [|exact Hdr].
      exists F. intros depth fuel Hd Hf. destruct depth as [|depth]; [cbn in Hd; lia|].
      rewrite chain_poll_b_top. unfold gpoll_b. rewrite Hh, Ep.
      rewrite (Hrun depth fuel fuel); [reflexivity|cbn in Hd; lia|exact Hf|exact Hf].
  - destruct (HQ false (S (length (fst is))) w st v (sgb_pend g) true [] qp HJ HR)
      as (F & st' & is' & r & tr' & Hrun & Hdr).
    apply drains_b_intro with (c' := top_b g st' qp is') (r := r) (tr := tr'); [|exact Hdr].
    exists F. intros depth fuel Hd Hf. destruct depth as [|depth]; [cbn in Hd; lia|].
    rewrite chain_poll_b_top. unfold gpoll_b. rewrite Hh.
    rewrite (Hrun depth fuel fuel); [reflexivity|cbn in Hd; lia|exact Hf|exact Hf].
Qed.

Lemma top_b_drains : forall is, drains_b is -> Pst_b is /\ Qst_b is.
Proof.
  induction 1 as [is is1 r1 itr Hans _ IH].
  assert (HQ : Qst_b is); [|split; [apply Pst_b_of_Qst_b|]; exact HQ].
  intros hp0 me w st v pend first tr qp HJ HR.
  destruct Hans as [F1 Hans].
  pose proof (Hans (length (fst is)) F1 (le_n _) (le_n _)) as Hp1.
  pose proof (Jvb_step _ _ _ _ _ _ _ _ HJ Hp1) as Hv1.
  pose proof (Jvb_length _ _ _ _ _ _ _ _ HJ Hp1) as Hlen.
  set (tr0 := (if first then tr else tr ++ gparam_again hp0 me pend) ++ itr).
  destruct r1 as [[b|]|].
  - destruct Hv1 as (w1 & Hap & HJ1).
    destruct (flat_map_diffs_ok (sgb_on_diff g) R (srb_step _ (projT2 cg)) b st w v w1 HR Hap)
      as (st1 & outs & v1 & E1 & E2 & HR1).
    destruct (IH b eq_refl) as [HP1 HQ1].
    destruct outs as [|o outs'].
    + cbn in E2. injection E2 as <-.
      destruct (HQ1 hp0 me w1 st1 v pend false tr0 qp HJ1 HR1)
        as (F2 & st' & is' & r & tr' & Hrun & Hdr).
      exists (Nat.max F1 (S F2)), st', is', r, tr'. split; [|exact Hdr].
      intros d fi fl Hd Hfi Hfl. destruct fl as [|fl]; [lia|]. cbn [gpoll_inner_b].
      rewrite (Hans d fi Hd ltac:(lia)). rewrite E1.
      apply Hrun; lia.
    + exists (Nat.max F1 1), st1, is1, (Ready (Some (o :: outs'))), tr0.
      split.
      * intros d fi fl Hd Hfi Hfl. destruct fl as [|fl]; [lia|]. cbn [gpoll_inner_b].
        rewrite (Hans d fi Hd ltac:(lia)). rewrite E1. reflexivity.
      * intros x0 _. eapply HP1; [exact HJ1|exact HR1].
  - exists (Nat.max F1 1), st, is1, (Ready None), tr0.
    split; [|discriminate].
    intros d fi fl Hd Hfi Hfl. destruct fl as [|fl]; [lia|]. cbn [gpoll_inner_b].
    rewrite (Hans d fi Hd ltac:(lia)). reflexivity.
  - exists (Nat.max F1 1), st, is1, Pending, tr0.
    split; [|discriminate].
    intros d fi fl Hd Hfi Hfl. destruct fl as [|fl]; [lia|]. cbn [gpoll_inner_b].
    rewrite (Hans d fi Hd ltac:(lia)). reflexivity.
Qed.

End TopDrainsB.

Lemma queue_drains_b (qs : list (list (diff A))) (e : bool) : drains_b ([], (qs, e)).
Proof.
  induction qs as [|b rest IH].
  - apply drains_b_intro with (c' := ([], ([], e))) (r := if e then Ready None else Pending)
                              (tr := [(0, empty_resp e)]).
    + exists 0. intros depth fuel _ _. rewrite chain_poll_b_nil. reflexivity.
    + destruct e; discriminate.
  - apply drains_b_intro with (c' := ([], (rest, e))) (r := Ready (Some b)) (tr := [(0, RItem)]).
    + exists 0. intros depth fuel _ _. rewrite chain_poll_b_nil. reflexivity.
    + intros _ _. exact IH.
Qed.

Theorem chain_view_b_drains :
  forall (cc : cchain_b) (l v lq : list A),
    chain_view_b cc l v -> apply_all_ok (concat (fst (snd cc))) l = Some lq -> drains_b (erase_b cc).
Proof.
  intros [gs [qs e]]. unfold chain_view_b, erase_b. cbn [fst snd].
  induction gs as [|cg below IH]; intros l v lq Hv Hq; cbn [map].
  - apply queue_drains_b.
  - cbn [stages_view_b] in Hv. destruct Hv as (w & Hbelow & HR).
    destruct cg as [g0 rel] eqn:Ecg.
    pose proof (IH l w lq Hbelow Hq) as Hd.
    destruct (top_b_drains cg lq _ Hd) as [HP _].
    assert (HJ : Jvb lq (map cs_stage_b below, (qs, e)) w).
    { exists (below, (qs, e)), l. repeat split; assumption. }
    subst cg.
    specialize (HP (sgb_st g0) (sgb_qp g0) w v HJ HR).
    unfold top_b in HP. cbn [fst snd cs_stage_b projT1] in HP.
    destruct g0 as [St od op hp st qp pend]. exact HP.
Qed.

(* no panic, and more: from some fuel on the answer is there and does not change *)
Theorem chain_b_always_answers :
  forall (cc : cchain_b) (l v lq : list A),
    chain_view_b cc l v -> apply_all_ok (concat (fst (snd cc))) l = Some lq ->
    exists F res, forall depth fuel, length (fst cc) <= depth -> F <= fuel ->
      chain_poll_b depth fuel (erase_b cc) = Ok res.
Proof.
  intros cc l v lq Hv Hq.
  pose proof (chain_view_b_drains cc l v lq Hv Hq) as Hd.
  inversion Hd as [c c' r tr [F Hans] _ Ec]. subst c.
  exists F, (c', r, tr). intros depth fuel Hdp Hf. apply Hans; [|exact Hf].
  unfold erase_b. cbn [fst]. rewrite map_length. exact Hdp.
Qed.

End ChainViewB.

(* ------------------------------------------------------------------------------------------ *)
(* 6. non-vacuity, computed                                                                   *)
(* ------------------------------------------------------------------------------------------ *)
Definition head_cstage_b (st : head_st nat) (qp : list nat) (pend : bool) : cstage_b (A:=nat) :=
  existT _
    {| sgb_St := head_st nat; sgb_on_diff := head_on_diff; sgb_on_param := head_update_limit;
       sgb_hp := true; sgb_st := st; sgb_qp := qp; sgb_pend := pend |}
    {| srb_R := (@head_R nat : sgb_St (Build_stage_b _ _ _ _ _ _ _) -> _);
       srb_step := head_step_ok; srb_param := head_param_ok';
       srb_shape := head_update_limit_nonempty |}.

Definition skip_cstage_b (st : skip_st nat) (qp : list nat) (pend : bool) : cstage_b (A:=nat) :=
  existT _
    {| sgb_St := skip_st nat; sgb_on_diff := skip_on_diff; sgb_on_param := skip_update_count;
       sgb_hp := true; sgb_st := st; sgb_qp := qp; sgb_pend := pend |}
    {| srb_R := (@skip_R nat : sgb_St (Build_stage_b _ _ _ _ _ _ _) -> _);
       srb_step := skip_step_ok; srb_param := skip_param_ok';
       srb_shape := @SkipFacts.skip_update_count_nonempty nat |}.

(* Head 2 over Skip 1 over the source [1;2;3;4]; two source batches queued *)
Definition exb0 : cchain_b (A:=nat) :=
  ([head_cstage_b {| h_buf := [2;3;4]; h_limit := 2 |} [] false;
    skip_cstage_b {| s_buf := [1;2;3;4]; s_count := Some 1 |} [] false],
   ([[PopFront; PushBack 9]; [PushFront 0]], false)).
(* after the first poll: the WHOLE batch [PopFront; PushBack 9] went through Skip (unchanged) and
   Head (PopFront -> PopFront, PushBack 4; PushBack 9 -> nothing): one batch of two diffs *)
Definition exb1 : cchain_b (A:=nat) :=
  ([head_cstage_b {| h_buf := [3;4;9]; h_limit := 2 |} [] false;
    skip_cstage_b {| s_buf := [2;3;4;9]; s_count := Some 1 |} [] false],
   ([[PushFront 0]], false)).
(* after the second poll: PushFront 0 -> Skip: PushFront 2 -> Head: PopBack, PushFront 2 *)
Definition exb2 : cchain_b (A:=nat) :=
  ([head_cstage_b {| h_buf := [2;3;4;9]; h_limit := 2 |} [] false;
    skip_cstage_b {| s_buf := [0;2;3;4;9]; s_count := Some 1 |} [] false],
   ([], false)).

Example chain_view_b_example :
  chain_view_b exb0 [1;2;3;4] [2;3] /\
  apply_all_ok (concat (fst (snd exb0))) [1;2;3;4] = Some [0;2;3;4;9] /\
  exists tr1 tr2 tr3,
    chain_poll_b 2 3 (erase_b exb0) = Ok (erase_b exb1, Ready (Some [PopFront; PushBack 4]), tr1) /\
    apply_all_ok [PopFront; PushBack 4] [2;3] = Some [3;4] /\
    (* the view stands for the source after ONE WHOLE batch, [2;3;4;9], not for [2;3;4] *)
    apply_all_ok (concat (firstn 1 (fst (snd exb0)))) [1;2;3;4] = Some [2;3;4;9] /\
    chain_view_b exb1 [2;3;4;9] [3;4] /\
    chain_poll_b 2 3 (erase_b exb1) = Ok (erase_b exb2, Ready (Some [PopBack; PushFront 2]), tr2) /\
    apply_all_ok [PopBack; PushFront 2] [3;4] = Some [2;3] /\
    chain_view_b exb2 [0;2;3;4;9] [2;3] /\
    chain_poll_b 2 3 (erase_b exb2) = Ok (erase_b exb2, Pending, tr3) /\
    all_registered_b (erase_b exb2) tr3 /\
    (* the top view is Head 2 of Skip 1 of the source: *)
    (exists mid, mid = [2;3;4;9] /\
       skip_R {| s_buf := [0;2;3;4;9]; s_count := Some 1 |} [0;2;3;4;9] mid /\
       head_R {| h_buf := [2;3;4;9]; h_limit := 2 |} mid [2;3]).
Proof.
  split.
  { exists [2;3;4]. split.
    - exists [1;2;3;4]. split; [reflexivity|]. split; reflexivity.
    - split; reflexivity. }
  split; [reflexivity|].
  eexists. eexists. eexists.
  split; [vm_compute; reflexivity|]. split; [reflexivity|]. split; [reflexivity|].
  split.
  { exists [3;4;9]. split.
    - exists [2;3;4;9]. split; [reflexivity|]. split; reflexivity.
    - split; reflexivity. }
  split; [vm_compute; reflexivity|]. split; [reflexivity|].
  split.
  { exists [2;3;4;9]. split.
    - exists [0;2;3;4;9]. split; [reflexivity|]. split; reflexivity.
    - split; reflexivity. }
  split; [vm_compute; reflexivity|].
  split.
  { unfold all_registered_b. cbn [fst snd rev app erase_b exb2 map].
    split; [reflexivity|]. split; [reflexivity|]. split; [reflexivity|].
    intros k g Hk. destruct k as [|[|k]]; cbn [nth_error] in Hk.
    - injection Hk as <-. cbn. intros _. split; reflexivity.
    - injection Hk as <-. cbn. intros _. split; reflexivity.
    - destruct k; discriminate. }
  exists [2;3;4;9]. split; [reflexivity|]. split; split; reflexivity.
Qed.

(* the same example through the theorems: the hypotheses are satisfiable and the conclusions say
   what was computed (a non-empty batch, applicable, landing after whole source batches) *)
Example chain_view_b_example_by_theorem :
  forall c' ds tr, chain_poll_b 2 3 (erase_b exb0) = Ok (c', Ready (Some ds), tr) ->
  ds <> [] /\
  exists cc' l' k v1, erase_b cc' = c' /\
    apply_all_ok (concat (firstn k (fst (snd exb0)))) [1;2;3;4] = Some l' /\
    fst (snd cc') = skipn k (fst (snd exb0)) /\
    apply_all_ok ds [2;3] = Some v1 /\ chain_view_b cc' l' v1.
Proof.
  intros c' ds tr H.
  destruct (chain_poll_b_view 2 3 exb0 [1;2;3;4] [2;3] [0;2;3;4;9] c' (Ready (Some ds)) tr)
    as (cc' & l' & k & He & _ & _ & Hl & Hsk & _ & Hne & v1 & Hap & Hv).
  - exists [2;3;4]. split.
    + exists [1;2;3;4]. split; [reflexivity|]. split; reflexivity.
    + split; reflexivity.
  - reflexivity.
  - exact H.
  - split; [apply Hne; discriminate|].
    exists cc', l', k, v1. repeat split; assumption.
Qed.

(* "nothing produced => poll again": the first source batch [PushBack 9] is swallowed whole by
   Head 2, the loop polls again and the batch that comes out lands after TWO whole source batches *)
Definition exb_sw0 : cchain_b (A:=nat) :=
  ([head_cstage_b {| h_buf := [2;3;4]; h_limit := 2 |} [] false;
    skip_cstage_b {| s_buf := [1;2;3;4]; s_count := Some 1 |} [] false],
   ([[PushBack 9]; [PopFront]], false)).
Definition exb_sw1 : cchain_b (A:=nat) :=
  ([head_cstage_b {| h_buf := [3;4;9]; h_limit := 2 |} [] false;
    skip_cstage_b {| s_buf := [2;3;4;9]; s_count := Some 1 |} [] false],
   ([], false)).

Example chain_view_b_swallowed_batch :
  chain_view_b exb_sw0 [1;2;3;4] [2;3] /\
  exists tr,
    chain_poll_b 2 3 (erase_b exb_sw0) = Ok (erase_b exb_sw1, Ready (Some [PopFront; PushBack 4]), tr) /\
    apply_all_ok (concat (firstn 2 (fst (snd exb_sw0)))) [1;2;3;4] = Some [2;3;4;9] /\
    fst (snd exb_sw1) = skipn 2 (fst (snd exb_sw0)) /\
    apply_all_ok [PopFront; PushBack 4] [2;3] = Some [3;4] /\
    chain_view_b exb_sw1 [2;3;4;9] [3;4].
Proof.
  split.
  { exists [2;3;4]. split.
    - exists [1;2;3;4]. split; [reflexivity|]. split; reflexivity.
    - split; reflexivity. }
  eexists. split; [vm_compute; reflexivity|]. split; [reflexivity|]. split; [reflexivity|].
  split; [reflexivity|].
  exists [3;4;9]. split.
  - exists [2;3;4;9]. split; [reflexivity|]. split; reflexivity.
  - split; reflexivity.
Qed.

(* Why "ds <> []" carries the hypothesis [fst cc <> []]: the batches of the SOURCE are whatever the
   source queue holds; a chain with no stage at all hands them out as they are, an empty one too.
   (With at least one stage the batched loop never hands out an empty batch, whatever the source
   queue holds.) *)
Example bare_source_may_hand_out_empty_batch :
  let cc : cchain_b (A:=nat) := ([], ([[]], false)) in
  chain_view_b cc [1] [1] /\
  apply_all_ok (concat (fst (snd cc))) [1] = Some [1] /\
  exists c' tr, chain_poll_b 0 1 (erase_b cc) = Ok (c', Ready (Some []), tr).
Proof.
  split; [reflexivity|]. split; [reflexivity|].
  eexists. eexists. vm_compute. reflexivity.
Qed.

Print Assumptions gpoll_b_view.
Print Assumptions chain_poll_b_view_pre.
Print Assumptions chain_poll_b_view.
Print Assumptions chain_b_view_at_pending.
Print Assumptions stages_view_b_two.
Print Assumptions chain_view_b_drains.
Print Assumptions chain_b_always_answers.
Print Assumptions chain_view_b_example.
Print Assumptions chain_view_b_example_by_theorem.
Print Assumptions chain_view_b_swallowed_batch.
Print Assumptions bare_source_may_hand_out_empty_batch.
