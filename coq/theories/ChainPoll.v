(* ChainPoll.v — the adapters' poll loop over an *arbitrary* inner stream, and chains of adapters
   (C14 "alone or chained").
   PollLoop.v scripts the inner stream as a queue.  Here the inner stream is any state machine
   [inner : IS -> outcome (IS * poll (option I) * ltrace)] — in particular the poll function of the
   adapter below — and the trace records the polls of the *leaves* of the whole stack: leaf 0 is
   the source stream at the bottom, leaf k (k >= 1) the limit/count stream of the k-th stage from
   the bottom.  The same Context (hence the same waker) is handed down on every inner poll, so a
   leaf whose last answer in a call was Pending holds the waker of that call.
   The unbatched flavour is modelled (the batched loop differs only in the item type). *)
From EB Require Export PollLoop.

Definition ltrace := list (nat * resp).

Fixpoint last_leaf (k : nat) (tr : ltrace) : option resp :=
  match tr with
  | [] => None
  | (k', r) :: rest =>
      match last_leaf k rest with
      | Some x => Some x
      | None => if k' =? k then Some r else None
      end
  end.

Section Generic.
Context {I B St IS : Type}.
Variable on_diff : St -> I -> outcome (St * list (diff B)).
Variable on_param : St -> nat -> St * option (list (diff B)).
Variable has_param : bool.
Variable me : nat.                                           (* leaf id of this stage's parameter stream *)
Variable inner : IS -> outcome (IS * poll (option I) * ltrace).

Fixpoint gpoll_params (st : St) (qp : list nat) (pend : bool) (tr : ltrace)
  : St * list nat * option (list (diff B)) * ltrace :=
  match qp with
  | [] => (st, [], None, tr ++ [(me, empty_resp pend)])
  | n :: rest =>
      let '(st', o) := on_param st n in
      match o with
      | Some ds => (st', rest, Some ds, tr ++ [(me, RItem)])
      | None => gpoll_params st' rest pend (tr ++ [(me, RItem)])
      end
  end.

Definition gparam_again (pend : bool) : ltrace :=
  if has_param then [(me, empty_resp pend)] else [].

(* [fuel] bounds the number of inner polls in one call; running out is reported as Panic and is
   excluded by the hypotheses of the theorems (they speak about calls that answered) *)
Fixpoint gpoll_inner (fuel : nat) (st : St) (is : IS) (pend : bool) (first : bool) (tr : ltrace)
  : outcome (ustate (B:=B) (St:=St) * IS * poll (option (diff B)) * ltrace) :=
  match fuel with
  | 0 => Panic
  | S fuel' =>
      let tr := if first then tr else tr ++ gparam_again pend in
      match inner is with
      | Panic => Panic
      | Ok (is', r, itr) =>
          let tr := tr ++ itr in
          match r with
          | Pending => Ok ({| u_st := st; u_ready := [] |}, is', Pending, tr)
          | Ready None => Ok ({| u_st := st; u_ready := [] |}, is', Ready None, tr)
          | Ready (Some d) =>
              match on_diff st d with
              | Panic => Panic
              | Ok (st', outs) =>
                  match outs with
                  | [] => gpoll_inner fuel' st' is' pend false tr
                  | o :: outs' => Ok ({| u_st := st'; u_ready := outs' |}, is', Ready (Some o), tr)
                  end
              end
          end
      end
  end.

Definition gpoll (fuel : nat) (s : ustate (B:=B) (St:=St)) (is : IS) (qp : list nat) (pend : bool)
  : outcome (ustate (B:=B) (St:=St) * IS * list nat * poll (option (diff B)) * ltrace) :=
  match u_ready s with
  | o :: r => Ok ({| u_st := u_st s; u_ready := r |}, is, qp, Ready (Some o), [])
  | [] =>
      if has_param then
        let '(st', qp', o, tr) := gpoll_params (u_st s) qp pend [] in
        match o with
        | Some [] => Ok ({| u_st := st'; u_ready := [] |}, is, qp', Ready None, tr)
        | Some (d :: ds) => Ok ({| u_st := st'; u_ready := ds |}, is, qp', Ready (Some d), tr)
        | None =>
            match gpoll_inner fuel st' is pend true tr with
            | Panic => Panic
            | Ok (s', is', r, tr') => Ok (s', is', qp', r, tr')
            end
        end
      else
        match gpoll_inner fuel (u_st s) is pend true [] with
        | Panic => Panic
        | Ok (s', is', r, tr') => Ok (s', is', qp, r, tr')
        end
  end.

End Generic.

(* the scripted queue of PollLoop.v as an inner stream (leaf 0) *)
Definition queue_inner {I : Type} (q : list I * bool) : outcome (list I * bool * poll (option I) * ltrace) :=
  match fst q with
  | [] => Ok (q, (if snd q then Ready None else Pending), [(0, empty_resp (snd q))])
  | d :: rest => Ok ((rest, snd q), Ready (Some d), [(0, RItem)])
  end.

(* ---------------- chains ---------------- *)
Section Chain.
Context {A : Type}.

(* one adapter of the stack with its own state, parameter queue and "parameter stream ended" flag *)
Record stage := {
  sg_St : Type;
  sg_on_diff : sg_St -> diff A -> outcome (sg_St * list (diff A));
  sg_on_param : sg_St -> nat -> sg_St * option (list (diff A));
  sg_hp : bool;
  sg_s : ustate (B:=A) (St:=sg_St);
  sg_qp : list nat;
  sg_pend : bool;
}.

Definition stage_with (g : stage) (s : ustate (B:=A) (St:=sg_St g)) (qp : list nat) : stage :=
  {| sg_St := sg_St g; sg_on_diff := sg_on_diff g; sg_on_param := sg_on_param g; sg_hp := sg_hp g;
     sg_s := s; sg_qp := qp; sg_pend := sg_pend g |}.

(* a chain: the stages, top first, over the source queue *)
Definition chain := (list stage * (list (diff A) * bool))%type.

(* polling the top of a chain of at most [depth] stages *)
Fixpoint chain_poll (depth fuel : nat) (c : chain) : outcome (chain * poll (option (diff A)) * ltrace) :=
  match fst c with
  | [] =>
      match queue_inner (snd c) with
      | Ok (q', r, tr) => Ok (([], q'), r, tr)
      | Panic => Panic
      end
  | g :: below =>
      match depth with
      | 0 => Panic
      | S depth' =>
          match gpoll (sg_on_diff g) (sg_on_param g) (sg_hp g) (length (fst c))
                      (chain_poll depth' fuel) fuel (sg_s g) (below, snd c) (sg_qp g) (sg_pend g) with
          | Panic => Panic
          | Ok (s', c', qp', r, tr) => Ok ((stage_with g s' qp' :: fst c', snd c'), r, tr)
          end
      end
  end.

(* every parameter handler in the chain never answers Some [] (proved per adapter:
   head_update_limit_shape etc.) *)
Definition stages_ok (gs : list stage) : Prop :=
  Forall (fun g => forall st n, snd (sg_on_param g st n) <> Some []) gs.

(* what "the waker of this call is registered with every leaf" means after a Pending answer:
   the source's last answer was Pending, and so was the last answer of the parameter stream of
   every stage that has one (or its terminal end), and nothing deliverable is left anywhere *)
Definition all_registered (c : chain) (tr : ltrace) : Prop :=
  snd (snd c) = false /\ fst (snd c) = [] /\ last_leaf 0 tr = Some RPending /\
  forall k g, nth_error (rev (fst c)) k = Some g ->
    u_ready (sg_s g) = [] /\
    (sg_hp g = true -> sg_qp g = [] /\ last_leaf (S k) tr = Some (empty_resp (sg_pend g))).

End Chain.
