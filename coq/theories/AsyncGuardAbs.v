(* AsyncGuardAbs.v — how the abstraction to ObsSpec.sspec moves under the elementary transitions. *)
From EB Require Import AsyncGuard AsyncGuardAux AsyncGuardInv.
From Coq Require Import Lia.

Section Abs1.
Context {V : Type}.
Variable veq : V -> V -> bool.
Variable heq : V -> V -> bool.
Variable vdefault : V.
Notation fut := (@fut V).
Notation astate := (astate V).
Notation acall := (acall V).

Definition in_p2 (F : list fut) (k : nat) : bool :=
  existsb (fun f => match p2key f with Some k' => k' =? k | None => false end) F.

Lemma in_phase2_eq (s : astate) k : in_phase2 s k = in_p2 (a_futs s) k.
Proof.
  unfold in_phase2, in_p2. induction (a_futs s) as [|f F IH]; cbn; auto.
  rewrite IH. f_equal. unfold p2key. destruct (f_call f), (f_phase f); reflexivity.
Qed.

Lemma in_p2_map (F F' : list fut) k : map p2key F = map p2key F' -> in_p2 F k = in_p2 F' k.
Proof.
  unfold in_p2. revert F'. induction F as [|f F IH]; intros [|f' F'] H; cbn in *; try discriminate; auto.
  inversion H. rewrite H1. f_equal. auto.
Qed.

Lemma in_p2_true (F : list fut) k :
  in_p2 F k = true <-> exists id f, nth_error F id = Some f /\ p2key f = Some k.
Proof.
  unfold in_p2. rewrite existsb_exists. split.
  - intros (f & Hin & H). apply In_nth_error in Hin. destruct Hin as [id Hid].
    exists id, f. split; auto. destruct (p2key f); try discriminate. apply Nat.eqb_eq in H. congruence.
  - intros (id & f & Hid & H). exists f. split. eapply nth_error_In; eauto.
    rewrite H. apply Nat.eqb_refl.
Qed.

Lemma p2key_sub (f : fut) k : p2key f = Some k -> call_sub (f_call f) = Some k /\ f_phase f <> PhDone.
Proof.
  unfold p2key. destruct (f_call f), (f_phase f); intro H; inversion H; subst; split; cbn; congruence.
Qed.

(* the phase-2 flags after one future changed its phase *)
Lemma in_p2_set_other (F : list fut) id f X k :
  nth_error F id = Some f -> p2key f <> Some k -> p2key (app_ph (fun _ => X) f) <> Some k ->
  in_p2 (set_ph id X F) k = in_p2 F k.
Proof.
  intros Hf H1 H2. apply eq_true_iff_eq. rewrite !in_p2_true. unfold set_ph. split.
  - intros (j & fj & Hj & Hk). rewrite nth_error_upd_at in Hj. destruct (Nat.eqb_spec j id).
    + subst. rewrite Hf in Hj. inversion Hj; subst. congruence.
    + eauto.
  - intros (j & fj & Hj & Hk). exists j, fj. split; auto. rewrite nth_error_upd_at_neq; auto.
    intro; subst. congruence.
Qed.

Lemma in_p2_set_enter (F : list fut) id f X k :
  nth_error F id = Some f -> p2key (app_ph (fun _ => X) f) = Some k -> in_p2 (set_ph id X F) k = true.
Proof.
  intros Hf H. apply in_p2_true. exists id, (app_ph (fun _ => X) f). split; auto.
  apply nth_error_upd_at_eq; auto.
Qed.

Lemma in_p2_set_leave (o : obs V) fr Q (F : list fut) G id f X k :
  PInv o fr Q F G -> nth_error F id = Some f -> call_sub (f_call f) = Some k -> f_phase f <> PhDone ->
  p2key (app_ph (fun _ => X) f) = None -> in_p2 (set_ph id X F) k = false.
Proof.
  intros HI Hf Hk Hp H. destruct (in_p2 (set_ph id X F) k) eqn:E; auto.
  apply in_p2_true in E. destruct E as (j & fj & Hj & Hkj). unfold set_ph in Hj.
  rewrite nth_error_upd_at in Hj. destruct (Nat.eqb_spec j id).
  - subst. rewrite Hf in Hj. inversion Hj; subst. congruence.
  - apply p2key_sub in Hkj. destruct Hkj. exfalso. apply n.
    eapply (pi_uniq _ _ _ _ _ HI j id fj f k); eauto.
Qed.

Lemma in_p2_none (o : obs V) fr Q (F : list fut) G id f k :
  PInv o fr Q F G -> nth_error F id = Some f -> call_sub (f_call f) = Some k -> f_phase f <> PhDone ->
  p2key f = None -> in_p2 F k = false.
Proof.
  intros HI Hf Hk Hp H. destruct (in_p2 F k) eqn:E; auto.
  apply in_p2_true in E. destruct E as (j & fj & Hj & Hkj).
  pose proof Hkj as Hkj'. apply p2key_sub in Hkj. destruct Hkj.
  assert (j = id) by (eapply (pi_uniq _ _ _ _ _ HI j id fj f k); eauto). subst. congruence.
Qed.

Definition unseen_of (o : obs V) (p2 : nat -> bool) : list (option bool) :=
  map (fun p => option_map (fun ov => p2 (fst p) || (ov <? ver o)) (snd p))
      (combine (seq 0 (length (subs o))) (subs o)).

Lemma abs_unfold (s : astate) :
  abs s = {| s_cur := val (a_obs s); s_kind := okind (a_obs s); s_owners := owners (a_obs s);
             s_weaks := weaks (a_obs s); s_unseen := unseen_of (a_obs s) (in_p2 (a_futs s)) |}.
Proof.
  unfold abs, unseen_of. f_equal. apply map_ext. intros [k x]. cbn. rewrite in_phase2_eq. reflexivity.
Qed.

Lemma nth_unseen (o : obs V) p2 k :
  nth_error (unseen_of o p2) k = option_map (option_map (fun ov => p2 k || (ov <? ver o))) (nth_error (subs o) k).
Proof.
  unfold unseen_of. rewrite nth_error_map', nth_error_combine_seq.
  destruct (nth_error (subs o) k); reflexivity.
Qed.

Lemma unseen_length (o : obs V) p2 : length (unseen_of o p2) = length (subs o).
Proof. unfold unseen_of. rewrite map_length, combine_length, seq_length. lia. Qed.

Lemma abs_same (s s' : astate) :
  val (a_obs s') = val (a_obs s) -> ver (a_obs s') = ver (a_obs s) -> okind (a_obs s') = okind (a_obs s) ->
  owners (a_obs s') = owners (a_obs s) -> weaks (a_obs s') = weaks (a_obs s) ->
  subs (a_obs s') = subs (a_obs s) ->
  (forall k, in_p2 (a_futs s') k = in_p2 (a_futs s) k) ->
  abs s' = abs s.
Proof.
  intros. rewrite !abs_unfold. f_equal; auto.
  apply nth_error_ext. intro k. rewrite !nth_unseen. rewrite H4, H0, H5. reflexivity.
Qed.

(* the second lock is not there yet: observed_k was bumped but the call is still in flight *)
Lemma abs_same_enter (s s' : astate) k ov :
  nth_error (subs (a_obs s)) k = Some (Some ov) -> ov < ver (a_obs s) ->
  a_obs s' = with_subs (a_obs s) (set_nth k (Some (ver (a_obs s))) (subs (a_obs s))) ->
  in_p2 (a_futs s') k = true ->
  (forall k', k' <> k -> in_p2 (a_futs s') k' = in_p2 (a_futs s) k') ->
  abs s' = abs s.
Proof.
  intros Hk Hlt Ho Hp Hother. rewrite !abs_unfold. rewrite Ho. cbn [with_subs val okind owners weaks].
  f_equal. apply nth_error_ext. intro j. rewrite !nth_unseen. cbn [with_subs ver subs].
  rewrite nth_error_set_nth. destruct (Nat.eqb_spec j k).
  - subst. rewrite Hk. cbn [option_map]. rewrite Hp. apply Nat.ltb_lt in Hlt. rewrite Hlt, orb_true_r. reflexivity.
  - rewrite Hother; auto.
Qed.

Lemma abs_wset (s s' : astate) v w' :
  owners (a_obs s) = 1 ->
  (forall k x, nth_error (subs (a_obs s)) k = Some x -> exists ov, x = Some ov /\ ov <= ver (a_obs s)) ->
  a_obs s' = upd (a_obs s) v (S (ver (a_obs s))) w' ->
  sstep veq heq vdefault (abs s) (WSet v) = Some (abs s', OVal (val (a_obs s))).
Proof.
  intros Ho Hs E. rewrite !abs_unfold. unfold sstep. cbn [s_owners s_cur].
  destruct (owners (a_obs s) =? 0) eqn:E0; [apply Nat.eqb_eq in E0; lia|].
  rewrite E. cbn [upd val okind owners weaks]. unfold s_notify, s_with. cbn [s_cur s_kind s_owners s_weaks s_unseen].
  f_equal. f_equal. f_equal. apply nth_error_ext. intro k. rewrite nth_error_map', !nth_unseen.
  cbn [upd ver subs]. destruct (nth_error (subs (a_obs s)) k) as [x|] eqn:Ek; auto.
  destruct (Hs _ _ Ek) as (ov & ? & Hle). subst. cbn [option_map].
  assert (ov <? S (ver (a_obs s)) = true) by (apply Nat.ltb_lt; lia). rewrite H, orb_true_r. reflexivity.
Qed.

Lemma abs_wget (s s' : astate) :
  owners (a_obs s) = 1 -> abs s' = abs s ->
  sstep veq heq vdefault (abs s) WGet = Some (abs s', OVal (val (a_obs s))).
Proof.
  intros Ho E. rewrite E. unfold sstep. rewrite abs_unfold. cbn [s_owners s_cur].
  destruct (owners (a_obs s) =? 0) eqn:E0; [apply Nat.eqb_eq in E0; lia|]. reflexivity.
Qed.

Lemma abs_catch_up_unseen (s s' : astate) k :
  a_obs s' = with_subs (a_obs s) (set_nth k (Some (ver (a_obs s))) (subs (a_obs s))) ->
  in_p2 (a_futs s') k = false ->
  (forall k', k' <> k -> in_p2 (a_futs s') k' = in_p2 (a_futs s) k') ->
  unseen_of (a_obs s') (in_p2 (a_futs s')) =
  set_nth k (Some false) (unseen_of (a_obs s) (in_p2 (a_futs s))).
Proof.
  intros Ho Hp Hother. apply nth_error_ext. intro j. rewrite nth_error_set_nth, !nth_unseen.
  rewrite Ho. cbn [with_subs ver subs]. rewrite nth_error_set_nth. destruct (Nat.eqb_spec j k).
  - subst. destruct (nth_error (subs (a_obs s)) k) as [x|]; cbn [option_map]; auto.
    rewrite Hp, Nat.ltb_irrefl. destruct x; reflexivity.
  - rewrite Hother; auto.
Qed.

Lemma abs_next_now (s s' : astate) k ov :
  nth_error (subs (a_obs s)) k = Some (Some ov) ->
  a_obs s' = with_subs (a_obs s) (set_nth k (Some (ver (a_obs s))) (subs (a_obs s))) ->
  in_p2 (a_futs s') k = false ->
  (forall k', k' <> k -> in_p2 (a_futs s') k' = in_p2 (a_futs s) k') ->
  sstep veq heq vdefault (abs s) (SNextNow k) = Some (abs s', OVal (val (a_obs s))).
Proof.
  intros Hk Ho Hp Hother. rewrite !abs_unfold. unfold sstep. cbn [s_unseen s_cur].
  rewrite nth_unseen, Hk. cbn [option_map]. unfold s_with. cbn [s_cur s_kind s_owners s_weaks s_unseen].
  rewrite (abs_catch_up_unseen s s' k Ho Hp Hother). rewrite Ho. reflexivity.
Qed.

Lemma abs_poll_ready (s s' : astate) k ov :
  owners (a_obs s) = 1 ->
  nth_error (subs (a_obs s)) k = Some (Some ov) ->
  (in_p2 (a_futs s) k = true \/ ov < ver (a_obs s)) ->
  a_obs s' = with_subs (a_obs s) (set_nth k (Some (ver (a_obs s))) (subs (a_obs s))) ->
  in_p2 (a_futs s') k = false ->
  (forall k', k' <> k -> in_p2 (a_futs s') k' = in_p2 (a_futs s) k') ->
  sstep veq heq vdefault (abs s) (SPoll k) = Some (abs s', OPollR (Ready (Some (val (a_obs s))))).
Proof.
  intros Hown Hk Hu Ho Hp Hother. rewrite !abs_unfold. unfold sstep. cbn [s_unseen s_cur s_owners].
  rewrite nth_unseen, Hk. cbn [option_map].
  destruct (owners (a_obs s) =? 0) eqn:E0; [apply Nat.eqb_eq in E0; lia|].
  assert (in_p2 (a_futs s) k || (ov <? ver (a_obs s)) = true) as ->.
  { destruct Hu as [Hu|Hu]. rewrite Hu; auto. apply Nat.ltb_lt in Hu. rewrite Hu. apply orb_true_r. }
  unfold s_with. cbn [s_cur s_kind s_owners s_weaks s_unseen].
  rewrite (abs_catch_up_unseen s s' k Ho Hp Hother). rewrite Ho. reflexivity.
Qed.
End Abs1.

Section Abs2.
Context {V : Type}.
Variable veq : V -> V -> bool.
Variable heq : V -> V -> bool.
Variable vdefault : V.
Notation fut := (@fut V).
Notation astate := (astate V).
Notation acall := (acall V).

(* a store that does not notify (update_if answering false): only the value moves *)
Lemma pinv_val (o : obs V) fr Q (F : list fut) G v :
  PInv o fr Q F G -> PInv (upd o v (ver o) (wakers o)) fr Q F G.
Proof.
  intros [Ho Hv Hs Hfu Hnd Hqq Hqt Hwk Hun Hgl Hg Hc Hup]. constructor; auto.
Qed.

(* what the other writers do to the observable *)
Lemma step_writer_kind (o : obs V) x :
  owners o = 1 -> is_writer x = true ->
  exists o' r w, step veq heq vdefault o x = Ok (o', r, w) /\
    ((exists v', o' = upd o v' (S (ver o)) [] /\ w = wakers o) \/
     (w = [] /\ (o' = o \/ exists v', o' = upd o v' (ver o) (wakers o)))).
Proof.
  intros Ho Hw. destruct x; try discriminate; unfold step, notify; rewrite Ho; cbn [Nat.eqb].
  - eexists _, _, _. split; [reflexivity|]. left. eauto.
  - destruct (veq (val o) v); eexists _, _, _; (split; [reflexivity|]); [right; auto | left; eauto].
  - destruct (heq (val o) v); eexists _, _, _; (split; [reflexivity|]); [right; auto | left; eauto].
  - eexists _, _, _. split; [reflexivity|]. left. eauto.
  - eexists _, _, _. split; [reflexivity|]. left. eauto.
  - destruct b; eexists _, _, _; (split; [reflexivity|]); [left; eauto | right; split; auto; right; eauto].
Qed.

Lemma abs_notify (s s' : astate) v w' :
  (forall k x, nth_error (subs (a_obs s)) k = Some x -> exists ov, x = Some ov /\ ov <= ver (a_obs s)) ->
  a_obs s' = upd (a_obs s) v (S (ver (a_obs s))) w' ->
  s_notify (abs s) v = abs s'.
Proof.
  intros Hs E. rewrite !abs_unfold. rewrite E. cbn [upd val okind owners weaks].
  unfold s_notify, s_with. cbn [s_cur s_kind s_owners s_weaks s_unseen].
  f_equal. apply nth_error_ext. intro k. rewrite nth_error_map', !nth_unseen.
  cbn [upd ver subs]. destruct (nth_error (subs (a_obs s)) k) as [x|] eqn:Ek; auto.
  destruct (Hs _ _ Ek) as (ov & ? & Hle). subst. cbn [option_map].
  assert (ov <? S (ver (a_obs s)) = true) by (apply Nat.ltb_lt; lia). rewrite H, orb_true_r. reflexivity.
Qed.

Lemma abs_val_set (s s' : astate) v :
  a_obs s' = upd (a_obs s) v (ver (a_obs s)) (wakers (a_obs s)) ->
  (forall k, in_p2 (a_futs s') k = in_p2 (a_futs s) k) ->
  s_with (abs s) v (s_unseen (abs s)) = abs s'.
Proof.
  intros E Hp. rewrite !abs_unfold. rewrite E. cbn [upd val okind owners weaks].
  unfold s_with. cbn [s_cur s_kind s_owners s_weaks s_unseen].
  f_equal. apply nth_error_ext. intro k. rewrite !nth_unseen. cbn [upd ver subs]. rewrite Hp. reflexivity.
Qed.

Lemma abs_writer (s s' : astate) x o' r w :
  owners (a_obs s) = 1 ->
  (forall k y, nth_error (subs (a_obs s)) k = Some y -> exists ov, y = Some ov /\ ov <= ver (a_obs s)) ->
  is_writer x = true ->
  step veq heq vdefault (a_obs s) x = Ok (o', r, w) ->
  a_obs s' = o' ->
  (ver o' = ver (a_obs s) -> forall k, in_p2 (a_futs s') k = in_p2 (a_futs s) k) ->
  sstep veq heq vdefault (abs s) x = Some (abs s', r).
Proof.
  intros Ho Hs Hw E Eo Hp.
  assert (Hcur : s_cur (abs s) = val (a_obs s)) by reflexivity.
  assert (Hown : (s_owners (abs s) =? 0) = false) by (cbn; rewrite Ho; reflexivity).
  assert (Hsame : o' = a_obs s -> abs s' = abs s).
  { intro E'. subst o'. apply abs_same; try (rewrite E'; reflexivity). apply Hp. rewrite E'. reflexivity. }
  assert (Hnot : forall v w', o' = upd (a_obs s) v (S (ver (a_obs s))) w' -> s_notify (abs s) v = abs s').
  { intros v w' E'. eapply abs_notify; eauto. rewrite Eo. exact E'. }
  destruct x; try discriminate; unfold step, notify in E; rewrite Ho in E; cbn [Nat.eqb] in E;
    unfold sstep; rewrite Hown, ?Hcur.
  - inversion E; subst o' r w. erewrite Hnot; eauto.
  - destruct (veq (val (a_obs s)) v); inversion E; subst o' r w.
    + rewrite Hsame; auto.
    + erewrite Hnot; eauto.
  - destruct (heq (val (a_obs s)) v); inversion E; subst o' r w.
    + rewrite Hsame; auto.
    + erewrite Hnot; eauto.
  - inversion E; subst o' r w. erewrite Hnot; eauto.
  - inversion E; subst o' r w. erewrite Hnot; eauto.
  - destruct b; inversion E; subst o' r w.
    + erewrite Hnot; eauto.
    + erewrite abs_val_set; eauto.
      apply Hp. match goal with H : upd _ _ _ _ = a_obs s' |- _ => rewrite <- H end. reflexivity.
Qed.
End Abs2.

Section Abs3.
Context {V : Type}.
Variable veq : V -> V -> bool.
Variable heq : V -> V -> bool.
Variable vdefault : V.
Notation fut := (@fut V).
Notation astate := (astate V).
Notation acall := (acall V).

(* subscribe(): one more subscriber slot, which has seen the current version *)
Lemma pinv_subs_app (o : obs V) fr Q (F : list fut) G :
  PInv o fr Q F G -> PInv (with_subs o (subs o ++ [Some (ver o)])) fr Q F G.
Proof.
  intros [Ho Hv Hs Hfu Hnd Hqq Hqt Hwk Hun Hgl Hg Hc Hup].
  constructor; auto; cbn [with_subs owners ver subs wakers].
  - intros j x Hj. apply nth_error_snoc in Hj. destruct Hj as [[_ Hj]|[_ Hj]]; [eauto|].
    subst. eauto.
  - intros j fj Hj. destruct (Hfu _ _ Hj) as (A & B & C). unfold fut_ok.
    cbn [with_subs owners ver subs wakers]. rewrite app_length. cbn [length]. split; [|split]; auto.
    + intros k Hk Hp. specialize (A k Hk Hp). lia.
    + destruct (f_phase fj); auto. destruct C as (C1 & k' & C2 & C3). split; auto.
      exists k'. split; auto. apply nth_error_app_l. auto.
Qed.

Lemma in_p2_bound (o : obs V) fr Q (F : list fut) G k :
  PInv o fr Q F G -> in_p2 F k = true -> k < length (subs o).
Proof.
  intros HI H. apply in_p2_true in H. destruct H as (id & f & Hf & Hk).
  apply p2key_sub in Hk. destruct Hk as [Hk Hp].
  destruct (pi_fut _ _ _ _ _ HI _ _ Hf) as (A & _). auto.
Qed.

Lemma abs_subscribe (s s' : astate) :
  owners (a_obs s) = 1 ->
  a_obs s' = with_subs (a_obs s) (subs (a_obs s) ++ [Some (ver (a_obs s))]) ->
  (forall k, in_p2 (a_futs s') k = in_p2 (a_futs s) k) ->
  in_p2 (a_futs s) (length (subs (a_obs s))) = false ->
  sstep veq heq vdefault (abs s) WSubscribe = Some (abs s', OSubId (length (subs (a_obs s)))).
Proof.
  intros Ho E Hp Hn. unfold sstep.
  assert (Hown : (s_owners (abs s) =? 0) = false) by (cbn; rewrite Ho; reflexivity).
  rewrite Hown. rewrite !abs_unfold. cbn [s_unseen s_cur]. rewrite unseen_length.
  unfold s_with. cbn [s_cur s_kind s_owners s_weaks s_unseen]. rewrite E. cbn [with_subs val okind owners weaks].
  f_equal. f_equal. f_equal.
  apply nth_error_ext. intro j. rewrite nth_unseen. cbn [with_subs ver subs].
  set (U := unseen_of (a_obs s) (in_p2 (a_futs s))).
  assert (HU : length U = length (subs (a_obs s))) by apply unseen_length.
  destruct (Nat.lt_trichotomy j (length (subs (a_obs s)))) as [Hlt|[Heq|Hgt]].
  - rewrite !nth_error_app1 by lia. unfold U. rewrite nth_unseen, Hp. reflexivity.
  - subst j. rewrite nth_error_snoc_eq.
    replace (nth_error (U ++ [Some false]) (length (subs (a_obs s)))) with (Some (Some false))
      by (rewrite <- HU, nth_error_snoc_eq; reflexivity).
    cbn [option_map]. rewrite Hp, Hn, Nat.ltb_irrefl. reflexivity.
  - rewrite !nth_error_app2 by lia. rewrite HU.
    destruct (j - length (subs (a_obs s))) eqn:Ej; [lia|]. cbn. destruct n; reflexivity.
Qed.
End Abs3.
