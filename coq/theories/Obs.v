(* Obs.v — the observable value of the `eyeball` crate at operation granularity:
   ObservableState (state.rs), Subscriber (subscriber.rs), Observable (unique.rs),
   SharedObservable / WeakObservable / ObservableWriteGuard (shared.rs).
   One state machine serves the unique and the shared kind: at this granularity a setter through
   any clone or through a write guard is the same transition.  Thread-level behaviour is in
   ObsConc.v. *)
From EB Require Export Base.

Section Obs.
Context {V : Type}.
Variable veq : V -> V -> bool.      (* PartialEq::eq *)
Variable heq : V -> V -> bool.      (* hash(a) == hash(b) with DefaultHasher *)
Variable vdefault : V.              (* Default::default() for take *)

Inductive kind := Unique | Shared.

Record obs := {
  val : V;
  ver : nat;                        (* metadata.version: 1 initially, 0 = closed *)
  wakers : list nat;                (* metadata.wakers: ids of the wakers handed to pending polls *)
  okind : kind;
  owners : nat;                     (* live Observable (0/1) or SharedObservable clones *)
  weaks : nat;                      (* live WeakObservables *)
  subs : list (option nat);         (* observed_version of every subscriber; None = dropped *)
}.

Definition obs_new (k : kind) (v : V) : obs :=
  {| val := v; ver := 1; wakers := []; okind := k; owners := 1; weaks := 0; subs := [] |}.

(* what a call hands back *)
Inductive out :=
| OUnit
| OVal (v : V)
| OOpt (o : option V)
| OPollR (r : poll (option V))
| OSubId (k : nat)
| OBool (b : bool)
| OCounts (observables subscribers strong weak : nat).

Inductive op :=
(* writer side (Observable, any SharedObservable clone, or a write guard) *)
| WSet (v : V) | WSetIfNotEq (v : V) | WSetIfHashNotEq (v : V) | WTake
| WUpdate (v : V)                         (* closure stores v *)
| WUpdateIf (v : V) (b : bool)            (* closure stores v and returns b *)
| WGet
(* subscribing *)
| WSubscribe | WSubscribeReset
(* subscriber k *)
| SPoll (k : nat) | SNextNow (k : nat) | SGet (k : nat) | SReset (k : nat)
| SClone (k : nat) | SCloneReset (k : nat) | SDrop (k : nat)
(* handles *)
| HClone | HDropOwner | HDowngrade | HUpgrade | HDropWeak | HCloneWeak | HIntoShared | HCounts.

Definition upd (o : obs) (v : V) (vr : nat) (w : list nat) : obs :=
  {| val := v; ver := vr; wakers := w; okind := okind o; owners := owners o; weaks := weaks o; subs := subs o |}.
Definition with_subs (o : obs) (s : list (option nat)) : obs :=
  {| val := val o; ver := ver o; wakers := wakers o; okind := okind o; owners := owners o; weaks := weaks o; subs := s |}.
Definition with_handles (o : obs) (k : kind) (ow we : nat) : obs :=
  {| val := val o; ver := ver o; wakers := wakers o; okind := k; owners := ow; weaks := we; subs := subs o |}.

Fixpoint set_nth {X} (k : nat) (x : X) (l : list X) : list X :=
  match l, k with
  | [], _ => []
  | _ :: l', 0 => x :: l'
  | y :: l', S k' => y :: set_nth k' x l'
  end.

Definition live_subs (o : obs) : nat :=
  length (filter (fun s => match s with Some _ => true | None => false end) (subs o)).

(* incr_version_and_wake, state.rs:120-124 *)
Definition notify (o : obs) (v : V) : obs * list nat := (upd o v (S (ver o)) [], wakers o).
(* close, state.rs:113-118 *)
Definition close (o : obs) : obs * list nat := (upd o (val o) 0 [], wakers o).

(* one call: new state, what it returns, and the wakers it wakes (in order).
   Panic = the call is not possible in this state (no such subscriber / no owner to call it on). *)
Definition step (o : obs) (x : op) : outcome (obs * out * list nat) :=
  let need_owner (r : outcome (obs * out * list nat)) := if owners o =? 0 then Panic else r in
  let with_sub k (f : nat -> outcome (obs * out * list nat)) :=
    match nth_error (subs o) k with Some (Some ov) => f ov | _ => Panic end in
  match x with
  | WSet v => need_owner (let '(o', w) := notify o v in Ok (o', OVal (val o), w))
  | WTake => need_owner (let '(o', w) := notify o vdefault in Ok (o', OVal (val o), w))
  | WSetIfNotEq v =>
      need_owner (if veq (val o) v then Ok (o, OOpt None, [])
                  else let '(o', w) := notify o v in Ok (o', OOpt (Some (val o)), w))
  | WSetIfHashNotEq v =>
      need_owner (if heq (val o) v then Ok (o, OOpt None, [])
                  else let '(o', w) := notify o v in Ok (o', OOpt (Some (val o)), w))
  | WUpdate v => need_owner (let '(o', w) := notify o v in Ok (o', OUnit, w))
  | WUpdateIf v b =>
      need_owner (if b then let '(o', w) := notify o v in Ok (o', OUnit, w)
                  else Ok (upd o v (ver o) (wakers o), OUnit, []))
  | WGet => need_owner (Ok (o, OVal (val o), []))
  | WSubscribe =>
      need_owner (Ok (with_subs o (subs o ++ [Some (ver o)]), OSubId (length (subs o)), []))
  | WSubscribeReset =>
      need_owner (Ok (with_subs o (subs o ++ [Some 0]), OSubId (length (subs o)), []))
  | SPoll k =>
      with_sub k (fun ov =>
        if ver o =? 0 then Ok (o, OPollR (Ready None), [])
        else if ov <? ver o then Ok (with_subs o (set_nth k (Some (ver o)) (subs o)), OPollR (Ready (Some (val o))), [])
        else Ok (upd o (val o) (ver o) (wakers o ++ [k]), OPollR Pending, []))
  | SNextNow k =>
      with_sub k (fun _ => Ok (with_subs o (set_nth k (Some (ver o)) (subs o)), OVal (val o), []))
  | SGet k => with_sub k (fun _ => Ok (o, OVal (val o), []))
  | SReset k => with_sub k (fun _ => Ok (with_subs o (set_nth k (Some 0) (subs o)), OUnit, []))
  | SClone k => with_sub k (fun ov => Ok (with_subs o (subs o ++ [Some ov]), OSubId (length (subs o)), []))
  | SCloneReset k => with_sub k (fun _ => Ok (with_subs o (subs o ++ [Some 0]), OSubId (length (subs o)), []))
  | SDrop k => with_sub k (fun _ => Ok (with_subs o (set_nth k None (subs o)), OUnit, []))
  | HClone =>
      match okind o with
      | Unique => Panic
      | Shared => need_owner (Ok (with_handles o Shared (S (owners o)) (weaks o), OUnit, []))
      end
  | HDropOwner =>
      need_owner (
        if owners o =? 1 then
          (* the last owner: close (Observable::drop unconditionally; SharedObservable::drop when
             it is the last clone) *)
          let '(o', w) := close o in Ok (with_handles o' (okind o) 0 (weaks o), OUnit, w)
        else Ok (with_handles o (okind o) (owners o - 1) (weaks o), OUnit, []))
  | HDowngrade =>
      match okind o with
      | Unique => Panic
      | Shared => need_owner (Ok (with_handles o Shared (owners o) (S (weaks o)), OUnit, []))
      end
  | HUpgrade =>
      if weaks o =? 0 then Panic
      else if owners o =? 0 then Ok (o, OBool false, [])
      else Ok (with_handles o (okind o) (S (owners o)) (weaks o), OBool true, [])
  | HDropWeak =>
      if weaks o =? 0 then Panic else Ok (with_handles o (okind o) (owners o) (weaks o - 1), OUnit, [])
  | HCloneWeak =>
      (* WeakObservable::clone: possible whenever a weak reference exists, also after the end *)
      if weaks o =? 0 then Panic else Ok (with_handles o (okind o) (owners o) (S (weaks o)), OUnit, [])
  | HIntoShared =>
      match okind o with
      | Shared => Panic
      | Unique => need_owner (Ok (with_handles o Shared 1 (weaks o), OUnit, []))
      end
  | HCounts =>
      need_owner (Ok (o, OCounts (owners o) (live_subs o) (owners o + live_subs o) (weaks o), []))
  end.

(* a history; a call that is not possible in the current state is skipped *)
Fixpoint run (o : obs) (xs : list op) : obs :=
  match xs with
  | [] => o
  | x :: rest => match step o x with Ok (o', _, _) => run o' rest | Panic => run o rest end
  end.

(* ---------------- the readable specification (written from the property text) ----------------
   cur = the value most recently stored; closed; per subscriber "there is an update it has not
   observed" *)
Record spec := {
  sp_cur : V;
  sp_closed : bool;
  sp_unseen : list (option bool);
}.

Definition spec_of (o : obs) : spec :=
  {| sp_cur := val o;
     sp_closed := ver o =? 0;
     sp_unseen := map (option_map (fun ov => ov <? ver o)) (subs o) |}.

End Obs.
Arguments obs : clear implicits.
Arguments op : clear implicits.
Arguments out : clear implicits.
Arguments spec : clear implicits.
