(* ChainView.v — view correctness of LAZILY evaluated adapter chains (C12 for real stacked streams).
   Chain.v composes step functions (the eager composition).  The real stack is a nest of poll
   loops: every level has its own ready buffer and pulls one item at a time from the level below
   (ChainPoll.chain_poll).  Here: every level's view stays correct under that evaluation, i.e. the
   single-level invariant HandOver.mid_burst holds at every level simultaneously, where the
   "consumer" of level k is the adapter state of level k+1. *)
From EB Require Import Diff AdapterCore PollLoop ChainPoll ChainPollFacts HandOver.
From EB Require Import Head Skip HeadFacts SkipFacts LtsLift.
From Coq Require Import Lia.

(* ------------------------------------------------------------------------------------------ *)
(* 0. one level over an ARBITRARY inner stream                                                *)
(* ------------------------------------------------------------------------------------------ *)
Section GenView.
Context {A B St IS : Type}.
Variable on_diff : St -> diff A -> outcome (St * list (diff B)).
Variable on_param : St -> nat -> St * option (list (diff B)).
Variable hp : bool.
Variable me : nat.
Variable inner : IS -> outcome (IS * poll (option (diff A)) * ltrace).
Variable R : St -> list A -> list B -> Prop.
(* [J is w]: the inner stream is in state [is] while ITS consumer (= this level) holds [w] *)
Variable J : IS -> list A -> Prop.

Hypothesis Hstep : step_ok on_diff R.
Hypothesis Hparam : param_ok on_param R.
Hypothesis inner_view :
  forall is w is' r itr, J is w -> inner is = Ok (is', r, itr) ->
    match r with
    | Ready (Some d) => exists w1, apply_all_ok [d] w = Some w1 /\ J is' w1
    | _ => J is' w
    end.

Lemma gpoll_params_mid : forall qp st l v pend tr st' qp' o tr',
  R st l v ->
  gpoll_params on_param me st qp pend tr = (st', qp', o, tr') ->
  exists v', apply_all_ok (match o with Some ds => ds | None => [] end) v = Some v' /\ R st' l v'.
Proof.
  induction qp as [|n rest IH]; intros st l v pend tr st' qp' o tr' HR H; cbn [gpoll_params] in H.
  - injection H as <- _ <- _. exists v. split; [reflexivity|exact HR].
  - destruct (Hparam st l v n HR) as (st1 & v1 & E1 & E2 & HR1).
    destruct (on_param st n) as [st2 o2] eqn:E. cbn [fst snd] in *. subst st2.
    destruct o2 as [ds|].
    + injection H as <- _ <- _. exists v1. split; assumption.
    + cbn in E2. injection E2 as <-. eapply IH; eassumption.
Qed.

Lemma apply_one_inv (d : diff A) w w1 :
  apply_all_ok [d] w = Some w1 -> ok_in d w = true /\ apply d w = Some w1.
Proof.
  cbn [apply_all_ok]. destruct (ok_in d w); [|discriminate].
  destruct (apply d w) as [w2|]; [|discriminate]. cbn [obind].
  intro H. injection H as <-. split; reflexivity.
Qed.

Lemma gpoll_inner_mid hp0 : forall fuel st is w v pend first tr s' is' r tr',
  R st w v -> J is w ->
  gpoll_inner on_diff hp0 me inner fuel st is pend first tr = Ok (s', is', r, tr') ->
  exists w', J is' w' /\
    match r with
    | Ready (Some d) => exists v1, apply_all_ok [d] v = Some v1 /\ mid_burst R s' w' v1
    | _ => mid_burst R s' w' v
    end.
Proof.
  induction fuel as [|fuel IH]; intros st is w v pend first tr s' is' r tr' HR HJ H;
    cbn [gpoll_inner] in H; [discriminate|].
  destruct (inner is) as [[[is1 r1] itr]|] eqn:Ei; [|discriminate].
  pose proof (inner_view _ _ _ _ _ HJ Ei) as Hv.
  destruct r1 as [[d|]|].
  - destruct Hv as (w1 & Hap & HJ1). apply apply_one_inv in Hap. destruct Hap as [Hok Had].
    destruct (Hstep st w v d HR Hok) as (st1 & outs & l1 & v1 & E1 & E2 & E3 & HR1).
    rewrite Had in E2. injection E2 as <-. rewrite E1 in H.
    destruct outs as [|o outs'].
    + cbn in E3. injection E3 as <-. eapply IH; eassumption.
    + injection H as <- <- <- _. exists w1. split; [exact HJ1|].
      eapply deliver_first; eassumption.
  - injection H as <- <- <- _. exists w. split; [exact Hv|]. apply mid_burst_quiet. exact HR.
  - injection H as <- <- <- _. exists w. split; [exact Hv|]. apply mid_burst_quiet. exact HR.
Qed.

(* the single-level theorem HandOver.poll_u_mid_burst, over an arbitrary inner stream *)
Lemma gpoll_mid fuel s is w v qp pend s' is' qp' r tr :
  mid_burst R s w v -> J is w ->
  gpoll on_diff on_param hp me inner fuel s is qp pend = Ok (s', is', qp', r, tr) ->
  exists w', J is' w' /\
    match r with
    | Ready (Some d) => exists v1, apply_all_ok [d] v = Some v1 /\ mid_burst R s' w' v1
    | _ => mid_burst R s' w' v
    end.
Proof.
  intros (v' & Hrd & HR) HJ H.
  unfold gpoll in H. destruct (u_ready s) as [|o rd] eqn:Erd.
  - cbn in Hrd. injection Hrd as <-.
    destruct hp.
    + destruct (gpoll_params on_param me (u_st s) qp pend []) as [[[st1 qp1] o1] tr1] eqn:Ep.
      destruct (gpoll_params_mid _ _ _ _ _ _ _ _ _ _ HR Ep) as (v1 & E1 & HR1).
      destruct o1 as [[|d ds]|].
      * injection H as <- <- <- <- _. exists w. split; [exact HJ|].
        cbn in E1. injection E1 as <-. apply mid_burst_quiet. exact HR1.
      * injection H as <- <- <- <- _. exists w. split; [exact HJ|].
        eapply deliver_first; eassumption.
      * cbn in E1. injection E1 as <-.
        destruct (gpoll_inner on_diff true me inner fuel st1 is pend true tr1)
          as [[[[s2 is2] r2] tr2]|] eqn:Ei; [|discriminate].
        injection H as <- <- <- <- _. eapply gpoll_inner_mid; eassumption.
    + destruct (gpoll_inner on_diff false me inner fuel (u_st s) is pend true [])
        as [[[[s2 is2] r2] tr2]|] eqn:Ei; [|discriminate].
      injection H as <- <- <- <- _. eapply gpoll_inner_mid; eassumption.
  - injection H as <- <- <- <- _. exists w. split; [exact HJ|].
    eapply deliver_first; eassumption.
Qed.

End GenView.

(* ------------------------------------------------------------------------------------------ *)
(* 1. correct stages, packaged                                                                *)
(* ------------------------------------------------------------------------------------------ *)
Section ChainView.
Context {A : Type}.

(* what makes a stage a correct adapter: a relation between its state, its source contents and
   its consumer's view, kept by the step and the parameter function *)
Record stage_rel (g : stage (A:=A)) : Type := {
  sr_R : sg_St g -> list A -> list A -> Prop;
  sr_step : step_ok (sg_on_diff g) sr_R;
  sr_param : param_ok (sg_on_param g) sr_R;
  sr_shape : forall st n, snd (sg_on_param g st n) <> Some [];
}.

Definition cstage : Type := { g : stage (A:=A) & stage_rel g }.
Definition cs_stage (cg : cstage) : stage (A:=A) := projT1 cg.
Definition cs_R (cg : cstage) : sg_St (cs_stage cg) -> list A -> list A -> Prop :=
  sr_R _ (projT2 cg).

(* the same stage (same handlers, SAME relation) in another dynamic state: the typed version of
   ChainPoll.stage_with *)
Definition cstage_with (cg : cstage) (s : ustate (B:=A) (St:=sg_St (cs_stage cg))) (qp : list nat)
  : cstage :=
  existT stage_rel (stage_with (cs_stage cg) s qp)
    {| sr_R := (sr_R _ (projT2 cg) : sg_St (stage_with (cs_stage cg) s qp) -> _);
       sr_step := sr_step _ (projT2 cg);
       sr_param := sr_param _ (projT2 cg);
       sr_shape := sr_shape _ (projT2 cg) |}.

Definition evolves (cg cg' : cstage) : Prop := exists s qp, cg' = cstage_with cg s qp.

Lemma evolves_refl cg : evolves cg cg.
Proof.
  destruct cg as [[St od op hp s qp pend] [R p1 p2 p3]].
  exists s, qp. reflexivity.
Qed.

Lemma evolves_trans cg1 cg2 cg3 : evolves cg1 cg2 -> evolves cg2 cg3 -> evolves cg1 cg3.
Proof.
  intros (s & qp & ->) (s' & qp' & ->). exists s', qp'. reflexivity.
Qed.

Lemma Forall2_evolves_refl gs : Forall2 evolves gs gs.
Proof. induction gs; constructor; [apply evolves_refl|assumption]. Qed.

Lemma Forall2_evolves_trans gs1 : forall gs2 gs3,
  Forall2 evolves gs1 gs2 -> Forall2 evolves gs2 gs3 -> Forall2 evolves gs1 gs3.
Proof.
  induction gs1 as [|g gs1 IH]; intros gs2 gs3 H12 H23.
  - inversion H12; subst. inversion H23; subst. constructor.
  - inversion H12; subst. inversion H23; subst. constructor.
    + eapply evolves_trans; eassumption.
    + eapply IH; eassumption.
Qed.

(* chains of correct stages (top first) and their underlying plain chains *)
Definition cchain : Type := (list cstage * (list (diff A) * bool))%type.
Definition erase (cc : cchain) : chain (A:=A) := (map cs_stage (fst cc), snd cc).

Lemma erase_stages_ok cc : stages_ok (fst (erase cc)).
Proof.
  unfold stages_ok, erase. cbn [fst]. apply Forall_forall. intros g Hin.
  apply in_map_iff in Hin. destruct Hin as (cg & <- & _). exact (sr_shape _ (projT2 cg)).
Qed.

(* ------------------------------------------------------------------------------------------ *)
(* 2. the chain invariant                                                                     *)
(* ------------------------------------------------------------------------------------------ *)
(* [stages_view gs l v]: the bottom stage has consumed the source up to contents [l]; going up,
   every level is [mid_burst] between the view held by its supplier's consumer (= the source
   contents ITS state stands for) and the view held by its own consumer; the top consumer holds [v] *)
Fixpoint stages_view (gs : list cstage) (l v : list A) : Prop :=
  match gs with
  | [] => v = l
  | cg :: below =>
      exists w, stages_view below l w /\ mid_burst (cs_R cg) (sg_s (cs_stage cg)) w v
  end.

Definition chain_view (cc : cchain) (l v : list A) : Prop := stages_view (fst cc) l v.

(* ------------------------------------------------------------------------------------------ *)
(* 3. the nested loops keep it                                                                *)
(* ------------------------------------------------------------------------------------------ *)
Theorem chain_poll_view :
  forall (depth fuel : nat) (cc : cchain) (l v lq : list A) c' r tr,
    chain_view cc l v ->
    apply_all_ok (fst (snd cc)) l = Some lq ->
    chain_poll depth fuel (erase cc) = Ok (c', r, tr) ->
    exists (cc' : cchain) (l' : list A),
      erase cc' = c' /\ Forall2 evolves (fst cc) (fst cc') /\
      apply_all_ok (fst (snd cc')) l' = Some lq /\
      match r with
      | Ready (Some d) => exists v1, apply_all_ok [d] v = Some v1 /\ chain_view cc' l' v1
      | _ => chain_view cc' l' v
      end.
Proof.
  intros depth fuel cc l v lq. revert cc l v.
  induction depth as [|depth IH].
  - (* depth 0: only the bare source answers *)
    intros [[|cg below] [qs e]] l v c' r tr Hv Hq H; [|discriminate].
    unfold erase in H. cbn [fst snd map] in *. rewrite chain_poll_nil in H.
    unfold chain_view in Hv. cbn [fst stages_view] in Hv. subst v.
    unfold queue_inner in H. cbn [fst snd] in H. destruct qs as [|d rest].
    + injection H as <- <- _. exists ([], ([], e)), l.
      split; [reflexivity|]. split; [constructor|]. split; [exact Hq|].
      destruct e; reflexivity.
    + injection H as <- <- _.
      cbn [apply_all_ok] in Hq. destruct (ok_in d l) eqn:Hok; [|discriminate].
      destruct (apply d l) as [l1|] eqn:Had; [|discriminate]. cbn [obind] in Hq.
      exists ([], (rest, e)), l1.
      split; [reflexivity|]. split; [constructor|]. split; [exact Hq|].
      exists l1. split; [|reflexivity]. cbn [apply_all_ok]. rewrite Hok, Had. reflexivity.
  - intros [[|cg below] [qs e]] l v c' r tr Hv Hq H.
    + (* no stage: same as above *)
      unfold erase in H. cbn [fst snd map] in *. rewrite chain_poll_nil in H.
      unfold chain_view in Hv. cbn [fst stages_view] in Hv. subst v.
      unfold queue_inner in H. cbn [fst snd] in H. destruct qs as [|d rest].
      * injection H as <- <- _. exists ([], ([], e)), l.
        split; [reflexivity|]. split; [constructor|]. split; [exact Hq|].
        destruct e; reflexivity.
      * injection H as <- <- _.
        cbn [apply_all_ok] in Hq. destruct (ok_in d l) eqn:Hok; [|discriminate].
        destruct (apply d l) as [l1|] eqn:Had; [|discriminate]. cbn [obind] in Hq.
        exists ([], (rest, e)), l1.
        split; [reflexivity|]. split; [constructor|]. split; [exact Hq|].
        exists l1. split; [|reflexivity]. cbn [apply_all_ok]. rewrite Hok, Had. reflexivity.
    + (* a stage on top of [below] *)
      unfold erase in H. cbn [fst snd map] in *. rewrite chain_poll_cons in H.
      destruct (gpoll _ _ _ _ _ _ _ _ _ _) as [[[[[s1 c1] qp1] r1] tr1]|] eqn:E; [|discriminate].
      injection H as <- <- _.
      unfold chain_view in Hv. cbn [fst stages_view] in Hv. destruct Hv as (w & Hbelow & Hmid).
      (* the invariant of the stream below, as seen by this level *)
      pose (J := fun (c : chain (A:=A)) (w0 : list A) =>
                   exists (cc1 : cchain) (l1 : list A),
                     erase cc1 = c /\ Forall2 evolves below (fst cc1) /\
                     apply_all_ok (fst (snd cc1)) l1 = Some lq /\ chain_view cc1 l1 w0).
      assert (HJ0 : J (map cs_stage below, (qs, e)) w).
      { exists (below, (qs, e)), l. split; [reflexivity|].
        split; [apply Forall2_evolves_refl|]. split; [exact Hq|exact Hbelow]. }
      assert (Hinner : forall is w0 is' r0 itr, J is w0 ->
                chain_poll depth fuel is = Ok (is', r0, itr) ->
                match r0 with
                | Ready (Some d) => exists w1, apply_all_ok [d] w0 = Some w1 /\ J is' w1
                | _ => J is' w0
                end).
      { intros is w0 is' r0 itr (cc1 & l1 & <- & Hev & Hq1 & Hv1) Hp.
        destruct (IH cc1 l1 w0 is' r0 itr Hv1 Hq1 Hp) as (cc2 & l2 & He2 & Hev2 & Hq2 & Hpost).
        assert (Hev' : Forall2 evolves below (fst cc2))
          by (eapply Forall2_evolves_trans; eassumption).
        destruct r0 as [[d|]|].
        - destruct Hpost as (w1 & Hap & Hv2). exists w1. split; [exact Hap|].
          exists cc2, l2. repeat split; assumption.
        - exists cc2, l2. repeat split; assumption.
        - exists cc2, l2. repeat split; assumption. }
      destruct (gpoll_mid (sg_on_diff (cs_stage cg)) (sg_on_param (cs_stage cg)) (sg_hp (cs_stage cg))
                  (S (length (map cs_stage below))) (chain_poll depth fuel) (cs_R cg) J
                  (sr_step _ (projT2 cg)) (sr_param _ (projT2 cg)) Hinner
                  _ _ _ _ _ _ _ _ _ _ _ _ Hmid HJ0 E)
        as (w' & (cc1 & l1 & He1 & Hev1 & Hq1 & Hv1) & Hpost).
      exists (cstage_with cg s1 qp1 :: fst cc1, snd cc1), l1.
      split. { unfold erase. cbn [fst snd map]. rewrite <- He1. reflexivity. }
      split. { cbn [fst]. constructor; [exists s1, qp1; reflexivity|exact Hev1]. }
      split; [exact Hq1|].
      destruct r1 as [[d|]|].
      * destruct Hpost as (v1 & Hap & Hm1). exists v1. split; [exact Hap|].
        unfold chain_view. cbn [fst stages_view]. exists w'. split; [exact Hv1|exact Hm1].
      * unfold chain_view. cbn [fst stages_view]. exists w'. split; [exact Hv1|exact Hpost].
      * unfold chain_view. cbn [fst stages_view]. exists w'. split; [exact Hv1|exact Hpost].
Qed.

(* ------------------------------------------------------------------------------------------ *)
(* 4. at a Pending answer: the top view IS the view of the source through every level         *)
(* ------------------------------------------------------------------------------------------ *)
(* nothing parked anywhere: every level's relation holds between the view below and the view
   above; for two stages [b] over [a]:  exists mid, Ra sa l mid /\ Rb sb mid v *)
Fixpoint quiet_view (gs : list cstage) (l v : list A) : Prop :=
  match gs with
  | [] => v = l
  | cg :: below =>
      exists w, quiet_view below l w /\
        u_ready (sg_s (cs_stage cg)) = [] /\ cs_R cg (u_st (sg_s (cs_stage cg))) w v
  end.

Lemma quiet_view_two (cb ca : cstage) l v :
  quiet_view [cb; ca] l v <->
  u_ready (sg_s (cs_stage ca)) = [] /\ u_ready (sg_s (cs_stage cb)) = [] /\
  exists mid, cs_R ca (u_st (sg_s (cs_stage ca))) l mid /\ cs_R cb (u_st (sg_s (cs_stage cb))) mid v.
Proof.
  cbn [quiet_view]. split.
  - intros (mid & (l0 & -> & Ha & HRa) & Hb & HRb). split; [exact Ha|]. split; [exact Hb|].
    exists mid. split; assumption.
  - intros (Ha & Hb & mid & HRa & HRb). exists mid. split; [|split; assumption].
    exists l. split; [reflexivity|]. split; assumption.
Qed.

Lemma stages_view_quiet gs : forall l v,
  stages_view gs l v ->
  Forall (fun cg => u_ready (sg_s (cs_stage cg)) = []) gs ->
  quiet_view gs l v.
Proof.
  induction gs as [|cg below IH]; intros l v Hv Hall; cbn [stages_view quiet_view] in *.
  - exact Hv.
  - inversion Hall as [|x xs Hrd Hbelow]; subst.
    destruct Hv as (w & Hw & (v' & Hap & HR)). rewrite Hrd in Hap. cbn in Hap. injection Hap as <-.
    exists w. split; [apply IH; assumption|]. split; assumption.
Qed.

Corollary chain_view_at_pending :
  forall (depth fuel : nat) (cc : cchain) (l v lq : list A) c' tr,
    chain_view cc l v ->
    apply_all_ok (fst (snd cc)) l = Some lq ->
    chain_poll depth fuel (erase cc) = Ok (c', Pending, tr) ->
    exists cc' : cchain,
      erase cc' = c' /\ Forall2 evolves (fst cc) (fst cc') /\
      snd cc' = ([], false) /\ all_registered c' tr /\
      quiet_view (fst cc') lq v.
Proof.
  intros depth fuel cc l v lq c' tr Hv Hq H.
  destruct (chain_poll_view _ _ _ _ _ _ _ _ _ Hv Hq H) as (cc' & l' & He & Hev & Hq' & Hv').
  pose proof (chain_pending_registers_everywhere _ _ _ _ _ _ (erase_stages_ok cc) H) as Hreg.
  exists cc'. split; [exact He|]. split; [exact Hev|].
  subst c'. pose proof Hreg as (Hend & Hqe & Hl0 & Hlev). unfold erase in Hend, Hqe, Hlev.
  cbn [fst snd] in Hend, Hqe, Hlev.
  split. { destruct (snd cc') as [qs e]. cbn [fst snd] in *. subst. reflexivity. }
  split; [exact Hreg|].
  rewrite Hqe in Hq'. cbn in Hq'. injection Hq' as ->.
  apply stages_view_quiet; [exact Hv'|].
  apply Forall_forall. intros cg Hin.
  assert (Hin' : In (cs_stage cg) (rev (map cs_stage (fst cc')))).
  { apply in_rev. rewrite rev_involutive. apply in_map. exact Hin. }
  apply In_nth_error in Hin'. destruct Hin' as [k Hk].
  destruct (Hlev _ _ Hk) as [Hrd _]. exact Hrd.
Qed.

(* ------------------------------------------------------------------------------------------ *)
(* 3'. no panic: with enough fuel and depth a poll of a chain in the invariant answers         *)
(* ------------------------------------------------------------------------------------------ *)
(* [answers c res]: from some fuel on (and any sufficient depth) the poll of [c] answers [res] *)
Definition answers (c : chain (A:=A)) (res : chain (A:=A) * poll (option (diff A)) * ltrace) : Prop :=
  exists F, forall depth fuel, length (fst c) <= depth -> F <= fuel ->
    chain_poll depth fuel c = Ok res.

(* [drains c]: polled again and again, [c] answers every time and, after finitely many items,
   something that is not an item *)
Inductive drains : chain (A:=A) -> Prop :=
| drains_intro c c' r tr :
    answers c (c', r, tr) ->
    (forall d, r = Ready (Some d) -> drains c') ->
    drains c.

Definition Jv (lq : list A) (c : chain (A:=A)) (w : list A) : Prop :=
  exists (cc1 : cchain) (l1 : list A),
    erase cc1 = c /\ apply_all_ok (fst (snd cc1)) l1 = Some lq /\ chain_view cc1 l1 w.

Lemma Jv_step lq depth fuel is w is' r itr :
  Jv lq is w -> chain_poll depth fuel is = Ok (is', r, itr) ->
  match r with
  | Ready (Some d) => exists w1, apply_all_ok [d] w = Some w1 /\ Jv lq is' w1
  | _ => Jv lq is' w
  end.
Proof.
  intros (cc1 & l1 & <- & Hq1 & Hv1) Hp.
  destruct (chain_poll_view _ _ _ _ _ _ _ _ _ Hv1 Hq1 Hp) as (cc2 & l2 & He2 & _ & Hq2 & Hpost).
  destruct r as [[d|]|].
  - destruct Hpost as (w1 & Hap & Hv2). exists w1. split; [exact Hap|].
    exists cc2, l2. repeat split; assumption.
  - exists cc2, l2. repeat split; assumption.
  - exists cc2, l2. repeat split; assumption.
Qed.

Lemma Jv_length lq depth fuel is w is' r itr :
  Jv lq is w -> chain_poll depth fuel is = Ok (is', r, itr) -> length (fst is') = length (fst is).
Proof.
  intros (cc1 & l1 & <- & _ & _) Hp.
  destruct (chain_poll_inv _ _ _ _ _ _ (erase_stages_ok cc1) Hp) as (Hl & _ & _). exact Hl.
Qed.

Lemma gpoll_params_len {St : Type} (on_param : St -> nat -> St * option (list (diff A))) me :
  forall qp st pend tr st' qp' o tr',
    gpoll_params on_param me st qp pend tr = (st', qp', o, tr') ->
    length qp' <= length qp /\ (forall ds, o = Some ds -> length qp' < length qp).
Proof.
  induction qp as [|n rest IH]; intros st pend tr st' qp' o tr' H; cbn [gpoll_params] in H.
  - injection H as _ <- <- _. split; [cbn; lia|discriminate].
  - destruct (on_param st n) as [st1 o1]. destruct o1 as [ds|].
    + injection H as _ <- <- _. cbn [length]. split; [lia|intros; lia].
    + destruct (IH _ _ _ _ _ _ _ H) as [H1 H2]. cbn [length]. split; [lia|].
      intros ds Hds. specialize (H2 ds Hds). lia.
Qed.

Definition top (g : stage (A:=A)) (s : ustate (B:=A) (St:=sg_St g)) (qp : list nat)
           (is : chain (A:=A)) : chain (A:=A) :=
  (stage_with g s qp :: fst is, snd is).

Lemma chain_poll_top (g : stage (A:=A)) depth fuel s qp (is : chain (A:=A)) :
  chain_poll (S depth) fuel (top g s qp is) =
  match gpoll (sg_on_diff g) (sg_on_param g) (sg_hp g) (S (length (fst is)))
              (chain_poll depth fuel) fuel s is qp (sg_pend g) with
  | Panic => Panic
  | Ok (s', c', qp', r, tr) => Ok (top g s' qp' c', r, tr)
  end.
Proof. destruct is as [below q]. reflexivity. Qed.

Section TopDrains.
Variable cg : cstage.
Variable lq : list A.
Let g := cs_stage cg.
Let R := cs_R cg.

(* the top level over a stream [is] that drains: *)
(* ... the whole level drains, whatever it has parked and queued *)
Definition Pst (is : chain (A:=A)) : Prop :=
  forall s qp w v, Jv lq is w -> mid_burst R s w v -> drains (top g s qp is).
(* ... its loop over the stream below comes to an end *)
Definition Qst (is : chain (A:=A)) : Prop :=
  forall hp0 me w st v pend first tr qp, Jv lq is w -> R st w v ->
    exists F s' is' r tr',
      (forall d fi fl, length (fst is) <= d -> F <= fi -> F <= fl ->
         gpoll_inner (sg_on_diff g) hp0 me (chain_poll d fi) fl st is pend first tr
         = Ok (s', is', r, tr')) /\
      (forall x, r = Ready (Some x) -> drains (top g s' qp is')).

Lemma Pst_of_Qst is : Qst is -> Pst is.
Proof.
  intros HQ s qp w v HJ Hmid.
  assert (HP : forall n m s qp v, length qp = n -> length (u_ready s) = m ->
             mid_burst R s w v -> drains (top g s qp is)).
  2:{ eapply HP; [reflexivity|reflexivity|exact Hmid]. }
  clear s qp v Hmid.
  induction n as [n IHn] using lt_wf_ind. induction m as [m IHm] using lt_wf_ind.
  intros [st rd] qp v Hn Hm (v' & Hap & HR). cbn [u_ready u_st] in *.
  destruct rd as [|o rd].
  - (* nothing parked *)
    cbn in Hap. injection Hap as <-.
    destruct (sg_hp g) eqn:Hh.
    + destruct (gpoll_params (sg_on_param g) (S (length (fst is))) st qp (sg_pend g) [])
        as [[[st1 qp1] o1] tr1] eqn:Ep.
      destruct (gpoll_params_mid (sg_on_param g) (S (length (fst is))) R (sr_param _ (projT2 cg))
                  _ _ _ _ _ _ _ _ _ _ HR Ep) as (v1 & E1 & HR1).
      destruct (gpoll_params_len _ _ _ _ _ _ _ _ _ _ Ep) as [Hle Hlt].
      destruct o1 as [[|d ds]|].
      * (* Some []: the stream ends *)
        apply drains_intro with (c' := top g {| u_st := st1; u_ready := [] |} qp1 is)
                                (r := Ready None) (tr := tr1); [|discriminate].
        exists 0. intros depth fuel Hd _. destruct depth as [|depth]; [cbn in Hd; lia|].
        rewrite chain_poll_top. unfold gpoll. cbn [u_ready u_st]. rewrite Hh, Ep. reflexivity.
      * apply drains_intro with (c' := top g {| u_st := st1; u_ready := ds |} qp1 is)
                                (r := Ready (Some d)) (tr := tr1).
        -- exists 0. intros depth fuel Hd _. destruct depth as [|depth]; [cbn in Hd; lia|].
           rewrite chain_poll_top. unfold gpoll. cbn [u_ready u_st]. rewrite Hh, Ep. reflexivity.
        -- intros d0 _.
           destruct (deliver_first R st1 w v d ds v1 E1 HR1) as (v2 & _ & Hm2).
           eapply (IHn (length qp1)); [specialize (Hlt _ eq_refl); lia|reflexivity|reflexivity|exact Hm2].
      * cbn in E1. injection E1 as <-.
        destruct (HQ true (S (length (fst is))) w st1 v (sg_pend g) true tr1 qp1 HJ HR1)
          as (F & s' & is' & r & tr' & Hrun & Hdr).
        apply drains_intro with (c' := top g s' qp1 is') (r := r) (tr := tr'); [|exact Hdr].
        exists F. intros depth fuel Hd Hf. destruct depth as [|depth]; [cbn in Hd; lia|].
        rewrite chain_poll_top. unfold gpoll. cbn [u_ready u_st]. rewrite Hh, Ep.
        rewrite (Hrun depth fuel fuel); [reflexivity|cbn in Hd; lia|exact Hf|exact Hf].
    + destruct (HQ false (S (length (fst is))) w st v (sg_pend g) true [] qp HJ HR)
        as (F & s' & is' & r & tr' & Hrun & Hdr).
      apply drains_intro with (c' := top g s' qp is') (r := r) (tr := tr'); [|exact Hdr].
      exists F. intros depth fuel Hd Hf. destruct depth as [|depth]; [cbn in Hd; lia|].
      rewrite chain_poll_top. unfold gpoll. cbn [u_ready u_st]. rewrite Hh.
      rewrite (Hrun depth fuel fuel); [reflexivity|cbn in Hd; lia|exact Hf|exact Hf].
  - (* a parked diff is handed out *)
    destruct (deliver_first R st w v o rd v' Hap HR) as (v1 & _ & Hm1).
    apply drains_intro with (c' := top g {| u_st := st; u_ready := rd |} qp is)
                            (r := Ready (Some o)) (tr := []).
    + exists 0. intros depth fuel Hd _. destruct depth as [|depth]; [cbn in Hd; lia|].
      rewrite chain_poll_top. reflexivity.
    + intros d0 _. cbn [length] in Hm.
      eapply (IHm (length rd)); [lia|exact Hn|reflexivity|exact Hm1].
Qed.

Lemma top_drains : forall is, drains is -> Pst is /\ Qst is.
Proof.
  induction 1 as [is is1 r1 itr Hans _ IH].
  assert (HQ : Qst is); [|split; [apply Pst_of_Qst|]; exact HQ].
  intros hp0 me w st v pend first tr qp HJ HR.
  destruct Hans as [F1 Hans].
  pose proof (Hans (length (fst is)) F1 (le_n _) (le_n _)) as Hp1.
  pose proof (Jv_step _ _ _ _ _ _ _ _ HJ Hp1) as Hv1.
  pose proof (Jv_length _ _ _ _ _ _ _ _ HJ Hp1) as Hlen.
  set (tr0 := (if first then tr else tr ++ gparam_again hp0 me pend) ++ itr).
  destruct r1 as [[x|]|].
  - destruct Hv1 as (w1 & Hap & HJ1). apply apply_one_inv in Hap. destruct Hap as [Hok Had].
    destruct (sr_step _ (projT2 cg) st w v x HR Hok) as (st1 & outs & l1 & v1 & E1 & E2 & E3 & HR1).
    rewrite Had in E2. injection E2 as <-.
    change (sg_on_diff g st x = Ok (st1, outs)) in E1.
    destruct (IH x eq_refl) as [HP1 HQ1].
    destruct outs as [|o outs'].
    + cbn in E3. injection E3 as <-.
      destruct (HQ1 hp0 me w1 st1 v pend false tr0 qp HJ1 HR1)
        as (F2 & s' & is' & r & tr' & Hrun & Hdr).
      exists (Nat.max F1 (S F2)), s', is', r, tr'. split; [|exact Hdr].
      intros d fi fl Hd Hfi Hfl. destruct fl as [|fl]; [lia|]. cbn [gpoll_inner].
      rewrite (Hans d fi Hd ltac:(lia)). rewrite E1.
      apply Hrun; lia.
    + exists (Nat.max F1 1), {| u_st := st1; u_ready := outs' |}, is1, (Ready (Some o)), tr0.
      split.
      * intros d fi fl Hd Hfi Hfl. destruct fl as [|fl]; [lia|]. cbn [gpoll_inner].
        rewrite (Hans d fi Hd ltac:(lia)). rewrite E1. reflexivity.
      * intros x0 _.
        destruct (deliver_first R st1 w1 v o outs' v1 E3 HR1) as (v2 & _ & Hm2).
        eapply HP1; [exact HJ1|exact Hm2].
  - exists (Nat.max F1 1), {| u_st := st; u_ready := [] |}, is1, (Ready None), tr0.
    split; [|discriminate].
    intros d fi fl Hd Hfi Hfl. destruct fl as [|fl]; [lia|]. cbn [gpoll_inner].
    rewrite (Hans d fi Hd ltac:(lia)). reflexivity.
  - exists (Nat.max F1 1), {| u_st := st; u_ready := [] |}, is1, Pending, tr0.
    split; [|discriminate].
    intros d fi fl Hd Hfi Hfl. destruct fl as [|fl]; [lia|]. cbn [gpoll_inner].
    rewrite (Hans d fi Hd ltac:(lia)). reflexivity.
Qed.

End TopDrains.

Lemma queue_drains (qs : list (diff A)) (e : bool) : drains ([], (qs, e)).
Proof.
  induction qs as [|d rest IH].
  - apply drains_intro with (c' := ([], ([], e))) (r := if e then Ready None else Pending)
                            (tr := [(0, empty_resp e)]).
    + exists 0. intros depth fuel _ _. rewrite chain_poll_nil. reflexivity.
    + destruct e; discriminate.
  - apply drains_intro with (c' := ([], (rest, e))) (r := Ready (Some d)) (tr := [(0, RItem)]).
    + exists 0. intros depth fuel _ _. rewrite chain_poll_nil. reflexivity.
    + intros _ _. exact IH.
Qed.

Theorem chain_view_drains :
  forall (cc : cchain) (l v lq : list A),
    chain_view cc l v -> apply_all_ok (fst (snd cc)) l = Some lq -> drains (erase cc).
Proof.
  intros [gs [qs e]]. unfold chain_view, erase. cbn [fst snd].
  induction gs as [|cg below IH]; intros l v lq Hv Hq; cbn [map].
  - apply queue_drains.
  - cbn [stages_view] in Hv. destruct Hv as (w & Hbelow & Hmid).
    destruct cg as [g0 rel] eqn:Ecg.
    pose proof (IH l w lq Hbelow Hq) as Hd.
    destruct (top_drains cg lq _ Hd) as [HP _].
    assert (HJ : Jv lq (map cs_stage below, (qs, e)) w).
    { exists (below, (qs, e)), l. repeat split; assumption. }
    subst cg.
    specialize (HP (sg_s g0) (sg_qp g0) w v HJ Hmid).
    unfold top in HP. cbn [fst snd cs_stage projT1] in HP.
    destruct g0 as [St od op hp s qp pend]. exact HP.
Qed.

(* no panic, and more: from some fuel on the answer is there and does not change *)
Theorem chain_poll_no_panic :
  forall (cc : cchain) (l v lq : list A),
    chain_view cc l v -> apply_all_ok (fst (snd cc)) l = Some lq ->
    exists F res, forall depth fuel, length (fst cc) <= depth -> F <= fuel ->
      chain_poll depth fuel (erase cc) = Ok res.
Proof.
  intros cc l v lq Hv Hq.
  pose proof (chain_view_drains cc l v lq Hv Hq) as Hd.
  inversion Hd as [c c' r tr [F Hans] _ Ec]. subst c.
  exists F, (c', r, tr). intros depth fuel Hdp Hf. apply Hans; [|exact Hf].
  unfold erase. cbn [fst]. rewrite map_length. exact Hdp.
Qed.

End ChainView.

(* ------------------------------------------------------------------------------------------ *)
(* 5. non-vacuity, computed                                                                   *)
(* ------------------------------------------------------------------------------------------ *)
Definition head_cstage (st : head_st nat) (rd : list (diff nat)) (qp : list nat) (pend : bool)
  : cstage (A:=nat) :=
  existT _
    {| sg_St := head_st nat; sg_on_diff := head_on_diff; sg_on_param := head_update_limit;
       sg_hp := true; sg_s := {| u_st := st; u_ready := rd |}; sg_qp := qp; sg_pend := pend |}
    {| sr_R := (@head_R nat : sg_St (Build_stage _ _ _ _ _ _ _) -> _);
       sr_step := head_step_ok; sr_param := head_param_ok';
       sr_shape := head_update_limit_nonempty |}.

Definition skip_cstage (st : skip_st nat) (rd : list (diff nat)) (qp : list nat) (pend : bool)
  : cstage (A:=nat) :=
  existT _
    {| sg_St := skip_st nat; sg_on_diff := skip_on_diff; sg_on_param := skip_update_count;
       sg_hp := true; sg_s := {| u_st := st; u_ready := rd |}; sg_qp := qp; sg_pend := pend |}
    {| sr_R := (@skip_R nat : sg_St (Build_stage _ _ _ _ _ _ _) -> _);
       sr_step := skip_step_ok; sr_param := skip_param_ok';
       sr_shape := @SkipFacts.skip_update_count_nonempty nat |}.

Definition ex0 : cchain (A:=nat) :=
  ([head_cstage {| h_buf := [2;3;4]; h_limit := 2 |} [] [] false;
    skip_cstage {| s_buf := [1;2;3;4]; s_count := Some 1 |} [] [] false],
   ([PopFront; PushBack 9], false)).

(* after the first poll: the source diff PopFront went through Skip (PopFront) and Head
   (PopFront, PushBack 4); Head handed out the first and parked the second *)
Definition ex1 : cchain (A:=nat) :=
  ([head_cstage {| h_buf := [3;4]; h_limit := 2 |} [PushBack 4] [] false;
    skip_cstage {| s_buf := [2;3;4]; s_count := Some 1 |} [] [] false],
   ([PushBack 9], false)).
(* after the second poll: the parked diff was handed out, nothing was pulled from below *)
Definition ex2 : cchain (A:=nat) :=
  ([head_cstage {| h_buf := [3;4]; h_limit := 2 |} [] [] false;
    skip_cstage {| s_buf := [2;3;4]; s_count := Some 1 |} [] [] false],
   ([PushBack 9], false)).
(* after the third poll: PushBack 9 went through Skip, Head swallowed it, the source is Pending *)
Definition ex3 : cchain (A:=nat) :=
  ([head_cstage {| h_buf := [3;4;9]; h_limit := 2 |} [] [] false;
    skip_cstage {| s_buf := [2;3;4;9]; s_count := Some 1 |} [] [] false],
   ([], false)).

Example chain_view_example :
  chain_view ex0 [1;2;3;4] [2;3] /\
  apply_all_ok (fst (snd ex0)) [1;2;3;4] = Some [2;3;4;9] /\
  exists tr1 tr2 tr3,
    chain_poll 2 3 (erase ex0) = Ok (erase ex1, Ready (Some PopFront), tr1) /\
    apply_all_ok [PopFront] [2;3] = Some [3] /\ chain_view ex1 [2;3;4] [3] /\
    chain_poll 2 3 (erase ex1) = Ok (erase ex2, Ready (Some (PushBack 4)), tr2) /\
    apply_all_ok [PushBack 4] [3] = Some [3;4] /\ chain_view ex2 [2;3;4] [3;4] /\
    chain_poll 2 3 (erase ex2) = Ok (erase ex3, Pending, tr3) /\
    chain_view ex3 [2;3;4;9] [3;4] /\
    (* the top view is Head 2 of Skip 1 of the source: *)
    quiet_view (fst ex3) [2;3;4;9] [3;4] /\
    (exists mid, mid = [3;4;9] /\
       skip_R {| s_buf := [2;3;4;9]; s_count := Some 1 |} [2;3;4;9] mid /\
       head_R {| h_buf := [3;4;9]; h_limit := 2 |} mid [3;4]).
Proof.
  split.
  { exists [2;3;4]. split.
    - exists [1;2;3;4]. split; [reflexivity|]. exists [2;3;4]. split; [reflexivity|]. split; reflexivity.
    - exists [2;3]. split; [reflexivity|]. split; reflexivity. }
  split; [reflexivity|].
  eexists. eexists. eexists.
  split; [vm_compute; reflexivity|]. split; [reflexivity|].
  split.
  { exists [3;4]. split.
    - exists [2;3;4]. split; [reflexivity|]. exists [3;4]. split; [reflexivity|]. split; reflexivity.
    - exists [3;4]. split; [reflexivity|]. split; reflexivity. }
  split; [vm_compute; reflexivity|]. split; [reflexivity|].
  split.
  { exists [3;4]. split.
    - exists [2;3;4]. split; [reflexivity|]. exists [3;4]. split; [reflexivity|]. split; reflexivity.
    - exists [3;4]. split; [reflexivity|]. split; reflexivity. }
  split; [vm_compute; reflexivity|].
  split.
  { exists [3;4;9]. split.
    - exists [2;3;4;9]. split; [reflexivity|]. exists [3;4;9]. split; [reflexivity|]. split; reflexivity.
    - exists [3;4]. split; [reflexivity|]. split; reflexivity. }
  split.
  { exists [3;4;9]. split.
    - exists [2;3;4;9]. split; [reflexivity|]. split; [reflexivity|]. split; reflexivity.
    - split; [reflexivity|]. split; reflexivity. }
  exists [3;4;9]. split; [reflexivity|]. split; split; reflexivity.
Qed.

(* the same example through the theorems: the hypotheses are satisfiable and the conclusions say
   what was computed *)
Example chain_view_example_by_theorem :
  forall c' tr, chain_poll 2 3 (erase ex2) = Ok (c', Pending, tr) ->
  exists cc', erase cc' = c' /\ snd cc' = ([], false) /\ quiet_view (fst cc') [2;3;4;9] [3;4].
Proof.
  intros c' tr H.
  destruct (chain_view_at_pending 2 3 ex2 [2;3;4] [3;4] [2;3;4;9] c' tr) as (cc' & He & _ & Hq & _ & Hv).
  - exists [3;4]. split.
    + exists [2;3;4]. split; [reflexivity|]. exists [3;4]. split; [reflexivity|]. split; reflexivity.
    + exists [3;4]. split; [reflexivity|]. split; reflexivity.
  - reflexivity.
  - exact H.
  - exists cc'. repeat split; assumption.
Qed.

(* The fuel bound [S (length queue)] of the single-level loop (gpoll_queue_is_poll_u) is NOT enough
   for a chain: one source diff can become several items of a lower level, and an upper level that
   swallows them polls the lower level once per item.  Skip 5 over Head 2 over [1;2;3], one source
   diff PopFront: Head emits PopFront and PushBack 3, Skip swallows both, so its loop needs three
   polls of Head (two items and the final Pending) - fuel 2 = S (length queue) runs out. *)
Definition ex_fuel : cchain (A:=nat) :=
  ([skip_cstage {| s_buf := [1;2]; s_count := Some 5 |} [] [] false;
    head_cstage {| h_buf := [1;2;3]; h_limit := 2 |} [] [] false],
   ([PopFront], false)).

Example fuel_bound_by_queue_length_refuted :
  chain_view ex_fuel [1;2;3] [] /\
  apply_all_ok (fst (snd ex_fuel)) [1;2;3] = Some [2;3] /\
  chain_poll 2 (S (length (fst (snd ex_fuel)))) (erase ex_fuel) = Panic /\
  exists c' tr, chain_poll 2 3 (erase ex_fuel) = Ok (c', Pending, tr).
Proof.
  split.
  { exists [1;2]. split.
    - exists [1;2;3]. split; [reflexivity|]. exists [1;2]. split; [reflexivity|]. split; reflexivity.
    - exists []. split; [reflexivity|]. split; reflexivity. }
  split; [reflexivity|]. split; [vm_compute; reflexivity|].
  eexists. eexists. vm_compute. reflexivity.
Qed.

Print Assumptions gpoll_mid.
Print Assumptions chain_poll_view.
Print Assumptions chain_view_at_pending.
Print Assumptions quiet_view_two.
Print Assumptions chain_view_drains.
Print Assumptions chain_poll_no_panic.
Print Assumptions chain_view_example.
Print Assumptions chain_view_example_by_theorem.
Print Assumptions fuel_bound_by_queue_length_refuted.
