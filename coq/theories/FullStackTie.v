(* FullStackTie.v — the poll loops of FullStack.v / FullStackB.v (two ARBITRARY state machines as
   inner stream and parameter stream, three-valued result) instantiated with the SCRIPTED queues
   are the scripted loops of PollLoop.v (poll_u / poll_b, has_param = true), answer for answer,
   state for state, queue for queue — provided the fuel covers the call.

   Fuel.  [floop] / [floop_b] spend one unit per loop iteration (= per inner item consumed, plus the
   final poll of the emptied inner queue) and hand the *current* fuel to [fparams], which spends
   one unit per parameter value plus one for the poll that finds the queue empty.  The parameter
   queue is only drained in the first iteration (afterwards it is empty: one unit), so the sharp
   sufficient condition is
       length qi + 1 <= fuel  /\  length qp + 1 <= fuel          (theorems *_sharp)
   and the bound  length qi + length qp + 2 <= fuel  of the task statement implies it. *)
From EB Require Import Diff PollLoop ChainPoll ChainPollB FullStack FullStackB.
From Coq Require Import List Lia.
Import ListNotations.

Definition qinner {I} (q : list I * bool) : outcome (list I * bool * poll (option I)) :=
  match queue_inner q with Ok (q', r, _) => Ok (q', r) | Panic => Panic end.

Definition qinner_b {I} (q : list (list I) * bool)
  : outcome (list (list I) * bool * poll (option (list I))) :=
  match queue_inner_b q with Ok (q', r, _) => Ok (q', r) | Panic => Panic end.

(* ---------------- the scripted leaves, equation by equation ---------------- *)

Lemma qinner_nil : forall I (iend : bool),
  @qinner I ([], iend) = Ok (([], iend), if iend then Ready None else Pending).
Proof. reflexivity. Qed.

Lemma qinner_cons : forall I (d : I) rest (iend : bool),
  qinner (d :: rest, iend) = Ok ((rest, iend), Ready (Some d)).
Proof. reflexivity. Qed.

Lemma qinner_b_nil : forall I (iend : bool),
  @qinner_b I ([], iend) = Ok (([], iend), if iend then Ready None else Pending).
Proof. reflexivity. Qed.

Lemma qinner_b_cons : forall I (b : list I) rest (iend : bool),
  qinner_b (b :: rest, iend) = Ok ((rest, iend), Ready (Some b)).
Proof. reflexivity. Qed.

Lemma queue_param_nil : forall pend : bool,
  queue_param ([], pend) = Ok (([], pend), if pend then Ready None else Pending).
Proof. reflexivity. Qed.

Lemma queue_param_cons : forall n rest (pend : bool),
  queue_param (n :: rest, pend) = Ok ((rest, pend), Ready (Some n)).
Proof. reflexivity. Qed.

Section Tie.
Context {I B St : Type}.
Variable on_diff : St -> I -> outcome (St * list (diff B)).
Variable on_param : St -> nat -> St * option (list (diff B)).

(* ---------------- the parameter drain ---------------- *)

Lemma fparams_queue : forall qp (pend : bool) tr fuel st,
  length qp + 1 <= fuel ->
  fparams on_param queue_param fuel st (qp, pend) =
  let '(st', qp', o, _) := poll_params on_param st qp pend tr in ROk (st', (qp', pend), o).
Proof.
  induction qp as [|n rest IH]; intros pend tr fuel st Hfuel;
    (destruct fuel as [|f]; [cbn [length] in Hfuel; lia|]).
  - cbn [fparams]. rewrite queue_param_nil. cbn [poll_params].
    destruct pend; reflexivity.
  - cbn [fparams]. rewrite queue_param_cons. cbn [poll_params].
    destruct (on_param st n) as [st' [ds|]].
    + reflexivity.
    + apply IH. cbn [length] in Hfuel. lia.
Qed.

(* the drain only answers "nothing to hand out" once the queue is empty *)
Lemma poll_params_None : forall qp (pend : bool) tr st st' qp' tr',
  poll_params on_param st qp pend tr = (st', qp', None, tr') -> qp' = [].
Proof.
  induction qp as [|n rest IH]; intros pend tr st st' qp' tr' Hp; cbn [poll_params] in Hp.
  - inversion Hp. reflexivity.
  - destruct (on_param st n) as [st1 [ds|]].
    + inversion Hp.
    + eapply IH. exact Hp.
Qed.

(* ---------------- unbatched ---------------- *)

(* the loop once the parameter queue is empty; the scripted side's [first] / trace are irrelevant *)
Lemma floop_queue_inner : forall qi (iend pend first : bool) tr fuel st,
  length qi + 1 <= fuel ->
  floop on_diff on_param qinner queue_param fuel st (qi, iend) ([], pend) =
  match poll_inner_u on_diff true st qi iend pend first tr with
  | Ok (s', qi', r, _) => ROk (s', (qi', iend), ([], pend), r)
  | Panic => RPanic
  end.
Proof.
  induction qi as [|d rest IH]; intros iend pend first tr fuel st Hfuel;
    (destruct fuel as [|f]; [cbn [length] in Hfuel; lia|]).
  - cbn [floop].
    rewrite (fparams_queue [] pend [] (S f) st) by (cbn [length]; lia).
    cbn [poll_params]. rewrite qinner_nil. cbn [poll_inner_u].
    destruct iend; reflexivity.
  - cbn [floop].
    rewrite (fparams_queue [] pend [] (S f) st) by (cbn [length]; lia).
    cbn [poll_params]. rewrite qinner_cons. cbn [poll_inner_u].
    destruct (on_diff st d) as [[st2 [|o outs]]|].
    + apply IH. cbn [length] in Hfuel. lia.
    + reflexivity.
    + reflexivity.
Qed.

Lemma floop_queue : forall qi (iend : bool) qp (pend : bool) fuel st,
  length qi + 1 <= fuel -> length qp + 1 <= fuel ->
  floop on_diff on_param qinner queue_param fuel st (qi, iend) (qp, pend) =
  let '(st', qp', o, tr) := poll_params on_param st qp pend [] in
  match o with
  | Some [] => ROk ({| u_st := st'; u_ready := [] |}, (qi, iend), (qp', pend), Ready None)
  | Some (d :: ds) => ROk ({| u_st := st'; u_ready := ds |}, (qi, iend), (qp', pend), Ready (Some d))
  | None =>
      match poll_inner_u on_diff true st' qi iend pend true tr with
      | Ok (s', qi', r, _) => ROk (s', (qi', iend), (qp', pend), r)
      | Panic => RPanic
      end
  end.
Proof.
  intros qi iend qp pend fuel st Hqi Hqp.
  destruct fuel as [|f]; [lia|].
  cbn [floop].
  rewrite (fparams_queue qp pend [] (S f) st Hqp).
  destruct (poll_params on_param st qp pend []) as [[[st1 qp1] o] tr1] eqn:Hpp.
  destruct o as [[|d ds]|].
  - reflexivity.
  - reflexivity.
  - assert (Hnil : qp1 = []) by (eapply poll_params_None; exact Hpp).
    subst qp1.
    destruct qi as [|d rest].
    + rewrite qinner_nil. cbn [poll_inner_u]. destruct iend; reflexivity.
    + rewrite qinner_cons. cbn [poll_inner_u].
      destruct (on_diff st1 d) as [[st2 [|o outs]]|].
      * apply floop_queue_inner. cbn [length] in Hqi. lia.
      * reflexivity.
      * reflexivity.
Qed.

Theorem fpoll_queue_is_poll_u_sharp :
  forall (s : ustate (B:=B) (St:=St)) qi (iend : bool) qp (pend : bool) fuel,
    length qi + 1 <= fuel -> length qp + 1 <= fuel ->
    fpoll on_diff on_param qinner queue_param fuel s (qi, iend) (qp, pend) =
    match poll_u on_diff on_param true s qi iend qp pend with
    | Ok (s', qi', qp', r, _) => ROk (s', (qi', iend), (qp', pend), r)
    | Panic => RPanic
    end.
Proof.
  intros s qi iend qp pend fuel Hqi Hqp.
  unfold fpoll, poll_u.
  destruct (u_ready s) as [|o r].
  - rewrite (floop_queue qi iend qp pend fuel (u_st s) Hqi Hqp).
    destruct (poll_params on_param (u_st s) qp pend []) as [[[st1 qp1] o] tr1].
    destruct o as [[|d ds]|].
    + reflexivity.
    + reflexivity.
    + destruct (poll_inner_u on_diff true st1 qi iend pend true tr1)
        as [[[[s' qi'] r'] tr']|]; reflexivity.
  - reflexivity.
Qed.

(* ---------------- batched ---------------- *)

Lemma floop_b_queue_inner : forall qi (iend pend first : bool) tr fuel st,
  length qi + 1 <= fuel ->
  floop_b on_diff on_param qinner_b queue_param fuel st (qi, iend) ([], pend) =
  match poll_inner_b on_diff true st qi iend pend first tr with
  | Ok (st', qi', r, _) => ROk (st', (qi', iend), ([], pend), r)
  | Panic => RPanic
  end.
Proof.
  induction qi as [|b rest IH]; intros iend pend first tr fuel st Hfuel;
    (destruct fuel as [|f]; [cbn [length] in Hfuel; lia|]).
  - cbn [floop_b].
    rewrite (fparams_queue [] pend [] (S f) st) by (cbn [length]; lia).
    cbn [poll_params]. rewrite qinner_b_nil. cbn [poll_inner_b].
    destruct iend; reflexivity.
  - cbn [floop_b].
    rewrite (fparams_queue [] pend [] (S f) st) by (cbn [length]; lia).
    cbn [poll_params]. rewrite qinner_b_cons. cbn [poll_inner_b].
    destruct (flat_map_diffs on_diff st b) as [[st2 [|o outs]]|].
    + apply IH. cbn [length] in Hfuel. lia.
    + reflexivity.
    + reflexivity.
Qed.

Theorem floop_b_queue_is_poll_b_sharp :
  forall (st : St) qi (iend : bool) qp (pend : bool) fuel,
    length qi + 1 <= fuel -> length qp + 1 <= fuel ->
    floop_b on_diff on_param qinner_b queue_param fuel st (qi, iend) (qp, pend) =
    match poll_b on_diff on_param true st qi iend qp pend with
    | Ok (st', qi', qp', r, _) => ROk (st', (qi', iend), (qp', pend), r)
    | Panic => RPanic
    end.
Proof.
  intros st qi iend qp pend fuel Hqi Hqp.
  unfold poll_b.
  destruct fuel as [|f]; [lia|].
  cbn [floop_b].
  rewrite (fparams_queue qp pend [] (S f) st Hqp).
  destruct (poll_params on_param st qp pend []) as [[[st1 qp1] o] tr1] eqn:Hpp.
  destruct o as [[|d ds]|].
  - reflexivity.
  - reflexivity.
  - assert (Hnil : qp1 = []) by (eapply poll_params_None; exact Hpp).
    subst qp1.
    destruct qi as [|b rest].
    + rewrite qinner_b_nil. cbn [poll_inner_b]. destruct iend; reflexivity.
    + rewrite qinner_b_cons. cbn [poll_inner_b].
      destruct (flat_map_diffs on_diff st1 b) as [[st2 [|o outs]]|].
      * rewrite (floop_b_queue_inner rest iend pend false (tr1 ++ [(SrcInner, RItem)]) f st2)
          by (cbn [length] in Hqi; lia).
        destruct (poll_inner_b on_diff true st2 rest iend pend false
                    (tr1 ++ [(SrcInner, RItem)])) as [[[[st' qi'] r'] tr']|]; reflexivity.
      * reflexivity.
      * reflexivity.
Qed.

End Tie.

(* ---------------- the statements of the task (their fuel bound implies the sharp one) -------- *)

(* enough fuel: one iteration per inner item + 1, the parameter drain needs one poll per value + 1 *)
Theorem fpoll_queue_is_poll_u :
  forall (I B St : Type) (on_diff : St -> I -> outcome (St * list (diff B)))
         (on_param : St -> nat -> St * option (list (diff B)))
         (s : ustate (B:=B) (St:=St)) qi iend qp pend fuel,
    length qi + length qp + 2 <= fuel ->
    fpoll on_diff on_param qinner queue_param fuel s (qi, iend) (qp, pend) =
    match poll_u on_diff on_param true s qi iend qp pend with
    | Ok (s', qi', qp', r, _) => ROk (s', (qi', iend), (qp', pend), r)
    | Panic => RPanic
    end.
Proof.
  intros I B St on_diff on_param s qi iend qp pend fuel Hfuel.
  apply fpoll_queue_is_poll_u_sharp; lia.
Qed.

Theorem floop_b_queue_is_poll_b :
  forall (I B St : Type) (on_diff : St -> I -> outcome (St * list (diff B)))
         (on_param : St -> nat -> St * option (list (diff B)))
         (st : St) qi iend qp pend fuel,
    length qi + length qp + 2 <= fuel ->
    floop_b on_diff on_param qinner_b queue_param fuel st (qi, iend) (qp, pend) =
    match poll_b on_diff on_param true st qi iend qp pend with
    | Ok (st', qi', qp', r, _) => ROk (st', (qi', iend), (qp', pend), r)
    | Panic => RPanic
    end.
Proof.
  intros I B St on_diff on_param st qi iend qp pend fuel Hfuel.
  apply floop_b_queue_is_poll_b_sharp; lia.
Qed.

(* the sharp bound cannot be lowered: one unit less on either side runs out of fuel *)
Example sharp_bound_inner_tight :
  fpoll (B:=unit) (fun (st : unit) (_ : unit) => Ok (st, [])) (fun st _ => (st, None))
        qinner queue_param 1 {| u_st := tt; u_ready := [] |} ([tt], false) ([], false) = RFuel.
Proof. reflexivity. Qed.

Example sharp_bound_param_tight :
  fpoll (B:=unit) (fun (st : unit) (_ : unit) => Ok (st, [])) (fun st _ => (st, None))
        qinner queue_param 1 {| u_st := tt; u_ready := [] |} ([], false) ([0], false) = RFuel.
Proof. reflexivity. Qed.

Print Assumptions fpoll_queue_is_poll_u.
Print Assumptions floop_b_queue_is_poll_b.
Print Assumptions fpoll_queue_is_poll_u_sharp.
Print Assumptions floop_b_queue_is_poll_b_sharp.
