(* ObsConc.v — SharedObservable / Subscriber / WeakObservable at lock-and-atomic granularity.
   Every thread runs one operation, cut into micro-steps at exactly the places where the
   `eyeball_verif` pause points sit in the crate.  A micro-step is enabled only if the lock it
   needs is available - that is the whole lock model (std::sync::RwLock as readers/writer, the
   metadata RwLock only ever write-locked, Arc counters as atomically updated naturals). *)
From EB Require Export Base.

Section Conc.
Context {V : Type}.

(* operations a thread can run *)
Inductive cop :=
| CPoll (k : nat)              (* Subscriber::poll_next of subscriber k, waker id = k *)
| CSet (v : V)                 (* SharedObservable::set through some clone *)
| CGet                         (* SharedObservable::get *)
| CDrop                        (* drop of one SharedObservable clone *)
| CUpgrade                     (* WeakObservable::upgrade (the result is kept alive) *)
| CClone.                      (* SharedObservable::clone *)

(* program counters; the names in comments are the pause points reached *after* the step *)
Inductive pc :=
| PStart
| PPollValueLocked             (* "poll_value_locked": holds the value read lock *)
| PPollMetaLocked              (* "poll_meta_locked": also holds the metadata lock *)
| PPollDecided (r : poll (option V))   (* "poll_decided": compared / registered, still holding both *)
| PSetLocked                   (* "set_locked": holds the value write lock *)
| PDropDecided (last : bool)   (* "drop_decided": the am-I-the-last-clone decision is made *)
| PCloseMetaLocked             (* "close_meta_locked": holds value read lock + metadata lock *)
| PUpgradeBetween              (* "upgrade_between": state upgraded, num_clones not yet *)
| PDone (r : option (poll (option V)) ) (prev : option V) (flag : option bool).

Record thread := { t_op : cop; t_pc : pc; t_waiting : bool (* blocked on a lock *) }.

Record cstate := {
  c_val : V;
  c_ver : nat;
  c_wakers : list nat;
  c_readers : nat;            (* holders of the value read lock *)
  c_writer : bool;            (* the value write lock is held *)
  c_meta : bool;              (* the metadata lock is held *)
  c_strong : nat;             (* Arc<RwLock<ObservableState>> strong count *)
  c_clones : nat;             (* Arc<()> _num_clones strong count = live SharedObservables *)
  c_subs : list nat;          (* observed_version per subscriber *)
  c_threads : list thread;
  c_woken : list nat;         (* every waker woken so far, in order *)
  c_panicked : list nat;      (* threads that panicked (read_noblock on a write-locked state) *)
}.

Fixpoint set_nth {X} (k : nat) (x : X) (l : list X) : list X :=
  match l, k with
  | [], _ => []
  | _ :: l', 0 => x :: l'
  | y :: l', S k' => y :: set_nth k' x l'
  end.

Definition upd_thread (s : cstate) (t : nat) (th : thread) : cstate :=
  {| c_val := c_val s; c_ver := c_ver s; c_wakers := c_wakers s; c_readers := c_readers s;
     c_writer := c_writer s; c_meta := c_meta s; c_strong := c_strong s; c_clones := c_clones s;
     c_subs := c_subs s; c_threads := set_nth t th (c_threads s); c_woken := c_woken s;
     c_panicked := c_panicked s |}.

(* result of trying to advance thread t by one micro-step *)
Inductive adv := Advanced (s : cstate) | Blocked | Finished.

Definition mk (s : cstate) v ver wk rd wr mt st cl subs wok : cstate :=
  {| c_val := v; c_ver := ver; c_wakers := wk; c_readers := rd; c_writer := wr; c_meta := mt;
     c_strong := st; c_clones := cl; c_subs := subs; c_threads := c_threads s; c_woken := wok;
     c_panicked := c_panicked s |}.

Definition with_pc (s : cstate) (t : nat) (op : cop) (p : pc) : cstate :=
  upd_thread s t {| t_op := op; t_pc := p; t_waiting := false |}.

(* std::sync::RwLock (futex implementation) does not admit new readers while a writer is queued:
   is_read_lockable = no writer holds it and nobody is waiting.  A queued writer is a thread blocked
   at the start of a set. *)
Definition writer_waiting (s : cstate) : bool :=
  existsb (fun th => t_waiting th &&
                     match t_op th, t_pc th with CSet _, PStart => true | _, _ => false end)
          (c_threads s).

(* one micro-step of thread t.  [fixed_drop]: true = the repaired Drop (atomic decrement-and-test of
   the clone counter), false = the original Drop (plain load of the counter). *)
Definition cstep (fixed_drop : bool) (s : cstate) (t : nat) : adv :=
  match nth_error (c_threads s) t with
  | None => Finished
  | Some th =>
    let op := t_op th in
    match op, t_pc th with
    | _, PDone _ _ _ => Finished
    (* ---- poll: subscriber.rs poll_next_ref + state.rs poll_update ---- *)
    | CPoll k, PStart =>
        if c_writer s || writer_waiting s then Blocked
        else Advanced (with_pc (mk s (c_val s) (c_ver s) (c_wakers s) (S (c_readers s)) false (c_meta s)
                                   (c_strong s) (c_clones s) (c_subs s) (c_woken s)) t op PPollValueLocked)
    | CPoll k, PPollValueLocked =>
        if c_meta s then Blocked
        else Advanced (with_pc (mk s (c_val s) (c_ver s) (c_wakers s) (c_readers s) (c_writer s) true
                                   (c_strong s) (c_clones s) (c_subs s) (c_woken s)) t op PPollMetaLocked)
    | CPoll k, PPollMetaLocked =>
        let ov := nth k (c_subs s) 0 in
        if c_ver s =? 0 then Advanced (with_pc s t op (PPollDecided (Ready None)))
        else if ov <? c_ver s then
          Advanced (with_pc (mk s (c_val s) (c_ver s) (c_wakers s) (c_readers s) (c_writer s) (c_meta s)
                                (c_strong s) (c_clones s) (set_nth k (c_ver s) (c_subs s)) (c_woken s))
                            t op (PPollDecided (Ready (Some (c_val s)))))
        else
          Advanced (with_pc (mk s (c_val s) (c_ver s) (c_wakers s ++ [k]) (c_readers s) (c_writer s) (c_meta s)
                                (c_strong s) (c_clones s) (c_subs s) (c_woken s))
                            t op (PPollDecided Pending))
    | CPoll k, PPollDecided r =>
        (* release the metadata lock, then the value read lock *)
        Advanced (with_pc (mk s (c_val s) (c_ver s) (c_wakers s) (c_readers s - 1) (c_writer s) false
                              (c_strong s) (c_clones s) (c_subs s) (c_woken s)) t op (PDone (Some r) None None))
    (* ---- set: shared.rs set -> state.rs set (write lock held throughout) ---- *)
    | CSet v, PStart =>
        if c_writer s || negb (c_readers s =? 0) then Blocked
        else Advanced (with_pc (mk s (c_val s) (c_ver s) (c_wakers s) 0 true (c_meta s)
                                   (c_strong s) (c_clones s) (c_subs s) (c_woken s)) t op PSetLocked)
    | CSet v, PSetLocked =>
        (* mem::replace, version += 1, wake(drain(..)) through get_mut (no metadata lock), unlock *)
        Advanced (with_pc (mk s v (S (c_ver s)) [] 0 false (c_meta s)
                              (c_strong s) (c_clones s) (c_subs s) (c_woken s ++ c_wakers s))
                          t op (PDone None (Some (c_val s)) None))
    (* ---- get ---- *)
    | CGet, PStart =>
        if c_writer s || writer_waiting s then Blocked
        else Advanced (with_pc s t op (PDone None (Some (c_val s)) None))
    (* ---- clone: state.clone() then _num_clones.clone() ---- *)
    | CClone, PStart =>
        Advanced (with_pc (mk s (c_val s) (c_ver s) (c_wakers s) (c_readers s) (c_writer s) (c_meta s)
                              (S (c_strong s)) (S (c_clones s)) (c_subs s) (c_woken s))
                          t op (PDone None None None))
    (* ---- drop of a SharedObservable, shared.rs Drop + field drops ---- *)
    | CDrop, PStart =>
        if fixed_drop then
          (* Arc::into_inner(_num_clones): decrement and learn whether it was the last, atomically *)
          Advanced (with_pc (mk s (c_val s) (c_ver s) (c_wakers s) (c_readers s) (c_writer s) (c_meta s)
                                (c_strong s) (c_clones s - 1) (c_subs s) (c_woken s))
                            t op (PDropDecided (c_clones s =? 1)))
        else
          (* Arc::strong_count(&_num_clones) == 1: a plain load *)
          Advanced (with_pc s t op (PDropDecided (c_clones s =? 1)))
    | CDrop, PDropDecided last =>
        if last then
          (* read_noblock = try_read().unwrap(): panics if the write lock is held *)
          if c_writer s then
            Advanced {| c_val := c_val s; c_ver := c_ver s; c_wakers := c_wakers s; c_readers := c_readers s;
                        c_writer := c_writer s; c_meta := c_meta s;
                        c_strong := c_strong s - 1;
                        c_clones := if fixed_drop then c_clones s else c_clones s - 1;
                        c_subs := c_subs s;
                        c_threads := set_nth t {| t_op := op; t_pc := PDone None None (Some false); t_waiting := false |} (c_threads s);
                        c_woken := c_woken s; c_panicked := c_panicked s ++ [t] |}
          else if c_meta s then Blocked
          else Advanced (with_pc (mk s (c_val s) (c_ver s) (c_wakers s) (S (c_readers s)) false true
                                     (c_strong s) (c_clones s) (c_subs s) (c_woken s)) t op PCloseMetaLocked)
        else
          (* not the last: just release the two references (state, then _num_clones) *)
          Advanced (with_pc (mk s (c_val s) (c_ver s) (c_wakers s) (c_readers s) (c_writer s) (c_meta s)
                                (c_strong s - 1) (if fixed_drop then c_clones s else c_clones s - 1)
                                (c_subs s) (c_woken s))
                            t op (PDone None None (Some false)))
    | CDrop, PCloseMetaLocked =>
        (* version := 0, wake(take(wakers)); release metadata + read lock; release the references *)
        Advanced (with_pc (mk s (c_val s) 0 [] (c_readers s - 1) (c_writer s) false
                              (c_strong s - 1) (if fixed_drop then c_clones s else c_clones s - 1)
                              (c_subs s) (c_woken s ++ c_wakers s))
                          t op (PDone None None (Some true)))
    (* ---- WeakObservable::upgrade ---- *)
    | CUpgrade, PStart =>
        if c_strong s =? 0 then Advanced (with_pc s t op (PDone None None (Some false)))
        else Advanced (with_pc (mk s (c_val s) (c_ver s) (c_wakers s) (c_readers s) (c_writer s) (c_meta s)
                                   (S (c_strong s)) (c_clones s) (c_subs s) (c_woken s)) t op PUpgradeBetween)
    | CUpgrade, PUpgradeBetween =>
        if c_clones s =? 0 then
          Advanced (with_pc (mk s (c_val s) (c_ver s) (c_wakers s) (c_readers s) (c_writer s) (c_meta s)
                                (c_strong s - 1) (c_clones s) (c_subs s) (c_woken s))
                            t op (PDone None None (Some false)))
        else
          Advanced (with_pc (mk s (c_val s) (c_ver s) (c_wakers s) (c_readers s) (c_writer s) (c_meta s)
                                (c_strong s) (S (c_clones s)) (c_subs s) (c_woken s))
                            t op (PDone None None (Some true)))
    | _, _ => Finished      (* pc does not belong to the operation: unreachable *)
    end
  end.

(* ---- schedules ---- *)
Definition is_done (th : thread) : bool := match t_pc th with PDone _ _ _ => true | _ => false end.

Definition mark_waiting (s : cstate) (t : nat) (w : bool) : cstate :=
  match nth_error (c_threads s) t with
  | Some th => upd_thread s t {| t_op := t_op th; t_pc := t_pc th; t_waiting := w |}
  | None => s
  end.

(* after a step, threads blocked on a lock that has become available go on by themselves (to their
   next pause point); [ids] in ascending order, [fuel] bounds the cascade *)
Fixpoint wake_blocked (fixed_drop : bool) (fuel : nat) (s : cstate) (ids : list nat) (acc : list nat)
  : cstate * list nat :=
  match fuel with
  | 0 => (s, acc)
  | S f =>
      match ids with
      | [] => (s, acc)
      | t :: rest =>
          match nth_error (c_threads s) t with
          | Some th =>
              if t_waiting th then
                match cstep fixed_drop s t with
                | Advanced s' => wake_blocked fixed_drop f (mark_waiting s' t false) rest (acc ++ [t])
                | _ => wake_blocked fixed_drop f s rest acc
                end
              else wake_blocked fixed_drop f s rest acc
          | None => wake_blocked fixed_drop f s rest acc
          end
      end
  end.

(* release thread t for one micro-step.  Returns the new state, whether t advanced / blocked /
   was finished, and the list of previously blocked threads that went on as a consequence. *)
Definition release (fixed_drop : bool) (s : cstate) (t : nat) : cstate * nat * list nat :=
  match cstep fixed_drop s t with
  | Advanced s' =>
      let '(s'', unb) := wake_blocked fixed_drop (length (c_threads s)) s' (seq 0 (length (c_threads s))) [] in
      (s'', 0, unb)
  | Blocked => (mark_waiting s t true, 1, [])
  | Finished => (s, 2, [])
  end.

End Conc.
Arguments cstate : clear implicits.
Arguments thread : clear implicits.
Arguments cop : clear implicits.
Arguments pc : clear implicits.

Section ConcRun.
Context {V : Type}.

(* the state before any thread runs: [clones] owners, subscribers with the given observed versions,
   the subscribers in [pending] registered as wakers, value v, version ver *)
Definition cinit (v : V) (ver : nat) (clones : nat) (subs : list nat) (pending : list nat)
           (ops : list (cop V)) : cstate V :=
  {| c_val := v; c_ver := ver; c_wakers := pending; c_readers := 0; c_writer := false; c_meta := false;
     c_strong := clones + length subs; c_clones := clones; c_subs := subs;
     c_threads := map (fun op => {| t_op := op; t_pc := PStart; t_waiting := false |}) ops;
     c_woken := []; c_panicked := [] |}.

(* a schedule: which thread the director releases next *)
Fixpoint run_sched (fixed_drop : bool) (s : cstate V) (sched : list nat) : cstate V :=
  match sched with
  | [] => s
  | t :: rest => run_sched fixed_drop (fst (fst (release fixed_drop s t))) rest
  end.

(* which locks / references a thread holds at a program counter *)
Definition holds_read (p : pc V) : bool :=
  match p with PPollValueLocked | PPollMetaLocked | PPollDecided _ | PCloseMetaLocked => true | _ => false end.
Definition holds_write (p : pc V) : bool := match p with PSetLocked => true | _ => false end.
Definition holds_meta (p : pc V) : bool :=
  match p with PPollMetaLocked | PPollDecided _ | PCloseMetaLocked => true | _ => false end.

Definition count_pcs (f : pc V -> bool) (s : cstate V) : nat :=
  length (filter (fun th => f (t_pc th)) (c_threads s)).

(* no thread is in the middle of a drop or an upgrade *)
Definition handles_quiescent (s : cstate V) : bool :=
  forallb (fun th => match t_op th, t_pc th with
                     | CDrop, PStart | CDrop, PDone _ _ _ | CUpgrade, PStart | CUpgrade, PDone _ _ _ => true
                     | CDrop, _ | CUpgrade, _ => false
                     | _, _ => true
                     end) (c_threads s).

(* every subscriber is polled by at most one thread *)
Definition polls_distinct (ops : list (cop V)) : Prop :=
  NoDup (flat_map (fun op => match op with CPoll k => [k] | _ => [] end) ops).

End ConcRun.
