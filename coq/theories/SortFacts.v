(* SortFacts.v — correctness of the Sort / SortBy / SortByKey adapter model (C11). *)
From Coq Require Import Permutation Sorted.
From EB Require Import Sort AdapterCore ListTac DiffFacts.

Section SortFacts.
Context {A : Type}.
Variable cmp : A -> A -> comparison.
(* the comparison is a total preorder (what Rust's Ord / a sane sort_by closure provides) *)
Hypothesis cmp_antisym : forall a b, cmp a b = CompOpp (cmp b a).
Hypothesis cmp_trans : forall a b c, cmp a b <> Gt -> cmp b c <> Gt -> cmp a c <> Gt.

Definition le (a b : A) : Prop := cmp a b <> Gt.

(* contract of imbl::Vector::sort_by *)
Definition valid_sort (input ans : list (entry (A:=A))) : Prop :=
  Permutation ans input /\ StronglySorted le (map snd ans).

(* buf is the adapter's buffer for source contents l *)
Definition sort_inv (l : list A) (buf : list (entry (A:=A))) : Prop :=
  Permutation (map fst buf) (seq 0 (length l)) /\
  (forall i x, In (i, x) buf -> nth_error l i = Some x) /\
  StronglySorted le (map snd buf).

(* Auxiliary development.  The nested section only scopes the [Implicit Types] and the local
   notation; the three specification statements are restated verbatim after [End Aux]. *)
Section Aux.

(* ------------------------------------------------------------------ *)
(* 1. order facts *)

Local Notation sorted := (StronglySorted le).
Implicit Types (buf bf : list (nat * A)) (l vs : list A).

Lemma cmp_refl a : cmp a a = Eq.
Proof. pose proof (cmp_antisym a a) as H. destruct (cmp a a); cbn in H; congruence. Qed.

Lemma le_refl a : le a a.
Proof. unfold le. rewrite cmp_refl. discriminate. Qed.

Lemma le_trans a b c : le a b -> le b c -> le a c.
Proof. apply cmp_trans. Qed.

Lemma not_lt_le a b : cmp a b <> Lt -> le b a.
Proof. unfold le. rewrite (cmp_antisym b a). destruct (cmp a b); cbn; congruence. Qed.

Lemma le_not_lt a b : le a b -> cmp b a <> Lt.
Proof. unfold le. rewrite (cmp_antisym b a). destruct (cmp a b); cbn; congruence. Qed.

Lemma gt_le a b : cmp a b = Gt -> le b a.
Proof. intro H. apply not_lt_le. congruence. Qed.

Lemma le_total a b : le a b \/ le b a.
Proof. destruct (cmp a b) eqn:E; [left|left|right]; try (unfold le; congruence). apply gt_le; assumption. Qed.

(* ------------------------------------------------------------------ *)
(* 2. sortedness toolbox *)

Lemma sorted_cons_iff a vs : sorted (a :: vs) <-> sorted vs /\ Forall (le a) vs.
Proof. split; [apply StronglySorted_inv|]. intros [H1 H2]. constructor; assumption. Qed.

Lemma sorted_app_iff l1 l2 :
  sorted (l1 ++ l2) <-> sorted l1 /\ sorted l2 /\ (forall a c, In a l1 -> In c l2 -> le a c).
Proof.
  induction l1 as [|x l1 IH]; cbn [app].
  - split.
    + intros H. repeat split; auto. constructor. intros a c [].
    + intros (_ & H & _). exact H.
  - rewrite !sorted_cons_iff, IH. split.
    + intros [(H1 & H2 & H3) H4]. apply Forall_app in H4 as [H4 H5]. repeat split; auto.
      intros a c [<-|Ha] Hc; [|auto]. rewrite Forall_forall in H5; auto.
    + intros ([H1 H4] & H2 & H3). split; [repeat split; auto|].
      * intros; apply H3; [right|]; auto.
      * apply Forall_app; split; auto. apply Forall_forall. intros c Hc. apply H3; [left; reflexivity|auto].
Qed.

Lemma sorted_nth vs : sorted vs ->
  forall i j a c, i < j -> nth_error vs i = Some a -> nth_error vs j = Some c -> le a c.
Proof.
  induction 1 as [|x vs Hs IH HF]; intros i j a c Hij Ha Hc.
  - rewrite nth_error_nil in Ha. discriminate.
  - destruct j as [|j]; [lia|]. cbn [nth_error] in Hc. destruct i as [|i]; cbn [nth_error] in Ha.
    + injection Ha as <-. rewrite Forall_forall in HF. apply HF. eapply nth_error_In; eauto.
    + eapply IH; [|eauto|eauto]. lia.
Qed.

Lemma sorted_nth_le vs : sorted vs ->
  forall i j a c, i <= j -> nth_error vs i = Some a -> nth_error vs j = Some c -> le a c.
Proof.
  intros Hs i j a c Hij Ha Hc. destruct (Nat.eq_dec i j) as [->|Hne].
  - rewrite Ha in Hc. injection Hc as <-. apply le_refl.
  - eapply (sorted_nth vs Hs i j); eauto. lia.
Qed.

Lemma sorted_insert vs q x :
  sorted vs ->
  (forall k v, k < q -> nth_error vs k = Some v -> le v x) ->
  (forall k v, q <= k -> nth_error vs k = Some v -> le x v) ->
  sorted (firstn q vs ++ x :: skipn q vs).
Proof.
  intros Hs H1 H2. rewrite <- (firstn_skipn q vs) in Hs.
  apply sorted_app_iff in Hs as (Ha & Hb & Hc).
  apply sorted_app_iff. split; [exact Ha|]. split.
  - apply sorted_cons_iff. split; [exact Hb|]. apply Forall_forall. intros v Hv.
    apply In_nth_error in Hv as [k Hk]. rewrite nth_error_skipn in Hk. eapply H2; [|exact Hk]. lia.
  - intros a c Ha' [<-|Hc']; [|auto].
    apply In_nth_error in Ha' as [k Hk]. rewrite nth_error_firstn in Hk.
    destruct (Nat.ltb_spec k q); [|discriminate]. eapply H1; eauto.
Qed.

Lemma sorted_remove_mid l1 a l2 : sorted (l1 ++ a :: l2) -> sorted (l1 ++ l2).
Proof.
  intro H. apply sorted_app_iff in H as (H1 & H2 & H3). apply sorted_cons_iff in H2 as [H2 _].
  apply sorted_app_iff. repeat split; auto. intros; apply H3; [|right]; auto.
Qed.

(* ------------------------------------------------------------------ *)
(* 3. list toolbox *)

Lemma nth_error_split_at {T} (b : list T) p e :
  nth_error b p = Some e -> b = firstn p b ++ e :: skipn (S p) b.
Proof.
  intro H. pose proof (nth_error_some_lt _ _ _ H) as Hlt.
  apply nth_error_ext; intro k. nth_norm. split_ifs; nth_arith.
  replace k with p by lia. assumption.
Qed.

Lemma perm_insert {T} q (e : T) b : Permutation (firstn q b ++ e :: skipn q b) (e :: b).
Proof.
  symmetry. apply Permutation_cons_app. rewrite firstn_skipn. apply Permutation_refl.
Qed.

Lemma perm_remove {T} p (e : T) b :
  nth_error b p = Some e -> Permutation b (e :: firstn p b ++ skipn (S p) b).
Proof.
  intro H. rewrite (nth_error_split_at b p e H) at 1. symmetry. apply Permutation_middle.
Qed.

Lemma NoDup_app_disjoint {T} (l1 l2 : list T) a : NoDup (l1 ++ l2) -> In a l1 -> In a l2 -> False.
Proof.
  intros H H1 H2. apply in_split in H1 as (x1 & x2 & ->). rewrite <- app_assoc in H. cbn [app] in H.
  apply NoDup_remove_2 in H. apply H. rewrite !in_app_iff. auto.
Qed.

Lemma NoDup_app_l {T} (l1 l2 : list T) : NoDup (l1 ++ l2) -> NoDup l1.
Proof.
  induction l1 as [|a l1 IH]; cbn [app]; intro H; [constructor|].
  apply NoDup_cons_iff in H as [H1 H2]. constructor; [|auto]. rewrite in_app_iff in H1. tauto.
Qed.

Lemma NoDup_map_on {T U} (f : T -> U) (l : list T) :
  NoDup l -> (forall a c, In a l -> In c l -> f a = f c -> a = c) -> NoDup (map f l).
Proof.
  induction 1 as [|a l Hn Hd IH]; intro Hinj; cbn [map]; constructor.
  - rewrite in_map_iff. intros (c & Hc & Hin). apply Hn.
    rewrite (Hinj a c); [assumption|left; reflexivity|right; assumption|congruence].
  - apply IH. intros; apply Hinj; auto; right; assumption.
Qed.

(* ------------------------------------------------------------------ *)
(* 4. binary search *)

Section BS.
Variable probe : nat -> comparison.
Variable n : nat.
Hypothesis mono1 : forall i j, i <= j -> j < n -> probe j <> Gt -> probe i <> Gt.
Hypothesis mono2 : forall i j, i <= j -> j < n -> probe i <> Lt -> probe j <> Lt.

Lemma bs_loop_spec fuel : forall size base,
  size <= fuel -> 1 <= size -> base + size <= n ->
  (forall k, k < base -> probe k <> Gt) ->
  (forall k, base + size <= k -> k < n -> probe k <> Lt) ->
  let r := bs_loop fuel size base probe in
  r < n /\ (forall k, k < r -> probe k <> Gt) /\ (forall k, r + 1 <= k -> k < n -> probe k <> Lt).
Proof.
  induction fuel as [|fuel IH]; intros size base Hf Hs Hb I1 I2; [lia|].
  cbn [bs_loop]. destruct (Nat.leb_spec size 1) as [Hle|Hgt].
  - cbv zeta. repeat split; [lia|exact I1|]. intros k Hk. apply I2. lia.
  - pose proof (Nat.div_mod size 2 ltac:(lia)) as Hdm.
    pose proof (Nat.mod_upper_bound size 2 ltac:(lia)) as Hmu.
    set (half := size / 2) in *.
    assert (Hmid : base + half < n) by lia.
    destruct (probe (base + half)) eqn:E.
    + apply IH; try lia.
      * intros k Hk. apply (mono1 k (base + half)); [lia|lia|congruence].
      * intros k Hk. apply I2. lia.
    + apply IH; try lia.
      * intros k Hk. apply (mono1 k (base + half)); [lia|lia|congruence].
      * intros k Hk. apply I2. lia.
    + apply IH; try lia.
      * exact I1.
      * intros k Hk Hkn. apply (mono2 (base + half) k); [lia|lia|congruence].
Qed.
End BS.

Definition pat (x : A) buf (i : nat) : comparison :=
  match nth_error buf i with Some e => cmp (snd e) x | None => Eq end.

Lemma binary_search_unfold x buf : buf <> [] ->
  search cmp x buf =
  let base := bs_loop (length buf) (length buf) 0 (pat x buf) in
  match pat x buf base with Lt => base + 1 | _ => base end.
Proof.
  intro H. destruct buf as [|e0 buf0]; [congruence|]. reflexivity.
Qed.

Lemma pat_val x buf k v : nth_error (map snd buf) k = Some v -> pat x buf k = cmp v x.
Proof.
  unfold pat. rewrite nth_error_map. unfold entry in *. destruct (nth_error buf k); cbn [option_map]; [|discriminate].
  intro H. injection H as <-. reflexivity.
Qed.

Lemma pat_some (x : A) buf k : k < length buf -> exists v, nth_error (map snd buf) k = Some v.
Proof.
  intro H. destruct (nth_error (map snd buf) k) eqn:E; [eauto|]. apply nth_error_None in E.
  rewrite map_length in E. unfold entry in *. lia.
Qed.

Lemma search_spec x buf : sorted (map snd buf) ->
  search cmp x buf <= length buf /\
  (forall k v, k < search cmp x buf -> nth_error (map snd buf) k = Some v -> le v x) /\
  (forall k v, search cmp x buf <= k -> nth_error (map snd buf) k = Some v -> le x v).
Proof.
  intro Hs. destruct buf as [|e0 buf0] eqn:Eb.
  { cbn. repeat split; [lia|intros; lia|]. intros k v _ H. rewrite nth_error_nil in H. discriminate. }
  rewrite <- Eb in *. assert (Hne : buf <> []) by (rewrite Eb; discriminate).
  assert (Hlen : 1 <= length buf) by (rewrite Eb; cbn; lia). clear Eb e0 buf0.
  rewrite (binary_search_unfold x buf Hne). cbv zeta.
  assert (M1 : forall i j, i <= j -> j < length buf -> pat x buf j <> Gt -> pat x buf i <> Gt).
  { intros i j Hij Hj. destruct (pat_some x buf i ltac:(lia)) as [vi Hi].
    destruct (pat_some x buf j Hj) as [vj Hvj].
    rewrite (pat_val _ _ _ _ Hi), (pat_val _ _ _ _ Hvj). intro H.
    apply (cmp_trans vi vj x); [|exact H]. apply (sorted_nth_le _ Hs i j); assumption. }
  assert (M2 : forall i j, i <= j -> j < length buf -> pat x buf i <> Lt -> pat x buf j <> Lt).
  { intros i j Hij Hj. destruct (pat_some x buf i ltac:(lia)) as [vi Hi].
    destruct (pat_some x buf j Hj) as [vj Hvj].
    rewrite (pat_val _ _ _ _ Hi), (pat_val _ _ _ _ Hvj). intro H.
    apply le_not_lt. apply (le_trans x vi vj); [apply not_lt_le; exact H|].
    apply (sorted_nth_le _ Hs i j); assumption. }
  pose proof (bs_loop_spec (pat x buf) (length buf) M1 M2 (length buf) (length buf) 0
                ltac:(lia) Hlen ltac:(lia) ltac:(intros; lia) ltac:(intros; lia)) as (Hr & I1 & I2).
  cbv zeta in Hr, I1, I2.
  set (r := bs_loop (length buf) (length buf) 0 (pat x buf)) in *.
  assert (Hk : forall k v, nth_error (map snd buf) k = Some v -> k < length buf).
  { intros k v H. apply nth_error_some_lt in H. rewrite map_length in H. exact H. }
  destruct (pat x buf r) eqn:E.
  - split; [lia|]. split.
    + intros k v Hkr Hv. unfold le. rewrite <- (pat_val x buf k v Hv). apply I1; lia.
    + intros k v Hkr Hv. apply not_lt_le. rewrite <- (pat_val x buf k v Hv).
      destruct (Nat.eq_dec k r) as [->|]; [congruence|]. apply I2; [lia|eauto].
  - split; [lia|]. split.
    + intros k v Hkr Hv. unfold le. rewrite <- (pat_val x buf k v Hv).
      destruct (Nat.eq_dec k r) as [->|]; [congruence|]. apply I1; lia.
    + intros k v Hkr Hv. apply not_lt_le. rewrite <- (pat_val x buf k v Hv). apply I2; [lia|eauto].
  - split; [lia|]. split.
    + intros k v Hkr Hv. unfold le. rewrite <- (pat_val x buf k v Hv). apply I1; lia.
    + intros k v Hkr Hv. apply not_lt_le. rewrite <- (pat_val x buf k v Hv).
      destruct (Nat.eq_dec k r) as [->|]; [congruence|]. apply I2; [lia|eauto].
Qed.

(* ------------------------------------------------------------------ *)
(* 5. place / unplace / position *)

Lemma place_spec u x bf : sorted (map snd bf) ->
  exists outs,
    place cmp u x bf = (firstn (search cmp x bf) bf ++ (u, x) :: skipn (search cmp x bf) bf, outs) /\
    apply_all_ok outs (map snd bf) =
      Some (map snd (firstn (search cmp x bf) bf ++ (u, x) :: skipn (search cmp x bf) bf)).
Proof.
  intro Hs. destruct (search_spec x bf Hs) as (Hp & _ & _).
  unfold place. cbv zeta. unfold entry in *. set (p := search cmp x bf) in *.
  destruct (Nat.eqb_spec p 0) as [E0|N0].
  - rewrite E0. exists [PushFront x]. split; reflexivity.
  - destruct (Nat.eqb_spec p (length bf)) as [El|Nl]; cbn [negb].
    + exists [PushBack x]. rewrite El, firstn_all, skipn_all. split; [reflexivity|].
      cbn. unfold push_back. rewrite map_app. reflexivity.
    + exists [Insert p x]. split; [reflexivity|].
      erewrite aao_cons; [| cbn [ok_in]; apply Nat.leb_le; rewrite map_length; exact Hp
                          | cbn [apply]; apply insert_at_some; rewrite map_length; exact Hp ].
      cbn [apply_all_ok]. rewrite map_app, firstn_map. cbn [map]. rewrite skipn_map. reflexivity.
Qed.

Lemma aao_one {T} (d : diff T) v v' :
  ok_in d v = true -> apply d v = Some v' -> apply_all_ok [d] v = Some v'.
Proof. intros H1 H2. cbn [apply_all_ok]. rewrite H1, H2. reflexivity. Qed.

Lemma unplace_spec p bf :
  p < length bf ->
  exists outs,
    unplace p (length bf - 1) bf = (firstn p bf ++ skipn (S p) bf, outs) /\
    apply_all_ok outs (map snd bf) = Some (map snd (firstn p bf ++ skipn (S p) bf)).
Proof.
  intro Hp. unfold unplace. unfold entry in *.
  rewrite map_app, <- firstn_map, <- skipn_map.
  assert (Hlen : length (map snd bf) = length bf) by apply map_length.
  revert Hlen. generalize (map snd bf). intros vs Hlen.
  destruct (Nat.eqb_spec p 0) as [E0|N0].
  - exists [PopFront]. rewrite E0. split; [reflexivity|].
    apply aao_one; [apply Nat.ltb_lt; lia|]. reflexivity.
  - destruct (Nat.eqb_spec p (length bf - 1)) as [El|Nl].
    + exists [PopBack]. split.
      * f_equal. list_ext.
      * apply aao_one; [apply Nat.ltb_lt; lia|]. cbn [apply]. unfold pop_back. f_equal.
        list_ext.
    + exists [Remove p]. split; [reflexivity|].
      apply aao_one; [apply Nat.ltb_lt; lia|]. cbn [apply]. apply remove_at_some. lia.
Qed.

Lemma position_some u bf p : position u bf = Some p -> exists y, nth_error bf p = Some (u, y).
Proof.
  revert p; induction bf as [|[i y] bf IH]; intros p H; cbn [position] in H; [discriminate|].
  destruct (Nat.eqb_spec i u) as [->|Hne].
  - injection H as <-. exists y. reflexivity.
  - destruct (position u bf) as [q|]; cbn [option_map] in H; [|discriminate].
    injection H as <-. cbn [nth_error]. apply IH. reflexivity.
Qed.

Lemma position_in u bf : In u (map fst bf) -> exists p, position u bf = Some p.
Proof.
  induction bf as [|[i y] bf IH]; cbn [map In fst position]; [intros []|].
  intros [->|H].
  - rewrite Nat.eqb_refl. eauto.
  - destruct (i =? u); [eauto|]. destruct (IH H) as [q ->]. cbn. eauto.
Qed.

(* ------------------------------------------------------------------ *)
(* 6. enumerate_from *)

Lemma enumerate_cons off v vs :
  enumerate_from off (v :: vs) = (off, v) :: enumerate_from (S off) vs.
Proof. reflexivity. Qed.

Lemma enumerate_fst off vs : map fst (enumerate_from off vs) = seq off (length vs).
Proof.
  revert off; induction vs as [|v vs IH]; intro off; [reflexivity|].
  rewrite enumerate_cons. cbn [map fst length seq]. rewrite IH. reflexivity.
Qed.

Lemma enumerate_snd off vs : map snd (enumerate_from off vs) = vs.
Proof.
  revert off; induction vs as [|v vs IH]; intro off; [reflexivity|].
  rewrite enumerate_cons. cbn [map snd]. rewrite IH. reflexivity.
Qed.

Lemma enumerate_in off vs i x :
  In (i, x) (enumerate_from off vs) <-> off <= i /\ nth_error vs (i - off) = Some x.
Proof.
  revert off; induction vs as [|v vs IH]; intro off.
  - cbn. rewrite nth_error_nil. split; [intros []|intros [_ H]; discriminate].
  - rewrite enumerate_cons. cbn [In]. rewrite IH. split.
    + intros [H|[H1 H2]].
      * injection H as <- <-. rewrite Nat.sub_diag. split; [lia|reflexivity].
      * split; [lia|]. replace (i - off) with (S (i - S off)) by lia. exact H2.
    + intros [H1 H2]. destruct (Nat.eq_dec i off) as [->|Hne].
      * rewrite Nat.sub_diag in H2. cbn in H2. injection H2 as <-. left; reflexivity.
      * right. split; [lia|]. replace (i - off) with (S (i - S off)) in H2 by lia. exact H2.
Qed.

(* ------------------------------------------------------------------ *)
(* 7. the invariant, in NoDup form *)

Definition inv2 l buf : Prop :=
  NoDup (map fst buf) /\ length buf = length l /\
  (forall i x, In (i, x) buf -> nth_error l i = Some x) /\
  sorted (map snd buf).

Lemma inv2_iff l buf : sort_inv l buf <-> inv2 l buf.
Proof.
  unfold sort_inv, inv2. split.
  - intros (Hp & Hl & Hs). repeat split; auto.
    + eapply Permutation_NoDup; [symmetry; exact Hp|apply seq_NoDup].
    + apply Permutation_length in Hp. rewrite map_length, seq_length in Hp. exact Hp.
  - intros (Hn & Hlen & Hl & Hs). repeat split; auto.
    apply NoDup_Permutation_bis; [exact Hn| |].
    + rewrite map_length, seq_length. unfold entry in *. lia.
    + intros i Hi. apply in_map_iff in Hi as ([j y] & <- & Hin). cbn [fst].
      apply in_seq. apply Hl in Hin. apply nth_error_some_lt in Hin. lia.
Qed.

Lemma sort_inv_idx_lt l buf i x : sort_inv l buf -> In (i, x) buf -> i < length l.
Proof. intros (_ & Hl & _) H. apply Hl in H. eapply nth_error_some_lt; eauto. Qed.

Lemma sort_inv_has_idx l buf i : sort_inv l buf -> i < length l -> In i (map fst buf).
Proof.
  intros (Hp & _) H. eapply Permutation_in; [symmetry; exact Hp|]. apply in_seq. lia.
Qed.

Lemma sort_inv_sorted_perm_aux l buf :
  sort_inv l buf -> StronglySorted le (map snd buf) /\ Permutation (map snd buf) l.
Proof.
  intro H. pose proof H as (_ & _ & Hs). split; [exact Hs|].
  apply inv2_iff in H as (Hn & Hlen & Hl & _).
  assert (HP : Permutation buf (enumerate_from 0 l));
    [|apply (Permutation_map snd) in HP; rewrite enumerate_snd in HP; exact HP].
  apply NoDup_Permutation_bis.
  - eapply NoDup_map_inv; exact Hn.
  - unfold enumerate_from. rewrite combine_length, seq_length. unfold entry in *. lia.
  - intros [i x] Hin. apply enumerate_in. split; [lia|]. rewrite Nat.sub_0_r. apply Hl; exact Hin.
Qed.

Lemma valid_sort_inv vs ans : valid_sort (enumerate_from 0 vs) ans -> sort_inv vs ans.
Proof.
  intros [Hp Hs]. repeat split; [| |exact Hs].
  - rewrite <- (enumerate_fst 0 vs). apply Permutation_map. exact Hp.
  - intros i x Hin. eapply Permutation_in in Hin; [|exact Hp].
    apply enumerate_in in Hin as [_ Hin]. rewrite Nat.sub_0_r in Hin. exact Hin.
Qed.

Lemma sort_init_ok_aux vs ans :
  valid_sort (enumerate_from 0 vs) ans ->
  fst (sort_init ans) = map snd ans /\ sort_inv vs (snd (sort_init ans)).
Proof. intro H. split; [reflexivity|]. apply valid_sort_inv; exact H. Qed.

(* ------------------------------------------------------------------ *)
(* 8. inserting arms: PushFront / PushBack / Insert *)

Lemma inv2_insert l' bf u x q :
  NoDup (map fst bf) -> ~ In u (map fst bf) -> S (length bf) = length l' ->
  (forall j y, In (j, y) bf -> nth_error l' j = Some y) ->
  nth_error l' u = Some x ->
  sorted (map snd bf) ->
  (forall k v, k < q -> nth_error (map snd bf) k = Some v -> le v x) ->
  (forall k v, q <= k -> nth_error (map snd bf) k = Some v -> le x v) ->
  inv2 l' (firstn q bf ++ (u, x) :: skipn q bf).
Proof.
  intros Hn Hu Hlen Hl Hux Hs H1 H2.
  pose proof (perm_insert q (u, x) bf) as HP.
  repeat split.
  - eapply Permutation_NoDup; [apply Permutation_map; symmetry; exact HP|].
    cbn [map fst]. constructor; assumption.
  - rewrite (Permutation_length HP). cbn [length]. exact Hlen.
  - intros j y Hin. eapply Permutation_in in Hin; [|exact HP]. destruct Hin as [E|Hin].
    + injection E as <- <-. exact Hux.
    + apply Hl; exact Hin.
  - rewrite map_app. cbn [map snd]. rewrite <- firstn_map, <- skipn_map.
    apply sorted_insert; assumption.
Qed.

Lemma map_pair_id bf : map (fun e => (fst e, snd e)) bf = bf.
Proof. induction bf as [|[i y] bf IH]; cbn [map fst snd]; [reflexivity|]. rewrite IH. reflexivity. Qed.

Lemma map_snd_reindex (g : nat -> nat) bf : map snd (map (fun e => (g (fst e), snd e)) bf) = map snd bf.
Proof. rewrite map_map. reflexivity. Qed.

Lemma map_fst_reindex (g : nat -> nat) bf : map fst (map (fun e => (g (fst e), snd e)) bf) = map g (map fst bf).
Proof. rewrite !map_map. reflexivity. Qed.

Lemma sort_insert_arm l buf g u x l' :
  sort_inv l buf -> length l' = S (length l) ->
  (forall j, j < length l -> g j <> u /\ nth_error l' (g j) = nth_error l j) ->
  (forall j k, j < length l -> k < length l -> g j = g k -> j = k) ->
  nth_error l' u = Some x ->
  exists buf' outs,
    place cmp u x (map (fun e => (g (fst e), snd e)) buf) = (buf', outs) /\
    apply_all_ok outs (map snd buf) = Some (map snd buf') /\ sort_inv l' buf'.
Proof.
  intros Hinv Hlen Hg Hinj Hux. pose proof Hinv as Hinv0.
  apply inv2_iff in Hinv as (Hn & Hlb & Hl & Hs).
  set (buf1 := map (fun e => (g (fst e), snd e)) buf).
  assert (Hs1 : sorted (map snd buf1)) by (unfold buf1; rewrite map_snd_reindex; exact Hs).
  destruct (place_spec u x buf1 Hs1) as (outs & Hpl & Hout).
  destruct (search_spec x buf1 Hs1) as (Hq & Hq1 & Hq2).
  eexists _, outs. split; [exact Hpl|]. split.
  { rewrite <- (map_snd_reindex g buf). exact Hout. }
  apply inv2_iff. apply inv2_insert; auto.
  - unfold buf1. rewrite map_fst_reindex. apply NoDup_map_on; [exact Hn|].
    intros a c Ha Hc. apply in_map_iff in Ha as ([a' ya] & <- & Ha). apply in_map_iff in Hc as ([c' yc] & <- & Hc).
    cbn [fst]. apply Hinj; eapply sort_inv_idx_lt; eauto.
  - unfold buf1. rewrite map_fst_reindex. intro Hin. apply in_map_iff in Hin as (j & Hj & Hin).
    apply in_map_iff in Hin as ([j' y] & <- & Hin). cbn [fst] in Hj.
    apply (sort_inv_idx_lt _ _ _ _ Hinv0) in Hin. destruct (Hg j' Hin) as [Hne _]. contradiction.
  - unfold buf1. rewrite map_length. lia.
  - intros j y Hin. unfold buf1 in Hin. apply in_map_iff in Hin as ([j' y'] & E & Hin).
    cbn [fst snd] in E. injection E as <- <-.
    pose proof (sort_inv_idx_lt _ _ _ _ Hinv0 Hin) as Hlt. destruct (Hg j' Hlt) as [_ ->]. apply Hl; exact Hin.
Qed.

Lemma sort_arm_push_front l buf x ans :
  sort_inv l buf ->
  exists buf' outs l',
    sort_on_diff cmp buf (PushFront x) ans = Ok (buf', outs) /\ apply (PushFront x) l = Some l' /\
    apply_all_ok outs (map snd buf) = Some (map snd buf') /\ sort_inv l' buf'.
Proof.
  intro Hinv.
  destruct (sort_insert_arm l buf S 0 x (x :: l) Hinv) as (buf' & outs & H1 & H2 & H3).
  - reflexivity.
  - intros j Hj. split; [lia|reflexivity].
  - intros; lia.
  - reflexivity.
  - exists buf', outs, (x :: l). cbn [sort_on_diff apply]. rewrite H1. auto.
Qed.

Lemma sort_arm_push_back l buf x ans :
  sort_inv l buf ->
  exists buf' outs l',
    sort_on_diff cmp buf (PushBack x) ans = Ok (buf', outs) /\ apply (PushBack x) l = Some l' /\
    apply_all_ok outs (map snd buf) = Some (map snd buf') /\ sort_inv l' buf'.
Proof.
  intro Hinv. pose proof Hinv as Hi2. apply inv2_iff in Hi2 as (_ & Hlb & _).
  destruct (sort_insert_arm l buf (fun j => j) (length buf) x (l ++ [x]) Hinv) as (buf' & outs & H1 & H2 & H3).
  - len_norm. lia.
  - intros j Hj. split; [lia|]. nth_norm. split_ifs; nth_arith.
  - intros; lia.
  - rewrite Hlb. nth_norm. split_ifs; nth_arith.
  - cbv beta in H1. rewrite map_pair_id in H1.
    exists buf', outs, (l ++ [x]). cbn [sort_on_diff apply]. unfold entry in *. rewrite H1. auto.
Qed.

Lemma sort_arm_insert l buf i x ans :
  sort_inv l buf -> i <= length l ->
  exists buf' outs l',
    sort_on_diff cmp buf (Insert i x) ans = Ok (buf', outs) /\ apply (Insert i x) l = Some l' /\
    apply_all_ok outs (map snd buf) = Some (map snd buf') /\ sort_inv l' buf'.
Proof.
  intros Hinv Hi.
  destruct (sort_insert_arm l buf (fun j => if i <=? j then S j else j) i x
              (firstn i l ++ x :: skipn i l) Hinv) as (buf' & outs & H1 & H2 & H3).
  - len_norm. lia.
  - intros j Hj. split; [destruct (Nat.leb_spec i j); lia|].
    nth_norm. split_ifs; nth_arith.
  - intros j k _ _. destruct (Nat.leb_spec i j), (Nat.leb_spec i k); lia.
  - nth_norm. split_ifs; nth_arith.
  - exists buf', outs, (firstn i l ++ x :: skipn i l). cbn [sort_on_diff apply]. rewrite H1.
    rewrite insert_at_some by exact Hi. auto.
Qed.

Lemma sort_arm_clear l buf ans :
  exists buf' outs l',
    sort_on_diff cmp buf Clear ans = Ok (buf', outs) /\ apply Clear l = Some l' /\
    apply_all_ok outs (map snd buf) = Some (map snd buf') /\ sort_inv l' buf'.
Proof.
  exists [], [Clear], []. split; [reflexivity|]. split; [reflexivity|]. split; [reflexivity|].
  split; [apply perm_nil|]. split; [intros i x []|constructor].
Qed.

Lemma sort_arm_reset l buf vs ans :
  valid_sort (enumerate_from 0 vs) ans ->
  exists buf' outs l',
    sort_on_diff cmp buf (Reset vs) ans = Ok (buf', outs) /\ apply (Reset vs) l = Some l' /\
    apply_all_ok outs (map snd buf) = Some (map snd buf') /\ sort_inv l' buf'.
Proof.
  intro Hv. exists ans, [Reset (map snd ans)], vs.
  split; [reflexivity|]. split; [reflexivity|]. split; [reflexivity|]. apply valid_sort_inv; exact Hv.
Qed.

(* ------------------------------------------------------------------ *)
(* 9. removing arms: PopFront / PopBack / Remove *)

Lemma sort_remove_arm l buf g i p :
  sort_inv l buf -> i < length l -> position i buf = Some p ->
  (forall j, j < length l -> j <> i -> g j = if i <? j then j - 1 else j) ->
  exists buf' outs,
    unplace p (length buf - 1) (map (fun e => (g (fst e), snd e)) buf) = (buf', outs) /\
    apply_all_ok outs (map snd buf) = Some (map snd buf') /\
    sort_inv (firstn i l ++ skipn (S i) l) buf'.
Proof.
  intros Hinv Hi Hpos Hg. pose proof Hinv as Hinv0.
  apply inv2_iff in Hinv as (Hn & Hlb & Hl & Hs).
  destruct (position_some _ _ _ Hpos) as [y Hy].
  pose proof (nth_error_some_lt _ _ _ Hy) as Hp.
  set (buf1 := map (fun e => (g (fst e), snd e)) buf).
  assert (Hp1 : p < length buf1) by (unfold buf1; rewrite map_length; exact Hp).
  destruct (unplace_spec p buf1 Hp1) as (outs & Hu & Hout).
  unfold buf1 in Hu at 1. rewrite map_length in Hu.
  eexists _, outs. split; [exact Hu|]. split.
  { rewrite <- (map_snd_reindex g buf). exact Hout. }
  unfold buf1. rewrite firstn_map, skipn_map, <- map_app.
  set (b0 := firstn p buf ++ skipn (S p) buf).
  pose proof (perm_remove p (i, y) buf Hy) as HP. fold b0 in HP.
  assert (Hn0 : NoDup (i :: map fst b0)).
  { apply (Permutation_map fst) in HP. cbn [map fst] in HP. eapply Permutation_NoDup; [exact HP|exact Hn]. }
  apply NoDup_cons_iff in Hn0 as [Hni Hn0].
  assert (Hin0 : forall e, In e b0 -> In e buf).
  { intros e He. eapply Permutation_in; [symmetry; exact HP|right; exact He]. }
  assert (Hb0 : forall j z, In (j, z) b0 -> j < length l /\ j <> i).
  { intros j z Hjz. split; [eapply sort_inv_idx_lt; eauto|].
    intros ->. apply Hni. apply in_map_iff. exists (i, z). auto. }
  apply inv2_iff. repeat split.
  - rewrite map_fst_reindex. apply NoDup_map_on; [exact Hn0|].
    intros a c Ha Hc. apply in_map_iff in Ha as ([a' ya] & <- & Ha). apply in_map_iff in Hc as ([c' yc] & <- & Hc).
    cbn [fst]. destruct (Hb0 _ _ Ha) as [Ha1 Ha2]. destruct (Hb0 _ _ Hc) as [Hc1 Hc2].
    rewrite (Hg _ Ha1 Ha2), (Hg _ Hc1 Hc2).
    destruct (Nat.ltb_spec i a'), (Nat.ltb_spec i c'); lia.
  - rewrite map_length. apply Permutation_length in HP. cbn [length] in HP. len_norm. lia.
  - intros j z Hin. apply in_map_iff in Hin as ([j' z'] & E & Hin). cbn [fst snd] in E.
    injection E as <- <-. destruct (Hb0 _ _ Hin) as [H1 H2]. rewrite (Hg _ H1 H2).
    rewrite <- (Hl j' z' (Hin0 _ Hin)).
    destruct (Nat.ltb_spec i j'); nth_norm; split_ifs; nth_arith.
  - rewrite map_snd_reindex. unfold b0. rewrite map_app, <- firstn_map, <- skipn_map.
    apply (sorted_remove_mid _ y).
    rewrite <- nth_error_split_at; [exact Hs|]. rewrite nth_error_map, Hy. reflexivity.
Qed.

Lemma sort_inv_length l buf : sort_inv l buf -> length buf = length l.
Proof. intro H. apply inv2_iff in H as (_ & H & _). exact H. Qed.

Lemma sort_inv_position l buf i :
  sort_inv l buf -> i < length l -> exists p, position i buf = Some p.
Proof. intros H Hi. apply position_in. eapply sort_inv_has_idx; eauto. Qed.

Lemma sort_arm_remove l buf i ans :
  sort_inv l buf -> i < length l ->
  exists buf' outs l',
    sort_on_diff cmp buf (Remove i) ans = Ok (buf', outs) /\ apply (Remove i) l = Some l' /\
    apply_all_ok outs (map snd buf) = Some (map snd buf') /\ sort_inv l' buf'.
Proof.
  intros Hinv Hi. destruct (sort_inv_position l buf i Hinv Hi) as [p Hp].
  pose proof (sort_inv_length _ _ Hinv) as Hlb.
  destruct (sort_remove_arm l buf (fun j => if i <? j then j - 1 else j) i p Hinv Hi Hp)
    as (buf' & outs & H1 & H2 & H3); [reflexivity|].
  exists buf', outs, (firstn i l ++ skipn (S i) l). cbn [sort_on_diff apply].
  unfold csub. unfold entry in *. destruct (Nat.leb_spec 1 (length buf)); [|lia].
  rewrite Hp, H1. rewrite remove_at_some by exact Hi. auto.
Qed.

Lemma sort_arm_pop_back l buf ans :
  sort_inv l buf -> 0 < length l ->
  exists buf' outs l',
    sort_on_diff cmp buf PopBack ans = Ok (buf', outs) /\ apply PopBack l = Some l' /\
    apply_all_ok outs (map snd buf) = Some (map snd buf') /\ sort_inv l' buf'.
Proof.
  intros Hinv Hi. pose proof (sort_inv_length _ _ Hinv) as Hlb.
  destruct (sort_inv_position l buf (length buf - 1) Hinv ltac:(lia)) as [p Hp].
  destruct (sort_remove_arm l buf (fun j => j) (length buf - 1) p Hinv ltac:(lia) Hp)
    as (buf' & outs & H1 & H2 & H3).
  { intros j Hj Hne. destruct (Nat.ltb_spec (length buf - 1) j); lia. }
  cbv beta in H1. rewrite map_pair_id in H1.
  exists buf', outs, (removelast l). cbn [sort_on_diff apply].
  unfold csub. unfold entry in *. destruct (Nat.leb_spec 1 (length buf)); [|lia].
  rewrite Hp, H1. split; [reflexivity|]. split; [reflexivity|]. split; [exact H2|].
  replace (removelast l) with (firstn (length buf - 1) l ++ skipn (S (length buf - 1)) l); [exact H3|].
  rewrite Hlb. list_ext.
Qed.

Fixpoint dec_fix (found : bool) (bf : list (nat * A)) : option (list (nat * A)) :=
  match bf with
  | [] => Some []
  | (u, x) :: l' =>
      if negb found && (u =? 0) then option_map (cons (u, x)) (dec_fix true l')
      else match csub u 1 with
           | Some u' => option_map (cons (u', x)) (dec_fix found l')
           | None => None
           end
  end.

Lemma sort_pop_front_unfold buf ans :
  sort_on_diff cmp buf PopFront ans =
  match csub (length buf) 1 with
  | None => Panic
  | Some last_index =>
      match position 0 buf with
      | None => Panic
      | Some p =>
          match dec_fix false buf with
          | None => Panic
          | Some buf1 => Ok (unplace p last_index buf1)
          end
      end
  end.
Proof. reflexivity. Qed.

Lemma dec_true bf : (forall e, In e bf -> fst e <> 0) ->
  dec_fix true bf = Some (map (fun e => (fst e - 1, snd e)) bf).
Proof.
  induction bf as [|[u x] bf IH]; intro H; cbn [dec_fix map fst snd negb andb]; [reflexivity|].
  assert (Hu : u <> 0) by (apply (H (u, x)); left; reflexivity).
  unfold csub. destruct (Nat.leb_spec 1 u); [|lia].
  rewrite IH by (intros; apply H; right; assumption). reflexivity.
Qed.

Lemma dec_false bf : NoDup (map fst bf) ->
  dec_fix false bf = Some (map (fun e => (fst e - 1, snd e)) bf).
Proof.
  induction bf as [|[u x] bf IH]; intro H; cbn [dec_fix map fst snd negb andb]; [reflexivity|].
  cbn [map fst] in H. apply NoDup_cons_iff in H as [Hu Hn].
  destruct (Nat.eqb_spec u 0) as [->|Hne].
  - rewrite dec_true; [reflexivity|]. intros [j z] Hin Hj. cbn [fst] in Hj. subst j.
    apply Hu. apply in_map_iff. exists (0, z). auto.
  - unfold csub. destruct (Nat.leb_spec 1 u); [|lia]. rewrite IH by exact Hn. reflexivity.
Qed.

Lemma sort_arm_pop_front l buf ans :
  sort_inv l buf -> 0 < length l ->
  exists buf' outs l',
    sort_on_diff cmp buf PopFront ans = Ok (buf', outs) /\ apply PopFront l = Some l' /\
    apply_all_ok outs (map snd buf) = Some (map snd buf') /\ sort_inv l' buf'.
Proof.
  intros Hinv Hi. pose proof (sort_inv_length _ _ Hinv) as Hlb.
  destruct (sort_inv_position l buf 0 Hinv Hi) as [p Hp].
  destruct (sort_remove_arm l buf (fun j => j - 1) 0 p Hinv Hi Hp)
    as (buf' & outs & H1 & H2 & H3).
  { intros j Hj Hne. destruct (Nat.ltb_spec 0 j); lia. }
  exists buf', outs, (tl l). rewrite sort_pop_front_unfold. cbn [apply].
  unfold csub. unfold entry in *. destruct (Nat.leb_spec 1 (length buf)); [|lia].
  rewrite Hp, dec_false; [|apply inv2_iff in Hinv; apply Hinv].
  rewrite H1. split; [reflexivity|]. split; [reflexivity|]. split; [exact H2|]. exact H3.
Qed.

(* ------------------------------------------------------------------ *)
(* 10. Truncate (outside the misaligned class) *)

Lemma filter_all {T} (f : T -> bool) (l : list T) : forallb f l = true -> filter f l = l.
Proof.
  induction l as [|a l IH]; cbn [forallb filter]; [reflexivity|]. intro H.
  apply andb_prop in H as [Ha Hl]. rewrite Ha, IH by exact Hl. reflexivity.
Qed.

Lemma filter_none {T} (f : T -> bool) (l : list T) : (forall e, In e l -> f e = false) -> filter f l = [].
Proof.
  induction l as [|a l IH]; cbn [filter]; [reflexivity|]. intro H.
  rewrite (H a) by (left; reflexivity). apply IH. intros; apply H; right; assumption.
Qed.

Lemma sort_arm_truncate l buf n ans :
  sort_inv l buf -> n < length l -> forallb (fun e => fst e <? n) (firstn n buf) = true ->
  exists buf' outs l',
    sort_on_diff cmp buf (Truncate n) ans = Ok (buf', outs) /\ apply (Truncate n) l = Some l' /\
    apply_all_ok outs (map snd buf) = Some (map snd buf') /\ sort_inv l' buf'.
Proof.
  intros Hinv Hn Hall. pose proof Hinv as Hinv0.
  apply inv2_iff in Hinv as (Hnd & Hlb & Hl & Hs).
  assert (Hnd' : NoDup (map fst (firstn n buf) ++ map fst (skipn n buf))).
  { rewrite <- map_app, firstn_skipn. exact Hnd. }
  assert (Hnd1 : NoDup (map fst (firstn n buf))) by (eapply NoDup_app_l; exact Hnd').
  assert (Hlt : forall e, In e (firstn n buf) -> fst e < n).
  { intros e He. rewrite forallb_forall in Hall. apply Hall in He. apply Nat.ltb_lt in He. exact He. }
  assert (HP : Permutation (map fst (firstn n buf)) (seq 0 n)).
  { apply NoDup_Permutation_bis; [exact Hnd1| |].
    - len_norm. lia.
    - intros a Ha. apply in_map_iff in Ha as (e & <- & He). apply in_seq. apply Hlt in He. lia. }
  assert (Hf : filter (fun e => fst e <? n) buf = firstn n buf).
  { rewrite <- (firstn_skipn n buf) at 1. rewrite filter_app, filter_all by exact Hall.
    rewrite filter_none; [apply app_nil_r|].
    intros e He. apply Nat.ltb_ge. destruct (Nat.le_gt_cases n (fst e)) as [|Hc]; [assumption|exfalso].
    apply (NoDup_app_disjoint _ _ (fst e) Hnd').
    - eapply Permutation_in; [symmetry; exact HP|]. apply in_seq. lia.
    - apply in_map. exact He. }
  exists (firstn n buf), [Truncate n], (firstn n l). cbn [sort_on_diff apply].
  unfold entry in *. rewrite Hf. split; [reflexivity|]. split; [reflexivity|]. split.
  { apply aao_one; [cbn [ok_in]; apply Nat.ltb_lt; rewrite map_length; lia|].
    cbn [apply]. unfold truncate. rewrite firstn_map. reflexivity. }
  apply inv2_iff. repeat split.
  - exact Hnd1.
  - len_norm. lia.
  - intros j y Hin. rewrite nth_error_firstn. pose proof (Hlt _ Hin) as Hj. cbn [fst] in Hj.
    destruct (Nat.ltb_spec j n); [|lia]. apply Hl. rewrite <- (firstn_skipn n buf). apply in_app_iff. left; exact Hin.
  - rewrite <- firstn_map. rewrite <- (firstn_skipn n (map snd buf)) in Hs.
    apply sorted_app_iff in Hs. apply Hs.
Qed.

(* ------------------------------------------------------------------ *)
(* 11. SetAt *)

Lemma remove_facts l buf p i y :
  inv2 l buf -> nth_error buf p = Some (i, y) ->
  NoDup (map fst (firstn p buf ++ skipn (S p) buf)) /\
  ~ In i (map fst (firstn p buf ++ skipn (S p) buf)) /\
  S (length (firstn p buf ++ skipn (S p) buf)) = length l /\
  (forall e, In e (firstn p buf ++ skipn (S p) buf) -> In e buf) /\
  sorted (map snd (firstn p buf ++ skipn (S p) buf)).
Proof.
  intros (Hn & Hlb & Hl & Hs) Hy.
  set (b0 := firstn p buf ++ skipn (S p) buf).
  pose proof (perm_remove p (i, y) buf Hy) as HP. fold b0 in HP.
  assert (Hn0 : NoDup (i :: map fst b0)).
  { apply (Permutation_map fst) in HP. cbn [map fst] in HP. eapply Permutation_NoDup; [exact HP|exact Hn]. }
  apply NoDup_cons_iff in Hn0 as [Hni Hn0].
  repeat split; auto.
  - apply Permutation_length in HP. cbn [length] in HP. lia.
  - intros e He. eapply Permutation_in; [symmetry; exact HP|right; exact He].
  - unfold b0. rewrite map_app, <- firstn_map, <- skipn_map.
    apply (sorted_remove_mid _ y).
    rewrite <- nth_error_split_at; [exact Hs|]. rewrite nth_error_map, Hy. reflexivity.
Qed.

Lemma nth_error_remove {T} (vs : list T) o k :
  o < length vs ->
  nth_error (firstn o vs ++ skipn (S o) vs) k = nth_error vs (if k <? o then k else S k).
Proof. intro H. nth_norm. split_ifs; nth_arith. Qed.

Lemma firstn_remove_same {T} (bf : list T) p :
  p < length bf -> firstn p (firstn p bf ++ skipn (S p) bf) = firstn p bf.
Proof. intro H. list_ext. Qed.

Lemma skipn_remove_same {T} (bf : list T) p :
  p < length bf -> skipn p (firstn p bf ++ skipn (S p) bf) = skipn (S p) bf.
Proof. intro H. list_ext. Qed.

Lemma sort_set_core l buf i x o y q :
  sort_inv l buf -> nth_error buf o = Some (i, y) ->
  (forall k v, k < q -> nth_error (map snd (firstn o buf ++ skipn (S o) buf)) k = Some v -> le v x) ->
  (forall k v, q <= k -> nth_error (map snd (firstn o buf ++ skipn (S o) buf)) k = Some v -> le x v) ->
  sort_inv (firstn i l ++ x :: skipn (S i) l)
           (firstn q (firstn o buf ++ skipn (S o) buf) ++ (i, x) :: skipn q (firstn o buf ++ skipn (S o) buf)).
Proof.
  intros Hinv Hy H1 H2. pose proof Hinv as Hinv0. apply inv2_iff in Hinv.
  destruct (remove_facts l buf o i y Hinv Hy) as (Hn & Hni & Hlen & Hin & Hs).
  destruct Hinv as (_ & Hlb & Hl & _).
  assert (Hi : i < length l).
  { eapply sort_inv_idx_lt; [exact Hinv0|]. eapply nth_error_In; exact Hy. }
  apply inv2_iff. apply inv2_insert; auto.
  - len_norm. lia.
  - intros j z Hjz. assert (Hne : j <> i).
    { intros ->. apply Hni. apply in_map_iff. exists (i, z). auto. }
    rewrite <- (Hl j z (Hin _ Hjz)). nth_norm. split_ifs; nth_arith.
  - nth_norm. split_ifs; nth_arith.
Qed.

Lemma sort_arm_set l buf i x ans :
  sort_inv l buf -> i < length l ->
  exists buf' outs l',
    sort_on_diff cmp buf (SetAt i x) ans = Ok (buf', outs) /\ apply (SetAt i x) l = Some l' /\
    apply_all_ok outs (map snd buf) = Some (map snd buf') /\ sort_inv l' buf'.
Proof.
  intros Hinv Hi. pose proof (sort_inv_length _ _ Hinv) as Hlb.
  destruct (sort_inv_position l buf i Hinv Hi) as [o Ho].
  destruct (position_some _ _ _ Ho) as [y Hy].
  pose proof (nth_error_some_lt _ _ _ Hy) as Holt.
  pose proof Hinv as (_ & _ & Hs).
  destruct (search_spec x buf Hs) as (Hp & Hp1 & Hp2).
  set (p := search cmp x buf) in *.
  set (q := if o <? p then p - 1 else p).
  set (b1 := firstn o buf ++ skipn (S o) buf).
  assert (Hvs : o < length (map snd buf)) by (rewrite map_length; exact Holt).
  assert (Hb1 : map snd b1 = firstn o (map snd buf) ++ skipn (S o) (map snd buf)).
  { unfold b1. rewrite map_app, <- firstn_map, <- skipn_map. reflexivity. }
  assert (Hq : q <= length b1).
  { unfold q, b1. len_norm. destruct (Nat.ltb_spec o p); lia. }
  assert (Hcore : sort_inv (firstn i l ++ x :: skipn (S i) l) (firstn q b1 ++ (i, x) :: skipn q b1)).
  { apply (sort_set_core l buf i x o y q Hinv Hy); fold b1; rewrite Hb1; intros k v Hk;
      rewrite (nth_error_remove _ _ _ Hvs); intro Hv.
    - apply (Hp1 _ _) in Hv; [exact Hv|]. unfold q in Hk.
      destruct (Nat.ltb_spec o p), (Nat.ltb_spec k o); lia.
    - apply (Hp2 _ _) in Hv; [exact Hv|]. unfold q in Hk.
      destruct (Nat.ltb_spec o p), (Nat.ltb_spec k o); lia. }
  assert (Hset : q = o ->
    apply_all_ok [SetAt o x] (map snd buf) = Some (map snd (firstn o buf ++ (i, x) :: skipn (S o) buf)) /\
    sort_inv (firstn i l ++ x :: skipn (S i) l) (firstn o buf ++ (i, x) :: skipn (S o) buf)).
  { intro E. split.
    - apply aao_one; [cbn [ok_in]; apply Nat.ltb_lt; exact Hvs|].
      cbn [apply]. rewrite set_at_some by exact Hvs.
      rewrite map_app. cbn [map snd]. rewrite <- firstn_map, <- skipn_map. reflexivity.
    - rewrite E in Hcore. unfold b1 in Hcore.
      rewrite firstn_remove_same, skipn_remove_same in Hcore by exact Holt. exact Hcore. }
  assert (Hri :
    apply_all_ok [Remove o; Insert q x] (map snd buf) = Some (map snd (firstn q b1 ++ (i, x) :: skipn q b1))).
  { erewrite aao_cons; [| cbn [ok_in]; apply Nat.ltb_lt; exact Hvs
                        | cbn [apply]; apply remove_at_some; exact Hvs ].
    rewrite <- Hb1. apply aao_one; [cbn [ok_in]; apply Nat.leb_le; rewrite map_length; exact Hq|].
    cbn [apply]. rewrite insert_at_some by (rewrite map_length; exact Hq).
    rewrite map_app. cbn [map snd]. rewrite <- firstn_map, <- skipn_map. reflexivity. }
  cbn [sort_on_diff apply]. rewrite Ho. cbv zeta. fold p.
  rewrite set_at_some by exact Hi.
  destruct (Nat.compare_spec o p) as [E|E|E].
  - (* old = new *)
    assert (Eq : q = o) by (unfold q; destruct (Nat.ltb_spec o p); lia).
    destruct (Hset Eq) as [Ha Hb]. rewrite <- E.
    eexists _, _, _. split; [reflexivity|]. split; [reflexivity|]. split; [exact Ha|exact Hb].
  - (* old < new *)
    assert (Eq : q = p - 1) by (unfold q; destruct (Nat.ltb_spec o p); lia).
    destruct (Nat.eqb_spec o (p - 1)) as [E2|N2].
    + destruct (Hset ltac:(lia)) as [Ha Hb].
      eexists _, _, _. split; [reflexivity|]. split; [reflexivity|]. split; [exact Ha|exact Hb].
    + fold b1. rewrite <- Eq.
      eexists _, _, _. split; [reflexivity|]. split; [reflexivity|]. split; [exact Hri|exact Hcore].
  - (* old > new *)
    assert (Eq : q = p) by (unfold q; destruct (Nat.ltb_spec o p); lia).
    fold b1. rewrite <- Eq.
    eexists _, _, _. split; [reflexivity|]. split; [reflexivity|]. split; [exact Hri|exact Hcore].
Qed.

(* ------------------------------------------------------------------ *)
(* 12. Append *)

Lemma back_nonempty bf : bf <> [] -> exists ul lastv, back bf = Some (ul, lastv).
Proof.
  intro H. unfold back. destruct (nth_error bf (length bf - 1)) as [[ul lv]|] eqn:E; [eauto|].
  apply nth_error_None in E. destruct bf; [congruence|cbn [length] in E; lia].
Qed.

Lemma sorted_last_max bf ul lastv a :
  sorted (map snd bf) -> back bf = Some (ul, lastv) -> In a (map snd bf) -> le a lastv.
Proof.
  intros Hs Hb Ha. unfold back in Hb. apply In_nth_error in Ha as [k Hk].
  pose proof (nth_error_some_lt _ _ _ Hk) as Hlt. rewrite map_length in Hlt.
  apply (sorted_nth_le _ Hs k (length bf - 1)); [lia|exact Hk|].
  rewrite nth_error_map, Hb. reflexivity.
Qed.

Lemma append_loop_spec v0 : forall news bf acc,
  bf <> [] -> sorted (map snd bf) -> sorted (map snd news) ->
  apply_all_ok acc v0 = Some (map snd bf) ->
  exists rest bf' acc',
    append_loop cmp news bf acc = Ok (rest, bf', acc') /\
    Permutation (bf' ++ rest) (bf ++ news) /\
    sorted (map snd (bf' ++ rest)) /\
    apply_all_ok acc' v0 = Some (map snd bf') /\ bf' <> [].
Proof.
  induction news as [|[u x] rest IH]; intros bf acc Hne Hs Hsn Hacc.
  - exists [], bf, acc. cbn [append_loop]. unfold entry in *. rewrite !app_nil_r. repeat split; auto.
  - cbn [append_loop].
    destruct (back_nonempty bf Hne) as (ul & lastv & Hb). unfold entry in *. rewrite Hb.
    pose proof (fun a => sorted_last_max bf ul lastv a Hs Hb) as Hlast.
    cbn [map snd] in Hsn. apply sorted_cons_iff in Hsn as [Hsr Hxr]. rewrite Forall_forall in Hxr.
    assert (Hbreak : (forall a, In a (map snd bf) -> le a x) ->
      exists rest0 bf' acc',
        Ok ((u, x) :: rest, bf, acc) = Ok (rest0, bf', acc') /\
        Permutation (bf' ++ rest0) (bf ++ (u, x) :: rest) /\
        sorted (map snd (bf' ++ rest0)) /\
        apply_all_ok acc' v0 = Some (map snd bf') /\ bf' <> []).
    { intro Hle. exists ((u, x) :: rest), bf, acc. repeat split; auto.
      rewrite map_app. apply sorted_app_iff. split; [exact Hs|]. split.
      - cbn [map snd]. apply sorted_cons_iff. split; [exact Hsr|]. apply Forall_forall; exact Hxr.
      - intros a c Ha Hc. apply (le_trans a x c); [auto|]. cbn [map snd] in Hc.
        destruct Hc as [<-|Hc]; [apply le_refl|auto]. }
    destruct (cmp x lastv) eqn:Ec.
    + apply Hbreak. intros a Ha. apply (le_trans a lastv x); [auto|]. apply not_lt_le. congruence.
    + destruct (search_spec x bf Hs) as (Hp & Hp1 & Hp2). cbv zeta.
      set (p := search cmp x bf) in *.
      destruct (Nat.eqb_spec p (length bf)) as [El|Nl]; cbn [negb].
      * apply Hbreak. intros a Ha. apply In_nth_error in Ha as [k Hk].
        pose proof (nth_error_some_lt _ _ _ Hk) as Hlt. rewrite map_length in Hlt.
        apply (Hp1 k a); [lia|exact Hk].
      * destruct (IH (firstn p bf ++ (u, x) :: skipn p bf)
                    (acc ++ [if p =? 0 then PushFront x else Insert p x]))
          as (rest0 & bf' & acc' & H1 & H2 & H3 & H4 & H5).
        -- intro E. symmetry in E. eapply app_cons_not_nil; exact E.
        -- rewrite map_app. cbn [map snd]. rewrite <- firstn_map, <- skipn_map.
           apply sorted_insert; assumption.
        -- exact Hsr.
        -- rewrite apply_all_ok_app, Hacc. cbn [obind].
           rewrite map_app. cbn [map snd]. rewrite <- firstn_map, <- skipn_map.
           destruct (Nat.eqb_spec p 0) as [E0|N0].
           ++ rewrite E0. reflexivity.
           ++ apply aao_one; [cbn [ok_in]; apply Nat.leb_le; rewrite map_length; exact Hp|].
              cbn [apply]. apply insert_at_some. rewrite map_length; exact Hp.
        -- exists rest0, bf', acc'. split; [exact H1|]. split; [|auto].
           eapply Permutation_trans; [exact H2|].
           eapply Permutation_trans; [apply Permutation_app_tail; apply perm_insert|].
           cbn [app]. apply Permutation_middle.
    + apply Hbreak. intros a Ha. apply (le_trans a lastv x); [auto|]. apply not_lt_le. congruence.
Qed.

Lemma sort_append_unfold buf vs ans : buf <> [] ->
  sort_on_diff cmp buf (Append vs) ans =
  match append_loop cmp ans buf [] with
  | Panic => Panic
  | Ok (rest, buf', acc) =>
      match rest with
      | [] => Ok (buf', acc)
      | _ => Ok (buf' ++ rest, acc ++ [Append (map snd rest)])
      end
  end.
Proof. intro H. destruct buf; [congruence|reflexivity]. Qed.

Lemma sort_arm_append l buf vs ans :
  sort_inv l buf -> valid_sort (enumerate_from (length buf) vs) ans ->
  exists buf' outs l',
    sort_on_diff cmp buf (Append vs) ans = Ok (buf', outs) /\ apply (Append vs) l = Some l' /\
    apply_all_ok outs (map snd buf) = Some (map snd buf') /\ sort_inv l' buf'.
Proof.
  intros Hinv [Hpa Hsa]. pose proof (sort_inv_length _ _ Hinv) as Hlb.
  assert (Hdec : buf = [] \/ buf <> []) by (destruct buf; [left; reflexivity|right; discriminate]). destruct Hdec as [->|Hne].
  - destruct l; [|discriminate Hlb]. cbn [length] in Hpa.
    exists ans, [Append (map snd ans)], vs.
    split; [reflexivity|]. split; [reflexivity|]. split; [reflexivity|].
    apply valid_sort_inv. split; assumption.
  - rewrite (sort_append_unfold buf vs ans Hne).
    pose proof Hinv as (Hpi & Hl & Hs).
    destruct (append_loop_spec (map snd buf) ans buf [] Hne Hs Hsa eq_refl)
      as (rest & bf' & acc' & H1 & H2 & H3 & H4 & H5).
    rewrite H1.
    assert (Hfin : sort_inv (l ++ vs) (bf' ++ rest)).
    { split; [|split; [|exact H3]].
      - eapply Permutation_trans; [apply Permutation_map; exact H2|].
        rewrite map_app, app_length, seq_app. apply Permutation_app; [exact Hpi|].
        cbn [plus]. rewrite <- Hlb, <- enumerate_fst. apply Permutation_map. exact Hpa.
      - intros i x Hin. eapply Permutation_in in Hin; [|exact H2].
        apply in_app_iff in Hin as [Hin|Hin].
        + pose proof (Hl _ _ Hin) as Hn. rewrite nth_error_app.
          apply nth_error_some_lt in Hn as Hlt. destruct (Nat.ltb_spec i (length l)); [exact Hn|lia].
        + eapply Permutation_in in Hin; [|exact Hpa]. apply enumerate_in in Hin as [Hge Hn].
          rewrite nth_error_app. destruct (Nat.ltb_spec i (length l)); [lia|]. rewrite <- Hlb. exact Hn. }
    destruct rest as [|r rest'].
    + rewrite app_nil_r in Hfin. exists bf', acc', (l ++ vs). auto.
    + exists (bf' ++ r :: rest'), (acc' ++ [Append (map snd (r :: rest'))]), (l ++ vs).
      split; [reflexivity|]. split; [reflexivity|]. split; [|exact Hfin].
      rewrite apply_all_ok_app, H4. cbn [obind]. rewrite map_app. reflexivity.
Qed.

(* ------------------------------------------------------------------ *)
(* 13. the one-step theorem *)

Theorem sort_step_aux l buf d ans :
  sort_inv l buf -> ok_in d l = true ->
  sort_truncate_misaligned buf d = false ->
  (forall input, sort_oracle_input buf d = Some input -> valid_sort input ans) ->
  exists buf' outs l',
    sort_on_diff cmp buf d ans = Ok (buf', outs) /\ apply d l = Some l' /\
    apply_all_ok outs (map snd buf) = Some (map snd buf') /\ sort_inv l' buf'.
Proof.
  intros Hinv Hok Hmis Hor. destruct d; cbn [ok_in sort_truncate_misaligned sort_oracle_input] in *.
  - apply sort_arm_append; [exact Hinv|]. apply Hor. reflexivity.
  - apply sort_arm_clear.
  - apply sort_arm_push_front; exact Hinv.
  - apply sort_arm_push_back; exact Hinv.
  - apply sort_arm_pop_front; [exact Hinv|]. apply Nat.ltb_lt; exact Hok.
  - apply sort_arm_pop_back; [exact Hinv|]. apply Nat.ltb_lt; exact Hok.
  - apply sort_arm_insert; [exact Hinv|]. apply Nat.leb_le; exact Hok.
  - apply sort_arm_set; [exact Hinv|]. apply Nat.ltb_lt; exact Hok.
  - apply sort_arm_remove; [exact Hinv|]. apply Nat.ltb_lt; exact Hok.
  - apply sort_arm_truncate; [exact Hinv| |].
    + apply Nat.ltb_lt; exact Hok.
    + apply negb_false_iff in Hmis. exact Hmis.
  - apply sort_arm_reset. apply Hor. reflexivity.
Qed.

End Aux.

(* ------------------------------------------------------------------ *)
(* The specification statements *)

Lemma sort_inv_sorted_perm l buf :
  sort_inv l buf -> StronglySorted le (map snd buf) /\ Permutation (map snd buf) l.
Proof. exact (sort_inv_sorted_perm_aux l buf). Qed.

Lemma sort_init_ok vs ans :
  valid_sort (enumerate_from 0 vs) ans ->
  fst (sort_init ans) = map snd ans /\ sort_inv vs (snd (sort_init ans)).
Proof. exact (sort_init_ok_aux vs ans). Qed.

Theorem sort_step l buf d ans :
  sort_inv l buf -> ok_in d l = true ->
  sort_truncate_misaligned buf d = false ->
  (forall input, sort_oracle_input buf d = Some input -> valid_sort input ans) ->
  exists buf' outs l',
    sort_on_diff cmp buf d ans = Ok (buf', outs) /\ apply d l = Some l' /\
    apply_all_ok outs (map snd buf) = Some (map snd buf') /\ sort_inv l' buf'.
Proof. exact (sort_step_aux l buf d ans). Qed.

End SortFacts.

(* the class is a genuine failure: source [3;4;1] sorted [1;3;4], Truncate 2 *)
Lemma sort_truncate_refuted :
  exists (l : list nat) buf buf' outs,
    sort_inv Nat.compare l buf /\ sort_truncate_misaligned buf (Truncate 2) = true /\
    sort_on_diff Nat.compare buf (Truncate 2) [] = Ok (buf', outs) /\
    apply_all_ok outs (map snd buf) <> Some (map snd buf').
Proof.
  exists [3; 4; 1], [(2, 1); (0, 3); (1, 4)], [(0, 3); (1, 4)], [Truncate 2].
  split; [|split; [reflexivity|split; [reflexivity|cbv; discriminate]]].
  split; [|split].
  - cbn [map fst length seq].
    apply (Permutation_trans (l' := [0; 2; 1])); [apply perm_swap|].
    apply perm_skip. apply perm_swap.
  - intros i x H. cbn [In] in H.
    destruct H as [H|[H|[H|[]]]]; injection H as <- <-; reflexivity.
  - cbn [map snd]. unfold le. repeat constructor; cbn; discriminate.
Qed.
