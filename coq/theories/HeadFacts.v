(* HeadFacts.v — correctness of the Head adapter model (C09, C15). *)
From EB Require Import Head AdapterCore ListTac DiffFacts.

Section HeadFacts.
Context {A : Type}.
Implicit Types (l v vs : list A) (st : head_st A).

Definition head_R st l v : Prop := h_buf st = l /\ v = firstn (h_limit st) l.

Lemma head_init_ok limit vs :
  fst (head_init limit vs) = firstn limit vs /\
  head_R (snd (head_init limit vs)) vs (firstn limit vs).
Proof.
  unfold head_init, head_R, truncate; cbn [fst snd h_buf h_limit]. split; [|split; reflexivity].
  destruct (Nat.ltb_spec limit (length vs)); [reflexivity|].
  symmetry; apply firstn_all2; assumption.
Qed.

Lemma head_init_bound limit vs : length (fst (head_init limit vs)) <= limit.
Proof. rewrite (proj1 (head_init_ok limit vs)). len_norm. lia. Qed.

Lemma nth_error_in_range_some l k : k < length l -> exists x, nth_error l k = Some x.
Proof.
  intro H. destruct (nth_error l k) eqn:E; [eauto|]. apply nth_error_None in E. lia.
Qed.

(* discharge one consumer step: ok_in, apply (with the option-valued ops), length bound *)
Ltac step :=
  erewrite aaob_cons;
  [ | cbn [ok_in]; unfold_vec; len_norm;
      first [reflexivity | apply Nat.ltb_lt; lia | apply Nat.leb_le; lia]
    | cbn [apply]; unfold_vec;
      first [reflexivity | apply insert_at_some; len_norm; lia | apply set_at_some; len_norm; lia
            | apply remove_at_some; len_norm; lia]
    | unfold_vec; len_norm; lia ].

Lemma head_handle_ok limit l d l' :
  ok_in d l = true -> apply d l = Some l' ->
  apply_all_ok_bound limit (head_handle_diff d limit (length l) l') (firstn limit l)
    = Some (firstn limit l') /\ length (head_handle_diff d limit (length l) l') <= 2.
Proof.
  intros Hok Hl'. unfold head_handle_diff.
  destruct (Nat.eqb_spec limit 0) as [->|Hl0].
  { cbn. rewrite !firstn_O. split; [reflexivity|lia]. }
  destruct d; cbn [apply ok_in] in *; unfold_vec.
  - (* Append *)
    injection Hl' as <-.
    destruct (Nat.leb_spec limit (length l)).
    + cbn. split; [|lia]. f_equal. list_ext.
    + split; [|cbn; lia]. step. cbn. f_equal. list_ext.
  - (* Clear *)
    injection Hl' as <-. split; [|cbn; lia]. step. cbn. rewrite firstn_nil. reflexivity.
  - (* PushFront *)
    injection Hl' as <-.
    destruct (Nat.leb_spec limit (length l)); cbn [app]; (split; [|cbn; lia]).
    + step. step. cbn. f_equal. unfold_vec. list_ext.
    + step. cbn. f_equal. unfold_vec. list_ext.
  - (* PushBack *)
    injection Hl' as <-.
    destruct (Nat.leb_spec limit (length l)); (split; [|cbn; lia]).
    + cbn. f_equal. list_ext.
    + step. cbn. f_equal. unfold_vec. list_ext.
  - (* PopFront *)
    injection Hl' as <-. apply Nat.ltb_lt in Hok.
    destruct (nth_error (tl l) (limit - 1)) as [y|] eqn:E; (split; [|cbn; lia]).
    + pose proof (nth_error_some_lt _ _ _ E) as Hlt. len_norm. rewrite nth_error_tl in E.
      step. step. cbn. f_equal. unfold_vec.
      apply nth_error_ext; intro k. nth_norm. split_ifs; nth_arith.
      * replace k with (limit - 1) by lia. symmetry. exact E.
    + apply nth_error_None in E. len_norm.
      step. cbn. f_equal. unfold_vec. list_ext.
  - (* PopBack *)
    injection Hl' as <-. apply Nat.ltb_lt in Hok.
    destruct (Nat.ltb_spec limit (length l)); (split; [|cbn; lia]).
    + cbn. f_equal. list_ext.
    + step. cbn. f_equal. unfold_vec. list_ext.
  - (* Insert *)
    pose proof Hok as Hok'. apply Nat.leb_le in Hok'. rewrite insert_at_some in Hl' by lia.
    injection Hl' as <-.
    destruct (Nat.leb_spec limit i).
    + split; [|cbn; lia]. cbn. f_equal. list_ext.
    + destruct (Nat.leb_spec limit (length l)); cbn [app]; (split; [|cbn; lia]).
      * step. step. cbn. f_equal. unfold_vec. list_ext.
      * step. cbn. f_equal. list_ext.
  - (* SetAt *)
    pose proof Hok as Hok'. apply Nat.ltb_lt in Hok'. rewrite set_at_some in Hl' by lia.
    injection Hl' as <-.
    destruct (Nat.leb_spec limit i); (split; [|cbn; lia]).
    + cbn. f_equal. list_ext.
    + step. cbn. f_equal. list_ext.
  - (* Remove *)
    pose proof Hok as Hok'. apply Nat.ltb_lt in Hok'. rewrite remove_at_some in Hl' by lia.
    injection Hl' as <-.
    destruct (Nat.leb_spec limit i).
    + split; [|cbn; lia]. cbn. f_equal. list_ext.
    + destruct (nth_error (firstn i l ++ skipn (S i) l) (limit - 1)) as [y|] eqn:E; (split; [|cbn; lia]).
      * pose proof (nth_error_some_lt _ _ _ E) as Hlt. len_norm.
        step. step. cbn. f_equal. unfold_vec.
        apply nth_error_ext; intro k. revert E. nth_norm. intro E. revert E. split_ifs; intro E; nth_arith.
        all: try (replace k with (limit - 1) in * by lia; rewrite <- E; f_equal; lia).
        all: try (apply nth_error_None; len_norm; lia).
      * apply nth_error_None in E. len_norm.
        step. cbn. f_equal. list_ext.
  - (* Truncate *)
    injection Hl' as <-. apply Nat.ltb_lt in Hok.
    destruct (Nat.leb_spec limit n); (split; [|cbn; lia]).
    + cbn. f_equal. list_ext.
    + step. cbn. f_equal. unfold_vec. list_ext.
  - (* Reset *)
    injection Hl' as <-. split; [|cbn; lia].
    destruct (Nat.ltb_spec limit (length vs)).
    + step. cbn. reflexivity.
    + step. cbn. f_equal. symmetry. apply firstn_all2. assumption.
Qed.

(* The one-step theorem, with the C15 bound on every intermediate view. *)
Theorem head_step_bound st l v d :
  head_R st l v -> ok_in d l = true ->
  exists st' outs l',
    head_on_diff st d = Ok (st', outs) /\ apply d l = Some l' /\
    apply_all_ok_bound (h_limit st) outs v = Some (firstn (h_limit st) l') /\
    head_R st' l' (firstn (h_limit st) l') /\ h_limit st' = h_limit st.
Proof.
  intros [Hb Hv] Hok. destruct st as [buf limit]. cbn [h_buf h_limit] in *. subst buf v.
  destruct (ok_in_apply_some d l Hok) as [l' Hl'].
  destruct (head_handle_ok limit l d l' Hok Hl') as [Hrun Hlen].
  unfold head_on_diff. cbn [h_buf h_limit]. rewrite Hl'.
  destruct (Nat.ltb_spec 2 (length (head_handle_diff d limit (length l) l'))); [lia|].
  eexists _, _, _. repeat split; eauto.
Qed.

Ltac stepo :=
  erewrite aao_cons;
  [ | cbn [ok_in]; unfold_vec; len_norm;
      first [reflexivity | apply Nat.ltb_lt; lia | apply Nat.leb_le; lia]
    | cbn [apply]; unfold_vec;
      first [reflexivity | apply insert_at_some; len_norm; lia | apply set_at_some; len_norm; lia
            | apply remove_at_some; len_norm; lia] ].

(* a limit change *)
Theorem head_param_ok st l v n :
  head_R st l v ->
  exists st' v',
    fst (head_update_limit st n) = st' /\
    apply_all_ok (match snd (head_update_limit st n) with Some ds => ds | None => [] end) v = Some v' /\
    head_R st' l v' /\ h_limit st' = n.
Proof.
  intros [Hb Hv]. destruct st as [buf old]. cbn [h_buf h_limit] in *. subst buf v.
  exists {| h_buf := l; h_limit := n |}, (firstn n l).
  unfold head_update_limit. cbn [h_buf h_limit].
  destruct l as [|a l0] eqn:El.
  { cbn [fst snd]. repeat split. cbn. rewrite !firstn_nil. reflexivity. }
  rewrite <- El. assert (Hlen : 0 < length l) by (subst l; cbn; lia). clear El.
  destruct (Nat.compare_spec old n) as [->|Hlt|Hgt]; cbn [fst snd].
  - repeat split.
  - destruct (firstn (n - old) (skipn old l)) as [|m ms] eqn:Em; cbn [fst snd]; repeat split.
    + cbn. f_equal. assert (Hl : length (firstn (n - old) (skipn old l)) = 0) by (rewrite Em; reflexivity).
      len_norm. rewrite !firstn_all2 by lia. reflexivity.
    + assert (Hl : length (firstn (n - old) (skipn old l)) = S (length ms)) by (rewrite Em; reflexivity).
      len_norm. rewrite <- Em. stepo. cbn. f_equal. list_ext.
  - destruct (Nat.leb_spec (length l) n); cbn [fst snd]; repeat split.
    + cbn. f_equal. rewrite !firstn_all2 by lia. reflexivity.
    + stepo. cbn. f_equal. unfold_vec. list_ext.
Qed.

(* update_limit returns at most one diff and never Some [] *)
Lemma head_update_limit_shape st n :
  match snd (head_update_limit st n) with Some ds => length ds = 1 | None => True end.
Proof.
  unfold head_update_limit. destruct (h_buf st); [exact I|].
  destruct (h_limit st ?= n); cbn [snd]; try exact I.
  - destruct (firstn _ _); [exact I|reflexivity].
  - destruct (_ <=? _); [exact I|reflexivity].
Qed.

End HeadFacts.
