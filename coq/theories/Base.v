(* Base.v — shared small definitions.  Stdlib only. *)
From Coq Require Export List Arith Bool Lia PeanoNat.
Export ListNotations.

(* Result of polling a stream / future. *)
Inductive poll (A : Type) : Type :=
| Ready (x : A)
| Pending.
Arguments Ready {A} x.
Arguments Pending {A}.

(* Outcome of a Rust call that may panic. *)
Inductive outcome (A : Type) : Type :=
| Ok (x : A)
| Panic.
Arguments Ok {A} x.
Arguments Panic {A}.

Definition obind {A B} (o : option A) (f : A -> option B) : option B :=
  match o with Some x => f x | None => None end.

Definition out_bind {A B} (o : outcome A) (f : A -> outcome B) : outcome B :=
  match o with Ok x => f x | Panic => Panic end.

Definition out_of_option {A} (o : option A) : outcome A :=
  match o with Some x => Ok x | None => Panic end.

(* usize subtraction: checked (debug builds panic, release builds wrap; both are "wrong") *)
Definition csub (a b : nat) : option nat :=
  if b <=? a then Some (a - b) else None.

(* saturating_sub *)
Definition ssub (a b : nat) : nat := a - b.

(* keep list-cutting functions folded: proofs go through characterising lemmas *)
Global Arguments skipn : simpl never.
Global Arguments firstn : simpl never.
