(* OVecFacts.v — invariants and theorems about ObservableVector histories (C05 C06 C07 C08 C17). *)
From EB Require Import OVec OVecRun AdapterCore ListTac DiffFacts.

Section OVecFacts.
Context {A : Type}.
Implicit Types (o : ovec A) (g : gst A) (m : mutator A).

(* ---------------- mutators (C17, C05) ---------------- *)

Lemma back_nil_iff (v : list A) : back v = None <-> v = [].
Proof.
  unfold back. split.
  - intro H. apply nth_error_None in H. destruct v; [reflexivity|cbn [length] in H; lia].
  - intros ->. reflexivity.
Qed.

Lemma back_some_len (v : list A) x : back v = Some x -> 0 < length v.
Proof. intro H. destruct v; [discriminate|cbn [length]; lia]. Qed.

Lemma back_app1 {X} (l : list X) (x : X) : back (l ++ [x]) = Some x.
Proof.
  unfold back. rewrite app_length. cbn [length].
  rewrite nth_error_app2 by lia. replace (length l + 1 - 1 - length l) with 0 by lia. reflexivity.
Qed.

(* the diff a mutator publishes is strictly applicable and produces exactly the new contents;
   no diff is published only for the documented no-ops, which leave the contents unchanged *)
Lemma mutate_coherent m v c v' r od :
  mutate m v c = Some (v', r, od) ->
  match od with
  | Some d => ok_in d v = true /\ apply d v = Some v' /\ is_reset d = false
  | None => v' = v /\
            (match m with
             | MClear => v = [] /\ c = false
             | MPopFront | MPopBack => v = []
             | MTruncate n => length v <= n
             | _ => False
             end)
  end.
Proof.
  destruct m; cbn [mutate]; intro H.
  - injection H as <- <- <-. repeat split.
  - destruct c; [injection H as <- <- <-; repeat split|].
    destruct v; injection H as <- <- <-; repeat split.
  - injection H as <- <- <-. repeat split.
  - injection H as <- <- <-. repeat split.
  - destruct v; injection H as <- <- <-; repeat split.
  - destruct (back v) eqn:E; injection H as <- <- <-.
    + repeat split. cbn [ok_in]. apply Nat.ltb_lt. eapply back_some_len; eassumption.
    + split; [reflexivity|]. apply back_nil_iff; assumption.
  - destruct (i <=? length v) eqn:E; [|discriminate].
    unfold insert_at in *. rewrite E in *. cbn [option_map] in H. injection H as <- <- <-.
    cbn [ok_in apply]. unfold insert_at. rewrite E. repeat split.
  - destruct (nth_error v i) eqn:E; [|discriminate].
    unfold set_at in *. destruct (i <? length v) eqn:E2; [|discriminate].
    cbn [option_map] in H. injection H as <- <- <-. cbn [ok_in apply]. unfold set_at. rewrite E2.
    repeat split.
  - destruct (nth_error v i) eqn:E; [|discriminate].
    unfold remove_at in *. destruct (i <? length v) eqn:E2; [|discriminate].
    cbn [option_map] in H. injection H as <- <- <-. cbn [ok_in apply]. unfold remove_at. rewrite E2.
    repeat split.
  - destruct (Nat.ltb_spec n (length v)); injection H as <- <- <-.
    + cbn [ok_in apply is_reset]. repeat split. apply Nat.ltb_lt; assumption.
    + split; [reflexivity|assumption].
Qed.

(* mutate panics exactly for out-of-range insert/set/remove *)
Lemma mutate_panics_iff m v c :
  mutate m v c = None <->
  match m with
  | MInsert i _ => length v < i
  | MSet i _ | MRemove i => length v <= i
  | _ => False
  end.
Proof.
  destruct m; cbn [mutate]; try (split; [discriminate|tauto]).
  - destruct c; [split; [discriminate|tauto]|]. destruct v; (split; [discriminate|tauto]).
  - destruct v; (split; [discriminate|tauto]).
  - destruct (back v); (split; [discriminate|tauto]).
  - unfold insert_at. destruct (Nat.leb_spec i (length v)); cbn [option_map]; split; try discriminate; try lia; reflexivity.
  - unfold set_at. destruct (nth_error v i) eqn:E.
    + pose proof (nth_error_some_lt _ _ _ E). destruct (Nat.ltb_spec i (length v)); [|lia].
      cbn [option_map]. split; [discriminate|lia].
    + apply nth_error_None in E. split; [intros _; exact E|reflexivity].
  - unfold remove_at. destruct (nth_error v i) eqn:E.
    + pose proof (nth_error_some_lt _ _ _ E). destruct (Nat.ltb_spec i (length v)); [|lia].
      cbn [option_map]. split; [discriminate|lia].
    + apply nth_error_None in E. split; [intros _; exact E|reflexivity].
  - destruct (n <? length v); (split; [discriminate|tauto]).
Qed.

(* return values are those of the plain vector operation *)
Lemma mutate_ret m v c v' r od :
  mutate m v c = Some (v', r, od) ->
  match m with
  | MPopFront => r = ROpt (hd_error v)
  | MPopBack => r = ROpt (back v)
  | MSet i _ | MRemove i => exists x, nth_error v i = Some x /\ r = RVal x
  | _ => r = RUnit
  end.
Proof.
  destruct m; cbn [mutate]; intro H.
  - injection H as <- <- <-; reflexivity.
  - destruct c; [injection H as <- <- <-; reflexivity|]. destruct v; injection H as <- <- <-; reflexivity.
  - injection H as <- <- <-; reflexivity.
  - injection H as <- <- <-; reflexivity.
  - destruct v; injection H as <- <- <-; reflexivity.
  - destruct (back v); injection H as <- <- <-; reflexivity.
  - destruct (i <=? length v); [|discriminate]. destruct (insert_at i x v); [|discriminate].
    cbn [option_map] in H. injection H as <- <- <-; reflexivity.
  - destruct (nth_error v i) eqn:E; [|discriminate]. destruct (set_at i x v); [|discriminate].
    cbn [option_map] in H. injection H as <- <- <-. eauto.
  - destruct (nth_error v i) eqn:E; [|discriminate]. destruct (remove_at i v); [|discriminate].
    cbn [option_map] in H. injection H as <- <- <-. eauto.
  - destruct (n <? length v); injection H as <- <- <-; reflexivity.
Qed.

(* a direct call: contents = plain result; at most one message, holding exactly that one diff and
   the new contents; nothing is sent for a no-op or without receivers; a panic changes nothing *)
Lemma ovec_mutate_spec o m :
  match mutate m (values o) false with
  | None => ovec_mutate o m = Panic
  | Some (v', r, od) =>
      exists o' w, ovec_mutate o m = Ok (o', r, w) /\ values o' = v' /\
        cap2 o' = cap2 o /\ alive o' = alive o /\ cur_txn o' = cur_txn o /\
        match od with
        | Some d =>
            if rx_cnt o =? 0 then log o' = log o /\ subs o' = subs o
            else log o' = log o ++ [{| m_many := false; m_diffs := [d]; m_state := v' |}] /\
                 subs o' = wake_all (subs o)
        | None => log o' = log o /\ subs o' = subs o
        end
  end.
Proof.
  unfold ovec_mutate. destruct (mutate m (values o) false) as [[[v' r] [d|]]|]; [| |reflexivity].
  - unfold broadcast_diff, send. change (rx_cnt (with_values o v')) with (rx_cnt o).
    destruct (rx_cnt o =? 0); eexists; eexists; (split; [reflexivity|]); cbn; repeat split.
  - eexists; eexists; (split; [reflexivity|]); cbn; repeat split.
Qed.

(* a call on the transaction touches only the working copy and the recorded batch *)
Lemma txn_mutate_spec o m t :
  cur_txn o = Some t ->
  match mutate m (tx_values t) true with
  | None => txn_mutate o m = Panic
  | Some (v', r, od) =>
      exists t', txn_mutate o m = Ok (with_txn o (Some t'), r) /\ tx_values t' = v'
  end.
Proof.
  intro H. unfold txn_mutate. rewrite H.
  destruct (mutate m (tx_values t) true) as [[[v' r] od]|]; [|reflexivity].
  eexists; split; reflexivity.
Qed.

(* ---------------- traversal (C17) ---------------- *)
(* specification on plain lists: [done] = results so far, [rest] = original items not yet visited;
   returns what is handed to the closure (index reported, element) and the final contents *)
Fixpoint trav_spec (decs : list (decision A)) (done rest : list A) : list (nat * A) * list A :=
  match rest with
  | [] => ([], done)
  | x :: rest' =>
      match (match decs with d :: _ => d | [] => DKeep end) with
      | DKeep => let '(v, f) := trav_spec (tl decs) (done ++ [x]) rest' in ((length done, x) :: v, f)
      | DSet y => let '(v, f) := trav_spec (tl decs) (done ++ [y]) rest' in ((length done, x) :: v, f)
      | DRemove => let '(v, f) := trav_spec (tl decs) done rest' in ((length done, x) :: v, f)
      | DSetRemove _ => let '(v, f) := trav_spec (tl decs) done rest' in ((length done, x) :: v, f)
      | DStop => ([(length done, x)], done ++ x :: rest')
      end
  end.

Lemma firstn_len_app (d r : list A) : firstn (length d) (d ++ r) = d.
Proof. rewrite firstn_app, Nat.sub_diag, firstn_all, firstn_O, app_nil_r. reflexivity. Qed.
Lemma skipn_len_app (d r : list A) : skipn (length d) (d ++ r) = r.
Proof. rewrite skipn_app, Nat.sub_diag, skipn_all. reflexivity. Qed.
Lemma skipn_Slen_app (d r : list A) x : skipn (S (length d)) (d ++ x :: r) = r.
Proof.
  rewrite skipn_app, skipn_all2 by lia. replace (S (length d) - length d) with 1 by lia. reflexivity.
Qed.
Lemma nth_error_len_app (d r : list A) x : nth_error (d ++ x :: r) (length d) = Some x.
Proof. rewrite nth_error_app2, Nat.sub_diag by lia. reflexivity. Qed.

Lemma mutate_set_mid (d r : list A) x y c :
  mutate (MSet (length d) y) (d ++ x :: r) c = Some (d ++ y :: r, RVal x, Some (SetAt (length d) y)).
Proof.
  cbn [mutate]. rewrite nth_error_len_app.
  rewrite set_at_some by (rewrite app_length; cbn [length]; lia).
  rewrite firstn_len_app, skipn_Slen_app. reflexivity.
Qed.
Lemma mutate_remove_mid (d r : list A) x c :
  mutate (MRemove (length d)) (d ++ x :: r) c = Some (d ++ r, RVal x, Some (Remove (length d))).
Proof.
  cbn [mutate]. rewrite nth_error_len_app.
  rewrite remove_at_some by (rewrite app_length; cbn [length]; lia).
  rewrite firstn_len_app, skipn_Slen_app. reflexivity.
Qed.

Lemma do_mut_cur o (in_txn : bool) m v' r od :
  (in_txn = true -> cur_txn o <> None) ->
  mutate m (cur_values o in_txn) in_txn = Some (v', r, od) ->
  exists o' w, do_mut o in_txn m = Ok (o', r, w) /\ cur_values o' in_txn = v' /\
               (in_txn = true -> cur_txn o' <> None).
Proof.
  intros Ht H. unfold do_mut, cur_values in *. destruct in_txn.
  - destruct (cur_txn o) as [t|] eqn:E; [|exfalso; apply Ht; reflexivity].
    pose proof (txn_mutate_spec o m t E) as S. rewrite H in S. destruct S as (t' & -> & <-).
    eexists; eexists; split; [reflexivity|]. cbn. split; [reflexivity|discriminate].
  - pose proof (ovec_mutate_spec o m) as S. rewrite H in S.
    destruct S as (o' & w & -> & <- & _). eexists; eexists; split; [reflexivity|].
    split; [reflexivity|discriminate].
Qed.

Lemma traverse_spec (in_txn : bool) : forall rest fuel decs done o acc w,
  (in_txn = true -> cur_txn o <> None) ->
  cur_values o in_txn = done ++ rest -> length rest < fuel ->
  exists o' w',
    traverse fuel decs (length done) o in_txn acc w
      = Ok (o', acc ++ fst (trav_spec decs done rest), w') /\
    cur_values o' in_txn = snd (trav_spec decs done rest).
Proof.
  induction rest as [|x rest IH]; intros fuel decs done o acc w Ht Hc Hf;
    (destruct fuel as [|f]; [cbn [length] in Hf; lia|]); cbn [traverse trav_spec]; rewrite Hc.
  - rewrite (proj2 (nth_error_None _ _)) by (rewrite app_nil_r; lia).
    exists o, w. cbn [fst snd]. rewrite !app_nil_r in *. split; [reflexivity|assumption].
  - rewrite nth_error_len_app. cbn [length] in Hf.
    destruct (match decs with d :: _ => d | [] => DKeep end) as [|y|  |y|].
    + destruct (IH f (tl decs) (done ++ [x]) o (acc ++ [(length done, x)]) w Ht) as (o' & w' & E1 & E2);
        [rewrite <- app_assoc; exact Hc|lia|].
      rewrite app_length in E1. cbn [length] in E1. rewrite Nat.add_1_r in E1.
      destruct (trav_spec (tl decs) (done ++ [x]) rest) as [v fin]. cbn [fst snd] in *.
      exists o', w'. rewrite E1, <- app_assoc. split; [reflexivity|assumption].
    + destruct (do_mut_cur o in_txn (MSet (length done) y) _ _ _ Ht
                  ltac:(rewrite Hc; apply mutate_set_mid)) as (o1 & w1 & -> & Hc1 & Ht1).
      destruct (IH f (tl decs) (done ++ [y]) o1 (acc ++ [(length done, x)]) (w ++ w1) Ht1) as (o' & w' & E1 & E2);
        [rewrite <- app_assoc; exact Hc1|lia|].
      rewrite app_length in E1. cbn [length] in E1. rewrite Nat.add_1_r in E1.
      destruct (trav_spec (tl decs) (done ++ [y]) rest) as [v fin]. cbn [fst snd] in *.
      exists o', w'. rewrite E1, <- app_assoc. split; [reflexivity|assumption].
    + destruct (do_mut_cur o in_txn (MRemove (length done)) _ _ _ Ht
                  ltac:(rewrite Hc; apply mutate_remove_mid)) as (o1 & w1 & -> & Hc1 & Ht1).
      destruct (IH f (tl decs) done o1 (acc ++ [(length done, x)]) (w ++ w1) Ht1) as (o' & w' & E1 & E2);
        [exact Hc1|lia|].
      destruct (trav_spec (tl decs) done rest) as [v fin]. cbn [fst snd] in *.
      exists o', w'. rewrite E1, <- app_assoc. split; [reflexivity|assumption].
    + destruct (do_mut_cur o in_txn (MSet (length done) y) _ _ _ Ht
                  ltac:(rewrite Hc; apply mutate_set_mid)) as (o1 & w1 & -> & Hc1 & Ht1).
      destruct (do_mut_cur o1 in_txn (MRemove (length done)) _ _ _ Ht1
                  ltac:(rewrite Hc1; apply mutate_remove_mid)) as (o2 & w2 & -> & Hc2 & Ht2).
      destruct (IH f (tl decs) done o2 (acc ++ [(length done, x)]) (w ++ w1 ++ w2) Ht2) as (o' & w' & E1 & E2);
        [exact Hc2|lia|].
      destruct (trav_spec (tl decs) done rest) as [v fin]. cbn [fst snd] in *.
      exists o', w'. rewrite E1, <- app_assoc. split; [reflexivity|assumption].
    + exists o, w. cbn [fst snd]. split; [reflexivity|assumption].
Qed.

(* for_each / entries: never panics; visits every original element exactly once in order (up to
   the stop), reporting its current index; the final contents are the decisions' results followed
   by the untouched rest.  [in_txn = true] needs an open transaction. *)
Theorem for_each_spec o (in_txn : bool) decs :
  (in_txn = true -> cur_txn o <> None) ->
  exists o' w,
    for_each o in_txn decs = Ok (o', fst (trav_spec decs [] (cur_values o in_txn)), w) /\
    cur_values o' in_txn = snd (trav_spec decs [] (cur_values o in_txn)).
Proof.
  intro Ht. unfold for_each.
  apply (traverse_spec in_txn (cur_values o in_txn) _ decs [] o [] [] Ht); [reflexivity|lia].
Qed.

(* anything every single entry operation preserves is preserved by a traversal *)
Lemma traverse_preserves (P : ovec A -> Prop) (in_txn : bool) :
  (forall o m o' r w, P o -> do_mut o in_txn m = Ok (o', r, w) -> P o') ->
  forall fuel decs idx o acc w o' vis w',
    P o -> traverse fuel decs idx o in_txn acc w = Ok (o', vis, w') -> P o'.
Proof.
  intro Hstep. induction fuel as [|f IH]; intros decs idx o acc w o' vis w' HP; cbn [traverse].
  - intro H; injection H as <- <- <-. assumption.
  - destruct (nth_error (cur_values o in_txn) idx) as [x|].
    2:{ intro H; injection H as <- <- <-. assumption. }
    destruct (match decs with d :: _ => d | [] => DKeep end) as [|y|  |y|].
    + apply IH; assumption.
    + destruct (do_mut o in_txn (MSet idx y)) as [[[o1 r1] w1]|] eqn:E; [|discriminate].
      apply IH. eapply Hstep; eassumption.
    + destruct (do_mut o in_txn (MRemove idx)) as [[[o1 r1] w1]|] eqn:E; [|discriminate].
      apply IH. eapply Hstep; eassumption.
    + destruct (do_mut o in_txn (MSet idx y)) as [[[o1 r1] w1]|] eqn:E; [|discriminate].
      destruct (do_mut o1 in_txn (MRemove idx)) as [[[o2 r2] w2]|] eqn:E2; [|discriminate].
      apply IH. eapply Hstep; [|eassumption]. eapply Hstep; eassumption.
    + intro H; injection H as <- <- <-. assumption.
Qed.

(* ---------------- transactions (C07) ---------------- *)
Definition same_but_txn o o' : Prop := o' = with_txn o (cur_txn o').

Lemma sbt_refl o : same_but_txn o o.
Proof. destruct o; reflexivity. Qed.
Lemma sbt_trans o1 o2 o3 : same_but_txn o1 o2 -> same_but_txn o2 o3 -> same_but_txn o1 o3.
Proof. unfold same_but_txn. intros H1 H2. rewrite H2. rewrite H1 at 1. reflexivity. Qed.
Lemma sbt_with o t : same_but_txn o (with_txn o t).
Proof. reflexivity. Qed.
Lemma sbt_fields o o' : same_but_txn o o' ->
  values o' = values o /\ log o' = log o /\ subs o' = subs o /\ cap2 o' = cap2 o /\ alive o' = alive o.
Proof. intro H. rewrite H. cbn. repeat split. Qed.

Lemma txn_mutate_sbt o m o' r : txn_mutate o m = Ok (o', r) -> same_but_txn o o'.
Proof.
  unfold txn_mutate. destruct (cur_txn o) as [t|]; [|discriminate].
  destruct (mutate m (tx_values t) true) as [[[v' r'] od]|]; [|discriminate].
  intro H; injection H as <- <-. apply sbt_with.
Qed.

(* nothing a transaction does before commit is visible outside it *)
Lemma txn_mutate_invisible o m o' r :
  txn_mutate o m = Ok (o', r) ->
  values o' = values o /\ log o' = log o /\ subs o' = subs o /\ cap2 o' = cap2 o /\ alive o' = alive o.
Proof. intro H. apply sbt_fields. eapply txn_mutate_sbt; eassumption. Qed.

Lemma do_mut_txn_sbt o m o' r w : do_mut o true m = Ok (o', r, w) -> same_but_txn o o' /\ w = [].
Proof.
  unfold do_mut. destruct (txn_mutate o m) as [[o1 r1]|] eqn:E; [|discriminate].
  intro H; injection H as <- <- <-. split; [eapply txn_mutate_sbt; eassumption|reflexivity].
Qed.

Lemma traverse_txn_sbt fuel : forall decs idx o acc w o' vis w',
  traverse fuel decs idx o true acc w = Ok (o', vis, w') -> same_but_txn o o' /\ w' = w.
Proof.
  induction fuel as [|f IH]; intros decs idx o acc w o' vis w'; cbn [traverse].
  - intro H; injection H as <- <- <-. split; [apply sbt_refl|reflexivity].
  - destruct (nth_error (cur_values o true) idx) as [x|].
    2:{ intro H; injection H as <- <- <-. split; [apply sbt_refl|reflexivity]. }
    destruct (match decs with d :: _ => d | [] => DKeep end) as [|y|  |y|].
    + apply IH.
    + destruct (do_mut o true (MSet idx y)) as [[[o1 r1] w1]|] eqn:E; [|discriminate].
      apply do_mut_txn_sbt in E as [E ->]. intro H. apply IH in H as [H ->].
      split; [eapply sbt_trans; eassumption|apply app_nil_r].
    + destruct (do_mut o true (MRemove idx)) as [[[o1 r1] w1]|] eqn:E; [|discriminate].
      apply do_mut_txn_sbt in E as [E ->]. intro H. apply IH in H as [H ->].
      split; [eapply sbt_trans; eassumption|apply app_nil_r].
    + destruct (do_mut o true (MSet idx y)) as [[[o1 r1] w1]|] eqn:E; [|discriminate].
      apply do_mut_txn_sbt in E as [E ->].
      destruct (do_mut o1 true (MRemove idx)) as [[[o2 r2] w2]|] eqn:E2; [|discriminate].
      apply do_mut_txn_sbt in E2 as [E2 ->]. intro H. apply IH in H as [H ->].
      split; [eapply sbt_trans; [|eassumption]; eapply sbt_trans; eassumption|apply app_nil_r].
    + intro H; injection H as <- <- <-. split; [apply sbt_refl|reflexivity].
Qed.

Lemma for_each_txn_invisible o decs o' vis w :
  for_each o true decs = Ok (o', vis, w) ->
  values o' = values o /\ log o' = log o /\ subs o' = subs o /\ cap2 o' = cap2 o /\ alive o' = alive o /\ w = [].
Proof.
  unfold for_each. intro H. apply traverse_txn_sbt in H as [H ->].
  apply sbt_fields in H. tauto.
Qed.

(* commit: contents become the working contents; at most one message is appended; it carries the
   whole batch, which takes the pre-transaction contents to the post-transaction contents; an empty
   batch publishes nothing *)
Theorem txn_commit_spec o t :
  cur_txn o = Some t -> txn_inv o ->
  let o' := fst (txn_commit o) in
  values o' = tx_values t /\ cur_txn o' = None /\
  (tx_batch t = [] \/ rx_cnt o = 0 -> log o' = log o) /\
  (tx_batch t <> [] -> 0 < rx_cnt o ->
     log o' = log o ++ [{| m_many := true; m_diffs := tx_batch t; m_state := tx_values t |}] /\
     apply_all_ok (tx_batch t) (values o) = Some (values o')).
Proof.
  intros H Hinv. unfold txn_inv in Hinv. rewrite H in Hinv. destruct Hinv as (Hal & Hb & Hr).
  unfold txn_commit. rewrite H.
  destruct (tx_batch t) as [|d b] eqn:E.
  - cbn. repeat split; congruence.
  - unfold send. change (rx_cnt (with_txn (with_values o (tx_values t)) None)) with (rx_cnt o).
    destruct (Nat.eqb_spec (rx_cnt o) 0) as [Hz|Hz]; cbn; repeat split; try lia.
    + intros [?|?]; [discriminate|lia].
    + apply Hb. lia.
Qed.

(* operations allowed on the transaction handle *)
Definition is_txn_op (x : op A) : bool :=
  match x with OTMut _ | OTEach _ | OTRollback => true | _ => false end.

(* [o'] is [o] with an open transaction *)
Definition in_txn_of o o' : Prop := exists t', o' = with_txn o (Some t').

Lemma txn_mutate_in_txn_of o o1 m o2 r :
  in_txn_of o o1 -> txn_mutate o1 m = Ok (o2, r) -> in_txn_of o o2.
Proof.
  intros [t ->]. unfold txn_mutate. cbn [cur_txn with_txn].
  destruct (mutate m (tx_values t) true) as [[[v' r'] od]|]; [|discriminate].
  intro H; injection H as <- <-. eexists. reflexivity.
Qed.

Lemma for_each_in_txn_of o o1 decs o2 vis w :
  in_txn_of o o1 -> for_each o1 true decs = Ok (o2, vis, w) -> in_txn_of o o2.
Proof.
  intros H1 H. unfold for_each in H.
  apply (traverse_preserves (in_txn_of o) true) in H; [assumption| |assumption].
  intros oa m ob r w1 Ha Hm. unfold do_mut in Hm.
  destruct (txn_mutate oa m) as [[oc rc]|] eqn:E; [|discriminate]. injection Hm as <- <- <-.
  eapply txn_mutate_in_txn_of; eassumption.
Qed.

Lemma abandon_no_txn g body :
  cur_txn (g_o g) = None -> forallb is_txn_op body = true -> grun g (body ++ [OTDrop]) = g.
Proof.
  intros Ht. induction body as [|x body IH]; intro Hb.
  - cbn [app grun]. unfold gstep. rewrite Ht. reflexivity.
  - cbn [forallb] in Hb. apply andb_prop in Hb as [Hx Hb]. cbn [app grun].
    destruct x; try discriminate; unfold gstep; unfold txn_mutate; rewrite Ht; apply IH; assumption.
Qed.

Lemma abandon_in_txn g : cur_txn (g_o g) = None -> forall body g1,
  in_txn_of (g_o g) (g_o g1) -> g_gh g1 = g_gh g -> g_app_ok g1 = g_app_ok g ->
  forallb is_txn_op body = true -> grun g1 (body ++ [OTDrop]) = g.
Proof.
  intros Ht. induction body as [|x body IH]; intros g1 Ho Hgh Hok Hb.
  - cbn [app grun]. unfold gstep. destruct Ho as [t Ho]. rewrite Ho. cbn [cur_txn with_txn].
    rewrite Hgh, Hok. destruct g as [o ghs ok]. destruct o. cbn in *. subst. reflexivity.
  - cbn [forallb] in Hb. apply andb_prop in Hb as [Hx Hb]. cbn [app grun].
    destruct x; try discriminate; unfold gstep.
    + destruct (txn_mutate (g_o g1) m) as [[o2 r]|] eqn:E.
      * apply IH; try assumption. cbn [g_o]. eapply txn_mutate_in_txn_of; eassumption.
      * apply IH; assumption.
    + destruct (cur_txn (g_o g1)); [|apply IH; assumption].
      destruct (for_each (g_o g1) true decs) as [[[o2 vis] w]|] eqn:E.
      * apply IH; try assumption. cbn [g_o]. eapply for_each_in_txn_of; eassumption.
      * apply IH; assumption.
    + destruct (cur_txn (g_o g1)) eqn:E1; [|apply IH; assumption].
      apply IH; try assumption. cbn [g_o]. destruct Ho as [t' Ho]. rewrite Ho.
      unfold txn_rollback. cbn [cur_txn with_txn values]. eexists. reflexivity.
Qed.

(* the unconditional form: when the vector is already gone the begin itself (and then every
   operation of the body, and the drop) panics and is skipped *)
Lemma txn_abandon_is_identity_always g body :
  cur_txn (g_o g) = None -> forallb is_txn_op body = true ->
  grun g (OTxnBegin :: body ++ [OTDrop]) = g.
Proof.
  intros Ht Hb. cbn [grun]. unfold gstep. rewrite Ht.
  destruct (alive (g_o g)) eqn:Eal; cbn [negb orb].
  - apply (abandon_in_txn g Ht); try reflexivity; [|assumption].
    cbn [g_o]. eexists. reflexivity.
  - apply abandon_no_txn; assumption.
Qed.

(* abandoning a transaction at any point - dropped, or dropped after any number of (partial)
   rollbacks - leaves the whole state (contents, channel, every subscriber) as it was *)
Theorem txn_abandon_is_identity g body :
  cur_txn (g_o g) = None -> forallb is_txn_op body = true ->
  grun g (OTxnBegin :: body ++ [OTDrop]) = g \/ alive (g_o g) = false.
Proof. intros Ht Hb. left. apply txn_abandon_is_identity_always; assumption. Qed.

(* ---------------- set_nth, wake ---------------- *)
Lemma length_set_nth {X} k (x : X) l : length (set_nth k x l) = length l.
Proof. revert k; induction l as [|y l IH]; intros [|k]; cbn [set_nth length]; auto. Qed.

Lemma nth_error_set_nth_eq {X} k (x : X) l : k < length l -> nth_error (set_nth k x l) k = Some x.
Proof.
  revert k; induction l as [|y l IH]; intros [|k] H; cbn [set_nth length nth_error] in *; try lia; auto.
  apply IH; lia.
Qed.

Lemma nth_error_set_nth_neq {X} k j (x : X) l : j <> k -> nth_error (set_nth k x l) j = nth_error l j.
Proof.
  revert k j; induction l as [|y l IH]; intros [|k] [|j] H; cbn [set_nth nth_error]; try reflexivity; try lia.
  apply IH; lia.
Qed.

Lemma in_combine_seq {X} (l : list X) a k x :
  nth_error l k = Some x -> In (a + k, x) (combine (seq a (length l)) l).
Proof.
  revert a k; induction l as [|y l IH]; intros a [|k] H; cbn [nth_error] in H; try discriminate.
  - injection H as ->. cbn [length seq combine]. left. f_equal. lia.
  - cbn [length seq combine]. right. replace (a + S k) with (S a + k) by lia. apply IH; assumption.
Qed.

Lemma waiting_ids_in (ss : list (option (sub A))) k s :
  nth_error ss k = Some (Some s) -> sb_waiting s = true -> In k (waiting_ids ss).
Proof.
  intros H Hw. unfold waiting_ids.
  apply (in_map fst _ (k, Some s)). apply filter_In. split; [|exact Hw].
  apply (in_combine_seq ss 0 k). assumption.
Qed.

(* dropping the vector wakes every subscriber whose last poll answered Pending *)
Lemma drop_vec_wakes o k s :
  nth_error (subs o) k = Some (Some s) -> sb_waiting s = true -> In k (snd (drop_vec o)).
Proof. intros. cbn [drop_vec snd]. eapply waiting_ids_in; eassumption. Qed.

(* ... and so does every published message *)
Lemma send_wakes o msg0 k s :
  0 < rx_cnt o -> nth_error (subs o) k = Some (Some s) -> sb_waiting s = true -> In k (snd (send o msg0)).
Proof.
  intros Hr H Hw. unfold send. destruct (Nat.eqb_spec (rx_cnt o) 0); [lia|].
  cbn [snd]. eapply waiting_ids_in; eassumption.
Qed.

Lemma poll_plain_pending lg c cl (s s' : sub A) :
  poll_plain lg c cl s = Ok (s', Pending) -> sb_waiting s' = true.
Proof.
  unfold poll_plain. destruct (sb_state s) as [|[|d rest]]; try discriminate.
  destruct (try_recv lg c cl (sb_next s)) as [[m| | |] n].
  - destruct (m_many m); destruct (m_diffs m) as [|d [|d' rest]]; discriminate.
  - intro H; injection H as <-. reflexivity.
  - discriminate.
  - destruct (handle_lag _ lg c cl n None) as [[r|] n']; discriminate.
Qed.

Lemma poll_batched_pending lg c cl (s s' : sub A) :
  poll_batched lg c cl s = Ok (s', Pending) -> sb_waiting s' = true.
Proof.
  unfold poll_batched.
  destruct (try_recv lg c cl (sb_next s)) as [[m| | |] n].
  - destruct (batch_loop _ lg c cl n (m_diffs m)) as [[r|] n']; discriminate.
  - intro H; injection H as <-. reflexivity.
  - discriminate.
  - destruct (handle_lag _ lg c cl n None) as [[r|] n']; discriminate.
Qed.

(* a poll that answers Pending leaves the subscriber registered as waiting *)
Lemma pending_registers o k o' :
  poll_sub o k = Ok (o', Pending) ->
  exists s', nth_error (subs o') k = Some (Some s') /\ sb_waiting s' = true.
Proof.
  unfold poll_sub. destruct (nth_error (subs o) k) as [[s|]|] eqn:E; try discriminate.
  pose proof (nth_error_some_lt _ _ _ E) as Hk.
  destruct (sb_batched s);
    [destruct (poll_batched _ _ _ s) as [[s' r]|] eqn:E2|destruct (poll_plain _ _ _ s) as [[s' r]|] eqn:E2];
    try discriminate; intro H; injection H as <- ->; exists s'; cbn [subs with_subs];
    (split; [apply nth_error_set_nth_eq; assumption|]).
  - eapply poll_batched_pending; eassumption.
  - eapply poll_plain_pending; eassumption.
Qed.

(* ---------------- the channel ---------------- *)
Lemma skipn_nth_cons {X} (l : list X) n x : nth_error l n = Some x -> skipn n l = x :: skipn (S n) l.
Proof.
  revert n; induction l as [|y l IH]; intros [|n] H; cbn [nth_error] in H; try discriminate.
  - injection H as ->. reflexivity.
  - change (skipn (S n) (y :: l)) with (skipn n l). rewrite (IH n H). reflexivity.
Qed.

Lemma try_recv_end (lg : list (msg A)) c cl :
  try_recv lg c cl (length lg) = ((if cl then TClosed else TEmpty), length lg).
Proof. unfold try_recv. rewrite Nat.eqb_refl. reflexivity. Qed.

Lemma try_recv_window (lg : list (msg A)) c cl n :
  n < length lg -> length lg - n <= c ->
  exists m : msg A, nth_error lg n = Some m /\ try_recv lg c cl n = (TOk m, S n).
Proof.
  intros H1 H2. unfold try_recv.
  destruct (Nat.eqb_spec n (length lg)); [lia|].
  destruct (Nat.leb_spec (length lg - n) c); [|lia].
  destruct (nth_error lg n) as [m|] eqn:E; [eauto|]. apply nth_error_None in E. lia.
Qed.

Lemma try_recv_lagged (lg : list (msg A)) c cl n :
  c < length lg - n -> try_recv lg c cl n = (TLagged, length lg - c).
Proof.
  intros H. unfold try_recv.
  destruct (Nat.eqb_spec n (length lg)); [lia|].
  destruct (Nat.leb_spec (length lg - n) c); [lia|]. reflexivity.
Qed.

Lemma handle_lag_drain (lg : list (msg A)) c cl : forall fuel n last (m : msg A),
  n <= length lg -> length lg - n <= c -> length lg - n < fuel ->
  (if n <? length lg then back lg else last) = Some m ->
  handle_lag fuel lg c cl n last = (Ok (Some (m_state m)), length lg).
Proof.
  induction fuel as [|f IH]; intros n last m H1 H2 H3 H4; [lia|]. cbn [handle_lag].
  destruct (Nat.ltb_spec n (length lg)) as [Hlt|Hge].
  - destruct (try_recv_window lg c cl n Hlt H2) as (m' & E1 & ->).
    apply IH; try lia.
    destruct (Nat.ltb_spec (S n) (length lg)); [assumption|].
    rewrite <- H4, <- E1. unfold back. f_equal. lia.
  - assert (n = length lg) as -> by lia. rewrite try_recv_end. subst last.
    destruct cl; reflexivity.
Qed.

Lemma handle_lag_after_lag (lg : list (msg A)) c cl n (m : msg A) :
  1 <= c -> c < length lg - n -> back lg = Some m ->
  handle_lag (S (S (length lg))) lg c cl (length lg - c) None = (Ok (Some (m_state m)), length lg).
Proof.
  intros H1 H2 H3. apply handle_lag_drain; try lia.
  destruct (Nat.ltb_spec (length lg - c) (length lg)); [assumption|lia].
Qed.

Definition all_diffs (l : list (msg A)) : list (diff A) := concat (map (@m_diffs A) l).

Lemma batch_loop_window (lg : list (msg A)) c cl : forall fuel n batch,
  n <= length lg -> length lg - n <= c -> length lg - n < fuel ->
  batch_loop fuel lg c cl n batch = (Ok (Some (batch ++ all_diffs (skipn n lg))), length lg).
Proof.
  induction fuel as [|f IH]; intros n batch H1 H2 H3; [lia|]. cbn [batch_loop].
  destruct (Nat.ltb_spec n (length lg)) as [Hlt|Hge].
  - destruct (try_recv_window lg c cl n Hlt H2) as (m' & E1 & ->).
    rewrite IH by lia. rewrite (skipn_nth_cons _ _ _ E1). unfold all_diffs.
    cbn [map concat]. rewrite app_assoc. reflexivity.
  - assert (n = length lg) as -> by lia. rewrite try_recv_end, skipn_all.
    unfold all_diffs. cbn [map concat]. rewrite app_nil_r. destruct cl; reflexivity.
Qed.

(* ---------------- one poll, case by case ---------------- *)
Definition yield_state (rest : list (diff A)) : sstate A :=
  match rest with [] => SRecv | _ :: _ => SYield rest end.

Inductive poll_case o (s : sub A) : sub A -> poll (option (item A)) -> Prop :=
| pc_yield d rest' :
    sb_state s = SYield (d :: rest') -> sb_batched s = false ->
    poll_case o s {| sb_next := sb_next s; sb_batched := false; sb_state := yield_state rest';
                     sb_waiting := false |} (Ready (Some (IDiff d)))
| pc_empty :
    sb_state s = SRecv -> sb_next s = length (log o) -> alive o = true ->
    poll_case o s {| sb_next := sb_next s; sb_batched := sb_batched s; sb_state := SRecv;
                     sb_waiting := true |} Pending
| pc_closed :
    sb_state s = SRecv -> sb_next s = length (log o) -> alive o = false ->
    poll_case o s {| sb_next := sb_next s; sb_batched := sb_batched s; sb_state := SRecv;
                     sb_waiting := false |} (Ready None)
| pc_lag :
    sb_state s = SRecv -> cap2 o < length (log o) - sb_next s ->
    poll_case o s {| sb_next := length (log o); sb_batched := sb_batched s; sb_state := SRecv;
                     sb_waiting := false |}
              (Ready (Some (if sb_batched s then IBatch [Reset (values o)] else IDiff (Reset (values o)))))
| pc_plain (m : msg A) d rest :
    sb_state s = SRecv -> sb_batched s = false -> sb_next s < length (log o) ->
    length (log o) - sb_next s <= cap2 o ->
    nth_error (log o) (sb_next s) = Some m -> m_diffs m = d :: rest ->
    poll_case o s {| sb_next := S (sb_next s); sb_batched := false; sb_state := yield_state rest;
                     sb_waiting := false |} (Ready (Some (IDiff d)))
| pc_batch :
    sb_state s = SRecv -> sb_batched s = true -> sb_next s < length (log o) ->
    length (log o) - sb_next s <= cap2 o ->
    all_diffs (skipn (sb_next s) (log o)) <> [] ->
    poll_case o s {| sb_next := length (log o); sb_batched := true; sb_state := SRecv;
                     sb_waiting := false |}
              (Ready (Some (IBatch (all_diffs (skipn (sb_next s) (log o)))))).

Lemma forall_nth_error {X} (P : X -> Prop) l n x : Forall P l -> nth_error l n = Some x -> P x.
Proof. intros H E. rewrite Forall_forall in H. apply H. eapply nth_error_In; eassumption. Qed.

Lemma poll_char o s gh :
  1 <= cap2 o -> Forall msg_wf (log o) -> sub_inv o s gh ->
  exists s' r,
    (if sb_batched s then poll_batched else poll_plain) (log o) (cap2 o) (negb (alive o)) s = Ok (s', r) /\
    poll_case o s s' r.
Proof.
  intros Hc Hwf (H1 & H2 & H3 & H4 & H5 & H6).
  destruct (sb_state s) as [|rest] eqn:Est.
  - (* SRecv *)
    destruct (Nat.eq_dec (sb_next s) (length (log o))) as [Heq|Hne].
    + (* at the tail *)
      destruct (alive o) eqn:Eal.
      * eexists; exists Pending. split; [|apply pc_empty; assumption].
        destruct (sb_batched s); unfold poll_batched, poll_plain; rewrite ?Est, Heq, try_recv_end; reflexivity.
      * eexists; exists (Ready None). split; [|apply pc_closed; assumption].
        destruct (sb_batched s); unfold poll_batched, poll_plain; rewrite ?Est, Heq, try_recv_end; reflexivity.
    + assert (Hlt : sb_next s < length (log o)) by lia.
      destruct (Nat.le_gt_cases (length (log o) - sb_next s) (cap2 o)) as [Hw|Hl].
      * (* in the window *)
        destruct (try_recv_window (log o) (cap2 o) (negb (alive o)) _ Hlt Hw) as (m & E1 & E2).
        pose proof (forall_nth_error _ _ _ _ Hwf E1) as (Hne0 & Hone & Hnr).
        destruct (sb_batched s) eqn:Eb.
        -- eexists; eexists; split; [|apply pc_batch; try assumption].
           ++ unfold poll_batched. rewrite E2, batch_loop_window by lia.
              rewrite (skipn_nth_cons _ _ _ E1). reflexivity.
           ++ rewrite (skipn_nth_cons _ _ _ E1). unfold all_diffs. cbn [map concat].
              destruct (m_diffs m); [congruence|discriminate].
        -- destruct (m_diffs m) as [|d rest] eqn:Ed; [congruence|].
           eexists; eexists; split; [|eapply pc_plain; eassumption].
           unfold poll_plain. rewrite Est, E2, Ed.
           destruct (m_many m).
           ++ destruct rest; reflexivity.
           ++ specialize (Hone eq_refl). destruct rest; [reflexivity|cbn [length] in Hone; lia].
      * (* lagged *)
        destruct (H4 Hlt) as (ml & Eb & Ev).
        pose proof (try_recv_lagged (log o) (cap2 o) (negb (alive o)) _ Hl) as E1.
        pose proof (handle_lag_after_lag (log o) (cap2 o) (negb (alive o)) _ ml Hc Hl Eb) as E2.
        eexists; eexists; split; [|apply pc_lag; assumption].
        destruct (sb_batched s); unfold poll_batched, poll_plain; rewrite ?Est, E1, E2, Ev; reflexivity.
  - (* SYield *)
    destruct H5 as (Hr & Hb). destruct rest as [|d rest']; [congruence|].
    eexists; eexists; split; [|eapply pc_yield; eassumption].
    rewrite Hb. unfold poll_plain. rewrite Est. reflexivity.
Qed.

(* ---------------- the strengthening: a stream that is handing out a batch ---------------- *)
Definition nonreset (d : diff A) : bool := negb (is_reset d).

Definition yield_ok (s : sub A) (gh : ghost A) : Prop :=
  match sb_state s with
  | SYield rest => (exists r, apply_all_ok rest (gh_replica gh) = Some r) /\
                   forallb (fun d => negb (is_reset d)) rest = true
  | SRecv => True
  end.

Definition lagb o (s : sub A) : bool :=
  match sb_state s with SYield _ => false | SRecv => cap2 o <? length (log o) - sb_next s end.

Definition deliver_gh (gh : ghost A) (ds : list (diff A)) (lag : bool) (r' : list A) : ghost A :=
  {| gh_replica := r'; gh_delivered := gh_delivered gh ++ ds; gh_start := gh_start gh;
     gh_lagged := gh_lagged gh || lag |}.

Lemma deliver_ok gh ds lag r' :
  apply_all_ok ds (gh_replica gh) = Some r' -> deliver gh ds lag = (deliver_gh gh ds lag r', true).
Proof. intro H. unfold deliver. rewrite H. reflexivity. Qed.

Lemma existsb_forallb_contra (l : list (diff A)) :
  existsb is_reset l = true -> forallb (fun d => negb (is_reset d)) l = true -> False.
Proof.
  induction l as [|d l IH]; cbn [existsb forallb]; [discriminate|].
  intros H1 H2. apply andb_prop in H2 as [H2 H3]. apply orb_prop in H1 as [H1|H1].
  - rewrite H1 in H2. discriminate.
  - auto.
Qed.

Lemma all_diffs_cons (mg : msg A) l : all_diffs (mg :: l) = m_diffs mg ++ all_diffs l.
Proof. reflexivity. Qed.
Lemma all_diffs_app l1 l2 : all_diffs (l1 ++ l2) = all_diffs l1 ++ all_diffs l2.
Proof. unfold all_diffs. rewrite map_app, concat_app. reflexivity. Qed.

Lemma all_diffs_nonreset l :
  Forall msg_wf l -> forallb (fun d => negb (is_reset d)) (all_diffs l) = true.
Proof.
  induction 1 as [|mg l (_ & _ & H) _ IH]; [reflexivity|].
  rewrite all_diffs_cons, forallb_app, H, IH. reflexivity.
Qed.

Lemma Forall_skipn {X} (P : X -> Prop) n l : Forall P l -> Forall P (skipn n l).
Proof. intro H. rewrite <- (firstn_skipn n l) in H. apply Forall_app in H as [_ H]. exact H. Qed.

Lemma yield_state_rest rest :
  match yield_state rest with SYield r => r | SRecv => [] end = rest.
Proof. destruct rest; reflexivity. Qed.

Lemma sub_pending_eq o s :
  sub_pending o s = match sb_state s with SYield rest => rest | SRecv => [] end
                      ++ all_diffs (skipn (sb_next s) (log o)).
Proof. reflexivity. Qed.

(* apply_all_ok of a cons that succeeds *)
Lemma aao_cons_inv (d : diff A) ds l r :
  apply_all_ok (d :: ds) l = Some r ->
  exists l1, ok_in d l = true /\ apply d l = Some l1 /\ apply_all_ok ds l1 = Some r.
Proof.
  cbn [apply_all_ok]. destruct (ok_in d l); [|discriminate].
  destruct (apply d l) as [l1|]; [|discriminate]. cbn [obind]. eauto.
Qed.

Lemma aao_app_inv (ds1 ds2 : list (diff A)) l r :
  apply_all_ok (ds1 ++ ds2) l = Some r ->
  exists l1, apply_all_ok ds1 l = Some l1 /\ apply_all_ok ds2 l1 = Some r.
Proof.
  rewrite apply_all_ok_app. destruct (apply_all_ok ds1 l) as [l1|]; [|discriminate]. cbn [obind]. eauto.
Qed.

Lemma aao_single (d : diff A) l l1 :
  ok_in d l = true -> apply d l = Some l1 -> apply_all_ok [d] l = Some l1.
Proof. intros H1 H2. cbn [apply_all_ok]. rewrite H1, H2. reflexivity. Qed.

Lemma poll_sem o s gh s' r :
  1 <= cap2 o -> Forall msg_wf (log o) -> sub_inv o s gh -> yield_ok s gh -> poll_case o s s' r ->
  match r with
  | Pending =>
      alive o = true /\ gh_replica gh = values o /\
      (gh_lagged gh = false -> gh_delivered gh = all_diffs (skipn (gh_start gh) (log o))) /\
      sub_inv o s' gh /\ yield_ok s' gh
  | Ready None => alive o = false /\ gh_replica gh = values o /\ sub_inv o s' gh /\ yield_ok s' gh
  | Ready (Some it) =>
      exists r', apply_all_ok (item_diffs it) (gh_replica gh) = Some r' /\
        sub_inv o s' (deliver_gh gh (item_diffs it) (lagb o s) r') /\
        yield_ok s' (deliver_gh gh (item_diffs it) (lagb o s) r') /\
        (existsb is_reset (item_diffs it) = true ->
           lagb o s = true /\ item_diffs it = [Reset (values o)]) /\
        (match it with IBatch _ => r' = values o | IDiff _ => True end) /\
        item_diffs it <> []
  end.
Proof.
  intros Hc Hwf (H1 & H2 & H3 & H4 & H5 & H6) Hy Hcase.
  rewrite sub_pending_eq in H3, H6. unfold lagb.
  destruct Hcase as [d rest' Est Eb | Est En Eal | Est En Eal | Est Hl | mg d rest Est Eb Hlt Hw En Ed
                     | Est Eb Hlt Hw Hne ]; rewrite Est in *.
  - (* yield *)
    unfold yield_ok in Hy. rewrite Est in Hy. destruct Hy as ((r0 & Hy1) & Hy2).
    apply aao_cons_inv in Hy1 as (r1 & Hok & Hap & Hy1).
    exists r1. cbn [item_diffs]. split; [apply aao_single; assumption|].
    split; [|split; [|split; [|split; [exact I|discriminate]]]].
    + unfold sub_inv. rewrite sub_pending_eq. cbn [sb_next sb_state sb_batched deliver_gh gh_replica gh_delivered gh_start gh_lagged].
      rewrite yield_state_rest.
      split; [assumption|]. split; [assumption|]. split; [|split; [assumption|split]].
      * intro Hwin. specialize (H3 Hwin). cbn [app] in H3. rewrite (aao_cons _ _ _ _ Hok Hap) in H3. exact H3.
      * destruct rest'; cbn [yield_state]; [exact I|split; [discriminate|reflexivity]].
      * rewrite orb_false_r. intro Hnl. rewrite <- (H6 Hnl), <- !app_assoc. reflexivity.
    + unfold yield_ok. cbn [sb_state deliver_gh gh_replica]. cbn [forallb] in Hy2. apply andb_prop in Hy2 as [_ Hy2].
      destruct rest'; cbn [yield_state]; [exact I|]. split; [eauto|assumption].
    + intro Hex. exfalso. cbn [existsb] in Hex. cbn [forallb] in Hy2. apply andb_prop in Hy2 as [Hy2 _].
      rewrite orb_false_r in Hex. rewrite Hex in Hy2. discriminate.
  - (* empty *)
    assert (Hp : all_diffs (skipn (sb_next s) (log o)) = []) by (rewrite En, skipn_all; reflexivity).
    rewrite Hp in *. cbn [app] in *.
    split; [assumption|]. split; [|split; [|split]].
    + specialize (H3 ltac:(lia)). cbn [apply_all_ok] in H3. congruence.
    + intro Hnl. specialize (H6 Hnl). rewrite app_nil_r in H6. exact H6.
    + unfold sub_inv. rewrite sub_pending_eq. cbn [sb_next sb_state sb_batched]. rewrite Hp.
      repeat split; try assumption; intros; lia.
    + exact I.
  - (* closed *)
    assert (Hp : all_diffs (skipn (sb_next s) (log o)) = []) by (rewrite En, skipn_all; reflexivity).
    rewrite Hp in *. cbn [app] in *.
    split; [assumption|]. split; [|split].
    + specialize (H3 ltac:(lia)). cbn [apply_all_ok] in H3. congruence.
    + unfold sub_inv. rewrite sub_pending_eq. cbn [sb_next sb_state sb_batched]. rewrite Hp.
      repeat split; try assumption; intros; lia.
    + exact I.
  - (* lag *)
    exists (values o).
    assert (Hd : item_diffs (if sb_batched s then IBatch [Reset (values o)] else IDiff (Reset (values o)))
                 = [Reset (values o)]) by (destruct (sb_batched s); reflexivity).
    rewrite Hd. split; [reflexivity|].
    apply Nat.ltb_lt in Hl. rewrite Hl.
    split; [|split; [exact I|split; [auto|split; [destruct (sb_batched s); auto|discriminate]]]].
    unfold sub_inv. rewrite sub_pending_eq. cbn [sb_next sb_state sb_batched deliver_gh gh_replica gh_delivered gh_start gh_lagged].
    rewrite skipn_all. cbn [all_diffs map concat app].
    split; [lia|]. split; [lia|]. split; [reflexivity|]. split; [lia|]. split; [exact I|].
    rewrite orb_true_r. discriminate.
  - (* plain *)
    rewrite (skipn_nth_cons _ _ _ En), all_diffs_cons, Ed in H3, H6. cbn [app] in H3, H6.
    specialize (H3 Hw). apply aao_cons_inv in H3 as (r1 & Hok & Hap & H3).
    pose proof (forall_nth_error _ _ _ _ Hwf En) as (_ & _ & Hnr). rewrite Ed in Hnr.
    cbn [forallb] in Hnr. apply andb_prop in Hnr as [Hnr1 Hnr2].
    exists r1. cbn [item_diffs]. split; [apply aao_single; assumption|].
    destruct (Nat.ltb_spec (cap2 o) (length (log o) - sb_next s)) as [?|_]; [lia|].
    split; [|split; [|split; [|split; [exact I|discriminate]]]].
    + unfold sub_inv. rewrite sub_pending_eq. cbn [sb_next sb_state sb_batched deliver_gh gh_replica gh_delivered gh_start gh_lagged].
      rewrite yield_state_rest.
      split; [lia|]. split; [lia|]. split; [intros _; exact H3|]. split; [intros _; apply H4; assumption|split].
      * destruct rest; cbn [yield_state]; [exact I|split; [discriminate|reflexivity]].
      * rewrite orb_false_r. intro Hnl. rewrite <- (H6 Hnl), <- !app_assoc. reflexivity.
    + unfold yield_ok. cbn [sb_state deliver_gh gh_replica].
      destruct rest as [|d2 rest]; cbn [yield_state]; [exact I|]. split; [|assumption].
      apply aao_app_inv in H3 as (l1 & H3 & _). eauto.
    + intro Hex. exfalso. cbn [existsb] in Hex. rewrite orb_false_r in Hex. rewrite Hex in Hnr1. discriminate.
  - (* batch *)
    cbn [app] in H3, H6. specialize (H3 Hw).
    exists (values o). cbn [item_diffs]. split; [assumption|].
    destruct (Nat.ltb_spec (cap2 o) (length (log o) - sb_next s)) as [?|_]; [lia|].
    split; [|split; [exact I|split; [|split; [reflexivity|assumption]]]].
    + unfold sub_inv. rewrite sub_pending_eq. cbn [sb_next sb_state sb_batched deliver_gh gh_replica gh_delivered gh_start gh_lagged].
      rewrite skipn_all. cbn [all_diffs map concat app].
      split; [lia|]. split; [lia|]. split; [reflexivity|]. split; [lia|]. split; [exact I|].
      rewrite orb_false_r, app_nil_r. exact H6.
    + intro Hex. exfalso. eapply existsb_forallb_contra; [exact Hex|].
      apply all_diffs_nonreset, Forall_skipn, Hwf.
Qed.

(* ---------------- the strengthened invariant ---------------- *)
Definition sub_inv_s o (s : sub A) (gh : ghost A) : Prop := sub_inv o s gh /\ yield_ok s gh.

Definition oinv o (ghs : list (ghost A)) : Prop :=
  length ghs = length (subs o) /\ 1 <= cap2 o /\ Forall msg_wf (log o) /\ txn_inv o /\
  forall k s gh, nth_error (subs o) k = Some (Some s) -> nth_error ghs k = Some gh -> sub_inv_s o s gh.

(* ginv plus: a stream in the middle of handing out a Many message holds only non-Reset diffs that
   are applicable to its replica - also when it has meanwhile fallen out of the window *)
Definition ginv_strong g : Prop := g_app_ok g = true /\ oinv (g_o g) (g_gh g).

Lemma ginv_strong_ginv g : ginv_strong g -> ginv g.
Proof.
  intros (H0 & H1 & H2 & H3 & H4 & H5). unfold ginv.
  split; [assumption|]. split; [assumption|]. split; [assumption|]. split; [assumption|].
  split; [assumption|]. intros k s gh E1 E2. apply (H5 k s gh E1 E2).
Qed.

Lemma ginv_strong_iff g :
  ginv_strong g <->
  ginv g /\ forall k s gh, nth_error (subs (g_o g)) k = Some (Some s) -> nth_error (g_gh g) k = Some gh ->
                          yield_ok s gh.
Proof.
  split.
  - intro H. split; [apply ginv_strong_ginv; exact H|].
    destruct H as (_ & _ & _ & _ & _ & H5). intros k s gh E1 E2. apply (H5 k s gh E1 E2).
  - intros ((H0 & H1 & H2 & H3 & H4 & H5) & Hy). split; [assumption|].
    split; [assumption|]. split; [assumption|]. split; [assumption|]. split; [assumption|].
    intros k s gh E1 E2. split; [apply (H5 k s gh E1 E2)|apply (Hy k s gh E1 E2)].
Qed.

Lemma sub_inv_unfold o s gh :
  sub_inv o s gh =
  (sb_next s <= length (log o) /\
   gh_start gh <= sb_next s /\
   (length (log o) - sb_next s <= cap2 o ->
      apply_all_ok (match sb_state s with SYield rest => rest | SRecv => [] end
                      ++ all_diffs (skipn (sb_next s) (log o))) (gh_replica gh) = Some (values o)) /\
   (sb_next s < length (log o) -> exists mg : msg A, back (log o) = Some mg /\ m_state mg = values o) /\
   (match sb_state s with SYield rest => rest <> [] /\ sb_batched s = false | SRecv => True end) /\
   (gh_lagged gh = false ->
      gh_delivered gh ++ match sb_state s with SYield rest => rest | SRecv => [] end
                      ++ all_diffs (skipn (sb_next s) (log o))
      = all_diffs (skipn (gh_start gh) (log o)))).
Proof. reflexivity. Qed.

Lemma sis_ext o o' s gh :
  log o' = log o -> cap2 o' = cap2 o -> values o' = values o -> sub_inv_s o s gh -> sub_inv_s o' s gh.
Proof.
  intros E1 E2 E3 [H Hy]. split; [|exact Hy]. rewrite sub_inv_unfold in *. rewrite E1, E2, E3. exact H.
Qed.

Definition wake1 (s : sub A) : sub A :=
  {| sb_next := sb_next s; sb_batched := sb_batched s; sb_state := sb_state s; sb_waiting := false |}.

Lemma sis_wake o s gh : sub_inv_s o s gh -> sub_inv_s o (wake1 s) gh.
Proof. intros [H Hy]. split; assumption. Qed.

Lemma nth_error_wake_all ss k (s' : sub A) :
  nth_error (wake_all ss) k = Some (Some s') -> exists s, nth_error ss k = Some (Some s) /\ s' = wake1 s.
Proof.
  unfold wake_all. rewrite nth_error_map. destruct (nth_error ss k) as [[s|]|]; cbn [option_map]; try discriminate.
  intro H; injection H as <-. eauto.
Qed.

Lemma all_diffs_skipn_snoc (lg : list (msg A)) mg n :
  n <= length lg -> all_diffs (skipn n (lg ++ [mg])) = all_diffs (skipn n lg) ++ m_diffs mg.
Proof.
  intro H. rewrite skipn_app. replace (n - length lg) with 0 by lia.
  rewrite all_diffs_app. change (skipn 0 [mg]) with [mg]. rewrite all_diffs_cons.
  cbn [all_diffs map concat]. rewrite app_nil_r. reflexivity.
Qed.

Lemma sis_append o o' s gh (mg : msg A) :
  sub_inv_s o s gh -> log o' = log o ++ [mg] -> cap2 o' = cap2 o -> values o' = m_state mg ->
  apply_all_ok (m_diffs mg) (values o) = Some (m_state mg) -> sub_inv_s o' s gh.
Proof.
  intros [H Hy] E1 E2 E3 Hap. split; [|exact Hy]. rewrite sub_inv_unfold in *.
  destruct H as (H1 & H2 & H3 & H4 & H5 & H6). rewrite E1, E2, E3, app_length. cbn [length].
  rewrite !all_diffs_skipn_snoc by lia.
  split; [lia|]. split; [assumption|]. split; [|split; [|split; [assumption|]]].
  - intro Hw. rewrite app_assoc, apply_all_ok_app, H3 by lia. exact Hap.
  - intros _. exists mg. split; [apply back_app1|reflexivity].
  - intro Hnl. rewrite !app_assoc. rewrite <- (H6 Hnl), !app_assoc. reflexivity.
Qed.

Lemma rx_cnt_zero (ss : list (option (sub A))) k s :
  length (filter (fun s => match s with Some _ => true | None => false end) ss) = 0 ->
  nth_error ss k = Some (Some s) -> False.
Proof.
  intros H E. apply nth_error_In in E.
  assert (In (Some s) (filter (fun s => match s with Some _ => true | None => false end) ss))
    by (apply filter_In; split; [assumption|reflexivity]).
  destruct (filter _ ss); [contradiction|discriminate].
Qed.

Lemma rx_cnt_set_some (ss : list (option (sub A))) k s s' :
  nth_error ss k = Some (Some s) ->
  length (filter (fun s => match s with Some _ => true | None => false end) (set_nth k (Some s') ss))
  = length (filter (fun s => match s with Some _ => true | None => false end) ss).
Proof.
  revert k; induction ss as [|x ss IH]; intros [|k] E; cbn [nth_error] in E; try discriminate.
  - injection E as ->. reflexivity.
  - cbn [set_nth filter]. destruct x; cbn [length]; rewrite (IH k E); reflexivity.
Qed.

Lemma rx_cnt_set_none (ss : list (option (sub A))) k :
  length (filter (fun s => match s with Some _ => true | None => false end) (set_nth k None ss))
  <= length (filter (fun s => match s with Some _ => true | None => false end) ss).
Proof.
  revert k; induction ss as [|x ss IH]; intros [|k]; cbn [set_nth filter length]; try lia.
  - destruct x; cbn [length]; lia.
  - specialize (IH k). destruct x; cbn [length]; lia.
Qed.

Lemma nth_error_set_none (ss : list (option (sub A))) k j s :
  nth_error (set_nth k None ss) j = Some (Some s) -> nth_error ss j = Some (Some s).
Proof.
  destruct (Nat.eq_dec j k) as [->|Hne]; [|rewrite nth_error_set_nth_neq by assumption; auto].
  destruct (Nat.lt_ge_cases k (length ss)) as [Hlt|Hge].
  - rewrite nth_error_set_nth_eq by assumption. discriminate.
  - rewrite (proj2 (nth_error_None _ _)) by (rewrite length_set_nth; assumption). discriminate.
Qed.

Lemma set_nth_same {X} (l : list X) k x : nth_error l k = Some x -> set_nth k x l = l.
Proof.
  revert k; induction l as [|y l IH]; intros [|k] H; cbn [nth_error] in H; try discriminate; cbn [set_nth].
  - injection H as ->. reflexivity.
  - rewrite (IH k H). reflexivity.
Qed.

Lemma send_cur_txn o (mg : msg A) : cur_txn (fst (send o mg)) = cur_txn o.
Proof. unfold send. destruct (rx_cnt o =? 0); reflexivity. Qed.

(* --- generic ways to re-establish the invariant --- *)
Ltac osplit := split; [|split; [|split; [|split]]].
Lemma oinv_same o o' ghs :
  values o' = values o -> log o' = log o -> cap2 o' = cap2 o -> subs o' = subs o -> txn_inv o' ->
  oinv o ghs -> oinv o' ghs.
Proof.
  intros E1 E2 E3 E4 Ht (H1 & H2 & H3 & H4 & H5). unfold oinv. rewrite E2, E3, E4.
  osplit; try assumption. intros k s gh Ek Eg. eapply sis_ext; eauto.
Qed.

Lemma oinv_nosubs o' ghs :
  rx_cnt o' = 0 -> length ghs = length (subs o') -> 1 <= cap2 o' -> Forall msg_wf (log o') ->
  txn_inv o' -> oinv o' ghs.
Proof.
  intros Hz H1 H2 H3 H4. osplit; try assumption.
  intros k s gh Ek Eg. exfalso; eapply rx_cnt_zero; eassumption.
Qed.

Lemma txn_inv_none o : cur_txn o = None -> txn_inv o.
Proof. intro H. unfold txn_inv. rewrite H. exact I. Qed.

Lemma oinv_publish o o1 ghs (mg : msg A) :
  oinv o ghs -> values o1 = m_state mg -> log o1 = log o -> cap2 o1 = cap2 o -> subs o1 = subs o ->
  cur_txn o1 = None -> msg_wf mg ->
  (0 < rx_cnt o -> apply_all_ok (m_diffs mg) (values o) = Some (m_state mg)) ->
  oinv (fst (send o1 mg)) ghs.
Proof.
  intros (H1 & H2 & H3 & H4 & H5) E1 E2 E3 E4 E5 Hwf Hap.
  assert (Er : rx_cnt o1 = rx_cnt o) by (unfold rx_cnt; rewrite E4; reflexivity).
  unfold send. destruct (Nat.eqb_spec (rx_cnt o1) 0) as [Hz|Hnz]; cbn [fst].
  - apply oinv_nosubs; try congruence. apply txn_inv_none; assumption.
  - unfold oinv. cbn [subs log cap2].
    split; [unfold wake_all; rewrite map_length; congruence|].
    split; [congruence|]. split; [rewrite E2; apply Forall_app; split; [assumption|constructor; [assumption|constructor]]|].
    split; [apply txn_inv_none; assumption|].
    intros k s' gh Ek Eg. apply nth_error_wake_all in Ek as (s & Ek & ->). rewrite E4 in Ek.
    apply sis_wake. eapply sis_append; [eapply H5; eassumption|cbn [log]; rewrite E2; reflexivity
                                       |cbn [cap2]; assumption|cbn [values]; assumption|apply Hap; lia].
Qed.

Lemma oinv_update o ghs k s s' gh gh' :
  oinv o ghs -> nth_error (subs o) k = Some (Some s) -> nth_error ghs k = Some gh ->
  sub_inv_s o s' gh' -> oinv (with_subs o (set_nth k (Some s') (subs o))) (set_nth k gh' ghs).
Proof.
  intros (H1 & H2 & H3 & H4 & H5) Ek Eg Hs'. unfold oinv. cbn [subs with_subs log cap2].
  rewrite !length_set_nth. osplit; try assumption.
  - unfold txn_inv in *. cbn [cur_txn with_subs alive values]. destruct (cur_txn o) as [t|]; [|exact I].
    unfold rx_cnt in *. cbn [subs with_subs]. rewrite (rx_cnt_set_some _ _ _ s' Ek). exact H4.
  - intros j sj ghj Ej Egj.
    pose proof (nth_error_some_lt _ _ _ Ek). pose proof (nth_error_some_lt _ _ _ Eg).
    destruct (Nat.eq_dec j k) as [->|Hne].
    + rewrite nth_error_set_nth_eq in Ej by assumption. rewrite nth_error_set_nth_eq in Egj by assumption. injection Ej as <-. injection Egj as <-.
      eapply sis_ext; [..|exact Hs']; reflexivity.
    + rewrite nth_error_set_nth_neq in Ej by assumption. rewrite nth_error_set_nth_neq in Egj by assumption.
      eapply sis_ext; [..|eapply H5; eassumption]; reflexivity.
Qed.

(* --- the single operations --- *)
Lemma ovec_mutate_oinv o ghs m o' r w :
  oinv o ghs -> cur_txn o = None -> ovec_mutate o m = Ok (o', r, w) -> oinv o' ghs /\ cur_txn o' = None.
Proof.
  intros Hinv Ht. unfold ovec_mutate.
  destruct (mutate m (values o) false) as [[[v' r'] [d|]]|] eqn:Em; [| |discriminate];
    pose proof (mutate_coherent _ _ _ _ _ _ Em) as Hco.
  - destruct Hco as (Hok & Hap & Hnr). unfold broadcast_diff.
    destruct (send _ _) as [o2 wk] eqn:Es. intro H; injection H as <- <- <-.
    replace o2 with (fst (send (with_values o v') {| m_many := false; m_diffs := [d]; m_state := values (with_values o v') |}))
      by (rewrite Es; reflexivity).
    split; [|rewrite send_cur_txn; exact Ht].
    apply (oinv_publish o); try reflexivity; try assumption.
    + repeat split; [discriminate|]. cbn [m_diffs forallb]. rewrite Hnr. reflexivity.
    + intros _. apply aao_single; assumption.
  - destruct Hco as (-> & _). intro H; injection H as <- <- <-.
    split; [|exact Ht]. eapply oinv_same; [..|exact Hinv]; try reflexivity.
    apply txn_inv_none; exact Ht.
Qed.

Lemma txn_mutate_oinv o ghs m o' r :
  oinv o ghs -> txn_mutate o m = Ok (o', r) -> oinv o' ghs.
Proof.
  intros Hinv. pose proof Hinv as (_ & _ & _ & Htx & _). unfold txn_mutate, txn_inv in *.
  destruct (cur_txn o) as [t|]; [|discriminate]. destruct Htx as (Hal & Hb & Hnr).
  destruct (mutate m (tx_values t) true) as [[[v' r'] od]|] eqn:Em; [|discriminate].
  pose proof (mutate_coherent _ _ _ _ _ _ Em) as Hco.
  intro H; injection H as <- <-.
  eapply oinv_same; [..|exact Hinv]; try reflexivity.
  unfold txn_inv. cbn [cur_txn with_txn alive values tx_values tx_batch].
  change (rx_cnt (with_txn o _)) with (rx_cnt o).
  split; [assumption|].
  assert (Hm : m = MClear \/ (match m with MClear => [] | _ => tx_batch t end) = tx_batch t)
    by (destruct m; auto).
  destruct Hm as [->|Hm].
  - cbn [mutate] in Em. injection Em as <- <- <-.
    destruct (Nat.eqb_spec (rx_cnt o) 0); split; try reflexivity. intro; lia.
  - rewrite Hm. destruct od as [d|].
    + destruct Hco as (Hok & Hap & Hd).
      destruct (Nat.eqb_spec (rx_cnt o) 0) as [Hz|Hnz]; (split; [intro Hrx|]); try lia; try assumption.
      * rewrite apply_all_ok_app, (Hb Hrx). cbn [obind]. apply aao_single; assumption.
      * rewrite forallb_app, Hnr. cbn [forallb]. rewrite Hd. reflexivity.
    + destruct Hco as (-> & _). split; assumption.
Qed.

Lemma for_each_oinv o ghs decs o' vis w :
  oinv o ghs -> cur_txn o = None -> for_each o false decs = Ok (o', vis, w) -> oinv o' ghs.
Proof.
  intros Hinv Ht H. unfold for_each in H.
  apply (traverse_preserves (fun o => oinv o ghs /\ cur_txn o = None) false) in H; [tauto| |tauto].
  intros o1 m o2 r w1 [H1 H2] Hm. eapply ovec_mutate_oinv; eassumption.
Qed.

Lemma for_each_txn_oinv o ghs decs o' vis w :
  oinv o ghs -> for_each o true decs = Ok (o', vis, w) -> oinv o' ghs.
Proof.
  intros Hinv H. unfold for_each in H.
  apply (traverse_preserves (fun o => oinv o ghs) true) in H; [assumption| |assumption].
  intros o1 m o2 r w1 H1 Hm. unfold do_mut in Hm.
  destruct (txn_mutate o1 m) as [[o3 r3]|] eqn:E; [|discriminate]. injection Hm as <- <- <-.
  eapply txn_mutate_oinv; eassumption.
Qed.

Lemma subscribe_oinv o ghs b :
  oinv o ghs -> cur_txn o = None ->
  oinv (with_subs o (subs o ++ [Some {| sb_next := length (log o); sb_batched := b; sb_state := SRecv;
                                        sb_waiting := false |}]))
       (ghs ++ [{| gh_replica := values o; gh_delivered := []; gh_start := length (log o);
                   gh_lagged := false |}]).
Proof.
  intros (H1 & H2 & H3 & H4 & H5) Ht. unfold oinv. cbn [subs with_subs log cap2].
  rewrite !app_length. cbn [length].
  split; [lia|]. split; [assumption|]. split; [assumption|]. split; [apply txn_inv_none; exact Ht|].
  intros k s gh Ek Eg.
  destruct (Nat.lt_ge_cases k (length (subs o))) as [Hlt|Hge].
  - rewrite nth_error_app1 in Ek, Eg by lia.
    eapply sis_ext; [..|eapply H5; eassumption]; reflexivity.
  - rewrite nth_error_app2 in Ek, Eg by lia. rewrite H1 in Eg.
    destruct (k - length (subs o)) as [|j]; [|destruct j; discriminate].
    cbn [nth_error] in Ek, Eg. injection Ek as <-. injection Eg as <-.
    split; [|exact I]. rewrite sub_inv_unfold.
    cbn [sb_next sb_state sb_batched gh_replica gh_delivered gh_start gh_lagged with_subs log cap2 values].
    rewrite skipn_all. cbn [all_diffs map concat app].
    repeat split; try lia.
Qed.

Lemma drop_sub_oinv o ghs k : oinv o ghs -> oinv (drop_sub o k) ghs.
Proof.
  intros (H1 & H2 & H3 & H4 & H5). unfold oinv, drop_sub. cbn [subs with_subs log cap2].
  rewrite length_set_nth. osplit; try assumption.
  - unfold txn_inv in *. cbn [cur_txn with_subs alive values]. destruct (cur_txn o) as [t|]; [|exact I].
    destruct H4 as (Ha & Hb & Hc). repeat split; try assumption.
    intro Hrx. apply Hb. unfold rx_cnt in *. cbn [subs with_subs] in Hrx.
    pose proof (rx_cnt_set_none (subs o) k). lia.
  - intros j s gh Ej Eg. apply nth_error_set_none in Ej.
    eapply sis_ext; [..|eapply H5; eassumption]; reflexivity.
Qed.

Lemma txn_begin_oinv o ghs : oinv o ghs -> alive o = true -> oinv (txn_begin o) ghs.
Proof.
  intros Hinv Hal. eapply oinv_same; [..|exact Hinv]; try reflexivity.
  unfold txn_inv, txn_begin. cbn [cur_txn with_txn alive values tx_values tx_batch].
  repeat split; assumption.
Qed.

Lemma txn_rollback_oinv o ghs t : oinv o ghs -> cur_txn o = Some t -> oinv (txn_rollback o) ghs.
Proof.
  intros Hinv Ht. pose proof Hinv as (_ & _ & _ & Htx & _). unfold txn_inv in Htx. rewrite Ht in Htx.
  eapply oinv_same; [..|exact Hinv]; unfold txn_rollback; rewrite Ht; try reflexivity.
  unfold txn_inv. cbn [cur_txn with_txn alive values tx_values tx_batch].
  repeat split. tauto.
Qed.

Lemma txn_drop_oinv o ghs : oinv o ghs -> oinv (txn_drop o) ghs.
Proof.
  intros Hinv. eapply oinv_same; [..|exact Hinv]; try reflexivity; apply txn_inv_none; reflexivity.
Qed.

Lemma txn_commit_oinv o ghs t : oinv o ghs -> cur_txn o = Some t -> oinv (fst (txn_commit o)) ghs.
Proof.
  intros Hinv Ht. pose proof Hinv as (H1 & H2 & H3 & Htx & H5). unfold txn_inv in Htx. rewrite Ht in Htx.
  destruct Htx as (Hal & Hb & Hnr). unfold txn_commit. rewrite Ht.
  destruct (tx_batch t) as [|d b] eqn:Eb.
  - cbn [fst]. destruct (Nat.eq_dec (rx_cnt o) 0) as [Hz|Hnz].
    + apply oinv_nosubs; try assumption. apply txn_inv_none. reflexivity.
    + specialize (Hb ltac:(lia)). cbn [apply_all_ok] in Hb. injection Hb as Hb.
      eapply oinv_same; [..|exact Hinv]; try reflexivity; try (apply txn_inv_none; reflexivity); cbn; congruence.
  - apply (oinv_publish o); try reflexivity; try assumption.
    repeat split; [discriminate|discriminate|assumption].
Qed.

Lemma drop_vec_oinv o ghs : oinv o ghs -> oinv (fst (drop_vec o)) ghs.
Proof.
  intros (H1 & H2 & H3 & H4 & H5). unfold oinv, drop_vec. cbn [fst subs log cap2].
  unfold wake_all at 1. rewrite map_length. osplit; try assumption.
  - apply txn_inv_none. reflexivity.
  - intros k s' gh Ek Eg. apply nth_error_wake_all in Ek as (s & Ek & ->).
    apply sis_wake. eapply sis_ext; [..|eapply H5; eassumption]; reflexivity.
Qed.

(* ---------------- the invariant (C05 C06 C08) ---------------- *)
Lemma pow2_ge_spec fuel : forall n p, 1 <= p -> n <= p + fuel -> n <= pow2_ge fuel n p /\ 1 <= pow2_ge fuel n p.
Proof.
  induction fuel as [|f IH]; intros n p Hp Hn; cbn [pow2_ge]; [lia|].
  destruct (Nat.leb_spec n p); [lia|]. apply IH; lia.
Qed.

Lemma next_pow2_ge n : n <= next_pow2 n /\ 1 <= next_pow2 n.
Proof. unfold next_pow2. apply pow2_ge_spec; lia. Qed.

Theorem ginv_strong_init capacity : ginv_strong (@ginit A capacity).
Proof.
  unfold ginv_strong, ginit. cbn [g_app_ok g_o g_gh]. split; [reflexivity|].
  unfold ovec_new. osplit; cbn [subs log cap2]; try reflexivity.
  - apply next_pow2_ge.
  - constructor.
  - intros k s gh Ek. destruct k; discriminate.
Qed.

Theorem ginv_init capacity : ginv (@ginit A capacity).
Proof. apply ginv_strong_ginv, ginv_strong_init. Qed.

Lemma guard_false o :
  negb (alive o) || match cur_txn o with Some _ => true | None => false end = false ->
  alive o = true /\ cur_txn o = None.
Proof.
  intro H. apply orb_false_elim in H as [H1 H2]. apply negb_false_iff in H1.
  destruct (cur_txn o); [discriminate|auto].
Qed.

Lemma was_lagged_lagb o k s : nth_error (subs o) k = Some (Some s) -> was_lagged o k = lagb o s.
Proof. intro H. unfold was_lagged, lagb. rewrite H. reflexivity. Qed.

(* one poll at the level of histories *)
Lemma gstep_poll g k g' out :
  ginv_strong g -> gstep g (OPoll k) = Ok (g', out) ->
  exists s gh s' r gh',
    nth_error (subs (g_o g)) k = Some (Some s) /\ nth_error (g_gh g) k = Some gh /\
    sub_inv_s (g_o g) s gh /\ poll_case (g_o g) s s' r /\ out = VPoll r /\
    g' = {| g_o := with_subs (g_o g) (set_nth k (Some s') (subs (g_o g)));
            g_gh := set_nth k gh' (g_gh g); g_app_ok := true |} /\
    match r with
    | Ready (Some it) =>
        exists r', apply_all_ok (item_diffs it) (gh_replica gh) = Some r' /\
                   gh' = deliver_gh gh (item_diffs it) (lagb (g_o g) s) r'
    | _ => gh' = gh
    end.
Proof.
  intros (Hok & Hinv) H. pose proof Hinv as (H1 & H2 & H3 & H4 & H5).
  unfold gstep in H. destruct (poll_sub (g_o g) k) as [[o' r]|] eqn:Ep; [|discriminate].
  unfold poll_sub in Ep. destruct (nth_error (subs (g_o g)) k) as [[s|]|] eqn:Ek; try discriminate.
  assert (Hk : k < length (g_gh g)) by (rewrite H1; eapply nth_error_some_lt; eassumption).
  destruct (nth_error (g_gh g) k) as [gh|] eqn:Eg; [|apply nth_error_None in Eg; lia].
  pose proof (H5 k s gh Ek Eg) as [Hs Hy].
  destruct (poll_char (g_o g) s gh H2 H3 Hs) as (s' & r0 & Epoll & Hcase).
  rewrite Epoll in Ep. injection Ep as <- <-.
  pose proof (poll_sem _ _ _ _ _ H2 H3 Hs Hy Hcase) as Hsem.
  rewrite (was_lagged_lagb _ _ _ Ek) in H.
  destruct r0 as [[it|]|].
  - destruct Hsem as (r' & Hap & _). rewrite (deliver_ok _ _ _ _ Hap) in H.
    injection H as <- <-. rewrite Hok.
    exists s, gh, s', (Ready (Some it)), (deliver_gh gh (item_diffs it) (lagb (g_o g) s) r').
    split; [reflexivity|]. split; [reflexivity|]. split; [split; assumption|]. split; [assumption|]. split; [reflexivity|]. split; [reflexivity|]. exists r'. split; [assumption|reflexivity].
  - injection H as <- <-. exists s, gh, s', (Ready None), gh.
    rewrite (set_nth_same _ _ _ Eg), Hok. split; [reflexivity|]. split; [reflexivity|]. split; [split; assumption|]. split; [assumption|]. split; [reflexivity|]. split; [reflexivity|]. reflexivity.
  - injection H as <- <-. exists s, gh, s', Pending, gh.
    rewrite (set_nth_same _ _ _ Eg), Hok. split; [reflexivity|]. split; [reflexivity|]. split; [split; assumption|]. split; [assumption|]. split; [reflexivity|]. split; [reflexivity|]. reflexivity.
Qed.

Theorem ginv_strong_step g x g' out : ginv_strong g -> gstep g x = Ok (g', out) -> ginv_strong g'.
Proof.
  intros Hg H. pose proof Hg as (Hok & Hinv). destruct x.
  - (* OMut *) unfold gstep in H.
    destruct (negb _ || _) eqn:Eg; [discriminate|]. apply guard_false in Eg as [Hal Ht].
    destruct (ovec_mutate (g_o g) m) as [[[o' r] w]|] eqn:E; [|discriminate]. injection H as <- <-.
    split; [exact Hok|]. cbn [g_o g_gh]. eapply ovec_mutate_oinv; eassumption.
  - (* OEach *) unfold gstep in H.
    destruct (negb _ || _) eqn:Eg; [discriminate|]. apply guard_false in Eg as [Hal Ht].
    destruct (for_each (g_o g) false decs) as [[[o' r] w]|] eqn:E; [|discriminate]. injection H as <- <-.
    split; [exact Hok|]. cbn [g_o g_gh]. eapply for_each_oinv; eassumption.
  - (* OSub *) unfold gstep in H.
    destruct (negb _ || _) eqn:Eg; [discriminate|]. apply guard_false in Eg as [Hal Ht].
    unfold subscribe in H. injection H as <- <-.
    split; [exact Hok|]. cbn [g_o g_gh]. apply subscribe_oinv; assumption.
  - (* OPoll *)
    destruct (gstep_poll _ _ _ _ Hg H) as (s & gh & s' & r & gh' & Ek & Eg & [Hs Hy] & Hcase & -> & -> & Hgh).
    destruct Hinv as (H1 & H2 & H3 & H4 & H5).
    pose proof (poll_sem _ _ _ _ _ H2 H3 Hs Hy Hcase) as Hsem.
    split; [reflexivity|]. cbn [g_o g_gh].
    eapply oinv_update; try eassumption; [exact (conj H1 (conj H2 (conj H3 (conj H4 H5))))|].
    destruct r as [[it|]|].
    + destruct Hgh as (r' & Hap & ->). destruct Hsem as (r'' & Hap' & Hs' & Hy' & _).
      rewrite Hap in Hap'. injection Hap' as <-. split; assumption.
    + subst gh'. split; tauto.
    + subst gh'. split; tauto.
  - (* ODropSub *) unfold gstep in H. injection H as <- <-.
    split; [exact Hok|]. cbn [g_o g_gh]. apply drop_sub_oinv; assumption.
  - (* OTxnBegin *) unfold gstep in H.
    destruct (negb _ || _) eqn:Eg; [discriminate|]. apply guard_false in Eg as [Hal Ht].
    injection H as <- <-. split; [exact Hok|]. cbn [g_o g_gh]. apply txn_begin_oinv; assumption.
  - (* OTMut *) unfold gstep in H.
    destruct (txn_mutate (g_o g) m) as [[o' r]|] eqn:E; [|discriminate]. injection H as <- <-.
    split; [exact Hok|]. cbn [g_o g_gh]. eapply txn_mutate_oinv; eassumption.
  - (* OTEach *) unfold gstep in H.
    destruct (cur_txn (g_o g)) as [t|] eqn:Et; [|discriminate].
    destruct (for_each (g_o g) true decs) as [[[o' r] w]|] eqn:E; [|discriminate]. injection H as <- <-.
    split; [exact Hok|]. cbn [g_o g_gh]. eapply for_each_txn_oinv; eassumption.
  - (* OTRollback *) unfold gstep in H.
    destruct (cur_txn (g_o g)) as [t|] eqn:Et; [|discriminate]. injection H as <- <-.
    split; [exact Hok|]. cbn [g_o g_gh]. eapply txn_rollback_oinv; eassumption.
  - (* OTCommit *) unfold gstep in H.
    destruct (cur_txn (g_o g)) as [t|] eqn:Et; [|discriminate]. injection H as <- <-.
    split; [exact Hok|]. cbn [g_o g_gh]. eapply txn_commit_oinv; eassumption.
  - (* OTDrop *) unfold gstep in H.
    destruct (cur_txn (g_o g)) as [t|] eqn:Et; [|discriminate]. injection H as <- <-.
    split; [exact Hok|]. cbn [g_o g_gh]. apply txn_drop_oinv; assumption.
  - (* ODropVec *) unfold gstep in H.
    destruct (negb _ || _) eqn:Eg; [discriminate|]. injection H as <- <-.
    split; [exact Hok|]. cbn [g_o g_gh]. apply drop_vec_oinv; assumption.
Qed.

Theorem ginv_strong_run g xs : ginv_strong g -> ginv_strong (grun g xs).
Proof.
  revert g; induction xs as [|x xs IH]; intros g Hg; cbn [grun]; [assumption|].
  destruct (gstep g x) as [[g' out]|] eqn:E; apply IH; [|assumption].
  eapply ginv_strong_step; eassumption.
Qed.

(* every reachable state satisfies the (strengthened, hence also the original) invariant *)
Corollary ginv_strong_reachable capacity xs : ginv_strong (grun (@ginit A capacity) xs).
Proof. apply ginv_strong_run, ginv_strong_init. Qed.
Corollary ginv_reachable capacity xs : ginv (grun (@ginit A capacity) xs).
Proof. apply ginv_strong_ginv, ginv_strong_reachable. Qed.

(* CHANGED w.r.t. the paper statement: hypothesis [ginv_strong g] instead of [ginv g]; with plain
   [ginv] the statement is false (poll_meaning_fails_for_ginv below).  Every reachable state
   satisfies [ginv_strong] (ginv_strong_reachable). *)
(* what a poll's answer means, in any reachable state *)
Theorem poll_meaning g k g' r gh' :
  ginv_strong g -> gstep g (OPoll k) = Ok (g', VPoll r) -> nth_error (g_gh g') k = Some gh' ->
  match r with
  | Pending =>
      alive (g_o g) = true /\ gh_replica gh' = values (g_o g') /\
      (gh_lagged gh' = false ->
         gh_delivered gh' = concat (map (@m_diffs A) (skipn (gh_start gh') (log (g_o g')))))
  | Ready None =>
      alive (g_o g) = false /\ gh_replica gh' = values (g_o g')
  | Ready (Some it) =>
      (existsb is_reset (item_diffs it) = true ->
         was_lagged (g_o g) k = true /\ item_diffs it = [Reset (values (g_o g'))]) /\
      (match it with IBatch _ => gh_replica gh' = values (g_o g') | IDiff _ => True end) /\
      item_diffs it <> []
  end.
Proof.
  intros Hg H Egh'. pose proof Hg as (Hok & H1 & H2 & H3 & H4 & H5).
  destruct (gstep_poll _ _ _ _ Hg H) as (s & gh & s' & r0 & gh0 & Ek & Eg & [Hs Hy] & Hcase & Er & -> & Hgh).
  injection Er as <-.
  pose proof (poll_sem _ _ _ _ _ H2 H3 Hs Hy Hcase) as Hsem.
  cbn [g_gh g_o with_subs values log] in *.
  rewrite nth_error_set_nth_eq in Egh' by (eapply nth_error_some_lt; eassumption). injection Egh' as <-.
  rewrite (was_lagged_lagb _ _ _ Ek).
  destruct r as [[it|]|].
  - destruct Hgh as (r' & Hap & ->). destruct Hsem as (r'' & Hap' & _ & _ & Hr & Hb & Hne).
    rewrite Hap in Hap'. injection Hap' as <-. cbn [deliver_gh gh_replica].
    split; [assumption|]. split; [|assumption]. destruct it; [exact I|assumption].
  - subst gh0. tauto.
  - subst gh0. destruct Hsem as (Ha & Hb & Hc & _). auto.
Qed.

(* polling never panics on a live subscriber in a reachable state (the unreachable!()s, the
   expect() and the fuel of handle_lag / the batch loop) *)
Theorem poll_never_panics g k s :
  ginv g -> nth_error (subs (g_o g)) k = Some (Some s) -> gstep g (OPoll k) <> Panic.
Proof.
  intros (Hok & H1 & H2 & H3 & H4 & H5) Ek. unfold gstep, poll_sub. rewrite Ek.
  assert (Hk : k < length (g_gh g)) by (rewrite H1; eapply nth_error_some_lt; eassumption).
  destruct (nth_error (g_gh g) k) as [gh|] eqn:Eg; [|apply nth_error_None in Eg; lia].
  destruct (poll_char (g_o g) s gh H2 H3 (H5 k s gh Ek Eg)) as (s' & r & -> & _).
  destruct r as [[it|]|]; try discriminate.
  destruct (deliver _ _ _). discriminate.
Qed.

(* ---------------- why [ginv] had to be strengthened ----------------
   [ginv] (OVecRun.v) is NOT inductive, and [poll_meaning] does not follow from it: outside the
   window (and for a subscriber with gh_lagged = true) it says nothing about the diffs a plain
   stream still holds in its SYield state.  Both states below satisfy [ginv] but are unreachable. *)

(* a plain subscriber that has fallen out of the window (cap2 = 1, two messages behind) while
   "holding" [PopFront] for an empty replica: the next poll delivers an inapplicable diff *)
Definition cex_msg : msg A := {| m_many := false; m_diffs := [Clear]; m_state := [] |}.
Definition cex_sub (rest : list (diff A)) : sub A :=
  {| sb_next := 0; sb_batched := false; sb_state := SYield rest; sb_waiting := false |}.
Definition cex_gh : ghost A :=
  {| gh_replica := []; gh_delivered := []; gh_start := 0; gh_lagged := true |}.
Definition cex1 : gst A :=
  {| g_o := {| values := []; log := [cex_msg; cex_msg]; cap2 := 1; alive := true;
               subs := [Some (cex_sub [PopFront])]; cur_txn := None |};
     g_gh := [cex_gh]; g_app_ok := true |}.

Lemma cex1_ginv : ginv cex1.
Proof.
  unfold ginv, cex1. cbn [g_o g_gh g_app_ok subs log cap2 length].
  split; [reflexivity|]. split; [reflexivity|]. split; [lia|].
  split; [repeat constructor; cbn; try discriminate; reflexivity|].
  split; [exact I|].
  intros k s gh Ek Eg. destruct k as [|[|k]]; try discriminate.
  injection Ek as <-. injection Eg as <-.
  unfold sub_inv, sub_pending, cex_sub, cex_gh, cex_msg. cbn.
  split; [lia|]. split; [lia|]. split; [lia|]. split; [eauto|]. split; [split; [discriminate|reflexivity]|].
  discriminate.
Qed.

Lemma cex1_step :
  exists g', gstep cex1 (OPoll 0) = Ok (g', VPoll (Ready (Some (IDiff PopFront)))) /\ g_app_ok g' = false.
Proof. eexists. split; reflexivity. Qed.

(* hence the original statements [ginv_step] and [ginv_run] are false *)
Lemma ginv_not_inductive :
  ~ (forall g x g' out, ginv g -> gstep g x = Ok (g', out) -> ginv g').
Proof.
  intro H. destruct cex1_step as (g' & E & Hf).
  destruct (H _ _ _ _ cex1_ginv E) as (Hok & _). congruence.
Qed.

Lemma ginv_run_false : ~ (forall g xs, ginv g -> ginv (grun g xs)).
Proof.
  intro H. destruct cex1_step as (g' & E & Hf).
  specialize (H cex1 [OPoll 0] cex1_ginv). cbn [grun] in H. rewrite E in H.
  destruct H as (Hok & _). congruence.
Qed.

(* The original statements, kept for reference.  They are FALSE as stated (ginv_not_inductive,
   ginv_run_false); use ginv_strong_step / ginv_strong_run / ginv_reachable instead. *)
Theorem ginv_step g x g' out : ginv g -> gstep g x = Ok (g', out) -> ginv g'.
Proof. (* not provable: see ginv_not_inductive *) Abort.

Theorem ginv_run g xs : ginv g -> ginv (grun g xs).
Proof. (* not provable: see ginv_run_false *) Abort.

(* a lagged-once plain subscriber "holding" a Reset in its SYield state: the poll hands out a
   Reset although the subscriber is not behind at all *)
Definition cex2 : gst A :=
  {| g_o := {| values := []; log := []; cap2 := 1; alive := true;
               subs := [Some (cex_sub [Reset []])]; cur_txn := None |};
     g_gh := [cex_gh]; g_app_ok := true |}.

Lemma cex2_ginv : ginv cex2.
Proof.
  unfold ginv, cex2. cbn [g_o g_gh g_app_ok subs log cap2 length].
  split; [reflexivity|]. split; [reflexivity|]. split; [lia|]. split; [constructor|].
  split; [exact I|].
  intros k s gh Ek Eg. destruct k as [|[|k]]; try discriminate.
  injection Ek as <-. injection Eg as <-.
  unfold sub_inv, sub_pending, cex_sub, cex_gh. cbn.
  split; [lia|]. split; [lia|]. split; [reflexivity|]. split; [lia|]. split; [split; [discriminate|reflexivity]|].
  discriminate.
Qed.

Lemma poll_meaning_fails_for_ginv :
  exists g', gstep cex2 (OPoll 0) = Ok (g', VPoll (Ready (Some (IDiff (Reset []))))) /\
             was_lagged (g_o cex2) 0 = false.
Proof. eexists. split; reflexivity. Qed.

End OVecFacts.
