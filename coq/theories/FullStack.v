(* FullStack.v — the three crates wired together the way an application uses them:
     * an ObservableVector (eyeball-im; OVecRun.v: any history of mutators, traversals,
       transactions, subscriptions, polls of other subscribers, drops),
     * an Observable<usize> holding a limit / count (eyeball; Obs.v: any history of setters,
       other subscribers, clones, drops),
     * a dynamic adapter (eyeball-im-util; Head / Skip, or any adapter with a correct step and
       parameter function) created by `dynamic_*_with_initial_value(limit.get(), limit.subscribe())`
       on a fresh subscriber of the vector: its inner stream IS the plain stream of that
       subscriber (OVec.poll_sub), its limit stream IS the Subscriber of the observable
       (Obs.step (SPoll j)).
   The poll loop is head.rs:222-266 / skip.rs:238-285 (ChainPoll.gpoll, PollLoop.poll_u) with both
   inputs arbitrary state machines, so that registration of the caller's waker is a fact about
   the states of the two real leaves (sb_waiting of the vector's receiver, the waker list of the
   observable) and not about a scripted trace. *)
From EB Require Export Diff AdapterCore PollLoop OVec OVecRun Obs.

(* three-valued result: out of fuel is not a panic *)
Inductive res (X : Type) := RFuel | RPanic | ROk (x : X).
Arguments RFuel {X}. Arguments RPanic {X}. Arguments ROk {X} x.

Section Loop.
Context {I B St IS PS : Type}.
Variable on_diff : St -> I -> outcome (St * list (diff B)).
Variable on_param : St -> nat -> St * option (list (diff B)).
Variable inner : IS -> outcome (IS * poll (option I)).
Variable ppoll : PS -> outcome (PS * poll (option nat)).

(* while let Poll::Ready(Some(n)) = limit_stream.poll_next(cx) { if let Some(ds) = update(n) { return ds } } *)
Fixpoint fparams (fuel : nat) (st : St) (ps : PS) : res (St * PS * option (list (diff B))) :=
  match fuel with
  | 0 => RFuel
  | S f =>
      match ppoll ps with
      | Panic => RPanic
      | Ok (ps', Ready (Some n)) =>
          let '(st', o) := on_param st n in
          match o with
          | Some ds => ROk (st', ps', Some ds)
          | None => fparams f st' ps'
          end
      | Ok (ps', _) => ROk (st, ps', None)
      end
  end.

(* the body of `loop { .. }` once the ready buffer is known to be empty *)
Fixpoint floop (fuel : nat) (st : St) (is : IS) (ps : PS)
  : res (ustate (B:=B) (St:=St) * IS * PS * poll (option (diff B))) :=
  match fuel with
  | 0 => RFuel
  | S f =>
      match fparams fuel st ps with
      | RFuel => RFuel
      | RPanic => RPanic
      | ROk (st1, ps1, Some []) => ROk ({| u_st := st1; u_ready := [] |}, is, ps1, Ready None)
      | ROk (st1, ps1, Some (d :: ds)) => ROk ({| u_st := st1; u_ready := ds |}, is, ps1, Ready (Some d))
      | ROk (st1, ps1, None) =>
          match inner is with
          | Panic => RPanic
          | Ok (is1, Pending) => ROk ({| u_st := st1; u_ready := [] |}, is1, ps1, Pending)
          | Ok (is1, Ready None) => ROk ({| u_st := st1; u_ready := [] |}, is1, ps1, Ready None)
          | Ok (is1, Ready (Some d)) =>
              match on_diff st1 d with
              | Panic => RPanic
              | Ok (st2, []) => floop f st2 is1 ps1
              | Ok (st2, o :: outs) => ROk ({| u_st := st2; u_ready := outs |}, is1, ps1, Ready (Some o))
              end
          end
      end
  end.

Definition fpoll (fuel : nat) (s : ustate (B:=B) (St:=St)) (is : IS) (ps : PS)
  : res (ustate (B:=B) (St:=St) * IS * PS * poll (option (diff B))) :=
  match u_ready s with
  | o :: r => ROk ({| u_st := u_st s; u_ready := r |}, is, ps, Ready (Some o))
  | [] => floop fuel (u_st s) is ps
  end.

End Loop.

(* a scripted parameter queue (PollLoop / ChainPoll) as a parameter stream *)
Definition queue_param (q : list nat * bool) : outcome (list nat * bool * poll (option nat)) :=
  match fst q with
  | [] => Ok (q, if snd q then Ready None else Pending)
  | n :: rest => Ok ((rest, snd q), Ready (Some n))
  end.

Section Full.
Context {A St : Type}.
Variable veq heq : nat -> nat -> bool.
Variable vdefault : nat.
Variable on_diff : St -> diff A -> outcome (St * list (diff A)).
Variable on_param : St -> nat -> St * option (list (diff A)).
(* creation: initial limit and subscription snapshot -> adapter state and initial view *)
Variable init : nat -> list A -> St * list A.

(* the adapter as attached: which vector subscriber / limit subscriber it owns, its poll-loop
   state, and the view the consumer has rebuilt from the initial values and every item so far *)
Record attached := {
  a_k : nat; a_j : nat;
  a_u : ustate (B:=A) (St:=St);
  a_view : list A;
}.

Record fs := {
  f_g : gst A;                       (* the vector with its subscribers (and their ghosts) *)
  f_lim : obs nat;                   (* the limit observable *)
  f_ad : option attached;
  f_ok : bool;                       (* every item handed out so far was applicable to the view *)
}.

Definition fs_init (capacity : nat) (okd : kind) (limit0 : nat) : fs :=
  {| f_g := ginit capacity; f_lim := obs_new okd limit0; f_ad := None; f_ok := true |}.

(* the plain stream of vector subscriber k as the adapter's inner stream *)
Definition vinner (k : nat) (g : gst A) : outcome (gst A * poll (option (diff A))) :=
  match gstep g (OPoll k) with
  | Ok (g', VPoll Pending) => Ok (g', Pending)
  | Ok (g', VPoll (Ready None)) => Ok (g', Ready None)
  | Ok (g', VPoll (Ready (Some (IDiff d)))) => Ok (g', Ready (Some d))
  | _ => Panic
  end.

(* Subscriber j of the observable as the adapter's limit stream (Stream::poll_next) *)
Definition lpoll (j : nat) (o : obs nat) : outcome (obs nat * poll (option nat)) :=
  match Obs.step veq heq vdefault o (SPoll j) with
  | Ok (o', OPollR r, _) => Ok (o', r)
  | _ => Panic
  end.

Inductive fev :=
| FVec (x : OVecRun.op A)            (* any call on the vector side *)
| FLim (x : Obs.op nat)              (* any call on the limit observable's side *)
| FAttach                            (* subscribe to both and create the adapter *)
| FPoll (fuel : nat).                (* one poll_next of the adapter; the consumer applies the item *)

(* the subscriber a call of the observable's API addresses *)
Definition op_sub (x : Obs.op nat) : option nat :=
  match x with
  | SPoll k | SNextNow k | SGet k | SReset k | SClone k | SCloneReset k | SDrop k => Some k
  | _ => None
  end.

Definition owns_vec (s : fs) (x : OVecRun.op A) : bool :=
  match f_ad s, x with
  | Some a, OPoll k | Some a, ODropSub k => k =? a_k a
  | _, _ => false
  end.
Definition owns_lim (s : fs) (x : Obs.op nat) : bool :=
  match f_ad s, op_sub x with
  | Some a, Some k => k =? a_j a
  | _, _ => false
  end.

(* what one event hands back: the poll answer of FPoll, and the wakers woken on either side
   (vector receivers by index; observable subscribers by index) *)
Inductive fout := FNone | FAnswer (r : poll (option (diff A))).

(* one event.  Calls that are impossible in the current state, and calls on the two streams the
   adapter owns, have no effect (as in OVecRun.grun / Obs.run).  RFuel: the poll ran out of fuel
   (the history is not a history of answered calls); RPanic: something panicked inside a poll. *)
Definition fstep (s : fs) (e : fev) : res (fs * fout) :=
  match e with
  | FVec x =>
      if owns_vec s x then ROk (s, FNone) else
      match gstep (f_g s) x with
      | Ok (g', _) => ROk ({| f_g := g'; f_lim := f_lim s; f_ad := f_ad s; f_ok := f_ok s |}, FNone)
      | Panic => ROk (s, FNone)
      end
  | FLim x =>
      if owns_lim s x then ROk (s, FNone) else
      match Obs.step veq heq vdefault (f_lim s) x with
      | Ok (o', _, _) => ROk ({| f_g := f_g s; f_lim := o'; f_ad := f_ad s; f_ok := f_ok s |}, FNone)
      | Panic => ROk (s, FNone)
      end
  | FAttach =>
      match f_ad s with
      | Some _ => ROk (s, FNone)
      | None =>
          match gstep (f_g s) (OSub false), Obs.step veq heq vdefault (f_lim s) WSubscribe with
          | Ok (g', VSub k snap), Ok (o', OSubId j, _) =>
              let '(st, view) := init (val (f_lim s)) snap in
              ROk ({| f_g := g'; f_lim := o';
                      f_ad := Some {| a_k := k; a_j := j; a_u := {| u_st := st; u_ready := [] |}; a_view := view |};
                      f_ok := f_ok s |}, FNone)
          | _, _ => ROk (s, FNone)
          end
      end
  | FPoll fuel =>
      match f_ad s with
      | None => ROk (s, FNone)
      | Some a =>
          match fpoll on_diff on_param (vinner (a_k a)) (lpoll (a_j a)) fuel (a_u a) (f_g s) (f_lim s) with
          | RFuel => RFuel
          | RPanic => RPanic
          | ROk (u', g', o', r) =>
              let '(view', ok) :=
                match r with
                | Ready (Some d) =>
                    match apply_all_ok [d] (a_view a) with
                    | Some v' => (v', true)
                    | None => (a_view a, false)
                    end
                | _ => (a_view a, true)
                end in
              ROk ({| f_g := g'; f_lim := o';
                      f_ad := Some {| a_k := a_k a; a_j := a_j a; a_u := u'; a_view := view' |};
                      f_ok := f_ok s && ok |}, FAnswer r)
          end
      end
  end.

Fixpoint frun (s : fs) (evs : list fev) : res fs :=
  match evs with
  | [] => ROk s
  | e :: rest =>
      match fstep s e with
      | RFuel => RFuel
      | RPanic => RPanic
      | ROk (s', _) => frun s' rest
      end
  end.

End Full.
Arguments fev : clear implicits.
Arguments fs : clear implicits.
Arguments attached : clear implicits.
