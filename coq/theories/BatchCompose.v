(* BatchCompose.v — C13 end to end on the model: a batch emitted by the batched flavour of a
   correct adapter takes the consumer's view to the adapter's view of the source contents at a
   source-batch boundary (never to a state inside a source batch = inside a transaction). *)
From EB Require Import Diff AdapterCore PollLoop PollLoopFacts BatchFacts.
From Coq Require Import Lia.

Section BatchCompose.
Context {A B St : Type}.
Variable on_diff : St -> diff A -> outcome (St * list (diff B)).
Variable on_param : St -> nat -> St * option (list (diff B)).
Variable R : St -> list A -> list B -> Prop.

(* every diff of every source batch is applicable when it happens *)
Fixpoint batches_valid (bs : list (list (diff A))) (l : list A) : bool :=
  match bs with
  | [] => true
  | b :: rest =>
      match apply_all_ok b l with
      | Some l' => batches_valid rest l'
      | None => false
      end
  end.

(* the source contents after whole batches *)
Fixpoint after_batches (bs : list (list (diff A))) (l : list A) : list A :=
  match bs with
  | [] => l
  | b :: rest => match apply_all_ok b l with Some l' => after_batches rest l' | None => l end
  end.

(* T1. a whole source batch through a correct adapter *)
Theorem flat_map_diffs_ok :
  step_ok on_diff R ->
  forall b st l v l', R st l v -> apply_all_ok b l = Some l' ->
    exists st' outs v',
      flat_map_diffs on_diff st b = Ok (st', outs) /\ apply_all_ok outs v = Some v' /\ R st' l' v'.
Proof.
  intros Hs b; induction b as [|d b IH]; intros st l v l' HR Hb; cbn [apply_all_ok flat_map_diffs] in *.
  - injection Hb as <-. exists st, [], v. split; [reflexivity|]. split; [reflexivity|assumption].
  - destruct (ok_in d l) eqn:Hok; [|discriminate].
    destruct (Hs st l v d HR Hok) as (st1 & outs1 & l1 & v1 & E1 & E2 & E3 & HR1).
    rewrite E2 in Hb; cbn [obind] in Hb.
    destruct (IH st1 l1 v1 l' HR1 Hb) as (st2 & outs2 & v2 & F1 & F2 & HR2).
    exists st2, (outs1 ++ outs2), v2. rewrite E1, F1. split; [reflexivity|]. split; [|assumption].
    rewrite apply_all_ok_app, E3. cbn [obind]. assumption.
Qed.

(* the inner loop of the batched flavour: either it stops after k >= 1 whole batches with the
   (non-empty) output of the k-th, or it consumes every queued batch without output *)
Lemma poll_inner_b_compose :
  step_ok on_diff R ->
  forall (hp : bool) batches st l v iend pend first tr st' qi' r tr',
    R st l v -> batches_valid batches l = true ->
    poll_inner_b on_diff hp st batches iend pend first tr = Ok (st', qi', r, tr') ->
    (exists k v' outs, r = Ready (Some outs) /\ 0 < k /\ k <= length batches /\ qi' = skipn k batches /\
        apply_all_ok outs v = Some v' /\ R st' (after_batches (firstn k batches) l) v')
    \/ ((r = Pending \/ r = Ready None) /\ qi' = [] /\ R st' (after_batches batches l) v).
Proof.
  intros Hs hp batches; induction batches as [|b rest IH];
    intros st l v iend pend first tr st' qi' r tr' HR Hv H; cbn [poll_inner_b batches_valid] in *.
  - injection H as <- <- <- _. right. cbn [after_batches]. split; [|split; [reflexivity|assumption]].
    destruct iend; [right|left]; reflexivity.
  - destruct (apply_all_ok b l) as [l1|] eqn:Eb; [|discriminate].
    destruct (flat_map_diffs_ok Hs b st l v l1 HR Eb) as (st1 & outs & v1 & E1 & E2 & HR1).
    rewrite E1 in H. destruct outs as [|o outs].
    + cbn [apply_all_ok] in E2. injection E2 as <-.
      destruct (IH _ _ _ _ _ _ _ _ _ _ _ HR1 Hv H)
        as [(k & v' & outs & Hr & Hk0 & Hk & Hq & Ha & HR')|(Hr & Hq & HR')].
      * left. exists (S k), v', outs. simpl. rewrite Eb.
        repeat split; try assumption; lia.
      * right. cbn [after_batches]. rewrite Eb. repeat split; assumption.
    + injection H as <- <- <- _. left. exists 1, v1, (o :: outs).
      simpl. rewrite Eb.
      repeat split; try assumption; try reflexivity; lia.
Qed.

(* with no parameter change queued, a poll of the batched flavour is its inner loop *)
Lemma poll_b_no_param (hp : bool) st batches iend pend st' qi' qp' r tr :
  poll_b on_diff on_param hp st batches iend [] pend = Ok (st', qi', qp', r, tr) ->
  exists tr0, poll_inner_b on_diff hp st batches iend pend true tr0 = Ok (st', qi', r, tr).
Proof.
  unfold poll_b. destruct hp; cbn [poll_params].
  - destruct (poll_inner_b _ _ _ _ _ _ _ _) as [[[[s q] r0] t]|] eqn:E; [|discriminate].
    intro H; injection H as <- <- _ <- <-. eexists; exact E.
  - destruct (poll_inner_b _ _ _ _ _ _ _ _) as [[[[s q] r0] t]|] eqn:E; [|discriminate].
    intro H; injection H as <- <- _ <- <-. eexists; exact E.
Qed.

(* T2. the batch a poll emits (no parameter change queued) lands on a batch boundary *)
Theorem poll_b_lands_on_batch_boundary :
  step_ok on_diff R ->
  forall (hp : bool) st l v (batches : list (list (diff A))) iend pend st' qi' qp' outs tr,
    R st l v -> batches_valid batches l = true ->
    poll_b on_diff on_param hp st batches iend [] pend = Ok (st', qi', qp', Ready (Some outs), tr) ->
    exists k v', 0 < k /\ k <= length batches /\ qi' = skipn k batches /\
      apply_all_ok outs v = Some v' /\ R st' (after_batches (firstn k batches) l) v'.
Proof.
  intros Hs hp st l v batches iend pend st' qi' qp' outs tr HR Hv H.
  apply poll_b_no_param in H as [tr0 H].
  destruct (poll_inner_b_compose Hs _ _ _ _ _ _ _ _ _ _ _ _ _ HR Hv H)
    as [(k & v' & outs' & Hr & Hk0 & Hk & Hq & Ha & HR')|([Hr|Hr] & _)]; try discriminate.
  injection Hr as <-. exists k, v'. repeat split; assumption.
Qed.

(* T3. ... and when it answers Pending or the end, everything queued has been consumed without output
   and the view stands for the contents after all batches *)
Theorem poll_b_quiet_means_caught_up :
  step_ok on_diff R ->
  forall (hp : bool) st l v (batches : list (list (diff A))) iend pend st' qi' qp' r tr,
    R st l v -> batches_valid batches l = true ->
    poll_b on_diff on_param hp st batches iend [] pend = Ok (st', qi', qp', r, tr) ->
    (r = Pending \/ r = Ready None) ->
    qi' = [] /\ R st' (after_batches batches l) v.
Proof.
  intros Hs hp st l v batches iend pend st' qi' qp' r tr HR Hv H Hr.
  apply poll_b_no_param in H as [tr0 H].
  destruct (poll_inner_b_compose Hs _ _ _ _ _ _ _ _ _ _ _ _ _ HR Hv H)
    as [(k & v' & outs' & Hr' & _)|(_ & Hq & HR')].
  - subst r. destruct Hr; discriminate.
  - split; assumption.
Qed.

End BatchCompose.

Print Assumptions flat_map_diffs_ok.
Print Assumptions poll_b_lands_on_batch_boundary.
Print Assumptions poll_b_quiet_means_caught_up.
