(* ChainPollFacts.v — C14 for chains: a Pending answer of the top of a stack of adapters leaves the
   waker registered with every leaf (source stream and every limit/count stream). *)
From EB Require Import PollLoop PollLoopFacts ChainPoll Head Skip HeadFacts.
From Coq Require Import Lia.

(* ---------------- last_leaf ---------------- *)

Lemma last_leaf_app k a b :
  last_leaf k (a ++ b) =
  match last_leaf k b with Some x => Some x | None => last_leaf k a end.
Proof.
  induction a as [|[k' r] a IH]; cbn [app last_leaf].
  - destruct (last_leaf k b); reflexivity.
  - rewrite IH. destruct (last_leaf k b); reflexivity.
Qed.

Lemma last_leaf_single k r : last_leaf k [(k, r)] = Some r.
Proof. cbn [last_leaf]. rewrite Nat.eqb_refl. reflexivity. Qed.

Lemma last_leaf_app_me k tr r : last_leaf k (tr ++ [(k, r)]) = Some r.
Proof. rewrite last_leaf_app, last_leaf_single. reflexivity. Qed.

Definition leaves_le (n : nat) (tr : ltrace) : Prop := Forall (fun e => fst e <= n) tr.

Lemma last_leaf_none_of_le n k tr : leaves_le n tr -> n < k -> last_leaf k tr = None.
Proof.
  intros H Hk. induction H as [|[k' r] tr Hx _ IH]; cbn [last_leaf]; [reflexivity|].
  rewrite IH. cbn [fst] in Hx. destruct (Nat.eqb_spec k' k); [lia|reflexivity].
Qed.

(* ---------------- the generic loop ---------------- *)
Section GenFacts.
Context {I B St IS : Type}.
Variable on_diff : St -> I -> outcome (St * list (diff B)).
Variable on_param : St -> nat -> St * option (list (diff B)).
Variable hp : bool.
Variable me : nat.
Variable inner : IS -> outcome (IS * poll (option I) * ltrace).

Lemma gpoll_params_spec st qp pend tr st' qp' o tr' :
  (forall st n, snd (on_param st n) <> Some []) ->
  gpoll_params on_param me st qp pend tr = (st', qp', o, tr') ->
  (o = None -> qp' = [] /\ last_leaf me tr' = Some (empty_resp pend)) /\ o <> Some [].
Proof.
  intro Hne. revert st tr; induction qp as [|n rest IH]; intros st tr H; cbn [gpoll_params] in H.
  - injection H as <- <- <- <-. split; [|discriminate].
    intros _. split; [reflexivity|]. apply last_leaf_app_me.
  - destruct (on_param st n) as [st1 o1] eqn:E. destruct o1 as [ds|].
    + injection H as <- <- <- <-. split; [discriminate|].
      pose proof (Hne st n) as Hn. rewrite E in Hn. exact Hn.
    + eapply IH; eassumption.
Qed.

(* an invariant of the inner stream's state and a property of all trace entries *)
Variable P : IS -> Prop.
Variable T : nat * resp -> Prop.
Hypothesis T_me : forall r, T (me, r).
Hypothesis inner_inv :
  forall is is' r itr, P is -> inner is = Ok (is', r, itr) -> P is' /\ Forall T itr.

Lemma gparam_again_T pend : Forall T (gparam_again hp me pend).
Proof. unfold gparam_again. destruct hp; repeat constructor. apply T_me. Qed.

Lemma gpoll_params_inv st qp pend tr st' qp' o tr' :
  Forall T tr ->
  gpoll_params on_param me st qp pend tr = (st', qp', o, tr') -> Forall T tr'.
Proof.
  revert st tr; induction qp as [|n rest IH]; intros st tr HT H; cbn [gpoll_params] in H.
  - injection H as <- <- <- <-. apply Forall_app. split; [assumption|]. repeat constructor. apply T_me.
  - assert (HT' : Forall T (tr ++ [(me, RItem)])).
    { apply Forall_app. split; [assumption|]. repeat constructor. apply T_me. }
    destruct (on_param st n) as [st1 o1] eqn:E. destruct o1 as [ds|].
    + injection H as <- <- <- <-. exact HT'.
    + eapply IH; eassumption.
Qed.

Lemma gpoll_inner_inv fuel : forall st is pend first tr s' is' r tr',
  P is -> Forall T tr ->
  gpoll_inner on_diff hp me inner fuel st is pend first tr = Ok (s', is', r, tr') ->
  P is' /\ Forall T tr'.
Proof.
  induction fuel as [|fuel IH]; intros st is pend first tr s' is' r tr' HP HT H;
    cbn [gpoll_inner] in H; [discriminate|].
  destruct (inner is) as [[[is1 r1] itr]|] eqn:Ei; [|discriminate].
  destruct (inner_inv _ _ _ _ HP Ei) as [HP1 HTi].
  assert (HT1 : Forall T ((if first then tr else tr ++ gparam_again hp me pend) ++ itr)).
  { apply Forall_app. split; [|assumption]. destruct first; [assumption|].
    apply Forall_app. split; [assumption|apply gparam_again_T]. }
  destruct r1 as [[d|]|].
  - destruct (on_diff st d) as [[st1 outs]|]; [|discriminate].
    destruct outs as [|o outs'].
    + eapply IH; eassumption.
    + injection H as <- <- <- <-. split; assumption.
  - injection H as <- <- <- <-. split; assumption.
  - injection H as <- <- <- <-. split; assumption.
Qed.

Lemma gpoll_inv fuel s is qp pend s' is' qp' r tr :
  P is ->
  gpoll on_diff on_param hp me inner fuel s is qp pend = Ok (s', is', qp', r, tr) ->
  P is' /\ Forall T tr.
Proof.
  intros HP. unfold gpoll. destruct (u_ready s) as [|o rd].
  2:{ intro H. injection H as <- <- <- <- <-. split; [assumption|constructor]. }
  destruct hp eqn:Hh.
  - destruct (gpoll_params on_param me (u_st s) qp pend []) as [[[st1 qp1] o] tr1] eqn:Ep.
    assert (HT1 : Forall T tr1) by (eapply gpoll_params_inv; [|eassumption]; constructor).
    destruct o as [[|d ds]|].
    + intro H. injection H as <- <- <- <- <-. split; assumption.
    + intro H. injection H as <- <- <- <- <-. split; assumption.
    + destruct (gpoll_inner on_diff true me inner fuel st1 is pend true tr1)
        as [[[[s2 is2] r2] tr2]|] eqn:Ei; [|discriminate].
      intro H. injection H as <- <- <- <- <-.
      rewrite <- Hh in Ei. eapply gpoll_inner_inv; eassumption.
  - destruct (gpoll_inner on_diff false me inner fuel (u_st s) is pend true [])
      as [[[[s2 is2] r2] tr2]|] eqn:Ei; [|discriminate].
    intro H. injection H as <- <- <- <- <-.
    rewrite <- Hh in Ei. eapply gpoll_inner_inv; [eassumption|constructor|eassumption].
Qed.

(* a Pending answer: the last inner poll answered Pending, and the parameter stream's last
   answer came before it *)
Lemma gpoll_inner_pending fuel : forall st is pend first tr s' is' tr',
  P is ->
  (first = true -> hp = true -> last_leaf me tr = Some (empty_resp pend)) ->
  gpoll_inner on_diff hp me inner fuel st is pend first tr = Ok (s', is', Pending, tr') ->
  u_ready s' = [] /\
  exists isx tr0 itr,
    P isx /\ inner isx = Ok (is', Pending, itr) /\ tr' = tr0 ++ itr /\
    (hp = true -> last_leaf me tr0 = Some (empty_resp pend)).
Proof.
  induction fuel as [|fuel IH]; intros st is pend first tr s' is' tr' HP Hreg H;
    cbn [gpoll_inner] in H; [discriminate|].
  destruct (inner is) as [[[is1 r1] itr]|] eqn:Ei; [|discriminate].
  destruct (inner_inv _ _ _ _ HP Ei) as [HP1 _].
  destruct r1 as [[d|]|].
  - destruct (on_diff st d) as [[st1 outs]|]; [|discriminate].
    destruct outs as [|o outs'].
    + eapply IH; [exact HP1| |exact H]. discriminate.
    + discriminate.
  - discriminate.
  - injection H as <- <- <-. split; [reflexivity|].
    exists is, (if first then tr else tr ++ gparam_again hp me pend), itr.
    repeat split; try assumption.
    intro Hh. destruct first; [apply Hreg; auto|].
    unfold gparam_again. rewrite Hh. apply last_leaf_app_me.
Qed.

Lemma gpoll_pending fuel s is qp pend s' is' qp' tr :
  (forall st n, snd (on_param st n) <> Some []) ->
  P is ->
  gpoll on_diff on_param hp me inner fuel s is qp pend = Ok (s', is', qp', Pending, tr) ->
  u_ready s' = [] /\ (hp = true -> qp' = []) /\
  exists isx tr0 itr,
    P isx /\ inner isx = Ok (is', Pending, itr) /\ tr = tr0 ++ itr /\
    (hp = true -> last_leaf me tr0 = Some (empty_resp pend)).
Proof.
  intros Hne HP. unfold gpoll. destruct (u_ready s) as [|o rd]; [|discriminate].
  destruct hp eqn:Hh.
  - destruct (gpoll_params on_param me (u_st s) qp pend []) as [[[st1 qp1] o] tr1] eqn:Ep.
    destruct (gpoll_params_spec _ _ _ _ _ _ _ _ Hne Ep) as [Hnone _].
    destruct o as [[|d ds]|]; try discriminate.
    destruct (Hnone eq_refl) as [-> Hl].
    destruct (gpoll_inner on_diff true me inner fuel st1 is pend true tr1)
      as [[[[s2 is2] r2] tr2]|] eqn:Ei; [|discriminate].
    intro H. injection H as <- <- <- -> <-.
    rewrite <- Hh in Ei.
    destruct (gpoll_inner_pending _ _ _ _ _ _ _ _ _ HP (fun _ _ => Hl) Ei) as [Hr Hex].
    rewrite Hh in Hex. auto.
  - destruct (gpoll_inner on_diff false me inner fuel (u_st s) is pend true [])
      as [[[[s2 is2] r2] tr2]|] eqn:Ei; [|discriminate].
    intro H. injection H as <- <- <- -> <-.
    rewrite <- Hh in Ei.
    assert (Hreg : true = true -> hp = true -> last_leaf me [] = Some (empty_resp pend))
      by (intros _ Hf; congruence).
    destruct (gpoll_inner_pending _ _ _ _ _ _ _ _ _ HP Hreg Ei) as [Hr Hex].
    rewrite Hh in Hex. split; [assumption|]. split; [discriminate|assumption].
Qed.

End GenFacts.

(* ---------------- chains ---------------- *)

Lemma chain_poll_nil {A : Type} depth fuel (q : list (diff A) * bool) :
  chain_poll depth fuel ([], q) =
  match queue_inner q with
  | Ok (q', r, tr) => Ok (([], q'), r, tr)
  | Panic => Panic
  end.
Proof. destruct depth; reflexivity. Qed.

Lemma chain_poll_cons {A : Type} depth fuel (g : stage (A:=A)) below q :
  chain_poll (S depth) fuel (g :: below, q) =
  match gpoll (sg_on_diff g) (sg_on_param g) (sg_hp g) (S (length below))
              (chain_poll depth fuel) fuel (sg_s g) (below, q) (sg_qp g) (sg_pend g) with
  | Panic => Panic
  | Ok (s', c', qp', r, tr) => Ok ((stage_with g s' qp' :: fst c', snd c'), r, tr)
  end.
Proof. reflexivity. Qed.

Lemma queue_inner_inv {X : Type} (q q' : list X * bool) r tr :
  queue_inner q = Ok (q', r, tr) ->
  leaves_le 0 tr /\
  (r = Pending -> snd q' = false /\ fst q' = [] /\ tr = [(0, RPending)]).
Proof.
  unfold queue_inner. destruct q as [[|d rest] e]; cbn [fst snd].
  - intro H. injection H as <- <- <-. split; [repeat constructor|].
    destruct e; [discriminate|]. intros _. repeat split.
  - intro H. injection H as <- <- <-. split; [repeat constructor|discriminate].
Qed.

(* lengths are kept, leaf ids are bounded by the number of stages, handlers are kept *)
Lemma chain_poll_inv {A : Type} depth fuel : forall (c c' : chain (A:=A)) r tr,
  stages_ok (fst c) ->
  chain_poll depth fuel c = Ok (c', r, tr) ->
  length (fst c') = length (fst c) /\ stages_ok (fst c') /\ leaves_le (length (fst c)) tr.
Proof.
  induction depth as [|depth IH]; intros [[|g below] q] c' r tr Hok H; cbn [fst] in *.
  - rewrite chain_poll_nil in H.
    destruct (queue_inner q) as [[[q1 r1] tr1]|] eqn:E; [|discriminate].
    injection H as <- <- <-. apply queue_inner_inv in E. cbn. intuition constructor.
  - discriminate.
  - rewrite chain_poll_nil in H.
    destruct (queue_inner q) as [[[q1 r1] tr1]|] eqn:E; [|discriminate].
    injection H as <- <- <-. apply queue_inner_inv in E. cbn. intuition constructor.
  - rewrite chain_poll_cons in H.
    destruct (gpoll _ _ _ _ _ _ _ _ _ _) as [[[[[s1 c1] qp1] r1] tr1]|] eqn:E; [|discriminate].
    injection H as <- <- <-. cbn [fst snd length].
    inversion Hok as [|g0 l0 Hg Hbelow]; subst.
    apply (gpoll_inv _ _ _ _ _
             (fun is : chain (A:=A) => length (fst is) = length below /\ stages_ok (fst is))
             (fun e => fst e <= S (length below))) in E.
    + destruct E as [[Hl Hs] HT]. repeat split.
      * cbn [length]. congruence.
      * constructor; [exact Hg|exact Hs].
      * exact HT.
    + intros; cbn; lia.
    + intros is is' r0 itr [Hl Hs] Hi. destruct (IH _ _ _ _ Hs Hi) as (H1 & H2 & H3).
      repeat split; [congruence|assumption|].
      eapply Forall_impl; [|exact H3]. cbn. intros; lia.
    + cbn. split; [reflexivity|assumption].
Qed.

Lemma chain_nil_registered {A : Type} depth fuel (q : list (diff A) * bool) c' tr :
  chain_poll depth fuel ([], q) = Ok (c', Pending, tr) -> all_registered c' tr.
Proof.
  intro H. rewrite chain_poll_nil in H.
  destruct (queue_inner q) as [[[q1 r1] tr1]|] eqn:E; [|discriminate].
  injection H as <- -> <-. apply queue_inner_inv in E. destruct E as [_ E].
  destruct (E eq_refl) as (H1 & H2 & ->). unfold all_registered. cbn [fst snd rev].
  repeat split; try assumption. all: destruct k; discriminate.
Qed.

(* T1. the chain theorem *)
Theorem chain_pending_registers_everywhere :
  forall (A : Type) (depth fuel : nat) (c c' : chain (A:=A)) (tr : ltrace),
    stages_ok (fst c) ->
    chain_poll depth fuel c = Ok (c', Pending, tr) ->
    all_registered c' tr.
Proof.
  intros A depth fuel.
  induction depth as [|depth IH]; intros [[|g below] q] c' tr Hok H.
  - eapply chain_nil_registered; eassumption.
  - discriminate.
  - eapply chain_nil_registered; eassumption.
  - rewrite chain_poll_cons in H.
    destruct (gpoll _ _ _ _ _ _ _ _ _ _) as [[[[[s1 c1] qp1] r1] tr1]|] eqn:E; [|discriminate].
    injection H as <- -> <-. cbn [fst] in Hok.
    inversion Hok as [|g0 l0 Hg Hbelow]; subst.
    apply (gpoll_pending _ _ _ _ _
             (fun is : chain (A:=A) => length (fst is) = length below /\ stages_ok (fst is))
             (fun e => fst e <= S (length below))) in E.
    + destruct E as (Hr & Hqp & isx & tr0 & itr & [Hlx Hsx] & Hi & -> & Hme).
      assert (IHx : all_registered c1 itr).
      { eapply IH; [exact Hsx|exact Hi]. }
      destruct (chain_poll_inv _ _ _ _ _ _ Hsx Hi) as (Hl1 & _ & Hle).
      destruct IHx as (Ha & Hb & Hc & Hd).
      unfold all_registered. cbn [fst snd rev].
      split; [exact Ha|]. split; [exact Hb|]. split.
      { rewrite last_leaf_app, Hc. reflexivity. }
      intros k g' Hk.
      destruct (Nat.lt_ge_cases k (length (rev (fst c1)))) as [Hlt|Hge].
      * rewrite nth_error_app1 in Hk by assumption.
        destruct (Hd _ _ Hk) as [Hu Hp]. split; [assumption|].
        intro Hh. destruct (Hp Hh) as [Hq Hll]. split; [assumption|].
        rewrite last_leaf_app, Hll. reflexivity.
      * rewrite nth_error_app2 in Hk by assumption.
        rewrite rev_length in *.
        destruct (k - length (fst c1)) as [|m] eqn:Ek; cbn in Hk;
          [|destruct m; discriminate].
        injection Hk as <-. cbn. assert (k = length below) by lia. subst k.
        split; [assumption|]. intro Hh. split; [auto|].
        rewrite last_leaf_app.
        rewrite (last_leaf_none_of_le (length below)); [auto| |lia].
        rewrite <- Hlx. exact Hle.
    + intros is is' r0 itr [Hl Hs] Hi. destruct (chain_poll_inv _ _ _ _ _ _ Hs Hi) as (H1 & H2 & H3).
      repeat split; [congruence|assumption|].
      eapply Forall_impl; [|exact H3]. cbn. intros; lia.
    + exact Hg.
    + cbn. split; [reflexivity|assumption].
Qed.

(* T2. over a scripted queue the generic loop is the loop of PollLoop.v (the one compared with the
   five poll_next implementations call by call), with the inner stream as leaf 0 and the
   parameter stream as leaf 1 *)
Definition conv_src (x : src_id * resp) : nat * resp :=
  match fst x with SrcInner => (0, snd x) | SrcParam => (1, snd x) end.

Section QueueFacts.
Context {I B St : Type}.
Variable on_diff : St -> I -> outcome (St * list (diff B)).
Variable on_param : St -> nat -> St * option (list (diff B)).
Variable hp : bool.

Lemma gpoll_params_queue qp : forall st pend tr,
  gpoll_params on_param 1 st qp pend (map conv_src tr) =
  let '(st', qp', o, tr') := poll_params on_param st qp pend tr in
  (st', qp', o, map conv_src tr').
Proof.
  induction qp as [|n rest IH]; intros st pend tr; cbn [gpoll_params poll_params].
  - rewrite map_app. reflexivity.
  - destruct (on_param st n) as [st1 [ds|]].
    + rewrite map_app. reflexivity.
    + change (map conv_src tr ++ [(1, RItem)]) with (map conv_src tr ++ map conv_src [(SrcParam, RItem)]).
      rewrite <- map_app. apply IH.
Qed.

Lemma pre_queue (first : bool) pend tr :
  (if first then map conv_src tr else map conv_src tr ++ gparam_again hp 1 pend) =
  map conv_src (if first then tr else tr ++ param_again hp pend).
Proof.
  destruct first; [reflexivity|]. rewrite map_app.
  unfold gparam_again, param_again. destruct hp; reflexivity.
Qed.

Lemma gpoll_inner_queue (iend pend : bool) qi : forall st first tr,
  gpoll_inner on_diff hp 1 queue_inner (S (length qi)) st (qi, iend) pend first (map conv_src tr) =
  match poll_inner_u on_diff hp st qi iend pend first tr with
  | Ok (s', qi', r, tr') => Ok (s', (qi', iend), r, map conv_src tr')
  | Panic => Panic
  end.
Proof.
  induction qi as [|d rest IH]; intros st first tr.
  - cbn [gpoll_inner poll_inner_u length]. unfold queue_inner. cbn [fst snd].
    rewrite pre_queue. rewrite map_app. destruct iend; reflexivity.
  - cbn [length]. set (f := S (length rest)). cbn [gpoll_inner poll_inner_u].
    unfold queue_inner at 1. cbn [fst snd].
    rewrite pre_queue.
    destruct (on_diff st d) as [[st1 outs]|]; [|reflexivity].
    change ([(0, RItem)]) with (map conv_src [(SrcInner, RItem)]).
    rewrite <- map_app.
    destruct outs as [|o outs']; [|reflexivity].
    subst f. apply IH.
Qed.

End QueueFacts.

Theorem gpoll_queue_is_poll_u :
  forall (I B St : Type) (on_diff : St -> I -> outcome (St * list (diff B)))
         (on_param : St -> nat -> St * option (list (diff B))) (hp : bool)
         (s : ustate) (qi : list I) (iend : bool) (qp : list nat) (pend : bool),
    gpoll on_diff on_param hp 1 queue_inner (S (length qi)) s (qi, iend) qp pend =
    match poll_u on_diff on_param hp s qi iend qp pend with
    | Ok (s', qi', qp', r, tr) => Ok (s', (qi', iend), qp', r, map conv_src tr)
    | Panic => Panic
    end.
Proof.
  intros. unfold gpoll, poll_u. destruct (u_ready s) as [|o rd]; [|reflexivity].
  destruct hp.
  - pose proof (gpoll_params_queue on_param qp (u_st s) pend []) as Hp. cbn [map] in Hp.
    rewrite Hp. clear Hp.
    destruct (poll_params on_param (u_st s) qp pend []) as [[[st1 qp1] o] tr1].
    destruct o as [[|d ds]|]; try reflexivity.
    rewrite gpoll_inner_queue.
    destruct (poll_inner_u on_diff true st1 qi iend pend true tr1) as [[[[s2 qi2] r2] tr2]|];
      reflexivity.
  - pose proof (gpoll_inner_queue on_diff false iend pend qi (u_st s) true []) as Hi.
    cbn [map] in Hi. rewrite Hi.
    destruct (poll_inner_u on_diff false (u_st s) qi iend pend true []) as [[[[s2 qi2] r2] tr2]|];
      reflexivity.
Qed.

(* T3. never ready again without a leaf having something new: a chain in which nothing is
   deliverable (source queue empty and not ended, every ready buffer empty, every parameter queue
   of a stage that has one empty) answers Pending and is left exactly as it was *)
Definition quiet {A : Type} (c : chain (A:=A)) : Prop :=
  snd (snd c) = false /\ fst (snd c) = [] /\
  Forall (fun g => u_ready (sg_s g) = [] /\ (sg_hp g = true -> sg_qp g = [])) (fst c).

Theorem chain_quiet_stays_pending :
  forall (A : Type) (depth fuel : nat) (c : chain (A:=A)),
    quiet c -> length (fst c) <= depth -> 1 <= fuel ->
    exists tr, chain_poll depth fuel c = Ok (c, Pending, tr).
Proof.
  intros A depth fuel.
  induction depth as [|depth IH]; intros [[|g below] [qs e]] (He & Hq & Hall) Hlen Hf;
    cbn [fst snd length] in *.
  - subst. rewrite chain_poll_nil. unfold queue_inner. cbn [fst snd]. eexists; reflexivity.
  - lia.
  - subst. rewrite chain_poll_nil. unfold queue_inner. cbn [fst snd]. eexists; reflexivity.
  - subst. rewrite chain_poll_cons.
    inversion Hall as [|g0 l0 [Hu Hqp] Hbelow]; subst.
    destruct (IH (below, ([], false))) as [itr Hi].
    { repeat split; assumption. }
    { cbn [fst]. lia. }
    { assumption. }
    destruct fuel as [|fuel']; [lia|].
    destruct g as [St od op hp [st rd] qp pend]. cbn [sg_s sg_hp sg_qp u_ready] in Hu, Hqp.
    subst rd. cbn [sg_s sg_hp sg_qp sg_on_diff sg_on_param sg_pend].
    unfold gpoll. cbn [u_ready u_st]. destruct hp.
    + rewrite (Hqp eq_refl). cbn [gpoll_params]. cbn [gpoll_inner]. rewrite Hi.
      eexists. reflexivity.
    + cbn [gpoll_inner]. rewrite Hi. eexists. reflexivity.
Qed.

(* T4. more fuel / depth never changes an answer *)
Section MonoFacts.
Context {I B St IS : Type}.
Variable on_diff : St -> I -> outcome (St * list (diff B)).
Variable on_param : St -> nat -> St * option (list (diff B)).
Variable hp : bool.
Variable me : nat.
Variables inner inner' : IS -> outcome (IS * poll (option I) * ltrace).
Hypothesis inner_mono : forall is res, inner is = Ok res -> inner' is = Ok res.

Lemma gpoll_inner_mono fuel : forall fuel' st is pend first tr res,
  fuel <= fuel' ->
  gpoll_inner on_diff hp me inner fuel st is pend first tr = Ok res ->
  gpoll_inner on_diff hp me inner' fuel' st is pend first tr = Ok res.
Proof.
  induction fuel as [|fuel IH]; intros fuel' st is pend first tr res Hf H; [discriminate|].
  destruct fuel' as [|fuel']; [lia|]. cbn [gpoll_inner] in *.
  destruct (inner is) as [[[is1 r1] itr]|] eqn:Ei; [|discriminate].
  rewrite (inner_mono _ _ Ei).
  destruct r1 as [[d|]|]; try assumption.
  destruct (on_diff st d) as [[st1 outs]|]; [|discriminate].
  destruct outs as [|o outs']; [|assumption].
  eapply IH; [lia|eassumption].
Qed.

Lemma gpoll_mono fuel fuel' s is qp pend res :
  fuel <= fuel' ->
  gpoll on_diff on_param hp me inner fuel s is qp pend = Ok res ->
  gpoll on_diff on_param hp me inner' fuel' s is qp pend = Ok res.
Proof.
  intros Hf. unfold gpoll. destruct (u_ready s) as [|o rd]; [|auto].
  pose proof gpoll_inner_mono as Hm. destruct hp.
  - destruct (gpoll_params on_param me (u_st s) qp pend []) as [[[st1 qp1] o] tr1].
    destruct o as [[|d ds]|]; auto.
    destruct (gpoll_inner on_diff true me inner fuel st1 is pend true tr1) as [r|] eqn:Ei;
      [|discriminate].
    rewrite (Hm _ _ _ _ _ _ _ _ Hf Ei). auto.
  - destruct (gpoll_inner on_diff false me inner fuel (u_st s) is pend true []) as [r|] eqn:Ei;
      [|discriminate].
    rewrite (Hm _ _ _ _ _ _ _ _ Hf Ei). auto.
Qed.

End MonoFacts.

Theorem chain_poll_fuel_mono :
  forall (A : Type) (depth depth' fuel fuel' : nat) (c : chain (A:=A)) res,
    depth <= depth' -> fuel <= fuel' ->
    chain_poll depth fuel c = Ok res -> chain_poll depth' fuel' c = Ok res.
Proof.
  intros A depth depth' fuel fuel' c res Hd Hf. revert depth' c res Hd.
  induction depth as [|depth IH]; intros depth' [[|g below] q] res Hd H.
  - rewrite chain_poll_nil in *. assumption.
  - discriminate.
  - rewrite chain_poll_nil in *. assumption.
  - destruct depth' as [|depth']; [lia|]. rewrite chain_poll_cons in *.
    destruct (gpoll _ _ _ _ (chain_poll depth fuel) _ _ _ _ _) as [r|] eqn:E; [|discriminate].
    rewrite (gpoll_mono _ _ _ _ _ (chain_poll depth' fuel') (fun is res => IH depth' is res ltac:(lia))
               _ _ _ _ _ _ _ Hf E).
    exact H.
Qed.

(* T5. non-vacuity: a concrete two-stage chain (Head 2 over Skip 1, both with parameter streams)
   over a source with a few diffs answers items and finally Pending, with Ok results. *)
Lemma head_update_limit_nonempty {A : Type} (st : head_st A) n :
  snd (head_update_limit st n) <> Some [].
Proof.
  pose proof (head_update_limit_shape st n) as H.
  destruct (snd (head_update_limit st n)) as [[|d ds]|]; cbn in H; congruence.
Qed.

Lemma skip_update_count_nonempty {A : Type} (st : skip_st A) n :
  snd (skip_update_count st n) <> Some [].
Proof.
  unfold skip_update_count. destruct (s_buf st) as [|x buf] eqn:Eb; [cbn; discriminate|].
  destruct (s_count st) as [old|]; [|cbn; discriminate].
  cbv zeta.
  destruct (_ ?= _) eqn:Ec; cbn [snd]; try discriminate.
  - destruct (_ <=? _); [discriminate|].
    apply Nat.compare_lt_iff in Ec.
    destruct (_ - _) eqn:E; [lia|cbn; discriminate].
  - destruct (_ && _); cbn [snd]; [discriminate|].
    destruct (firstn _ _); cbn; discriminate.
Qed.

Definition ex_head : stage (A:=nat) :=
  {| sg_St := head_st nat; sg_on_diff := head_on_diff; sg_on_param := head_update_limit;
     sg_hp := true;
     sg_s := {| u_st := {| h_buf := []; h_limit := 2 |}; u_ready := [] |};
     sg_qp := [2]; sg_pend := false |}.

Definition ex_skip : stage (A:=nat) :=
  {| sg_St := skip_st nat; sg_on_diff := skip_on_diff; sg_on_param := skip_update_count;
     sg_hp := true;
     sg_s := {| u_st := {| s_buf := []; s_count := Some 0 |}; u_ready := [] |};
     sg_qp := [1]; sg_pend := true |}.

(* top first: Head over Skip over the source *)
Definition ex_chain : chain (A:=nat) :=
  ([ex_head; ex_skip], ([Append [10; 20; 30; 40]; PushBack 50; PopFront], false)).

(* poll until the top answers Pending, collecting the items *)
Fixpoint poll_until_pending {A : Type} (n depth fuel : nat) (c : chain (A:=A)) (acc : list (diff A))
  : outcome (chain (A:=A) * list (diff A) * ltrace) :=
  match n with
  | 0 => Panic
  | S n' =>
      match chain_poll depth fuel c with
      | Ok (c', Ready (Some d), _) => poll_until_pending n' depth fuel c' (acc ++ [d])
      | Ok (c', Pending, tr) => Ok (c', acc, tr)
      | _ => Panic
      end
  end.

Example chain_example :
  stages_ok (fst ex_chain) /\
  exists c' tr,
    poll_until_pending 10 2 10 ex_chain [] =
      Ok (c', [Append [20; 30]; PopFront; PushBack 40], tr) /\
    tr = [(2, RPending); (1, REnd); (0, RPending)] /\
    all_registered c' tr.
Proof.
  split.
  - repeat constructor; cbn [ex_head ex_skip sg_on_param sg_St].
    + apply head_update_limit_nonempty.
    + apply skip_update_count_nonempty.
  - eexists. eexists. split; [vm_compute; reflexivity|]. split; [reflexivity|].
    unfold all_registered. cbn [fst snd rev app].
    split; [reflexivity|]. split; [reflexivity|]. split; [reflexivity|].
    intros k g Hk. destruct k as [|[|k]]; cbn [nth_error] in Hk.
    + injection Hk as <-. cbn. split; [reflexivity|]. intros _. split; reflexivity.
    + injection Hk as <-. cbn. split; [reflexivity|]. intros _. split; reflexivity.
    + destruct k; discriminate.
Qed.

Print Assumptions chain_pending_registers_everywhere.
Print Assumptions gpoll_queue_is_poll_u.
Print Assumptions chain_quiet_stays_pending.
Print Assumptions chain_poll_fuel_mono.
Print Assumptions chain_example.
