(* OVecDrainFacts.v — the invariants of OVecFacts.v / OVecStepwise.v survive polls that race the
   sender (OVecDrain.v), and what such a poll's answer means. *)
From EB Require Import OVec OVecRun OVecFacts OVecExtra OVecStepwise OVecDrain OVecDrainAux AdapterCore ListTac.

Section DrainFacts.
Context {A : Type}.

(* ---------------- no injections: the sequential poll ---------------- *)
Lemma c_poll_sub_nil (g : gst A) k :
  c_poll_sub g k [] = match poll_sub (g_o g) k with
                      | Panic => Panic
                      | Ok (o', r) => Ok ({| g_o := o'; g_gh := g_gh g; g_app_ok := g_app_ok g |}, r, 0)
                      end.
Proof.
  unfold c_poll_sub, poll_sub. destruct (nth_error (subs (g_o g)) k) as [[s|]|]; try reflexivity.
  destruct (sb_state s) eqn:Est; [|reflexivity].
  destruct (try_recv (log (g_o g)) (cap2 (g_o g)) (negb (alive (g_o g))) (sb_next s)) as [[m| | |] n] eqn:Et;
    try reflexivity.
  - destruct (sb_batched s) eqn:Eb; [|reflexivity].
    cbn [c_batch_loop]. unfold poll_batched. rewrite Et.
    destruct (batch_loop _ _ _ _ n (m_diffs m)) as [[r|] n']; reflexivity.
  - cbn [c_handle_lag]. destruct (sb_batched s) eqn:Eb; unfold poll_batched, poll_plain; rewrite ?Est, Et;
      destruct (handle_lag _ _ _ _ n None) as [[r|] n']; reflexivity.
Qed.

Lemma is_lag_item_batch_nonreset (ds : list (diff A)) :
  forallb (fun d => negb (is_reset d)) ds = true -> is_lag_item (IBatch ds) = false.
Proof.
  destruct ds as [|d ds]; [reflexivity|]. cbn [forallb]. intro H. apply andb_prop in H as [H _].
  destruct d; try reflexivity. discriminate.
Qed.

Lemma is_lag_item_diff_nonreset (d : diff A) : negb (is_reset d) = true -> is_lag_item (IDiff d) = false.
Proof. destruct d; try reflexivity. discriminate. Qed.

Lemma poll_case_lag_item (o : ovec A) s gh s' it :
  Forall msg_wf (log o) -> yield_ok s gh -> poll_case o s s' (Ready (Some it)) -> is_lag_item it = lagb o s.
Proof.
  intros Hwf Hy Hc. remember (Ready (Some it)) as r eqn:Er. unfold lagb.
  destruct Hc as [d rest' Est Eb | Est En Eal | Est En Eal | Est Hl | mg d rest Est Eb Hlt Hw En Ed
                 | Est Eb Hlt Hw Hne ]; try discriminate; injection Er as <-; rewrite Est.
  - unfold yield_ok in Hy. rewrite Est in Hy. destruct Hy as (_ & Hy). cbn [forallb] in Hy.
    apply andb_prop in Hy as [Hy _]. apply is_lag_item_diff_nonreset. exact Hy.
  - apply Nat.ltb_lt in Hl. rewrite Hl. destruct (sb_batched s); reflexivity.
  - destruct (Nat.ltb_spec (cap2 o) (length (log o) - sb_next s)); [lia|].
    pose proof (forall_nth_error _ _ _ _ Hwf En) as (_ & _ & Hnr). rewrite Ed in Hnr.
    cbn [forallb] in Hnr. apply andb_prop in Hnr as [Hnr _]. apply is_lag_item_diff_nonreset. exact Hnr.
  - destruct (Nat.ltb_spec (cap2 o) (length (log o) - sb_next s)); [lia|].
    apply is_lag_item_batch_nonreset. apply all_diffs_nonreset, Forall_skipn, Hwf.
Qed.

Lemma poll_lag_item (g : gst A) k o' it :
  ginv_strong g -> poll_sub (g_o g) k = Ok (o', Ready (Some it)) -> is_lag_item it = was_lagged (g_o g) k.
Proof.
  intros (Hok & H1 & H2 & H3 & H4 & H5) Ep. unfold poll_sub in Ep.
  destruct (nth_error (subs (g_o g)) k) as [[s|]|] eqn:Ek; try discriminate.
  assert (Hk : k < length (g_gh g)) by (rewrite H1; eapply nth_error_some_lt; eassumption).
  destruct (nth_error (g_gh g) k) as [gh|] eqn:Eg; [|apply nth_error_None in Eg; lia].
  destruct (H5 k s gh Ek Eg) as [Hs Hy].
  destruct (poll_char (g_o g) s gh H2 H3 Hs) as (s' & r0 & Epoll & Hcase).
  rewrite Epoll in Ep. injection Ep as _ ->.
  rewrite (was_lagged_lagb _ _ _ Ek). eapply poll_case_lag_item; eassumption.
Qed.

(* with no injections a racing poll IS the poll of OVecRun.gstep *)
Theorem c_gpoll_quiet (g : gst A) k :
  ginv_strong g ->
  c_gpoll g k [] = match gstep g (OPoll k) with
                   | Ok (g', VPoll r) => Ok (g', r, 0)
                   | _ => Panic
                   end.
Proof.
  intro Hg. unfold c_gpoll. rewrite c_poll_sub_nil. unfold gstep.
  destruct (poll_sub (g_o g) k) as [[o' r]|] eqn:Ep; [|reflexivity].
  destruct r as [[it|]|]; try reflexivity. cbn [g_gh g_o g_app_ok].
  destruct (nth_error (g_gh g) k) as [gh|] eqn:Eg; [|reflexivity].
  rewrite (poll_lag_item g k o' it Hg Ep). destruct (deliver _ _ _). reflexivity.
Qed.

(* ---------------- what the answer means ---------------- *)
Definition c_meaning (g g' : gst A) (s : sub A) (r : poll (option (item A))) (u : nat) (gh' : ghost A) : Prop :=
  match r with
  | Pending => u = 0 /\ alive (g_o g') = true /\ gh_replica gh' = values (g_o g')
  | Ready None => alive (g_o g') = false /\ gh_replica gh' = values (g_o g')
  | Ready (Some it) =>
      item_diffs it <> [] /\
      (existsb is_reset (item_diffs it) = true ->
         item_diffs it = [Reset (values (g_o g'))] /\
         cap2 (g_o g) < length (log (g_o g')) - sb_next s) /\
      (match it with IBatch _ => gh_replica gh' = values (g_o g') | IDiff _ => True end)
  end.

Lemma c_gpoll_seq_spec (g : gst A) k s :
  step_inv g -> nth_error (subs (g_o g)) k = Some (Some s) ->
  exists g' r, c_gpoll g k [] = Ok (g', r, 0) /\ step_inv g' /\
    forall gh', nth_error (g_gh g') k = Some gh' -> c_meaning g g' s r 0 gh'.
Proof.
  intros Hg Ek. pose proof Hg as [Hgs _]. rewrite (c_gpoll_quiet g k Hgs).
  destruct (gstep g (OPoll k)) as [[g' out]|] eqn:E.
  2:{ exfalso. eapply poll_never_panics; [apply ginv_strong_ginv; exact Hgs|exact Ek|exact E]. }
  destruct (gstep_poll _ _ _ _ Hgs E) as (s0 & gh & s' & r & gh0 & Ek0 & Eg & Hsi & Hcase & -> & Eg' & Hgh).
  rewrite Ek in Ek0. injection Ek0 as <-.
  exists g', r. split; [reflexivity|]. split; [eapply step_inv_step; eassumption|].
  intros gh' Egh'. pose proof (poll_meaning g k g' r gh' Hgs E Egh') as M.
  assert (Hal : alive (g_o g') = alive (g_o g)) by (rewrite Eg'; reflexivity).
  assert (Hlg : log (g_o g') = log (g_o g)) by (rewrite Eg'; reflexivity).
  unfold c_meaning. destruct r as [[it|]|].
  - destruct M as (M1 & M2 & M3). split; [exact M3|]. split; [|exact M2].
    intro Hex. destruct (M1 Hex) as [Hwl Hit]. split; [exact Hit|].
    unfold was_lagged in Hwl. rewrite Ek in Hwl. rewrite Hlg.
    destruct (sb_state s); [apply Nat.ltb_lt; exact Hwl|discriminate].
  - destruct M as (M1 & M2). rewrite Hal. split; assumption.
  - destruct M as (M1 & M2 & _). rewrite Hal. split; [reflexivity|]. split; assumption.
Qed.

(* ---------------- writing back the result of a racing drain ---------------- *)
Lemma put_step_inv (g1 : gst A) k s1 gh s' gh' :
  step_inv g1 -> nth_error (subs (g_o g1)) k = Some (Some s1) -> nth_error (g_gh g1) k = Some gh ->
  sub_inv_s (g_o g1) s' gh' -> sub_step (log (g_o g1)) s' gh' ->
  step_inv {| g_o := with_subs (g_o g1) (set_nth k (Some s') (subs (g_o g1)));
              g_gh := set_nth k gh' (g_gh g1); g_app_ok := g_app_ok g1 && true |}.
Proof.
  intros [[Hok Hinv] Hs] Ek Eg Hsi Hss. split; [split|].
  - cbn [g_app_ok]. rewrite Hok. reflexivity.
  - cbn [g_o g_gh]. eapply oinv_update; eassumption.
  - cbn [g_o g_gh with_subs subs log].
    pose proof (nth_error_some_lt _ _ _ Ek) as Hk1. pose proof (nth_error_some_lt _ _ _ Eg) as Hk2.
    intros j sj ghj Ej Egj. destruct (Nat.eq_dec j k) as [->|Hne].
    + rewrite nth_error_set_nth_eq in Ej by assumption. rewrite nth_error_set_nth_eq in Egj by assumption.
      injection Ej as <-. injection Egj as <-. exact Hss.
    + rewrite nth_error_set_nth_neq in Ej by assumption. rewrite nth_error_set_nth_neq in Egj by assumption.
      eapply Hs; eassumption.
Qed.

Lemma c_gpoll_finish (g : gst A) k inj g1 s1 gh s' it u r' :
  c_poll_sub g k inj
  = Ok ({| g_o := with_subs (g_o g1) (set_nth k (Some s') (subs (g_o g1)));
           g_gh := g_gh g1; g_app_ok := g_app_ok g1 |}, Ready (Some it), u) ->
  step_inv g1 -> nth_error (subs (g_o g1)) k = Some (Some s1) -> nth_error (g_gh g1) k = Some gh ->
  apply_all_ok (item_diffs it) (gh_replica gh) = Some r' ->
  sub_inv_s (g_o g1) s' (deliver_gh gh (item_diffs it) (is_lag_item it) r') ->
  sub_step (log (g_o g1)) s' (deliver_gh gh (item_diffs it) (is_lag_item it) r') ->
  exists g', c_gpoll g k inj = Ok (g', Ready (Some it), u) /\ step_inv g' /\
             g_o g' = with_subs (g_o g1) (set_nth k (Some s') (subs (g_o g1))) /\
             nth_error (g_gh g') k = Some (deliver_gh gh (item_diffs it) (is_lag_item it) r').
Proof.
  intros E Hg1 Ek1 Eg1 Hap Hsi Hss. unfold c_gpoll. rewrite E. cbn [g_gh g_o g_app_ok].
  rewrite Eg1, (deliver_ok _ _ _ _ Hap). eexists. split; [reflexivity|].
  split; [eapply put_step_inv; eassumption|]. split; [reflexivity|].
  cbn [g_gh]. apply nth_error_set_nth_eq. eapply nth_error_some_lt; exact Eg1.
Qed.

(* the drain ended on a lag path: one Reset carrying the contents as of the return *)
Lemma lag_finish (o : ovec A) s gh (mb : msg A) b :
  sub_inv o s gh -> sub_step (log o) s gh -> sb_next s < length (log o) -> back (log o) = Some mb ->
  let s' := {| sb_next := length (log o); sb_batched := b; sb_state := SRecv; sb_waiting := false |} in
  let gh' := deliver_gh gh [Reset (values o)] true (values o) in
  m_state mb = values o /\ sub_inv_s o s' gh' /\ sub_step (log o) s' gh'.
Proof.
  intros Hs [Hc Hl] Hlt Eb s' gh'. pose proof Hs as Hsu. rewrite sub_inv_unfold in Hsu.
  destruct Hsu as (H1 & H2 & _ & H4 & _). destruct (H4 Hlt) as (m & Em & Ev).
  assert (m = mb) by congruence. subst m.
  assert (Hsi : sub_inv o s' gh').
  { rewrite sub_inv_unfold. subst s' gh'.
    cbn [sb_next sb_state sb_batched deliver_gh gh_replica gh_delivered gh_start gh_lagged].
    rewrite skipn_all. cbn [all_diffs map concat app].
    split; [lia|]. split; [lia|]. split; [reflexivity|]. split; [lia|]. split; [exact I|].
    rewrite orb_true_r. discriminate. }
  split; [exact Ev|]. split; [split; [exact Hsi|exact I]|].
  split; [exact Hc|]. apply link_tail; try reflexivity; try assumption; [eauto|].
  subst gh'. cbn [deliver_gh gh_start]. lia.
Qed.

(* the drain ended at the tail without a lag: everything published since the stored position *)
Lemma batch_finish (o : ovec A) s gh b :
  Forall msg_wf (log o) -> sub_inv o s gh -> sub_step (log o) s gh -> sb_state s = SRecv ->
  sb_next s < length (log o) ->
  let ds := all_diffs (skipn (sb_next s) (log o)) in
  let s' := {| sb_next := length (log o); sb_batched := b; sb_state := SRecv; sb_waiting := false |} in
  let gh' := deliver_gh gh ds false (values o) in
  apply_all_ok ds (gh_replica gh) = Some (values o) /\ ds <> [] /\
  forallb (fun d => negb (is_reset d)) ds = true /\
  sub_inv_s o s' gh' /\ sub_step (log o) s' gh'.
Proof.
  intros Hwf Hs Hss Est Hlt ds s' gh'. pose proof Hs as Hsu. rewrite sub_inv_unfold in Hsu.
  destruct Hsu as (H1 & H2 & _ & H4 & _ & H6). destruct (H4 Hlt) as (mb & Eb & Ev).
  rewrite Est in H6. cbn [app] in H6.
  assert (Hap : apply_all_ok ds (gh_replica gh) = Some (values o)).
  { pose proof (sub_step_replay _ _ _ Hss H2 (length (log o) - sb_next s - 1) ltac:(lia)) as R.
    rewrite Est in R. cbn [app] in R.
    replace (S (length (log o) - sb_next s - 1)) with (length (skipn (sb_next s) (log o))) in R
      by (rewrite skipn_length; lia).
    rewrite firstn_all in R.
    replace (sb_next s + (length (log o) - sb_next s - 1)) with (length (log o) - 1) in R by lia.
    unfold back in Eb. rewrite Eb in R. cbn [option_map] in R. rewrite Ev in R. exact R. }
  assert (Hne : ds <> []).
  { destruct (nth_error (log o) (sb_next s)) as [m|] eqn:Em; [|apply nth_error_None in Em; lia].
    subst ds. rewrite (skipn_nth_cons _ _ _ Em), all_diffs_cons.
    pose proof (forall_nth_error _ _ _ _ Hwf Em) as (Hn0 & _).
    destruct (m_diffs m); [congruence|discriminate]. }
  assert (Hnr : forallb (fun d => negb (is_reset d)) ds = true)
    by (apply all_diffs_nonreset, Forall_skipn, Hwf).
  assert (Hsi : sub_inv o s' gh').
  { rewrite sub_inv_unfold. subst s' gh'.
    cbn [sb_next sb_state sb_batched deliver_gh gh_replica gh_delivered gh_start gh_lagged].
    rewrite skipn_all. cbn [all_diffs map concat app].
    split; [lia|]. split; [lia|]. split; [reflexivity|]. split; [lia|]. split; [exact I|].
    rewrite orb_false_r, app_nil_r. exact H6. }
  split; [exact Hap|]. split; [exact Hne|]. split; [exact Hnr|]. split; [split; [exact Hsi|exact I]|].
  destruct Hss as [Hc Hl]. split; [exact Hc|].
  apply link_tail; try reflexivity; try assumption; [eauto|].
  subst gh'. cbn [deliver_gh gh_start]. lia.
Qed.

(* ---------------- one racing poll ---------------- *)
Lemma c_gpoll_spec (g : gst A) k inj s :
  step_inv g -> forallb (env_ops k) inj = true -> nth_error (subs (g_o g)) k = Some (Some s) ->
  exists g' r u, c_gpoll g k inj = Ok (g', r, u) /\ step_inv g' /\ u <= length inj /\
    forall gh', nth_error (g_gh g') k = Some gh' -> c_meaning g g' s r u gh'.
Proof.
  intros Hg Hinj Ek.
  assert (Hseq : c_gpoll g k inj = c_gpoll g k [] ->
                 exists g' r u, c_gpoll g k inj = Ok (g', r, u) /\ step_inv g' /\ u <= length inj /\
                   forall gh', nth_error (g_gh g') k = Some gh' -> c_meaning g g' s r u gh').
  { intro E. destruct (c_gpoll_seq_spec g k s Hg Ek) as (g' & r & E' & I & M). exists g', r, 0.
    rewrite E. split; [exact E'|]. split; [exact I|]. split; [lia|exact M]. }
  pose proof Hg as [(Hok & Hlen & Hcap & Hwf & Htx & H5) Hs].
  assert (Hk : k < length (g_gh g)) by (rewrite Hlen; eapply nth_error_some_lt; eassumption).
  destruct (nth_error (g_gh g) k) as [gh|] eqn:Eg; [|apply nth_error_None in Eg; lia].
  pose proof (H5 k s gh Ek Eg) as [Hsi Hy]. pose proof (Hs k s gh Ek Eg) as Hss.
  pose proof Hsi as Hsu. rewrite sub_inv_unfold in Hsu. destruct Hsu as (N1 & N2 & _).
  destruct (sb_state s) as [|rest] eqn:Est.
  2:{ apply Hseq. unfold c_gpoll, c_poll_sub. rewrite Ek, Est. reflexivity. }
  destruct (Nat.eq_dec (sb_next s) (length (log (g_o g)))) as [Heq|Hne].
  { apply Hseq. unfold c_gpoll, c_poll_sub. rewrite Ek, Est, Heq, try_recv_end.
    destruct (negb (alive (g_o g))); reflexivity. }
  destruct (Nat.le_gt_cases (length (log (g_o g)) - sb_next s) (cap2 (g_o g))) as [Hw|Hl].
  - (* a message is there *)
    destruct (try_recv_window (log (g_o g)) (cap2 (g_o g)) (negb (alive (g_o g))) (sb_next s)
                ltac:(lia) Hw) as (m & Em & Etry).
    destruct (sb_batched s) eqn:Eb.
    2:{ apply Hseq. unfold c_gpoll, c_poll_sub. rewrite Ek, Est, Etry, Eb. reflexivity. }
    clear Hseq.
    destruct (c_batch_loop_spec k inj g (sb_next s) (S (sb_next s)) (m_diffs m) 0 Hg Hinj)
      as (g1 & u & r & n' & E & -> & Henv & _ & U & Hr).
    { split; [lia|]. split; [lia|].
      rewrite (firstn_S_nth _ _ _ Em), all_diffs_skipn_snoc by (rewrite firstn_length; lia).
      rewrite skipn_all2 by (rewrite firstn_length; lia). reflexivity. }
    destruct (envr_facts k g g1 s gh Henv Ek Eg) as (Hg1 & Hc1 & Hlen1 & Eg1 & s1 & Ek1 & (S1 & S2 & S3)).
    pose proof Hg1 as [(Hok1 & _ & _ & Hwf1 & _ & H51) Hs1].
    pose proof (H51 k s1 gh Ek1 Eg1) as [Hsi1 _]. pose proof (Hs1 k s1 gh Ek1 Eg1) as Hss1.
    assert (Ecp : c_poll_sub g k inj
                  = Ok ({| g_o := with_subs (g_o g1)
                                    (set_nth k (Some {| sb_next := length (log (g_o g1)); sb_batched := true;
                                                        sb_state := SRecv; sb_waiting := false |})
                                       (subs (g_o g1)));
                           g_gh := g_gh g1; g_app_ok := g_app_ok g1 |}, Ready (Some (IBatch r)), u)).
    { unfold c_poll_sub. rewrite Ek, Est, Etry, Eb, E. reflexivity. }
    rewrite <- S1 in Hr. destruct Hr as [Hr|(mb & Ebk & Hr & Hlag)]; subst r.
    + (* the batch *)
      destruct (batch_finish (g_o g1) s1 gh true Hwf1 Hsi1 Hss1 ltac:(congruence) ltac:(lia))
        as (Hap & Hnb & Hnr & Hsi' & Hss').
      pose proof (is_lag_item_batch_nonreset _ Hnr) as Hli.
      destruct (c_gpoll_finish g k inj g1 s1 gh _ _ u _ Ecp Hg1 Ek1 Eg1 Hap) as (g' & Eg' & Hg' & Ego & Egh).
      { rewrite Hli. exact Hsi'. }
      { rewrite Hli. exact Hss'. }
      exists g', (Ready (Some (IBatch (all_diffs (skipn (sb_next s1) (log (g_o g1))))))), u.
      split; [exact Eg'|]. split; [exact Hg'|]. split; [cbn [length] in U; lia|].
      intros gh' Egh'. rewrite Egh in Egh'. injection Egh' as <-. unfold c_meaning. cbn [item_diffs].
      split; [exact Hnb|]. split; [intro Hex; exfalso; eapply existsb_forallb_contra; eassumption|].
      rewrite Ego. reflexivity.
    + (* lagged in the middle of the drain *)
      destruct (lag_finish (g_o g1) s1 gh mb true Hsi1 Hss1 ltac:(lia) Ebk) as (Ev & Hsi' & Hss').
      rewrite Ev in *.
      destruct (c_gpoll_finish g k inj g1 s1 gh _ _ u (values (g_o g1)) Ecp Hg1 Ek1 Eg1 eq_refl Hsi' Hss')
        as (g' & Eg' & Hg' & Ego & Egh).
      exists g', (Ready (Some (IBatch [Reset (values (g_o g1))]))), u.
      split; [exact Eg'|]. split; [exact Hg'|]. split; [cbn [length] in U; lia|].
      intros gh' Egh'. rewrite Egh in Egh'. injection Egh' as <-. unfold c_meaning. cbn [item_diffs].
      split; [discriminate|]. rewrite Ego. cbn [with_subs values log].
      split; [intros _; split; [reflexivity|lia]|reflexivity].
  - (* lagged at the first receive *)
    clear Hseq.
    pose proof (try_recv_lagged (log (g_o g)) (cap2 (g_o g)) (negb (alive (g_o g))) (sb_next s) Hl) as Etry.
    destruct (c_handle_lag_spec k inj g (length (log (g_o g)) - cap2 (g_o g)) None 0 Hg Hinj)
      as (g1 & u & mb & n' & E & -> & Henv & Ebk & _ & U).
    { split; [lia|]. split; [lia|]. intro; lia. }
    destruct (envr_facts k g g1 s gh Henv Ek Eg) as (Hg1 & Hc1 & Hlen1 & Eg1 & s1 & Ek1 & (S1 & S2 & S3)).
    pose proof Hg1 as [(Hok1 & _ & _ & Hwf1 & _ & H51) Hs1].
    pose proof (H51 k s1 gh Ek1 Eg1) as [Hsi1 _]. pose proof (Hs1 k s1 gh Ek1 Eg1) as Hss1.
    destruct (lag_finish (g_o g1) s1 gh mb (sb_batched s) Hsi1 Hss1 ltac:(lia) Ebk) as (Ev & Hsi' & Hss').
    set (it := if sb_batched s then IBatch [Reset (values (g_o g1))] else IDiff (Reset (values (g_o g1)))).
    assert (Ecp : c_poll_sub g k inj
                  = Ok ({| g_o := with_subs (g_o g1)
                                    (set_nth k (Some {| sb_next := length (log (g_o g1)); sb_batched := sb_batched s;
                                                        sb_state := SRecv; sb_waiting := false |})
                                       (subs (g_o g1)));
                           g_gh := g_gh g1; g_app_ok := g_app_ok g1 |}, Ready (Some it), u)).
    { unfold c_poll_sub. rewrite Ek, Est, Etry, E, Ev. reflexivity. }
    assert (Hid : item_diffs it = [Reset (values (g_o g1))]) by (subst it; destruct (sb_batched s); reflexivity).
    assert (Hli : is_lag_item it = true) by (subst it; destruct (sb_batched s); reflexivity).
    destruct (c_gpoll_finish g k inj g1 s1 gh _ it u (values (g_o g1)) Ecp Hg1 Ek1 Eg1) as (g' & Eg' & Hg' & Ego & Egh).
    { rewrite Hid. reflexivity. }
    { rewrite Hid, Hli. exact Hsi'. }
    { rewrite Hid, Hli. exact Hss'. }
    exists g', (Ready (Some it)), u.
    split; [exact Eg'|]. split; [exact Hg'|]. split; [cbn [length] in U; lia|].
    intros gh' Egh'. rewrite Egh in Egh'. injection Egh' as <-. unfold c_meaning. rewrite Hid.
    split; [discriminate|]. rewrite Ego. cbn [with_subs values log].
    split; [intros _; split; [reflexivity|lia]|]. subst it. destruct (sb_batched s); [reflexivity|exact I].
Qed.

Theorem c_gpoll_step_inv (g : gst A) k inj g' r u :
  step_inv g -> forallb (env_ops k) inj = true ->
  c_gpoll g k inj = Ok (g', r, u) -> step_inv g'.
Proof.
  intros Hg Hinj H.
  destruct (nth_error (subs (g_o g)) k) as [[s|]|] eqn:Ek.
  - destruct (c_gpoll_spec g k inj s Hg Hinj Ek) as (g1 & r1 & u1 & E & I & _).
    rewrite E in H. injection H as <- _ _. exact I.
  - unfold c_gpoll, c_poll_sub in H. rewrite Ek in H. discriminate.
  - unfold c_gpoll, c_poll_sub in H. rewrite Ek in H. discriminate.
Qed.

(* the two unreachable!()s, the expect() and the fuel, against a moving sender *)
Theorem c_gpoll_never_panics (g : gst A) k s inj :
  step_inv g -> forallb (env_ops k) inj = true ->
  nth_error (subs (g_o g)) k = Some (Some s) -> c_gpoll g k inj <> Panic.
Proof.
  intros Hg Hinj Ek. destruct (c_gpoll_spec g k inj s Hg Hinj Ek) as (g1 & r1 & u1 & E & _).
  rewrite E. discriminate.
Qed.

Theorem c_run_step_inv (g : gst A) cs : step_inv g -> step_inv (c_run g cs).
Proof.
  unfold c_run. revert g. induction cs as [|c cs IH]; intros g Hg; cbn [fold_left]; [exact Hg|].
  apply IH. destruct c as [x|k inj]; cbn [c_step].
  - apply step_inv_run. exact Hg.
  - destruct (forallb (env_ops k) inj) eqn:Hinj; [|exact Hg].
    destruct (c_gpoll g k inj) as [[[g' r] u]|] eqn:E; [|exact Hg].
    eapply c_gpoll_step_inv; eassumption.
Qed.

Corollary c_reachable capacity (cs : list (cop A)) : step_inv (c_run (ginit capacity) cs).
Proof. apply c_run_step_inv, step_inv_init. Qed.

(* what the answer of a racing poll means; g' is the state when the poll returns (after the last
   injection it consumed) *)
Theorem c_poll_meaning (g : gst A) k inj g' r u s gh' :
  step_inv g -> forallb (env_ops k) inj = true ->
  nth_error (subs (g_o g)) k = Some (Some s) ->
  c_gpoll g k inj = Ok (g', r, u) -> nth_error (g_gh g') k = Some gh' ->
  u <= length inj /\
  match r with
  | Pending => u = 0 /\ alive (g_o g') = true /\ gh_replica gh' = values (g_o g')
  | Ready None => alive (g_o g') = false /\ gh_replica gh' = values (g_o g')
  | Ready (Some it) =>
      item_diffs it <> [] /\
      (existsb is_reset (item_diffs it) = true ->
         item_diffs it = [Reset (values (g_o g'))] /\
         cap2 (g_o g) < length (log (g_o g')) - sb_next s) /\
      (match it with IBatch _ => gh_replica gh' = values (g_o g') | IDiff _ => True end)
  end.
Proof.
  intros Hg Hinj Ek H Egh'.
  destruct (c_gpoll_spec g k inj s Hg Hinj Ek) as (g1 & r1 & u1 & E & _ & U & M).
  rewrite E in H. injection H as <- <- <-. split; [exact U|]. exact (M gh' Egh').
Qed.

(* in every history with racing polls: no delivered diff was ever inapplicable to its replica, and a
   subscriber that never lagged has been handed, together with what is still pending for it,
   exactly what was published since it subscribed *)
Corollary c_all_applicable capacity (cs : list (cop A)) :
  g_app_ok (c_run (ginit capacity) cs) = true.
Proof. destruct (c_reachable capacity cs) as [[Hok _] _]. exact Hok. Qed.

Corollary c_never_lagged_gets_everything capacity (cs : list (cop A)) k s gh :
  let g := c_run (ginit capacity) cs in
  nth_error (subs (g_o g)) k = Some (Some s) -> nth_error (g_gh g) k = Some gh ->
  gh_lagged gh = false ->
  gh_delivered gh ++ sub_pending (g_o g) s
  = concat (map (@m_diffs A) (skipn (gh_start gh) (log (g_o g)))).
Proof.
  intros g Ek Eg Hnl. destruct (c_reachable capacity cs) as [(_ & _ & _ & _ & _ & H5) _]. fold g in H5.
  destruct (H5 k s gh Ek Eg) as [(_ & _ & _ & _ & _ & H6) _]. apply H6. exact Hnl.
Qed.

End DrainFacts.

(* non-vacuity: capacity 1, a batched subscriber one message behind; two more messages are published
   between its first receive and the second: the second try_recv reports Lagged in the middle of
   the drain, handle_lag then sees a fourth message appear, and the poll hands out one Reset with
   the contents as of its return *)
Example drain_race_example :
  let g0 := grun (@ginit nat 1) [OSub true; OMut (MPushBack 1)] in
  match c_gpoll g0 0 [[OMut (MPushBack 2); OMut (MPushBack 3)]; [OMut (MPushBack 4)]; []] with
  | Ok (g, r, u) => r = Ready (Some (IBatch [Reset [1; 2; 3; 4]])) /\ u = 3 /\ values (g_o g) = [1; 2; 3; 4]
  | Panic => False
  end.
Proof. vm_compute. repeat split. Qed.

Print Assumptions c_gpoll_quiet.
Print Assumptions c_gpoll_step_inv.
Print Assumptions c_gpoll_never_panics.
Print Assumptions c_run_step_inv.
Print Assumptions c_reachable.
Print Assumptions c_poll_meaning.
Print Assumptions c_all_applicable.
Print Assumptions c_never_lagged_gets_everything.
