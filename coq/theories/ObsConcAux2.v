(* ObsConcAux2.v — the general invariant of reachable micro-states (both Drop variants). *)
From EB Require Import Obs ObsConc ObsConcAux.

Section GInv.
Context {V : Type}.
Implicit Types (s : cstate V).

Definition is_drop (op : cop V) : bool := match op with CDrop => true | _ => false end.
Definition is_upg (op : cop V) : bool := match op with CUpgrade => true | _ => false end.
(* the dropper has not yet decremented the clone counter *)
Definition pre_dec (fixed : bool) (p : pc V) : bool :=
  match p with PStart => true | PDropDecided _ | PCloseMetaLocked => negb fixed | _ => false end.
Definition closing_pc (p : pc V) : bool :=
  match p with PDropDecided true | PCloseMetaLocked => true | _ => false end.
Definition is_succ (p : pc V) : bool :=
  match p with PDone None None (Some true) => true | _ => false end.

Definition g_drop fixed (c : cop V * pc V) := is_drop (fst c) && pre_dec fixed (snd c).
Definition g_closing (c : cop V * pc V) := is_drop (fst c) && closing_pc (snd c).
Definition g_up (c : cop V * pc V) := is_upg (fst c) && is_succ (snd c).

Definition reg s (k : nat) : Prop := In k (c_wakers s) \/ In k (c_woken s).

Definition pend_ok s (c : cop V * pc V) : Prop :=
  forall k, fst c = CPoll k ->
            (snd c = PPollDecided Pending \/ snd c = PDone (Some Pending) None None) -> reg s k.

Definition sub_ok s (c : cop V * pc V) : Prop :=
  match fst c with CPoll k => k < length (c_subs s) | _ => True end.

Record GInv fixed s : Prop := {
  gK : cnt (g_drop fixed) s + (if hasw s then 1 else 0) + cnt g_up s <= c_clones s;
  gB : 1 <= cnt g_closing s -> hasw s = false;
  gC : c_ver s = 0 -> hasw s = false;
  gD : c_ver s <> 0 -> Forall (fun ov => ov <= c_ver s) (c_subs s);
  gE : forall k, In k (c_wakers s) -> c_ver s <> 0 /\ nth_error (c_subs s) k = Some (c_ver s);
  gF : Forall (sub_ok s) (cores s);
  gP : Forall (pend_ok s) (cores s) }.

Ltac counts fx :=
  match goal with
  | Hc : nth_error (cores ?s) ?t = Some _, Hc' : cores _ = set_nth ?t _ (cores ?s) |- _ =>
      let C1 := fresh "Cd" in let C2 := fresh "Cu" in let C3 := fresh "Cc" in
      pose proof (cnt_upd (g_drop fx) _ _ _ _ _ Hc Hc') as C1;
      pose proof (cnt_upd g_up _ _ _ _ _ Hc Hc') as C2;
      pose proof (cnt_upd g_closing _ _ _ _ _ Hc Hc') as C3;
      let G1 := fresh "Gd" in let G2 := fresh "Gu" in let G3 := fresh "Gc" in
      pose proof (cnt_ge (g_drop fx) _ _ _ Hc) as G1;
      pose proof (cnt_ge g_up _ _ _ Hc) as G2;
      pose proof (cnt_ge g_closing _ _ _ Hc) as G3;
      cbn in C1, C2, C3, G1, G2, G3
  end;
  try match goal with
      | H : context [c_clones ?s =? 1] |- _ => destruct (c_clones s =? 1) eqn:?; norm_conds
      end.

Lemma gK_step fixed s t s' : GInv fixed s -> cstep fixed s t = Advanced s' ->
  cnt (g_drop fixed) s' + (if hasw s' then 1 else 0) + cnt g_up s' <= c_clones s'.
Proof.
  intros [K B C D E F P] H.
  destruct fixed; [cstep_inv2 H; counts true | cstep_inv2 H; counts false];
    rewrite Hw; simpl; norm_conds; lia.
Qed.

Lemma gB_step fixed s t s' : GInv fixed s -> cstep fixed s t = Advanced s' ->
  1 <= cnt g_closing s' -> hasw s' = false.
Proof.
  intros [K B C D E F P] H.
  destruct fixed; [cstep_inv2 H; counts true | cstep_inv2 H; counts false];
    rewrite Hw; simpl; norm_conds; intros Hn;
    first [ apply B; lia | destruct (hasw s); auto; exfalso; simpl in *; lia ].
Qed.

Lemma gC_step fixed s t s' : GInv fixed s -> cstep fixed s t = Advanced s' ->
  c_ver s' = 0 -> hasw s' = false.
Proof.
  intros [K B C D E F P] H.
  destruct fixed; [cstep_inv2 H; counts true | cstep_inv2 H; counts false];
    rewrite Hw; simpl; norm_conds; intros Hn;
    first [ apply C; assumption | discriminate Hn | apply B; lia ].
Qed.

Lemma gD_step fixed s t s' : GInv fixed s -> cstep fixed s t = Advanced s' ->
  c_ver s' <> 0 -> Forall (fun ov => ov <= c_ver s') (c_subs s').
Proof.
  intros [K B C D E F P] H.
  cstep_inv2 H; simpl; norm_conds; intros Hn; try (apply D; assumption); try congruence.
  - apply Forall_set_nth; auto.
  - assert (c_ver s <> 0).
    { intros Z. apply C in Z. rewrite (hasw_nth _ _ _ Hth eq_refl) in Z. discriminate. }
    eapply Forall_impl; [|apply D; auto]. simpl; intros; lia.
Qed.

Lemma gE_step fixed s t s' : GInv fixed s -> cstep fixed s t = Advanced s' ->
  forall k, In k (c_wakers s') -> c_ver s' <> 0 /\ nth_error (c_subs s') k = Some (c_ver s').
Proof.
  intros [K B C D E F P] H.
  cstep_inv2 H; simpl; norm_conds; intros k0 Hin; try (apply E; assumption); try contradiction.
  - destruct (E _ Hin) as [E1 E2]. split; auto.
    destruct (Nat.eq_dec k0 k) as [->|Hne].
    + eapply nth_error_set_nth_eq; eauto.
    + rewrite nth_error_set_nth_neq; auto.
  - apply in_app_or in Hin. destruct Hin as [Hin|[<-|[]]]; [apply E; auto|].
    split; auto.
    pose proof (Forall_nth_error _ _ _ _ F Hc) as Hk. unfold sub_ok in Hk; simpl in Hk.
    rewrite (nth_error_nth' _ 0 Hk). f_equal.
    pose proof (Forall_nth_error _ _ _ _ (D Heqb) (nth_error_nth' _ 0 Hk)). simpl in *. lia.
Qed.

Lemma gF_step fixed s t s' : GInv fixed s -> cstep fixed s t = Advanced s' ->
  Forall (sub_ok s') (cores s').
Proof.
  intros [K B C D E F P] H.
  cstep_inv2 H; rewrite Hc'; pose proof (Forall_nth_error _ _ _ _ F Hc) as Q;
    (apply Forall_set_nth;
     [ eapply Forall_impl; [|exact F]; intros c; unfold sub_ok; simpl; rewrite ?set_nth_length; auto
     | unfold sub_ok in *; simpl in *; rewrite ?set_nth_length; auto ]).
Qed.

Lemma reg_step fixed s t s' k : cstep fixed s t = Advanced s' -> reg s k -> reg s' k.
Proof.
  intros H. cstep_inv H; unfold reg; simpl; intros [|]; rewrite ?in_app_iff; auto; contradiction.
Qed.

Lemma gP_step fixed s t s' : GInv fixed s -> cstep fixed s t = Advanced s' ->
  Forall (pend_ok s') (cores s').
Proof.
  intros [K B C D E F P] H.
  assert (M : forall k, reg s k -> reg s' k) by (intros; eapply reg_step; eauto).
  cstep_inv2 H; rewrite Hc'; pose proof (Forall_nth_error _ _ _ _ P Hc) as Q;
    (apply Forall_set_nth;
     [ eapply Forall_impl; [|exact P]; intros c Hc0 k0 Hk Hp; apply M; eapply Hc0; eauto
     | intros k0 Hk Hp; simpl in Hk, Hp; try discriminate Hk; injection Hk as <-;
       destruct Hp as [Hp|Hp]; try discriminate Hp ]).
  - unfold reg; simpl. left. apply in_or_app. right. left. reflexivity.
  - injection Hp as ->. apply M. apply (Q k eq_refl). left. reflexivity.
Qed.

Lemma GInv_step fixed s t s' : GInv fixed s -> cstep fixed s t = Advanced s' -> GInv fixed s'.
Proof.
  intros G H. split.
  - eapply gK_step; eauto.
  - eapply gB_step; eauto.
  - eapply gC_step; eauto.
  - eapply gD_step; eauto.
  - eapply gE_step; eauto.
  - eapply gF_step; eauto.
  - eapply gP_step; eauto.
Qed.

Lemma GInv_mark fixed s t w : GInv fixed s -> GInv fixed (mark_waiting s t w).
Proof.
  intros [K B C D E F P].
  split; rewrite ?cnt_mark_waiting, ?hasw_mark_waiting, ?cores_mark_waiting;
    unfold sub_ok, pend_ok, reg in *; mark_rw s t w; auto.
Qed.

Lemma hasw_cinit (v : V) ver clones subs pending ops :
  hasw (cinit v ver clones subs pending ops) = existsb isw ops.
Proof. unfold hasw, cinit; simpl. rewrite map_map. simpl. now rewrite map_id. Qed.

Lemma cnt_cinit g (v : V) ver clones subs pending ops :
  cnt g (cinit v ver clones subs pending ops) = countf (fun op => g (op, PStart)) ops.
Proof. unfold cnt. now rewrite cores_cinit, countf_map. Qed.

Lemma GInv_init fixed (v : V) ver clones subs pending ops :
  1 <= ver ->
  Forall (fun ov => ov <= ver) subs ->
  Forall (fun k => nth_error subs k = Some ver) pending ->
  Forall (fun op => match op with CPoll k => k < length subs | _ => True end) ops ->
  length (filter is_drop ops) + (if existsb isw ops then 1 else 0) <= clones ->
  GInv fixed (cinit v ver clones subs pending ops).
Proof.
  intros Hv Hs Hp Ho Hc.
  split; rewrite ?cnt_cinit, ?hasw_cinit, ?cores_cinit; simpl.
  - rewrite (countf_ext _ is_drop) by (intros []; reflexivity).
    rewrite (countf_zero (fun op => g_up (op, PStart))) by (intros []; reflexivity).
    unfold countf. lia.
  - rewrite countf_zero by (intros []; reflexivity). lia.
  - lia.
  - auto.
  - intros k Hk. split; [lia|]. rewrite Forall_forall in Hp. auto.
  - rewrite Forall_map. exact Ho.
  - rewrite Forall_map. apply Forall_forall. intros op _ k _ [Hx|Hx]; discriminate Hx.
Qed.

Theorem GInv_reach fixed (v : V) ver clones subs pending ops sched :
  1 <= ver ->
  Forall (fun ov => ov <= ver) subs ->
  Forall (fun k => nth_error subs k = Some ver) pending ->
  Forall (fun op => match op with CPoll k => k < length subs | _ => True end) ops ->
  length (filter is_drop ops) + (if existsb isw ops then 1 else 0) <= clones ->
  GInv fixed (run_sched fixed (cinit v ver clones subs pending ops) sched).
Proof.
  intros. apply run_sched_inv.
  - intros; eapply GInv_step; eauto.
  - intros; now apply GInv_mark.
  - now apply GInv_init.
Qed.

(* whoever was registered stays registered or is woken *)
Definition RegInv (l : list nat) s : Prop := forall k, In k l -> reg s k.

Theorem RegInv_reach fixed (v : V) ver clones subs pending ops sched :
  RegInv pending (run_sched fixed (cinit v ver clones subs pending ops) sched).
Proof.
  apply run_sched_inv.
  - intros s t s' R H k Hk. eapply reg_step; eauto.
  - intros s t w R k Hk. specialize (R k Hk). unfold reg in *. mark_rw s t w. auto.
  - intros k Hk. left. exact Hk.
Qed.

End GInv.
