(* AsyncGuard.v — the async-lock flavour with guards held across calls (C16, second half).
   Every call of the async API is a future: it first acquires the tokio RwLock (a permit semaphore:
   read = 1 permit, write = all), then performs the operation-granularity step of Obs.v, then
   releases (unless it hands out a guard).  A future that cannot acquire is queued in the semaphore
   (FIFO) and woken when its permits have been assigned; a subscriber's next()/next_ref() whose
   poll_update answers Pending is registered in the observable's waker list and woken by the next
   notifying update.  The executor of the harness polls a future when it is created and whenever
   its waker has fired; the model does the same.
   subscriber/async_lock.rs:41-126, shared.rs:224-334, tokio-1.53.1 sync/{rwlock,batch_semaphore}.rs *)
From EB Require Export Obs ObsSpec AsyncLock.

Section AsyncGuard.
Context {V : Type}.
Variable veq : V -> V -> bool.
Variable heq : V -> V -> bool.
Variable vdefault : V.
(* [fixed_next_ref]: true = next_ref re-reads the version under its second lock (the code as it
   is); the parameter exists so that the model can also express the seeded variant *)

Definition maxp : nat := 64.     (* stands for tokio's MAX_READS; only "more than any number of readers" matters *)

(* the calls of the async API that are exercised *)
Inductive acall :=
| ASet (v : V)                 (* SharedObservable::set(v).await *)
| AUpd (x : op V)              (* the other async writers: set_if_not_eq / set_if_hash_not_eq / take /
                                  update / update_if (.await): write lock, then the state method *)
| AGet                         (* get().await *)
| ASubscribe                   (* subscribe().await: read lock, a new subscriber that has seen the current version *)
| AWrite                       (* write().await: the guard is kept until ADropGuard *)
| ARead                        (* read().await: the guard is kept until ADropGuard *)
| ANextNow (k : nat)           (* subscriber k: next_now().await *)
| ANext (k : nat)              (* subscriber k: next().await = next_ref().await.map(clone), async_lock.rs:51-56 *)
| ANextRef (k : nat)           (* subscriber k: next_ref().await, value copied, guard dropped at once *)
| AStreamNext (k : nat)        (* subscriber k polled as a Stream until it yields (poll_next_nopin: one acquisition) *)
| ASkip.                       (* a slot for a call that was not possible (keeps future ids = positions) *)

Inductive phase :=
| PhQueued                     (* its acquire sits in the semaphore queue *)
| PhGranted                    (* woken by the semaphore: permits assigned, not polled yet *)
| PhNotify                     (* next/next_ref: registered in the waker list, holds nothing *)
| PhNotified                   (* woken by a notifying update / close, not polled yet *)
| Ph2Queued | Ph2Granted       (* next_ref: the second acquisition (next_ref_now) *)
| PhDone.

Record fut := { f_call : acall; f_phase : phase }.

Inductive guard := GNone | GWrite | GRead.

Record astate := {
  a_obs : obs V;
  a_sem : sem;
  a_futs : list fut;            (* indexed by future id *)
  a_guards : list guard;        (* guard slot per future id (AWrite / ARead results) *)
}.

Definition need_of (c : acall) : nat := match c with ASet _ | AUpd _ | AWrite => maxp | _ => 1 end.

Definition is_writer (x : op V) : bool :=
  match x with
  | WSet _ | WSetIfNotEq _ | WSetIfHashNotEq _ | WTake | WUpdate _ | WUpdateIf _ _ => true
  | _ => false
  end.

Definition upd_fut (s : astate) (id : nat) (ph : phase) : astate :=
  match nth_error (a_futs s) id with
  | Some f => {| a_obs := a_obs s; a_sem := a_sem s;
                 a_futs := set_nth id {| f_call := f_call f; f_phase := ph |} (a_futs s);
                 a_guards := a_guards s |}
  | None => s
  end.

(* semaphore grants mark the granted futures as woken *)
Fixpoint mark_granted (s : astate) (ids : list nat) : astate :=
  match ids with
  | [] => s
  | id :: rest =>
      let ph := match nth_error (a_futs s) id with
                | Some f => match f_phase f with Ph2Queued => Ph2Granted | _ => PhGranted end
                | None => PhGranted
                end in
      mark_granted (upd_fut s id ph) rest
  end.

(* the observable's wakers (future ids) fired: those futures are notified *)
Fixpoint mark_notified (s : astate) (ids : list nat) : astate :=
  match ids with
  | [] => s
  | id :: rest => mark_notified (upd_fut s id PhNotified) rest
  end.

Definition release_permits (s : astate) (n : nat) : astate * list nat :=
  let '(sm, woken) := sem_release (a_sem s) n in
  (mark_granted {| a_obs := a_obs s; a_sem := sm; a_futs := a_futs s; a_guards := a_guards s |} woken, woken).

(* what a completed future hands back *)
Definition result := option (out V).

(* the body of a call once it holds its permits.  Returns the state, the result (None = still
   pending), and the future ids woken (semaphore grants and notifications). *)
Definition run_body (fixed_next_ref : bool) (s : astate) (id : nat) (c : acall) (second : bool)
  : astate * result * list nat :=
  let o := a_obs s in
  let with_obs o' := {| a_obs := o'; a_sem := a_sem s; a_futs := a_futs s; a_guards := a_guards s |} in
  let finish (s1 : astate) (r : out V) (notified : list nat) (rel : nat) :=
    let s2 := mark_notified (upd_fut s1 id PhDone) notified in
    let '(s3, granted) := release_permits s2 rel in
    (s3, Some r, notified ++ granted) in
  match c with
  | ASet v =>
      match step veq heq vdefault o (WSet v) with
      | Ok (o', r, w) => finish (with_obs o') r w maxp
      | Panic => (s, None, [])
      end
  | AUpd x =>
      match step veq heq vdefault o x with
      | Ok (o', r, w) => finish (with_obs o') r w maxp
      | Panic => (s, None, [])
      end
  | ASubscribe =>
      match step veq heq vdefault o WSubscribe with
      | Ok (o', r, w) => finish (with_obs o') r w 1
      | Panic => (s, None, [])
      end
  | AGet =>
      match step veq heq vdefault o WGet with
      | Ok (o', r, w) => finish (with_obs o') r w 1
      | Panic => (s, None, [])
      end
  | AWrite =>
      (upd_fut {| a_obs := o; a_sem := a_sem s; a_futs := a_futs s;
                  a_guards := set_nth id GWrite (a_guards s) |} id PhDone, Some OUnit, [])
  | ARead =>
      (upd_fut {| a_obs := o; a_sem := a_sem s; a_futs := a_futs s;
                  a_guards := set_nth id GRead (a_guards s) |} id PhDone, Some (OVal (val o)), [])
  | ANextNow k =>
      match step veq heq vdefault o (SNextNow k) with
      | Ok (o', r, w) => finish (with_obs o') r w 1
      | Panic => (s, None, [])
      end
  | AStreamNext k =>
      (* poll_update with the waker of this future; the read guard is dropped at the end of the poll *)
      match nth_error (subs o) k with
      | Some (Some ov) =>
          if ver o =? 0 then finish s (OOpt None) [] 1
          else if ov <? ver o then
            finish (with_obs (Obs.with_subs o (Obs.set_nth k (Some (ver o)) (subs o)))) (OOpt (Some (val o))) [] 1
          else
            let o' := upd o (val o) (ver o) (wakers o ++ [id]) in
            let '(s3, granted) := release_permits (upd_fut (with_obs o') id PhNotify) 1 in
            (s3, None, granted)
      | _ => (s, None, [])
      end
  | ASkip => (upd_fut s id PhDone, Some OUnit, [])
  | ANext k | ANextRef k =>
      match nth_error (subs o) k with
      | Some (Some ov) =>
          if second then
            (* next_ref_now: observed := version (re-read under this lock), hand out the value *)
            let o' := if fixed_next_ref then Obs.with_subs o (Obs.set_nth k (Some (ver o)) (subs o)) else o in
            finish (with_obs o') (OOpt (Some (val o))) [] 1
          else if ver o =? 0 then finish s (OOpt None) [] 1
          else if ov <? ver o then
            (* poll_update answered Ready(Some): release, then acquire again for next_ref_now *)
            let o' := Obs.with_subs o (Obs.set_nth k (Some (ver o)) (subs o)) in
            let '(s3, granted) := release_permits (with_obs o') 1 in
            (* second acquisition *)
            let '(sm, ok) := sem_acquire (a_sem s3) id 1 in
            let s4 := {| a_obs := a_obs s3; a_sem := sm; a_futs := a_futs s3; a_guards := a_guards s3 |} in
            if ok then
              (* granted at once: run the second half now (same poll) *)
              let o4 := a_obs s4 in
              let o5 := if fixed_next_ref then Obs.with_subs o4 (Obs.set_nth k (Some (ver o4)) (subs o4)) else o4 in
              let s5 := upd_fut {| a_obs := o5; a_sem := a_sem s4; a_futs := a_futs s4; a_guards := a_guards s4 |} id PhDone in
              let '(s6, granted2) := release_permits s5 1 in
              (s6, Some (OOpt (Some (val o4))), granted ++ granted2)
            else (upd_fut s4 id Ph2Queued, None, granted)
          else
            let o' := upd o (val o) (ver o) (wakers o ++ [id]) in
            let '(s3, granted) := release_permits (upd_fut (with_obs o') id PhNotify) 1 in
            (s3, None, granted)
      | _ => (s, None, [])
      end
  end.

(* first poll of a new future *)
Definition a_start (fixed_next_ref : bool) (s : astate) (c : acall) : astate * nat * result * list nat :=
  let id := length (a_futs s) in
  let s0 := {| a_obs := a_obs s; a_sem := a_sem s;
               a_futs := a_futs s ++ [{| f_call := c; f_phase := PhQueued |}];
               a_guards := a_guards s ++ [GNone] |} in
  let '(sm, ok) := sem_acquire (a_sem s0) id (need_of c) in
  let s1 := {| a_obs := a_obs s0; a_sem := sm; a_futs := a_futs s0; a_guards := a_guards s0 |} in
  if ok then let '(s2, r, w) := run_body fixed_next_ref s1 id c false in (s2, id, r, w)
  else (s1, id, None, []).

(* poll a future whose waker has fired *)
Definition a_poll (fixed_next_ref : bool) (s : astate) (id : nat) : astate * result * list nat :=
  match nth_error (a_futs s) id with
  | None => (s, None, [])
  | Some f =>
      match f_phase f with
      | PhGranted => run_body fixed_next_ref s id (f_call f) false
      | Ph2Granted => run_body fixed_next_ref s id (f_call f) true
      | PhNotified =>
          (* woken by an update: acquire again *)
          let '(sm, ok) := sem_acquire (a_sem s) id (need_of (f_call f)) in
          let s1 := {| a_obs := a_obs s; a_sem := sm; a_futs := a_futs s; a_guards := a_guards s |} in
          if ok then run_body fixed_next_ref s1 id (f_call f) false
          else (upd_fut s1 id PhQueued, None, [])
      | _ => (s, None, [])           (* spurious poll: nothing happens *)
      end
  end.

(* drop the guard produced by future [id] *)
Definition a_drop_guard (s : astate) (id : nat) : astate * list nat :=
  match nth_error (a_guards s) id with
  | Some GWrite =>
      release_permits {| a_obs := a_obs s; a_sem := a_sem s; a_futs := a_futs s;
                         a_guards := set_nth id GNone (a_guards s) |} maxp
  | Some GRead =>
      release_permits {| a_obs := a_obs s; a_sem := a_sem s; a_futs := a_futs s;
                         a_guards := set_nth id GNone (a_guards s) |} 1
  | _ => (s, [])
  end.

(* a set performed *through* a held write guard: no acquisition *)
Definition a_guard_set (s : astate) (id : nat) (v : V) : astate * result * list nat :=
  match nth_error (a_guards s) id with
  | Some GWrite =>
      match step veq heq vdefault (a_obs s) (WSet v) with
      | Ok (o', r, w) =>
          (mark_notified {| a_obs := o'; a_sem := a_sem s; a_futs := a_futs s; a_guards := a_guards s |} w, Some r, w)
      | Panic => (s, None, [])
      end
  | _ => (s, None, [])
  end.

(* the subscriber a call uses (it is borrowed mutably until the call's future completes) *)
Definition call_sub (c : acall) : option nat :=
  match c with ANextNow k | ANext k | ANextRef k | AStreamNext k => Some k | _ => None end.

Definition sub_busy (s : astate) (k : nat) : bool :=
  existsb (fun f => match call_sub (f_call f), f_phase f with
                    | Some _, PhDone => false
                    | Some k', _ => k' =? k
                    | None, _ => false
                    end) (a_futs s).

(* a call is possible when its subscriber exists and is not borrowed by an unfinished future *)
Definition call_possible (s : astate) (c : acall) : bool :=
  match call_sub c with
  | Some k => match nth_error (subs (a_obs s)) k with
              | Some (Some _) => negb (sub_busy s k)
              | _ => false
              end
  | None => match c with ASkip => false | AUpd x => is_writer x | _ => true end
  end.

(* an impossible call occupies its slot and does nothing *)
Definition a_pad (s : astate) : astate :=
  {| a_obs := a_obs s; a_sem := a_sem s;
     a_futs := a_futs s ++ [{| f_call := ASkip; f_phase := PhDone |}];
     a_guards := a_guards s ++ [GNone] |}.

(* ---------------- events, reachability, and the abstraction to the specification ---------------- *)
Inductive aev :=
| EStart (c : acall)            (* a new call: its future is created and polled once *)
| EPoll (id : nat)              (* the executor polls future [id] (a poll of a future that was not woken is a no-op) *)
| EDropGuard (id : nat)         (* the guard handed out by future [id] is dropped *)
| EGuardSet (id : nat) (v : V). (* ObservableWriteGuard::set through the guard handed out by future [id] *)

(* one event: new state, the call that completed with its result (if any), the futures woken *)
Definition a_step (fixed_next_ref : bool) (s : astate) (e : aev) : astate * option (acall * out V) * list nat :=
  match e with
  | EStart c =>
      if call_possible s c then
        let '(s', _, r, w) := a_start fixed_next_ref s c in (s', option_map (pair c) r, w)
      else (a_pad s, None, [])
  | EPoll id =>
      match nth_error (a_futs s) id with
      | Some f => let '(s', r, w) := a_poll fixed_next_ref s id in (s', option_map (pair (f_call f)) r, w)
      | None => (s, None, [])
      end
  | EDropGuard id => let '(s', w) := a_drop_guard s id in (s', None, w)
  | EGuardSet id v => let '(s', r, w) := a_guard_set s id v in (s', option_map (pair (ASet v)) r, w)
  end.

Fixpoint a_run (fixed_next_ref : bool) (s : astate) (es : list aev) : astate :=
  match es with
  | [] => s
  | e :: rest => a_run fixed_next_ref (fst (fst (a_step fixed_next_ref s e))) rest
  end.

(* the call of the default flavour a completed async call stands for *)
Definition sync_op (c : acall) : option (op V) :=
  match c with
  | ASet v => Some (WSet v)
  | AUpd x => Some x
  | ASubscribe => Some WSubscribe
  | AGet | ARead => Some WGet
  | ANextNow k => Some (SNextNow k)
  | ANext k | ANextRef k | AStreamNext k => Some (SPoll k)
  | AWrite | ASkip => None
  end.

(* ... and its result in the default flavour's terms (next().await = Some v  <->  poll_next = Ready(Some v)) *)
Definition conv (c : acall) (r : out V) : out V :=
  match c, r with
  | (ANext _ | ANextRef _ | AStreamNext _), OOpt o => OPollR (Ready o)
  | _, r => r
  end.

(* subscriber k has a next()/next_ref() in flight that has already seen "there is an update" under its
   first lock and is waiting for the second one *)
Definition in_phase2 (s : astate) (k : nat) : bool :=
  existsb (fun f => match f_call f, f_phase f with
                    | (ANext k' | ANextRef k'), (Ph2Queued | Ph2Granted) => k' =? k
                    | _, _ => false
                    end) (a_futs s).

(* abstraction to ObsSpec.sspec: unseen_k <=> observed_k < version, or the update was already noticed by a
   call of k that has not completed yet *)
Definition abs (s : astate) : sspec V :=
  let o := a_obs s in
  {| s_cur := val o; s_kind := okind o; s_owners := owners o; s_weaks := weaks o;
     s_unseen := map (fun p => option_map (fun ov => in_phase2 s (fst p) || (ov <? ver o)) (snd p))
                     (combine (seq 0 (length (subs o))) (subs o)) |}.

Definition runnable_phase (ph : phase) : bool :=
  match ph with PhGranted | Ph2Granted | PhNotified => true | _ => false end.

(* nothing to do for the executor and no guard in the caller's hands *)
Definition quiescent (s : astate) : bool :=
  forallb (fun f => negb (runnable_phase (f_phase f))) (a_futs s) &&
  forallb (fun g => match g with GNone => true | _ => false end) (a_guards s).

Definition a_init (v : V) (nsubs : nat) : astate :=
  {| a_obs := {| val := v; ver := 1; wakers := []; okind := Shared; owners := 1; weaks := 0;
                 subs := repeat (Some 1) nsubs |};
     a_sem := sem_new maxp; a_futs := []; a_guards := [] |}.

End AsyncGuard.
Arguments astate : clear implicits.
Arguments acall : clear implicits.
